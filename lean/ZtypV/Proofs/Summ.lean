/-
C12, tree layer: the "summary of" relation between backing trees and what navigation and the
setters do to a partial (summarised) tree.

`Summ h n n'`: `n'` is `n` with any number of subtrees replaced by the leaf holding their
Merkle root (what `tree.SummarizeInto` produces; summaries of summaries included).

* the root is unchanged, the relation is a preorder, `summarizeInto` produces it;
* navigation (`getNode`) on the partial tree: a success is the summary of the full-tree result,
  otherwise a navigation error (`Summ.getNode_back` / `Summ.getNode_fwd`);
* `setNode` without expansion: same (`Summ.setNode_back` with `e = false`);
* `setNode` WITH expansion needs `ZeroFaithful h k n`: no non-zero subtree of `n` (at the
  height the path meets it) hashes to the zero hash of that height.  For an arbitrary pair
  hash this can fail (`Props/C12.lean`, `C12_unfaithful_counterexample`); for SHA-256 it is a
  collision-resistance assumption.
-/
import ZtypV.Proofs.Tree
import ZtypV.Proofs.Shape
namespace ZtypV
open ZtypV.View ZtypV.TreeNav

/-- `Summ h n n'`: `n'` is `n` with some subtrees replaced by their summary root -/
inductive Summ (h : HashFn) : Node → Node → Prop where
  | refl (n : Node) : Summ h n n
  | collapse (n : Node) : Summ h n (.leaf (n.root h))
  | pair {l l' r r' : Node} : Summ h l l' → Summ h r r' → Summ h (.pair l r) (.pair l' r')

namespace Summ

/-- C12, root: summarising does not change the hash-tree-root -/
theorem root {h : HashFn} {n n' : Node} (hs : Summ h n n') : n'.root h = n.root h := by
  induction hs with
  | refl n => rfl
  | collapse n => rfl
  | pair _ _ ihl ihr => simp only [Node.root, ihl, ihr]

theorem of_root_eq {h : HashFn} {n : Node} {x : Root} (hx : n.root h = x) : Summ h n (.leaf x) := by
  subst hx; exact collapse n

/-- a leaf of the full tree is never changed -/
theorem leaf_left {h : HashFn} {r : Root} {x : Node} (hs : Summ h (.leaf r) x) : x = .leaf r := by
  cases hs with
  | refl => rfl
  | collapse => rfl

/-- a leaf of the partial tree holds the root of what it stands for -/
theorem leaf_right {h : HashFn} {n : Node} {x : Root} (hs : Summ h n (.leaf x)) : n.root h = x := by
  have := hs.root
  simpa [Node.root] using this.symm

/-- a pair of the partial tree stands for a pair of the full tree -/
theorem pair_right {h : HashFn} {n l' r' : Node} (hs : Summ h n (.pair l' r')) :
    ∃ l r, n = .pair l r ∧ Summ h l l' ∧ Summ h r r' := by
  cases hs with
  | refl => exact ⟨l', r', rfl, refl _, refl _⟩
  | pair hl hr => exact ⟨_, _, rfl, hl, hr⟩

theorem trans {h : HashFn} {a b c : Node} (hab : Summ h a b) (hbc : Summ h b c) : Summ h a c := by
  induction hbc generalizing a with
  | refl n => exact hab
  | collapse n => rw [hab.root]; exact collapse a
  | pair hl hr ihl ihr =>
    obtain ⟨l, r, rfl, h1, h2⟩ := pair_right hab
    exact pair (ihl h1) (ihr h2)

/-! ### `SummarizeInto` produces a summary -/

/-- rebinding a position to a summary of what is there gives a summary of the whole -/
theorem of_setNode {h : HashFn} : ∀ (p : List Bool) (n n' s v : Node),
    getNode n p = .ok s → setNode h n p false v = .ok n' → Summ h s v → Summ h n n' := by
  intro p
  induction p with
  | nil =>
    intro n n' s v hg hs hv
    simp at hg hs; subst hg hs; exact hv
  | cons b bs ih =>
    intro n n' s v hg hs hv
    cases n with
    | leaf x => simp at hg
    | pair l r =>
      cases b
      · simp [R.map_eq_ok] at hg hs
        obtain ⟨a, ha, rfl⟩ := hs
        exact pair (ih _ _ _ _ hg ha hv) (refl _)
      · simp [R.map_eq_ok] at hg hs
        obtain ⟨a, ha, rfl⟩ := hs
        exact pair (refl _) (ih _ _ _ _ hg ha hv)

/-- the Go operation `tree.SummarizeInto(target)` yields a summary of the tree it is applied to
    (hence any sequence of summarisations does, by `Summ.trans`) -/
theorem of_summarizeInto {h : HashFn} {n n' : Node} {p : List Bool}
    (hs : summarizeInto h n p = .ok n') : Summ h n n' := by
  obtain ⟨s, hg, hset⟩ := (summarizeInto_eq h n p n').mp hs
  exact of_setNode p n n' s _ hg hset (collapse s)

/-- summarising an already partial tree: still a summary of the full tree -/
theorem of_summarizeInto_partial {h : HashFn} {n n' n'' : Node} {p : List Bool}
    (h1 : Summ h n n') (hs : summarizeInto h n' p = .ok n'') : Summ h n n'' :=
  h1.trans (of_summarizeInto hs)

/-! ### navigation -/

/-- a read that succeeds on the partial tree succeeds on the full tree, and its result is the
    summary of the full-tree result -/
theorem getNode_back {h : HashFn} : ∀ (p : List Bool) (n n' x' : Node), Summ h n n' →
    getNode n' p = .ok x' → ∃ x, getNode n p = .ok x ∧ Summ h x x' := by
  intro p
  induction p with
  | nil => intro n n' x' hs hg; simp at hg; subst hg; exact ⟨n, by simp, hs⟩
  | cons b bs ih =>
    intro n n' x' hs hg
    cases n' with
    | leaf x => simp at hg
    | pair l' r' =>
      obtain ⟨l, r, rfl, hl, hr⟩ := pair_right hs
      cases b
      · simp at hg ⊢; exact ih _ _ _ hl hg
      · simp at hg ⊢; exact ih _ _ _ hr hg

/-- a read that succeeds on the full tree either succeeds on the partial tree with the summary
    of that result, or reports a navigation error -/
theorem getNode_fwd {h : HashFn} : ∀ (p : List Bool) (n n' x : Node), Summ h n n' →
    getNode n p = .ok x → (∃ x', getNode n' p = .ok x' ∧ Summ h x x') ∨ getNode n' p = .error .nav := by
  intro p
  induction p with
  | nil => intro n n' x hs hg; simp at hg; subst hg; exact Or.inl ⟨n', by simp, hs⟩
  | cons b bs ih =>
    intro n n' x hs hg
    cases n' with
    | leaf y => exact Or.inr rfl
    | pair l' r' =>
      obtain ⟨l, r, rfl, hl, hr⟩ := pair_right hs
      cases b
      · simp at hg ⊢; exact ih _ _ _ hl hg
      · simp at hg ⊢; exact ih _ _ _ hr hg

/-- navigation never panics (on any tree) -/
theorem getNode_no_panic (n : Node) (p : List Bool) : getNode n p ≠ .error .panic := by
  intro hg; cases getNode_error_nav _ _ _ hg

theorem setNode_no_panic (h : HashFn) (n : Node) (p : List Bool) (e : Bool) (v : Node) :
    setNode h n p e v ≠ .error .panic := by
  intro hg; cases setNode_error_nav _ _ _ _ _ _ hg

end Summ

/-! ### the faithfulness hypothesis for expansion -/

/-- `ZeroFaithful h k n`: along every path of length ≤ `k` from `n`, a subtree met at height `j`
    (= `k` minus the length walked) whose root is the zero hash `zh h j` really is a zero
    subtree.  (Leaves satisfy it trivially: a leaf equal to `zh h j` IS the zero summary.) -/
def ZeroFaithful (h : HashFn) : Nat → Node → Prop
  | _, .leaf _ => True
  | 0, .pair l r => Node.root h (.pair l r) = zh h 0 → ZeroTree h 0 (.pair l r)
  | k + 1, .pair l r =>
    (Node.root h (.pair l r) = zh h (k + 1) → ZeroTree h (k + 1) (.pair l r)) ∧
      ZeroFaithful h k l ∧ ZeroFaithful h k r

namespace ZeroFaithful

theorem here {h : HashFn} {k : Nat} {n : Node} (hz : ZeroFaithful h k n)
    (hr : n.root h = zh h k) : ZeroTree h k n := by
  cases n with
  | leaf x => simp only [Node.root] at hr; subst hr; exact ZeroTree.leaf k
  | pair l r =>
    cases k with
    | zero => exact hz hr
    | succ k => exact hz.1 hr

theorem left {h : HashFn} {k : Nat} {l r : Node} (hz : ZeroFaithful h (k + 1) (.pair l r)) :
    ZeroFaithful h k l := hz.2.1

theorem right {h : HashFn} {k : Nat} {l r : Node} (hz : ZeroFaithful h (k + 1) (.pair l r)) :
    ZeroFaithful h k r := hz.2.2

theorem leaf (h : HashFn) (k : Nat) (x : Root) : ZeroFaithful h k (.leaf x) := by
  cases k <;> exact True.intro

/-- the formulation with navigation: every subtree reached by a path of length `j ≤ k` whose
    root is `zh h (k - j)` is a zero subtree of that height -/
theorem at_path {h : HashFn} : ∀ (p : List Bool) (k : Nat) (n s : Node), ZeroFaithful h k n →
    p.length ≤ k → getNode n p = .ok s → s.root h = zh h (k - p.length) →
    ZeroTree h (k - p.length) s := by
  intro p
  induction p with
  | nil => intro k n s hz _ hg hr; simp at hg; subst hg; exact hz.here hr
  | cons b bs ih =>
    intro k n s hz hk hg hr
    cases n with
    | leaf x => simp at hg
    | pair l r =>
      cases k with
      | zero => simp at hk
      | succ k =>
        have hk' : bs.length ≤ k := by simpa using hk
        have he : k + 1 - (b :: bs).length = k - bs.length := by simp
        rw [he] at hr ⊢
        cases b
        · simp at hg; exact ih k l s hz.left hk' hg hr
        · simp at hg; exact ih k r s hz.right hk' hg hr

/-- … and conversely -/
theorem of_paths {h : HashFn} : ∀ (k : Nat) (n : Node),
    (∀ (p : List Bool) (s : Node), p.length ≤ k → getNode n p = .ok s →
      s.root h = zh h (k - p.length) → ZeroTree h (k - p.length) s) → ZeroFaithful h k n := by
  intro k
  induction k with
  | zero =>
    intro n hp
    cases n with
    | leaf x => exact True.intro
    | pair l r => exact fun hr => hp [] _ (by simp) (by simp) hr
  | succ k ih =>
    intro n hp
    cases n with
    | leaf x => exact True.intro
    | pair l r =>
      refine ⟨fun hr => hp [] _ (by simp) (by simp) hr, ih l ?_, ih r ?_⟩
      · intro p s hl hg hr
        have he : k + 1 - (false :: p).length = k - p.length := by simp
        have := hp (false :: p) s (by simpa using hl) (by simpa using hg)
        rw [he] at this; exact this hr
      · intro p s hl hg hr
        have he : k + 1 - (true :: p).length = k - p.length := by simp
        have := hp (true :: p) s (by simpa using hl) (by simpa using hg)
        rw [he] at this; exact this hr

end ZeroFaithful

namespace Summ

/-! ### the setter on a partial tree -/

/-- `Setter(target, expand)` then binding: if it succeeds on the partial tree (binding a summary
    `v'` of `v`), it succeeds on the full tree and the results are again related.  Without
    expansion no hypothesis on the hash is needed; with expansion the full tree must be
    `ZeroFaithful` to the depth of the path.  On the partial side an expanded summary
    `leaf (zh h k)` may stand where the full side has a materialised zero subtree. -/
theorem setNode_back {h : HashFn} : ∀ (p : List Bool) (n n' : Node) (e : Bool) (v v' m' : Node),
    Summ h n n' → Summ h v v' → (e = true → ZeroFaithful h p.length n) →
    setNode h n' p e v' = .ok m' → ∃ m, setNode h n p e v = .ok m ∧ Summ h m m' := by
  intro p
  induction p with
  | nil =>
    intro n n' e v v' m' _ hv _ hs
    simp at hs; subst hs
    exact ⟨v, by simp, hv⟩
  | cons b bs ih =>
    intro n n' e v v' m' hn hv hz hs
    cases n' with
    | pair l' r' =>
      obtain ⟨l, r, rfl, hl, hr⟩ := pair_right hn
      cases b
      · simp [R.map_eq_ok] at hs
        obtain ⟨a', ha', rfl⟩ := hs
        obtain ⟨a, ha, hsa⟩ := ih l l' e v v' a' hl hv (fun he => (hz he).left) ha'
        exact ⟨.pair a r, by simp [ha], pair hsa hr⟩
      · simp [R.map_eq_ok] at hs
        obtain ⟨a', ha', rfl⟩ := hs
        obtain ⟨a, ha, hsa⟩ := ih r r' e v v' a' hr hv (fun he => (hz he).right) ha'
        exact ⟨.pair l a, by simp [ha], pair hl hsa⟩
    | leaf x =>
      rw [setNode_leaf_cons] at hs
      split at hs
      · rename_i hc
        simp only [Bool.and_eq_true, beq_iff_eq] at hc
        obtain ⟨he, hx⟩ := hc
        subst he
        have hroot : n.root h = zh h (bs.length + 1) := by rw [← hx]; exact hn.leaf_right
        have hzt := (hz rfl).here hroot
        cases hzt with
        | leaf =>
          -- the full tree has the same zero summary: both sides expand it
          rw [setNode_leaf_cons, if_pos (by simp)]
          cases b
          · simp [R.map_eq_ok] at hs ⊢
            obtain ⟨a', ha', rfl⟩ := hs
            obtain ⟨a, ha, hsa⟩ := ih _ _ true v v' a' (refl (zeroNode h bs.length)) hv
              (fun _ => ZeroFaithful.leaf h _ _) ha'
            exact ⟨_, ⟨a, ha, rfl⟩, pair hsa (refl _)⟩
          · simp [R.map_eq_ok] at hs ⊢
            obtain ⟨a', ha', rfl⟩ := hs
            obtain ⟨a, ha, hsa⟩ := ih _ _ true v v' a' (refl (zeroNode h bs.length)) hv
              (fun _ => ZeroFaithful.leaf h _ _) ha'
            exact ⟨_, ⟨a, ha, rfl⟩, pair (refl _) hsa⟩
        | pair hzl hzr =>
          -- the full tree has the zero subtree materialised one level: the partial side expands
          -- its summary, the untouched half stays a summary
          rename_i l r
          have hzf := hz rfl
          cases b
          · simp [R.map_eq_ok] at hs ⊢
            obtain ⟨a', ha', rfl⟩ := hs
            obtain ⟨a, ha, hsa⟩ := ih l _ true v v' a' (of_root_eq (zeroTree_root h hzl)) hv
              (fun _ => hzf.left) ha'
            exact ⟨_, ⟨a, ha, rfl⟩, pair hsa (of_root_eq (zeroTree_root h hzr))⟩
          · simp [R.map_eq_ok] at hs ⊢
            obtain ⟨a', ha', rfl⟩ := hs
            obtain ⟨a, ha, hsa⟩ := ih r _ true v v' a' (of_root_eq (zeroTree_root h hzr)) hv
              (fun _ => hzf.right) ha'
            exact ⟨_, ⟨a, ha, rfl⟩, pair (of_root_eq (zeroTree_root h hzl)) hsa⟩
      · cases hs

/-- without expansion: no hypothesis on the hash -/
theorem setNode_back_false {h : HashFn} {p : List Bool} {n n' v v' m' : Node}
    (hn : Summ h n n') (hv : Summ h v v') (hs : setNode h n' p false v' = .ok m') :
    ∃ m, setNode h n p false v = .ok m ∧ Summ h m m' :=
  setNode_back p n n' false v v' m' hn hv (fun he => by cases he) hs

/-- with expansion, under faithfulness -/
theorem setNode_back_expand {h : HashFn} {p : List Bool} {n n' v v' m' : Node}
    (hn : Summ h n n') (hv : Summ h v v') (hz : ZeroFaithful h p.length n)
    (hs : setNode h n' p true v' = .ok m') :
    ∃ m, setNode h n p true v = .ok m ∧ Summ h m m' :=
  setNode_back p n n' true v v' m' hn hv (fun _ => hz) hs

/-- forward form without expansion: a write that succeeds on the full tree either succeeds on
    the partial tree with a related result or reports a navigation error -/
theorem setNode_fwd_false {h : HashFn} : ∀ (p : List Bool) (n n' v v' m : Node),
    Summ h n n' → Summ h v v' → setNode h n p false v = .ok m →
    (∃ m', setNode h n' p false v' = .ok m' ∧ Summ h m m') ∨
      setNode h n' p false v' = .error .nav := by
  intro p
  induction p with
  | nil => intro n n' v v' m _ hv hs; simp at hs; subst hs; exact Or.inl ⟨v', by simp, hv⟩
  | cons b bs ih =>
    intro n n' v v' m hn hv hs
    cases n' with
    | leaf x => exact Or.inr (by simp)
    | pair l' r' =>
      obtain ⟨l, r, rfl, hl, hr⟩ := pair_right hn
      cases b
      · simp [R.map_eq_ok] at hs
        obtain ⟨a, ha, rfl⟩ := hs
        rcases ih l l' v v' a hl hv ha with ⟨a', ha', hsa⟩ | herr
        · exact Or.inl ⟨.pair a' r', by simp [ha'], pair hsa hr⟩
        · exact Or.inr (by simp [herr])
      · simp [R.map_eq_ok] at hs
        obtain ⟨a, ha, rfl⟩ := hs
        rcases ih r r' v v' a hr hv ha with ⟨a', ha', hsa⟩ | herr
        · exact Or.inl ⟨.pair l' a', by simp [ha'], pair hl hsa⟩
        · exact Or.inr (by simp [herr])

end Summ

end ZtypV
