/-
Helper lemmas for property family C02c, part 3: `DecodingReader.Skip` and the directly called
`ReadUint32` (Model/Api.lean) against the flat byte-list answer, for every legal delivery
schedule.  Builds on Proofs/IO.lean (`Rd.read_spec`, `Dec.step_spec`).
-/
import ZtypV.Model.Api
import ZtypV.Proofs.IO
namespace ZtypV.Api
open ZtypV ZtypV.CodecIO

/-! ### one call on an exhausted reader stack leaves it unchanged -/

theorem readCall_empty_state (st : ReaderState) (want : Nat) (he : st.data = []) :
    (readCall st want).2.2 = st := by
  unfold readCall
  by_cases hw : want = 0
  · simp [hw]
  · simp [hw, he]

theorem Rd.read_empty_state (r : Rd) (want : Nat) (hw : 1 ≤ want) (he : r.avail = []) :
    (r.read want).2.2 = r := by
  induction r generalizing want with
  | base st =>
    simp only [Rd.avail] at he
    simp [Rd.read, readCall_empty_state st want he]
  | limit n inner ih =>
    unfold Rd.read
    by_cases hn : n ≤ 0
    · simp [hn]
    · simp only [hn, if_false]
      simp only [Rd.avail] at he
      have hi : inner.avail = [] := by
        cases h : inner.avail with
        | nil => rfl
        | cons a l =>
          rw [h] at he
          have : n.toNat = Nat.succ (n.toNat - 1) := by omega
          rw [this] at he
          simp at he
      have hw' : 1 ≤ (if n < (want : Int) then n.toNat else want) := by
        split <;> omega
      have h1 := (Rd.read_empty inner _ hw' hi).1
      rw [ih _ hw' hi, h1]
      simp

/-! ### `discard.ReadFrom` -/

/-- the copy loop drains everything that can arrive through the stack and then stops (with or
    without an error); it never spins on a legal reader -/
theorem discard_spec (fuel : Nat) (r : Rd) (acc : Nat) (hl : r.legal) (hf : r.avail.length < fuel) :
    ∃ err r', discardReadFrom fuel r acc = (.done (acc + r.avail.length) err, r') ∧
      r'.avails = r.avails.map (List.drop r.avail.length) ∧ r'.legal := by
  induction fuel generalizing r acc with
  | zero => omega
  | succ fuel ih =>
    rw [discardReadFrom]
    by_cases hne : r.avail = []
    · obtain ⟨e1, e2⟩ := Rd.read_empty r 8192 (by omega) hne
      have e3 := Rd.read_empty_state r 8192 (by omega) hne
      cases he : (r.read 8192).2.1 with
      | none => rw [he] at e2; simp at e2
      | some e =>
        simp only
        refine ⟨if e = .eof then none else some e, (r.read 8192).2.2, ?_, ?_, ?_⟩
        · rw [e1, hne]
        · rw [e3, hne]; simp [map_drop_zero]
        · rw [e3]; exact hl
    · obtain ⟨d, h1, h2, h3, h4, h5, h6, h7, h8⟩ := Rd.read_spec r 8192 hl (by omega) hne
      have hlen : (r.read 8192).1.length = d := by rw [h4, List.length_take]; omega
      rcases h8 with h8 | ⟨h8, h9⟩
      · rw [h8]
        simp only
        obtain ⟨err, r', e1, e2, e3⟩ := ih (r.read 8192).2.2 (acc + (r.read 8192).1.length) h7
          (by rw [h5, List.length_drop]; omega)
        refine ⟨err, r', ?_, ?_, e3⟩
        · rw [e1, h5, hlen, List.length_drop]
          congr 2; omega
        · rw [e2, h6, h5, List.length_drop, List.map_map]
          congr 1
          funext x
          simp only [Function.comp, List.drop_drop]
          congr 1; omega
      · rw [h8]
        simp only [if_true]
        refine ⟨none, (r.read 8192).2.2, ?_, ?_, h7⟩
        · rw [hlen, h9]
        · rw [h6, h9]

/-! ### `io.CopyN` into `Discard` -/

theorem limit_shape {r : Rd} {a : Bytes} {as : List Bytes} (h : r.avails = a :: as) :
    ∃ m inner, r = .limit m inner ∧ inner.avails = as := by
  cases r with
  | base st => simp [Rd.avails] at h
  | limit m inner =>
    simp only [Rd.avails, List.cons.injEq] at h
    exact ⟨m, inner, rfl, h.2⟩

/-- enough bytes can arrive: exactly `k` are discarded -/
theorem copyN_ok (fuel : Nat) (src : Rd) (k : Nat) (hl : src.legal) (hf : src.avail.length + 1 < fuel)
    (hk : k ≤ src.avail.length) :
    ∃ src', copyN fuel src (k : Int) = (.done k none, src') ∧
      src'.avails = src.avails.map (List.drop k) ∧ src'.legal := by
  have hav : (Rd.limit (k : Int) src).avail = src.avail.take k := by simp [Rd.avail]
  have hlen : (Rd.limit (k : Int) src).avail.length = k := by rw [hav, List.length_take]; omega
  obtain ⟨err, r', e1, e2, e3⟩ := discard_spec fuel (.limit (k : Int) src) 0 (by simpa [Rd.legal] using hl)
    (by rw [hlen]; omega)
  rw [hlen] at e1 e2
  simp only [Rd.avails, List.map_cons] at e2
  obtain ⟨m, inner, rfl, hin⟩ := limit_shape e2
  refine ⟨inner, ?_, hin, by simpa [Rd.legal] using e3⟩
  unfold copyN
  rw [e1]
  simp

/-- fewer bytes can arrive: an error, whatever way the stream ends -/
theorem copyN_short (fuel : Nat) (src : Rd) (k : Nat) (hl : src.legal) (hf : src.avail.length + 1 < fuel)
    (hk : src.avail.length < k) :
    ∃ e src', copyN fuel src (k : Int) = (.done src.avail.length (some e), src') := by
  have hav : (Rd.limit (k : Int) src).avail = src.avail.take k := by simp [Rd.avail]
  have hlen : (Rd.limit (k : Int) src).avail.length = src.avail.length := by
    rw [hav, List.length_take]; omega
  obtain ⟨err, r', e1, _, _⟩ := discard_spec fuel (.limit (k : Int) src) 0 (by simpa [Rd.legal] using hl)
    (by rw [hlen]; omega)
  rw [hlen] at e1
  unfold copyN
  rw [e1]
  simp only [Nat.zero_add]
  have hne : ¬ ((src.avail.length : Int) = (k : Int)) := by omega
  have hlt : (src.avail.length : Int) < (k : Int) := by omega
  cases err with
  | none =>
    cases r' <;> (refine ⟨.eof, ?_, ?_⟩; rotate_left; (simp only [if_neg hne, hlt, and_self, if_true]; rfl))
  | some e =>
    cases r' <;> (refine ⟨e, ?_, ?_⟩; rotate_left; (simp only [if_neg hne, reduceCtorEq, and_false, if_false]; rfl))

/-- a negative count (`int64` of a count ≥ 2^63): nothing is read, no error -/
theorem copyN_neg (fuel : Nat) (src : Rd) (n : Int) (hn : n < 0) :
    copyN (fuel + 1) src n = (.done 0 none, src) := by
  unfold copyN
  rw [discardReadFrom]
  have h0 : n ≤ 0 := by omega
  simp only [Rd.read, h0, if_true, List.length_nil, Nat.add_zero]
  simp only [Int.natCast_zero]
  have h1 : ¬ (0 : Int) = n := by omega
  have h2 : ¬ ((0 : Int) < n ∧ True) := by omega
  rw [if_neg h1, if_neg h2]

/-! ### `Skip` -/

-- as in Proofs/IO.lean: keep `whnf` from normalising the 64-bit arithmetic of `scopeUpdate`
-- inside `match` discriminants
attribute [local irreducible] scopeUpdate

theorem toInt64_small (c : UInt64) (h : c.toNat < 2 ^ 63) : toInt64 c = (c.toNat : Int) := by
  unfold toInt64; rw [if_pos h]

theorem toInt64_neg (c : UInt64) (h : 2 ^ 63 ≤ c.toNat) : toInt64 c < 0 := by
  unfold toInt64
  have := c.toNat_lt
  rw [if_neg (by omega)]
  omega

/-- the scope check of `Skip` is `scopeUpdate` -/
theorem skip_eq (dr : DR) (count : UInt64) :
    skip dr count =
      match scopeUpdate dr.i dr.max count with
      | none => (.err .scope (if ~~~(0 : UInt64) - dr.i < count then 0 else toInt64 dr.i), dr)
      | some v =>
        let r := copyN (dr.input.avail.length + 2) dr.input (toInt64 count)
        let dr2 : DR := { input := r.2, i := v, max := dr.max }
        match r.1 with
        | .spin => (.spin, dr2)
        | .done n none => (.ok n, dr2)
        | .done n (some e) => (.err e n, dr2) := by
  by_cases h1 : ~~~(0 : UInt64) - dr.i < count
  · have hs : scopeUpdate dr.i dr.max count = none := by
      unfold scopeUpdate; simp only [h1, if_true]
    rw [hs]
    unfold skip
    simp only [h1, if_true]
  · by_cases h2 : dr.i + count > dr.max
    · have hs : scopeUpdate dr.i dr.max count = none := by
        unfold scopeUpdate; simp only [h1, if_false, h2, if_true]
      rw [hs]
      unfold skip
      simp only [h1, if_false, h2, if_true]
    · have hs : scopeUpdate dr.i dr.max count = some (dr.i + count) := by
        unfold scopeUpdate; simp only [h1, if_false, h2]
      rw [hs]
      unfold skip
      simp only [h1, if_false, h2]
      generalize copyN (dr.input.avail.length + 2) dr.input (toInt64 count) = r
      obtain ⟨a, b⟩ := r
      cases a with
      | spin => rfl
      | done n err => cases err <;> rfl

theorem skip_scope_err (dr : DR) (count : UInt64) (h : scopeUpdate dr.i dr.max count = none) :
    ∃ n, skip dr count = (.err .scope n, dr) := by
  rw [skip_eq, h]; exact ⟨_, rfl⟩

theorem skip_ok (dr : DR) (count v : UInt64) (hl : dr.input.legal)
    (h : scopeUpdate dr.i dr.max count = some v) (hc : count.toNat < 2 ^ 63)
    (ha : count.toNat ≤ dr.input.avail.length) :
    ∃ r', skip dr count = (.ok (count.toNat : Int), { input := r', i := v, max := dr.max }) ∧
      r'.avails = dr.input.avails.map (List.drop count.toNat) ∧ r'.legal := by
  obtain ⟨src', e1, e2, e3⟩ := copyN_ok (dr.input.avail.length + 2) dr.input count.toNat hl (by omega) ha
  refine ⟨src', ?_, e2, e3⟩
  rw [skip_eq, h, toInt64_small count hc]
  simp only [e1]

theorem skip_short (dr : DR) (count v : UInt64) (hl : dr.input.legal)
    (h : scopeUpdate dr.i dr.max count = some v) (hc : count.toNat < 2 ^ 63)
    (ha : dr.input.avail.length < count.toNat) :
    ∃ e n dr', skip dr count = (.err e n, dr') := by
  obtain ⟨e, src', e1⟩ := copyN_short (dr.input.avail.length + 2) dr.input count.toNat hl (by omega) ha
  rw [skip_eq, h, toInt64_small count hc]
  simp only [e1]
  exact ⟨e, _, _, rfl⟩

/-- counts of 2^63 and more that the scope allows: `Skip` reports success with count 0, reads
    nothing and still advances the index (recorded finding; such a scope can only be declared
    with `NewDecodingReader(…, scope ≥ 2^63)`) -/
theorem skip_huge (dr : DR) (count v : UInt64) (h : scopeUpdate dr.i dr.max count = some v)
    (hc : 2 ^ 63 ≤ count.toNat) :
    skip dr count = (.ok 0, { input := dr.input, i := v, max := dr.max }) := by
  rw [skip_eq, h]
  simp only [copyN_neg (dr.input.avail.length + 1) dr.input _ (toInt64_neg count hc)]
  rfl

/-! ### `api.read` runs against the flat answer -/

/-- requests inside the property: `Skip` counts below 2^63 -/
def Req2.small : Req2 → Prop
  | .skip count => count.toNat < 2 ^ 63
  | _ => True

theorem specSkip_none_of_scope (f : SFrame) (ps : List SFrame) (count : UInt64)
    (hs : scopeUpdate f.i f.max count = none) : specSkip (f :: ps) count = none := by
  unfold specSkip skipFrame
  simp only [hs, Option.map_none, ite_self]

theorem specSkip_ok (f : SFrame) (ps : List SFrame) (count v : UInt64)
    (hs : scopeUpdate f.i f.max count = some v) (ha : count.toNat ≤ f.avail.length) :
    specSkip (f :: ps) count =
      some ((count.toNat : Int), ({ f with i := v } :: ps).map (SFrame.adv count.toNat)) := by
  unfold specSkip skipFrame
  simp only [hs, ha, if_true, Option.map_some]

theorem specSkip_short (f : SFrame) (ps : List SFrame) (count : UInt64)
    (ha : ¬ count.toNat ≤ f.avail.length) :
    specSkip (f :: ps) count = none := by
  unfold specSkip skipFrame
  simp only [ha, if_false, Option.map_none]

theorem step2_base (d : Dec) (q : Req) : step2 d (.base q) = liftBase (d.step q) := rfl
theorem step2_u32 (d : Dec) : step2 d .u32 = liftBase (d.step (.uintN 4)) := rfl
theorem step2_skip (d : Dec) (count : UInt64) : step2 d (.skip count) = skipOut d (skip d.cur count) := rfl

theorem step2_spec (d : Dec) (hwf : d.wf) (q : Req2) (hq : q.small) :
    (∃ o d', step2 d q = .ok (o, d') ∧ specStep2 d.abs q = some (o, d'.abs) ∧ d'.wf) ∨
    (∃ s, step2 d q = .error s ∧ s ≠ .stop .spin ∧ specStep2 d.abs q = none) := by
  obtain ⟨m, inner, hi, hlen⟩ := Dec.wf_shape d hwf
  have habs : d.abs = { i := d.cur.i, max := d.cur.max, avail := d.cur.input.avail } ::
      zipFrames d.parents inner.avails := by
    simp [Dec.abs, hi, Rd.avails, zipFrames]
  cases q with
  | base q =>
    rw [step2_base]
    rcases Dec.step_spec d hwf q with ⟨o, d', e1, e2, e3⟩ | ⟨e, e1, e2⟩
    · left
      refine ⟨.base o, d', by rw [e1]; rfl, ?_, e3⟩
      simp only [specStep2, e2]; rfl
    · right
      refine ⟨.stop (.err e), by rw [e1]; rfl, by simp, ?_⟩
      simp only [specStep2, e2]; rfl
  | u32 =>
    rw [step2_u32]
    rcases Dec.step_spec d hwf (.uintN 4) with ⟨o, d', e1, e2, e3⟩ | ⟨e, e1, e2⟩
    · left
      refine ⟨.base o, d', by rw [e1]; rfl, ?_, e3⟩
      simp only [specStep2, e2]; rfl
    · right
      refine ⟨.stop (.err e), by rw [e1]; rfl, by simp, ?_⟩
      simp only [specStep2, e2]; rfl
  | skip count =>
    rw [step2_skip]
    have hc : count.toNat < 2 ^ 63 := hq
    cases hs : scopeUpdate d.cur.i d.cur.max count with
    | none =>
      right
      obtain ⟨n, e1⟩ := skip_scope_err d.cur count hs
      refine ⟨.skipErr .scope n, by rw [e1]; rfl, by simp, ?_⟩
      simp only [specStep2]
      rw [habs, specSkip_none_of_scope _ _ count hs]; rfl
    | some v =>
      by_cases ha : count.toNat ≤ d.cur.input.avail.length
      · left
        obtain ⟨r', e1, e2, e3⟩ := skip_ok d.cur count v hwf.2 hs hc ha
        refine ⟨.skipped count.toNat, { d with cur := { input := r', i := v, max := d.cur.max } },
          by rw [e1]; rfl, ?_, ?_⟩
        · simp only [specStep2]
          rw [habs, specSkip_ok _ _ count v hs ha]
          simp only [Option.map_some, Dec.abs, e2, zipFrames_map, hi, Rd.avails, zipFrames,
            List.map_cons, SFrame.adv]
        · refine ⟨?_, e3⟩
          simp only [e2, List.length_map]
          exact hwf.1
      · right
        obtain ⟨e, n, dr', e1⟩ := skip_short d.cur count v hwf.2 hs hc (by omega)
        refine ⟨.skipErr e n, by rw [e1]; rfl, by simp, ?_⟩
        simp only [specStep2]
        rw [habs, specSkip_short _ _ count ha]; rfl

theorem run2_spec (d : Dec) (hwf : d.wf) (qs : List Req2) (hq : ∀ q ∈ qs, q.small) :
    (run2 d qs).1 = (specRun2 d.abs qs).1 ∧
    ((run2 d qs).2.isSome = (specRun2 d.abs qs).2) ∧
    (run2 d qs).2 ≠ some (.stop .spin) := by
  induction qs generalizing d with
  | nil => simp [run2, specRun2]
  | cons q qs ih =>
    have hq1 := hq q (List.mem_cons_self ..)
    have hq2 : ∀ q ∈ qs, q.small := fun q h => hq q (List.mem_cons_of_mem _ h)
    rcases step2_spec d hwf q hq1 with ⟨o, d', e1, e2, e3⟩ | ⟨s, e1, e2, e3⟩
    · obtain ⟨i1, i2, i3⟩ := ih d' e3 hq2
      simp only [run2, e1, specRun2, e2]
      exact ⟨by rw [i1], i2, i3⟩
    · simp only [run2, e1, specRun2, e3]
      refine ⟨trivial, rfl, ?_⟩
      intro h; injection h with h; exact e2 h

end ZtypV.Api
