/-
The representation relation of C01/C02/C04/C12: `Rep h t v n` — node `n` is a backing of the
value `v : t`.  Unlike "n = construct h t v" it is closed under the mutators: padding
positions of a series may be either the summary leaf of a zero subtree or a materialised tree
of zero leaves (constructors produce summaries, `Pop` and expansion leave materialised zeros).

Definitions only (shared vocabulary); lemmas live in Proofs/Shape.lean, Proofs/RepView.lean,
Proofs/RepMut.lean, Proofs/RepSim.lean.
-/
import ZtypV.Model.Sim
namespace ZtypV
open ZtypV.View

/-- a zero subtree of height `d`: the summary leaf `zh h d`, or a pair of zero subtrees -/
inductive ZeroTree (h : HashFn) : Nat → Node → Prop where
  | leaf (d : Nat) : ZeroTree h d (.leaf (zh h d))
  | pair {d : Nat} {l r : Node} : ZeroTree h d l → ZeroTree h d r → ZeroTree h (d + 1) (.pair l r)

/-- `n` is a depth-`d` subtree whose first `xs.length` bottom nodes are `xs`, in order, and
    whose remaining positions are zero padding (in either form) -/
def SeqShape (h : HashFn) : Nat → Node → List Node → Prop
  | d, n, [] => ZeroTree h d n
  | 0, n, [x] => n = x
  | 0, _, _ :: _ :: _ => False
  | d + 1, n, x :: xs =>
    ∃ l r, n = .pair l r ∧ SeqShape h d l ((x :: xs).take (2 ^ d)) ∧ SeqShape h d r ((x :: xs).drop (2 ^ d))

/-- a list-like view: contents subtree of depth `d` plus the length mix-in node -/
def ListShape (h : HashFn) (d : Nat) (n : Node) (xs : List Node) (len : Nat) : Prop :=
  ∃ c, n = .pair c (lengthNode len) ∧ SeqShape h d c xs

/-- the packed bottom nodes of a byte string -/
def packedNodes (bs : Bytes) : List Node := bytesIntoNodes bs

mutual
/-- `Rep h t v n`: `n` is a backing tree of `v : t` (mirrors the recursion of `View.construct`) -/
def Rep (h : HashFn) : Ty → Val → Node → Prop
  | .uint b, .num k, n => n = .leaf (chunkOf (leBytes b k))
  | .bool, .bool b, n => n = .leaf (chunkOf [if b then 1 else 0])
  | .bytesN _, .bytes bs, n => n = .leaf (chunkOf bs)
  | .bitvector k, .bits bs, n =>
    bs.length = k ∧ SeqShape h (bitDepth k) n (packedNodes (packBits bs))
  | .bitlist lim, .bits bs, n =>
    bs.length ≤ lim ∧ ListShape h (bitDepth lim) n (packedNodes (packBits bs)) bs.length
  | .vector e k, .seq vs, n =>
    vs.length = k ∧
    (if isBasicElem e then SeqShape h (seriesDepth e k) n (packedNodes (serList e vs).flatten)
     else ∃ xs, RepList h e vs xs ∧ SeqShape h (coverDepth k) n xs)
  | .list e lim, .seq vs, n =>
    vs.length ≤ lim ∧
    (if isBasicElem e then ListShape h (seriesDepth e lim) n (packedNodes (serList e vs).flatten) vs.length
     else ∃ xs, RepList h e vs xs ∧ ListShape h (coverDepth lim) n xs vs.length)
  | .container fs, .seq vs, n =>
    ∃ xs, RepFields h fs vs xs ∧ SeqShape h (coverDepth fs.length) n xs
  | .union hasNone opts, .union sel v, n =>
    match v with
    | .none => hasNone = true ∧ sel = 0 ∧ n = .pair (.leaf z0) (.leaf (chunkOf [UInt8.ofNat sel]))
    | _ =>
      match unionOpt hasNone opts sel with
      | some t => ∃ c, Rep h t v c ∧ n = .pair c (.leaf (chunkOf [UInt8.ofNat sel]))
      | Option.none => False
  | _, _, _ => False
/-- element-wise representation of a series of values of type `e` -/
def RepList (h : HashFn) (e : Ty) : List Val → List Node → Prop
  | [], [] => True
  | v :: vs, x :: xs => Rep h e v x ∧ RepList h e vs xs
  | _, _ => False
/-- field-wise representation of container fields -/
def RepFields (h : HashFn) : List Ty → List Val → List Node → Prop
  | [], [], [] => True
  | t :: ts, v :: vs, x :: xs => Rep h t v x ∧ RepFields h ts vs xs
  | _, _, _ => False
end

end ZtypV
