/-
C04, packed slots: byte- and bit-level facts behind the sub-chunk read-modify-write of
`BackingFromBase` (`basicIntoChunk`) and `BackingFromBitfieldBase` (`bitIntoChunk`):
rewriting one packed element / one bit inside the chunk that holds it yields the
corresponding chunk of the updated byte string, and leaves every other chunk unchanged.
Everything is phrased through `getD` (bytes beyond the end read as zero), which covers
`Set`, `Append` (write at the end) and `Pop` (clear the last element) uniformly.
-/
import ZtypV.Proofs.RepMutBase
namespace ZtypV
open ZtypV.View ZtypV.Sim
namespace RepMut

/-! ### `getD` through list operations -/

theorem getD_append' {α : Type} (l r : List α) (i : Nat) (d : α) :
    (l ++ r).getD i d = if i < l.length then l.getD i d else r.getD (i - l.length) d := by
  simp only [List.getD_eq_getElem?_getD, List.getElem?_append]
  split <;> rfl

theorem getD_take' {α : Type} (l : List α) (n i : Nat) (d : α) :
    (l.take n).getD i d = if i < n then l.getD i d else d := by
  simp only [List.getD_eq_getElem?_getD, List.getElem?_take]
  split <;> rfl

theorem getD_drop' {α : Type} (l : List α) (n i : Nat) (d : α) :
    (l.drop n).getD i d = l.getD (n + i) d := by
  simp only [List.getD_eq_getElem?_getD, List.getElem?_drop]

theorem getD_ge {α : Type} (l : List α) (i : Nat) (d : α) (h : l.length ≤ i) : l.getD i d = d := by
  rw [List.getD_eq_getElem?_getD, List.getElem?_eq_none h]; rfl

theorem getD_replicate_self {α : Type} (n i : Nat) (d : α) : (List.replicate n d).getD i d = d := by
  rw [List.getD_eq_getElem?_getD, List.getElem?_replicate]
  split <;> rfl

/-- lists of the same length with the same `getD` everywhere are equal -/
theorem ext_getD {α : Type} {a b : List α} (d : α) (hl : a.length = b.length)
    (h : ∀ q, q < a.length → a.getD q d = b.getD q d) : a = b := by
  apply List.ext_getElem hl
  intro q h1 h2
  have := h q h1
  rw [List.getD_eq_getElem?_getD, List.getD_eq_getElem?_getD, List.getElem?_eq_getElem h1,
    List.getElem?_eq_getElem h2] at this
  exact this

/-! ### chunks -/

/-- chunk `k` of a byte string (zero padded) -/
def chunkAt (X : Bytes) (k : Nat) : Root := chunkOf (X.drop (32 * k))

/-- number of chunks -/
def chunkCount (X : Bytes) : Nat := (X.length + 31) / 32

@[simp] theorem chunkAt_length (X : Bytes) (k : Nat) : (chunkAt X k).length = 32 := by
  simp [chunkAt]

theorem chunkAt_getD (X : Bytes) (k q : Nat) (hq : q < 32) :
    (chunkAt X k).getD q 0 = X.getD (32 * k + q) 0 := by
  unfold chunkAt
  rw [chunkOf_getD _ _ hq, getD_drop']

theorem chunkAt_ext {X Y : Bytes} {k j : Nat}
    (h : ∀ q, q < 32 → X.getD (32 * k + q) 0 = Y.getD (32 * j + q) 0) : chunkAt X k = chunkAt Y j := by
  apply ext_getD 0 (by simp)
  intro q hq
  have hq' : q < 32 := by simpa using hq
  rw [chunkAt_getD _ _ _ hq', chunkAt_getD _ _ _ hq', h q hq']

theorem chunks_eq (X : Bytes) : chunks X = (List.range (chunkCount X)).map (chunkAt X) := rfl

theorem chunks_len (X : Bytes) : (chunks X).length = chunkCount X := chunks_length X

theorem chunks_get (X : Bytes) (k : Nat) (hk : k < (chunks X).length) :
    (chunks X)[k] = chunkAt X k := chunks_getElem X k hk

theorem chunkAt_beyond (X : Bytes) (k : Nat) (hk : X.length ≤ 32 * k) : chunkAt X k = z0 := by
  unfold chunkAt
  rw [List.drop_of_length_le hk]; rfl

/-- same number of chunks, all but chunk `j` unchanged -/
theorem chunks_set_eq (X X' : Bytes) (j : Nat) (hc : chunkCount X' = chunkCount X)
    (hoth : ∀ k, k ≠ j → chunkAt X' k = chunkAt X k) :
    (chunks X).set j (chunkAt X' j) = chunks X' := by
  apply List.ext_getElem
  · rw [List.length_set, chunks_len, chunks_len, hc]
  · intro k h1 h2
    rw [List.getElem_set, chunks_get X' k h2]
    split
    · rename_i hjk; rw [hjk]
    · rename_i hjk
      rw [chunks_get, hoth k (fun hh => hjk hh.symm)]

/-- one more chunk, the old ones unchanged -/
theorem chunks_snoc_eq (X X' : Bytes) (hc : chunkCount X' = chunkCount X + 1)
    (hoth : ∀ k, k < chunkCount X → chunkAt X' k = chunkAt X k) :
    chunks X' = chunks X ++ [chunkAt X' (chunkCount X)] := by
  apply List.ext_getElem
  · rw [List.length_append, chunks_len, chunks_len, hc]; rfl
  · intro k h1 h2
    rw [chunks_get X' k h1]
    by_cases hk : k < chunkCount X
    · rw [List.getElem_append_left (by rw [chunks_len]; exact hk), chunks_get, hoth k hk]
    · have hk' : k = chunkCount X := by
        rw [chunks_len, hc] at h1; omega
      subst hk'
      rw [List.getElem_append_right (by rw [chunks_len]; omega)]
      simp only [chunks_len, Nat.sub_self, List.getElem_cons_zero]

/-! ### packed bottom nodes -/

theorem packedNodes_eq (X : Bytes) : packedNodes X = (chunks X).map Node.leaf := rfl

theorem packedNodes_length (X : Bytes) : (packedNodes X).length = chunkCount X := by
  rw [packedNodes_eq, List.length_map, chunks_len]

theorem packedNodes_get (X : Bytes) (k : Nat) (hk : k < (packedNodes X).length) :
    (packedNodes X)[k] = .leaf (chunkAt X k) := by
  simp only [packedNodes_eq, List.getElem_map]
  rw [chunks_get]

theorem packedNodes_set_eq (X X' : Bytes) (j : Nat) (hc : chunkCount X' = chunkCount X)
    (hoth : ∀ k, k ≠ j → chunkAt X' k = chunkAt X k) :
    (packedNodes X).set j (.leaf (chunkAt X' j)) = packedNodes X' := by
  rw [packedNodes_eq, packedNodes_eq, ← List.map_set, chunks_set_eq X X' j hc hoth]

theorem packedNodes_snoc_eq (X X' : Bytes) (hc : chunkCount X' = chunkCount X + 1)
    (hoth : ∀ k, k < chunkCount X → chunkAt X' k = chunkAt X k) :
    packedNodes X' = packedNodes X ++ [.leaf (chunkAt X' (chunkCount X))] := by
  rw [packedNodes_eq, packedNodes_eq, chunks_snoc_eq X X' hc hoth]
  simp

/-- one chunk fewer: the old last chunk position now holds the zero chunk -/
theorem packedNodes_shrink_eq (X X' : Bytes) (hc : chunkCount X' + 1 = chunkCount X)
    (hoth : ∀ k, k < chunkCount X' → chunkAt X' k = chunkAt X k) :
    (packedNodes X).set (chunkCount X') (.leaf z0) = packedNodes X' ++ [.leaf z0] := by
  have h1 := packedNodes_snoc_eq X' X hc.symm (fun k hk => (hoth k hk).symm)
  rw [h1, List.set_append, if_neg (by rw [packedNodes_length]; omega), packedNodes_length,
    Nat.sub_self]
  rfl

/-! ### splicing a piece into a byte string -/

/-- `X'` is `X` with the bytes `[a, a + new.length)` replaced by `new` (reading zeros beyond
    the ends) -/
def Upd (X X' : Bytes) (a : Nat) (new : Bytes) : Prop :=
  ∀ p, X'.getD p 0 = if a ≤ p ∧ p < a + new.length then new.getD (p - a) 0 else X.getD p 0

theorem upd_splice (X : Bytes) (a : Nat) (new : Bytes) (hfit : a + new.length ≤ X.length) :
    Upd X (X.take a ++ new ++ X.drop (a + new.length)) a new := by
  intro p
  rw [getD_append', getD_append', getD_take', getD_drop']
  have hl : (X.take a).length = a := by simp; omega
  simp only [List.length_append, hl]
  by_cases h1 : p < a
  · rw [if_pos (by omega), if_pos h1, if_pos h1, if_neg (by omega)]
  · by_cases h2 : p < a + new.length
    · rw [if_pos h2, if_neg h1, if_pos (by omega)]
    · rw [if_neg h2, if_neg (by omega)]
      congr 1; omega

theorem upd_append (X : Bytes) (new : Bytes) : Upd X (X ++ new) X.length new := by
  intro p
  rw [getD_append']
  by_cases h1 : p < X.length
  · rw [if_pos h1, if_neg (by omega)]
  · rw [if_neg h1]
    by_cases h2 : p < X.length + new.length
    · rw [if_pos ⟨by omega, h2⟩]
    · rw [if_neg (by omega), getD_ge _ _ _ (by omega), getD_ge _ _ _ (by omega)]

theorem upd_truncate (X : Bytes) (a : Nat) (ha : a ≤ X.length) :
    Upd X (X.take a) a (List.replicate (X.length - a) 0) := by
  intro p
  rw [getD_take', getD_replicate_self, List.length_replicate]
  by_cases h1 : p < a
  · rw [if_pos h1, if_neg (by omega)]
  · rw [if_neg h1]
    by_cases h2 : p < X.length
    · rw [if_pos ⟨by omega, by omega⟩]
    · rw [if_neg (by omega), getD_ge _ _ _ (by omega)]

/-- splice inside one 32-byte root -/
def spliceRoot (r : Root) (off : Nat) (new : Bytes) : Root :=
  r.take off ++ new ++ r.drop (off + new.length)

theorem spliceRoot_length (r : Root) (off : Nat) (new : Bytes) (hr : r.length = 32)
    (hfit : off + new.length ≤ 32) : (spliceRoot r off new).length = 32 := by
  simp [spliceRoot, hr]; omega

/-- the read-modify-write of the chunk holding the replaced piece -/
theorem upd_chunk_hit {X X' : Bytes} {a : Nat} {new : Bytes} (hu : Upd X X' a new)
    (hfit : a % 32 + new.length ≤ 32) :
    spliceRoot (chunkAt X (a / 32)) (a % 32) new = chunkAt X' (a / 32) := by
  have hsl := spliceRoot_length (chunkAt X (a / 32)) (a % 32) new (by simp) hfit
  apply ext_getD 0 (by simp [hsl])
  intro q hq
  have hq' : q < 32 := by omega
  rw [chunkAt_getD _ _ _ hq', hu]
  have hupd := upd_splice (chunkAt X (a / 32)) (a % 32) new (by simp; omega)
  have := hupd q
  unfold spliceRoot
  rw [this, chunkAt_getD _ _ _ hq']
  have h32 : 32 * (a / 32) + a % 32 = a := Nat.div_add_mod a 32
  by_cases hc : a % 32 ≤ q ∧ q < a % 32 + new.length
  · rw [if_pos hc, if_pos ⟨by omega, by omega⟩]
    congr 1; omega
  · rw [if_neg hc, if_neg (by omega)]

/-- every other chunk is untouched -/
theorem upd_chunk_miss {X X' : Bytes} {a : Nat} {new : Bytes} (hu : Upd X X' a new)
    (hfit : a % 32 + new.length ≤ 32) (k : Nat) (hk : k ≠ a / 32) :
    chunkAt X' k = chunkAt X k := by
  apply chunkAt_ext
  intro q hq
  rw [hu, if_neg]
  have h32 : 32 * (a / 32) + a % 32 = a := Nat.div_add_mod a 32
  rcases Nat.lt_or_gt_of_ne hk with h | h
  · have : 32 * k + 32 ≤ 32 * (a / 32) := by omega
    omega
  · have : 32 * (a / 32) + 32 ≤ 32 * k := by omega
    omega

theorem basicIntoChunk_eq (size : Nat) (r : Root) (i val : Nat) :
    basicIntoChunk size r i val = spliceRoot r (size * i) (leBytes size val) := by
  simp [basicIntoChunk, spliceRoot]

/-! ### uniform pieces -/

theorem flatten_set_uniform {α : Type} (b : Nat) (l' : List α) : ∀ (ls : List (List α)) (i : Nat),
    i < ls.length → (∀ l ∈ ls, l.length = b) →
    (ls.set i l').flatten = ls.flatten.take (b * i) ++ l' ++ ls.flatten.drop (b * i + b) := by
  intro ls
  induction ls with
  | nil => intro i hi; simp at hi
  | cons l ls ih =>
    intro i hi hall
    have hl : l.length = b := hall l List.mem_cons_self
    cases i with
    | zero =>
      simp only [List.set_cons_zero, List.flatten_cons, Nat.mul_zero, List.take_zero, List.nil_append,
        Nat.zero_add]
      rw [← hl, List.drop_left]
    | succ i =>
      simp only [List.set_cons_succ, List.flatten_cons]
      rw [ih i (by simpa using hi) (fun x hx => hall x (List.mem_cons_of_mem _ hx))]
      have e1 : b * (i + 1) = l.length + b * i := by rw [Nat.mul_succ, hl]; omega
      rw [e1, Nat.add_assoc, List.take_length_add_append, List.drop_length_add_append]
      simp

theorem flatten_dropLast_uniform {α : Type} (b : Nat) : ∀ (ls : List (List α)),
    (∀ l ∈ ls, l.length = b) → ls.dropLast.flatten = ls.flatten.take (b * (ls.length - 1)) := by
  intro ls
  induction ls with
  | nil => intro _; simp
  | cons l ls ih =>
    intro hall
    have hl : l.length = b := hall l List.mem_cons_self
    cases ls with
    | nil => simp
    | cons l2 ls =>
      simp only [List.dropLast_cons_cons, List.flatten_cons, List.length_cons]
      have := ih (fun x hx => hall x (List.mem_cons_of_mem _ hx))
      simp only [List.flatten_cons, List.length_cons] at this
      rw [this]
      have e1 : b * (ls.length + 1 + 1 - 1) = l.length + b * (ls.length + 1 - 1) := by
        rw [hl]; simp [Nat.mul_succ]; omega
      rw [e1, List.take_length_add_append]

theorem leBytes_zero (k : Nat) : leBytes k 0 = List.replicate k 0 := by
  induction k with
  | zero => rfl
  | succ k ih => simp [leBytes, ih, List.replicate_succ]

/-! ### packed uint series -/

/-- the flattened element bytes of a uint series -/
def flat (b : Nat) (vs : List Val) : Bytes := (serList (.uint b) vs).flatten

theorem serList_uniform (b : Nat) (vs : List Val) (hall : allHaveType (.uint b) vs = true) :
    ∀ l ∈ serList (.uint b) vs, l.length = b := by
  intro l hl
  obtain ⟨w, hw, rfl⟩ := mem_serList _ vs l hl
  have := serialize_fixed_length w (.uint b) (uint_isFixed b) (allHaveType_mem _ vs hall w hw)
  simpa [Ty.fixedSize] using this

theorem flat_length (b : Nat) (vs : List Val) (hall : allHaveType (.uint b) vs = true) :
    (flat b vs).length = b * vs.length := by
  unfold flat; rw [basic_flatten_length b vs hall, Nat.mul_comm]

theorem flat_set (b : Nat) (vs : List Val) (i m : Nat) (hi : i < vs.length)
    (hall : allHaveType (.uint b) vs = true) :
    Upd (flat b vs) (flat b (vs.set i (.num m))) (b * i) (leBytes b m) := by
  have hfl := flat_length b vs hall
  have : flat b (vs.set i (.num m)) =
      (flat b vs).take (b * i) ++ leBytes b m ++ (flat b vs).drop (b * i + b) := by
    unfold flat
    rw [serList_eq_map, List.map_set, ← serList_eq_map,
      flatten_set_uniform b _ _ i (by simpa using hi) (serList_uniform b vs hall)]
    simp only [serialize]
  rw [this]
  have h2 := upd_splice (flat b vs) (b * i) (leBytes b m) (by
    rw [hfl, leBytes_length]
    have : b * i + b = b * (i + 1) := by rw [Nat.mul_succ]
    rw [this]; exact Nat.mul_le_mul_left b hi)
  simpa using h2

theorem flat_append (b : Nat) (vs : List Val) (m : Nat) (hall : allHaveType (.uint b) vs = true) :
    Upd (flat b vs) (flat b (vs ++ [.num m])) (b * vs.length) (leBytes b m) := by
  have hfl := flat_length b vs hall
  have : flat b (vs ++ [.num m]) = flat b vs ++ leBytes b m := by
    unfold flat
    rw [serList_eq_map, List.map_append, ← serList_eq_map]
    simp [serialize]
  rw [this, ← hfl]
  exact upd_append _ _

theorem flat_dropLast (b : Nat) (vs : List Val) (hne : 0 < vs.length)
    (hall : allHaveType (.uint b) vs = true) :
    Upd (flat b vs) (flat b vs.dropLast) (b * (vs.length - 1)) (leBytes b 0) := by
  have hfl := flat_length b vs hall
  have : flat b vs.dropLast = (flat b vs).take (b * (vs.length - 1)) := by
    unfold flat
    rw [serList_eq_map, List.map_dropLast, ← serList_eq_map,
      flatten_dropLast_uniform b _ (serList_uniform b vs hall), serList_length]
  rw [this, leBytes_zero]
  have hle : b * (vs.length - 1) ≤ (flat b vs).length := by
    rw [hfl]; exact Nat.mul_le_mul_left b (by omega)
  have h2 := upd_truncate (flat b vs) (b * (vs.length - 1)) hle
  have e : (flat b vs).length - b * (vs.length - 1) = b := by
    rw [hfl]
    have : vs.length = (vs.length - 1) + 1 := by omega
    conv => lhs; lhs; rw [this, Nat.mul_succ]
    omega
  rw [e] at h2
  exact h2

/-! ### bits -/

/-- `bs'` is `bs` with position `i` set to `b` (reading `false` beyond the end) -/
def BUpd (bs bs' : List Bool) (i : Nat) (b : Bool) : Prop :=
  ∀ p, bs'.getD p false = if p = i then b else bs.getD p false

theorem bupd_set (bs : List Bool) (i : Nat) (b : Bool) (hi : i < bs.length) :
    BUpd bs (bs.set i b) i b := by
  intro p
  simp only [List.getD_eq_getElem?_getD, List.getElem?_set]
  by_cases hp : p = i
  · subst hp; simp [hi]
  · rw [if_neg (fun hh => hp hh.symm), if_neg hp]

theorem bupd_append (bs : List Bool) (b : Bool) : BUpd bs (bs ++ [b]) bs.length b := by
  intro p
  rw [getD_append']
  by_cases hp : p = bs.length
  · subst hp; simp
  · rw [if_neg hp]
    by_cases h1 : p < bs.length
    · rw [if_pos h1]
    · rw [if_neg h1, getD_ge _ _ _ (by simp; omega), getD_ge _ _ _ (by omega)]

theorem bupd_dropLast (bs : List Bool) (hne : 0 < bs.length) :
    BUpd bs bs.dropLast (bs.length - 1) false := by
  intro p
  simp only [List.getD_eq_getElem?_getD, List.getElem?_dropLast]
  by_cases hp : p = bs.length - 1
  · rw [if_pos hp, if_neg (by omega)]; rfl
  · rw [if_neg hp]
    by_cases h1 : p < bs.length - 1
    · rw [if_pos h1]
    · rw [if_neg h1, List.getElem?_eq_none (by omega)]

/-- bit `m` of a byte -/
def byteBit (x : UInt8) (m : Nat) : Bool := x.toNat / 2 ^ m % 2 == 1

theorem byteBit_eq_testBit (x : UInt8) (m : Nat) : byteBit x m = x.toNat.testBit m := by
  unfold byteBit
  rw [Nat.testBit_eq_decide_div_mod_eq]
  cases h : x.toNat / 2 ^ m % 2 == 1 <;> simp_all

theorem byte_ext {x y : UInt8} (h : ∀ m, m < 8 → byteBit x m = byteBit y m) : x = y := by
  apply UInt8.toNat_inj.mp
  apply Nat.eq_of_testBit_eq
  intro m
  by_cases hm : m < 8
  · rw [← byteBit_eq_testBit, ← byteBit_eq_testBit, h m hm]
  · have h256 : (2 : Nat) ^ 8 ≤ 2 ^ m := Nat.pow_le_pow_right (by omega) (by omega)
    rw [Nat.testBit_lt_two_pow (Nat.lt_of_lt_of_le x.toNat_lt h256),
      Nat.testBit_lt_two_pow (Nat.lt_of_lt_of_le y.toNat_lt h256)]

theorem not_mask_testBit : ∀ s, s < 8 → ∀ m, m < 8 → (255 - 2 ^ s).testBit m = decide (m ≠ s) := by
  decide

/-- the byte written by `bitIntoChunk` -/
def setBit (x : UInt8) (s : Nat) (b : Bool) : UInt8 :=
  if b then x ||| UInt8.ofNat (2 ^ s) else x &&& (~~~ UInt8.ofNat (2 ^ s))

theorem setBit_bit (x : UInt8) (s : Nat) (b : Bool) (hs : s < 8) (m : Nat) (hm : m < 8) :
    byteBit (setBit x s b) m = if m = s then b else byteBit x m := by
  have hmask : (UInt8.ofNat (2 ^ s)).toNat = 2 ^ s := by
    rw [UInt8.toNat_ofNat']
    apply Nat.mod_eq_of_lt
    have : (2 : Nat) ^ s < 2 ^ 8 := Nat.pow_lt_pow_right (by omega) hs
    omega
  rw [byteBit_eq_testBit, byteBit_eq_testBit]
  unfold setBit
  cases b
  · simp only [Bool.false_eq_true, if_false]
    rw [UInt8.toNat_and, UInt8.toNat_not, hmask, Nat.testBit_and]
    have : UInt8.size - 1 = 255 := rfl
    rw [this, not_mask_testBit s hs m hm]
    by_cases hms : m = s
    · simp [hms]
    · simp [hms]
  · simp only [if_true]
    rw [UInt8.toNat_or, hmask, Nat.testBit_or, Nat.testBit_two_pow]
    by_cases hms : m = s
    · simp [hms]
    · have : ¬ s = m := fun hh => hms hh.symm
      simp [hms, this]

theorem packBits_bit (bs : List Bool) (q m : Nat) (hm : m < 8) :
    byteBit ((packBits bs).getD q 0) m = bs.getD (8 * q + m) false := by
  unfold byteBit
  rw [packBits_getD, byteOfBits_bit _ _ (by simp; omega)]
  rw [List.getD_eq_getElem?_getD, List.getElem?_take, if_pos hm, List.getElem?_drop,
    ← List.getD_eq_getElem?_getD]

/-- at byte level, setting one bit replaces one byte -/
theorem bupd_bytes {bs bs' : List Bool} {i : Nat} {b : Bool} (hu : BUpd bs bs' i b) :
    Upd (packBits bs) (packBits bs') (i / 8) [setBit ((packBits bs).getD (i / 8) 0) (i % 8) b] := by
  intro p
  simp only [List.length_singleton]
  by_cases hp : i / 8 ≤ p ∧ p < i / 8 + 1
  · have hpe : p = i / 8 := by omega
    rw [if_pos hp, hpe, Nat.sub_self]
    simp only [List.getD_cons_zero]
    apply byte_ext
    intro m hm
    rw [packBits_bit _ _ _ hm, hu, setBit_bit _ _ _ (by omega) m hm, packBits_bit _ _ _ hm]
    by_cases hms : m = i % 8
    · rw [if_pos hms, if_pos (by omega)]
    · rw [if_neg hms, if_neg (by omega)]
  · rw [if_neg hp]
    apply byte_ext
    intro m hm
    rw [packBits_bit _ _ _ hm, packBits_bit _ _ _ hm, hu, if_neg (by omega)]

theorem bitIntoChunk_eq (r : Root) (i : Nat) (b : Bool) :
    bitIntoChunk r i b = spliceRoot r (i % 256 / 8) [setBit (r.getD (i % 256 / 8) 0) (i % 256 % 8) b] := by
  unfold bitIntoChunk spliceRoot setBit
  cases b <;> simp

/-- `bitIntoChunk` on the chunk holding bit `i` gives that chunk of the updated bitfield -/
theorem bupd_chunk_hit {bs bs' : List Bool} {i : Nat} {b : Bool} (hu : BUpd bs bs' i b) :
    bitIntoChunk (chunkAt (packBits bs) (i / 256)) i b = chunkAt (packBits bs') (i / 256) := by
  have h1 := upd_chunk_hit (bupd_bytes hu) (by simp; omega)
  have e1 : i / 8 / 32 = i / 256 := by omega
  have e2 : i / 8 % 32 = i % 256 / 8 := by omega
  have e3 : i % 256 % 8 = i % 8 := by omega
  rw [e1, e2] at h1
  rw [bitIntoChunk_eq, chunkAt_getD _ _ _ (by omega), e3]
  have e4 : 32 * (i / 256) + i % 256 / 8 = i / 8 := by omega
  rw [e4]
  exact h1

theorem bupd_chunk_miss {bs bs' : List Bool} {i : Nat} {b : Bool} (hu : BUpd bs bs' i b)
    (k : Nat) (hk : k ≠ i / 256) : chunkAt (packBits bs') k = chunkAt (packBits bs) k := by
  apply upd_chunk_miss (bupd_bytes hu) (by simp; omega) k
  have e1 : i / 8 / 32 = i / 256 := by omega
  rw [e1]; exact hk

theorem bits_chunkCount (bs : List Bool) : chunkCount (packBits bs) = (bs.length + 255) / 256 := by
  unfold chunkCount
  rw [packBits_length]; omega

end RepMut
end ZtypV
