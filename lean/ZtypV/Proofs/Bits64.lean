/-
Helper lemmas for property C16 (`Props/C16.lean`) about the model `Model/Bits64.lean`.
Core Lean only.
-/
import ZtypV.Model.Bits64
namespace ZtypV.Bits64

/-! ### shifts -/

theorem toNat_toUInt64_of_lt {n : Nat} (h : n < 64) : (n.toUInt64).toNat = n := by
  rw [Nat.toUInt64_eq]
  exact UInt64.toNat_ofNat_of_lt' (by simp only [UInt64.size]; omega)

theorem shr64_toNat (x : UInt64) (n : Nat) : (shr64 x n).toNat = x.toNat / 2 ^ n := by
  unfold shr64
  split
  · rename_i h
    have hx := x.toNat_lt
    have : 2 ^ 64 ≤ 2 ^ n := Nat.pow_le_pow_right (by omega) h
    rw [Nat.div_eq_of_lt (by omega)]; rfl
  · rename_i h
    rw [UInt64.toNat_shiftRight, toNat_toUInt64_of_lt (by omega),
      Nat.mod_eq_of_lt (show n < 64 by omega), Nat.shiftRight_eq_div_pow]

theorem shl64_toNat (x : UInt64) (n : Nat) : (shl64 x n).toNat = x.toNat * 2 ^ n % 2 ^ 64 := by
  unfold shl64
  split
  · rename_i h
    have : 2 ^ n = 2 ^ 64 * 2 ^ (n - 64) := by rw [← Nat.pow_add]; congr 1; omega
    rw [this, ← Nat.mul_assoc, Nat.mul_comm _ (2 ^ 64), Nat.mul_assoc, Nat.mul_mod_right]; rfl
  · rename_i h
    rw [UInt64.toNat_shiftLeft, toNat_toUInt64_of_lt (by omega),
      Nat.mod_eq_of_lt (show n < 64 by omega), Nat.shiftLeft_eq]

theorem shl64_one_toNat {n : Nat} (h : n < 64) : (shl64 1 n).toNat = 2 ^ n := by
  rw [shl64_toNat, UInt64.toNat_one, Nat.one_mul]
  exact Nat.mod_eq_of_lt (Nat.pow_lt_pow_right (by omega) h)

/-! ### logarithm facts -/

theorem log2_div_two_pow {v k : Nat} (h : 2 ^ k ≤ v) :
    Nat.log2 (v / 2 ^ k) + k = Nat.log2 v := by
  have hpos : 0 < 2 ^ k := Nat.two_pow_pos k
  have hv : v ≠ 0 := by omega
  have hq : v / 2 ^ k ≠ 0 := by
    have : 1 ≤ v / 2 ^ k := (Nat.le_div_iff_mul_le hpos).mpr (by omega)
    omega
  have hk : k ≤ Nat.log2 v := (Nat.le_log2 hv).mpr h
  have : Nat.log2 (v / 2 ^ k) = Nat.log2 v - k := by
    rw [Nat.log2_eq_iff hq]
    constructor
    · rw [Nat.le_div_iff_mul_le hpos, ← Nat.pow_add]
      have : Nat.log2 v - k + k = Nat.log2 v := by omega
      rw [this]; exact Nat.log2_self_le hv
    · rw [Nat.div_lt_iff_lt_mul hpos, ← Nat.pow_add]
      have : Nat.log2 v - k + 1 + k = Nat.log2 v + 1 := by omega
      rw [this]; exact Nat.lt_log2_self
  omega

theorem log2_lt_64 (v : UInt64) : Nat.log2 v.toNat < 64 := by
  by_cases h : v.toNat = 0
  · rw [h]; decide
  · exact (Nat.log2_lt h).mpr v.toNat_lt

/-! ### the mask test is a comparison -/

/-- for `v < 2^64`: `v & ^(2^k - 1) = 0 ↔ v < 2^k` -/
theorem and_mask_eq_zero_iff (v k : Nat) (hk : k ≤ 64) (hv : v < 2 ^ 64) :
    v &&& (2 ^ 64 - 2 ^ k) = 0 ↔ v < 2 ^ k := by
  have hM : (2 ^ 64 - 2 ^ k) = (2 ^ (64 - k) - 1) <<< k := by
    rw [Nat.shiftLeft_eq, Nat.sub_mul, Nat.one_mul, ← Nat.pow_add]
    congr 2; omega
  have hpos : 0 < 2 ^ k := Nat.two_pow_pos k
  constructor
  · intro h0
    have h1 : (v &&& (2 ^ 64 - 2 ^ k)) >>> k = 0 := by rw [h0]; simp
    rw [Nat.shiftRight_and_distrib, hM, Nat.shiftLeft_shiftRight,
      Nat.and_two_pow_sub_one_eq_mod] at h1
    have h2 : v >>> k < 2 ^ (64 - k) := by
      rw [Nat.shiftRight_eq_div_pow]
      apply (Nat.div_lt_iff_lt_mul hpos).mpr
      rw [← Nat.pow_add]; have : 64 - k + k = 64 := by omega
      rw [this]; exact hv
    rw [Nat.mod_eq_of_lt h2, Nat.shiftRight_eq_div_pow] at h1
    exact (Nat.div_eq_zero_iff_lt hpos).mp h1
  · intro hlt
    apply Nat.eq_of_testBit_eq
    intro i
    simp only [Nat.testBit_and, Nat.zero_testBit, hM, Nat.testBit_shiftLeft]
    by_cases hi : k ≤ i
    · have : v.testBit i = false :=
        Nat.testBit_lt_two_pow (Nat.lt_of_lt_of_le hlt (Nat.pow_le_pow_right (by omega) hi))
      simp [this]
    · simp [hi]

/-- `a | 2^j = a + 2^j` when `2^(j+1)` divides `a` -/
theorem or_two_pow_of_dvd {a j : Nat} (h : 2 ^ (j + 1) ∣ a) : a ||| 2 ^ j = a + 2 ^ j := by
  obtain ⟨c, rfl⟩ := h
  exact (Nat.two_pow_add_eq_or_of_lt (Nat.pow_lt_pow_right (by omega) (by omega)) c).symm

/-! ### `BitIndex` -/

/-- invariant of the binary search before the block with shift `2^j`
    (`w = j+1`): the remaining value is below `2^(2^w)`, the accumulated output is a multiple
    of `2^w`, and `log2` of the original equals `log2` of the rest plus the output. -/
structure Inv (w n : Nat) (s : UInt64 × UInt8) : Prop where
  pos : 0 < s.1.toNat
  lt : s.1.toNat < 2 ^ (2 ^ w)
  log : Nat.log2 n = Nat.log2 s.1.toNat + s.2.toNat
  al : 2 ^ w ∣ s.2.toNat
  bd : s.2.toNat + 2 ^ w ≤ 64

theorem step_inv {j n : Nat} {mask : UInt64} {bit : UInt8} {s : UInt64 × UInt8}
    (hj : j ≤ 5) (hm : mask.toNat = 2 ^ 64 - 2 ^ (2 ^ j)) (hb : bit.toNat = 2 ^ j)
    (h : Inv (j + 1) n s) : Inv j n (step mask bit s) := by
  have hk64 : 2 ^ j ≤ 32 := by
    have : 2 ^ j ≤ 2 ^ 5 := Nat.pow_le_pow_right (by omega) hj
    omega
  have hcond : (s.1 &&& mask = 0) ↔ s.1.toNat < 2 ^ (2 ^ j) := by
    rw [← UInt64.toNat_inj, UInt64.toNat_and, hm, UInt64.toNat_zero]
    exact and_mask_eq_zero_iff _ _ (by omega) s.1.toNat_lt
  have hdvd : 2 ^ j ∣ s.2.toNat :=
    Nat.dvd_trans (Nat.pow_dvd_pow 2 (by omega)) h.al
  have hbd := h.bd
  have hpow : 2 ^ (j + 1) = 2 * 2 ^ j := by rw [Nat.pow_succ, Nat.mul_comm]
  unfold step
  split
  · rename_i hc
    have hge : 2 ^ (2 ^ j) ≤ s.1.toNat := by
      have : ¬ s.1 &&& mask = 0 := by simpa using hc
      rw [hcond] at this; omega
    have hpos : 0 < 2 ^ (2 ^ j) := Nat.two_pow_pos _
    have hout : (s.2 ||| bit).toNat = s.2.toNat + 2 ^ j := by
      rw [UInt8.toNat_or, hb]; exact or_two_pow_of_dvd h.al
    refine ⟨?_, ?_, ?_, ?_, ?_⟩
    · show 0 < (shr64 s.1 bit.toNat).toNat
      rw [shr64_toNat, hb]
      exact (Nat.le_div_iff_mul_le hpos).mpr (by omega)
    · show (shr64 s.1 bit.toNat).toNat < _
      rw [shr64_toNat, hb, Nat.div_lt_iff_lt_mul hpos, ← Nat.pow_add]
      have : 2 ^ j + 2 ^ j = 2 ^ (j + 1) := by omega
      rw [this]; exact h.lt
    · show _ = Nat.log2 (shr64 s.1 bit.toNat).toNat + (s.2 ||| bit).toNat
      rw [shr64_toNat, hb, hout, h.log]
      have := log2_div_two_pow hge
      omega
    · show 2 ^ j ∣ (s.2 ||| bit).toNat
      rw [hout]; exact Nat.dvd_add hdvd (Nat.dvd_refl _)
    · show (s.2 ||| bit).toNat + 2 ^ j ≤ 64
      rw [hout]; omega
  · rename_i hc
    have hlt : s.1.toNat < 2 ^ (2 ^ j) := by
      have : s.1 &&& mask = 0 := by simpa using hc
      exact hcond.mp this
    exact ⟨h.pos, hlt, h.log, hdvd, by omega⟩

theorem bitIndex_zero : bitIndex 0 = 0 := by decide

theorem bitIndex_eq_step {v : UInt64} (hv : v ≠ 0) :
    bitIndex v = (step mask0 bit0 (step mask1 bit1 (step mask2 bit2 (step mask3 bit3
      (step mask4 bit4 (step mask5 bit5 (v, 0))))))).2 := by
  have : (v == 0) = false := by simpa using hv
  unfold bitIndex
  rw [this]
  simp only [Bool.false_eq_true, if_false]
  generalize (step mask1 bit1 (step mask2 bit2 (step mask3 bit3
      (step mask4 bit4 (step mask5 bit5 (v, 0)))))) = s
  unfold step
  split <;> rfl

/-- `BitIndex(v) = ⌊log2 v⌋` for `v ≠ 0` -/
theorem bitIndex_toNat {v : UInt64} (hv : v ≠ 0) : (bitIndex v).toNat = Nat.log2 v.toNat := by
  have hv' : 0 < v.toNat := by
    have : v.toNat ≠ 0 := fun h => hv (UInt64.toNat_inj.mp (by rw [h]; rfl))
    omega
  have h6 : Inv 6 v.toNat (v, 0) :=
    ⟨hv', v.toNat_lt, by simp, ⟨0, by simp⟩, by simp⟩
  have h5 := step_inv (mask := mask5) (bit := bit5) (by omega) (by decide) (by decide) h6
  have h4 := step_inv (mask := mask4) (bit := bit4) (by omega) (by decide) (by decide) h5
  have h3 := step_inv (mask := mask3) (bit := bit3) (by omega) (by decide) (by decide) h4
  have h2 := step_inv (mask := mask2) (bit := bit2) (by omega) (by decide) (by decide) h3
  have h1 := step_inv (mask := mask1) (bit := bit1) (by omega) (by decide) (by decide) h2
  have h0 := step_inv (mask := mask0) (bit := bit0) (by omega) (by decide) (by decide) h1
  rw [bitIndex_eq_step hv]
  generalize (step mask0 bit0 _) = s at h0
  have hlt := h0.lt
  have hpos := h0.pos
  have h1' : s.1.toNat = 1 := by simp at hlt; omega
  have := h0.log
  have hl1 : Nat.log2 1 = 0 := Nat.log2_two_pow (n := 0)
  rw [h1', hl1] at this
  omega

theorem toNat_ne_zero {v : UInt64} (hv : v ≠ 0) : v.toNat ≠ 0 :=
  fun h => hv (UInt64.toNat_inj.mp (by rw [h]; rfl))

theorem ne_zero_of_toNat {v : UInt64} (h : v.toNat ≠ 0) : v ≠ 0 := by
  intro h0; subst h0; exact h rfl

/-- `BitIndex(v) = ⌊log2 v⌋`, also for 0 (both sides 0) -/
theorem bitIndex_toNat' (v : UInt64) : (bitIndex v).toNat = Nat.log2 v.toNat := by
  by_cases hv : v = 0
  · subst hv; decide
  · exact bitIndex_toNat hv

theorem bitIndex_lt (v : UInt64) : (bitIndex v).toNat < 64 := by
  rw [bitIndex_toNat']; exact log2_lt_64 v

theorem bitLength_toNat {v : UInt64} (hv : v ≠ 0) :
    (bitLength v).toNat = Nat.log2 v.toNat + 1 := by
  have : (v == 0) = false := by simpa using hv
  unfold bitLength
  rw [this]
  simp only [Bool.false_eq_true, if_false]
  rw [UInt8.toNat_add, bitIndex_toNat']
  have := log2_lt_64 v
  show (_ + 1) % 256 = _
  omega

theorem toNat_sub_one {v : UInt64} (hv : v ≠ 0) : (v - 1).toNat = v.toNat - 1 := by
  have h0 := toNat_ne_zero hv
  have := v.toNat_lt
  rw [UInt64.toNat_sub, UInt64.toNat_one]
  omega

theorem coverDepth_toNat (v : UInt64) :
    (coverDepth v).toNat = if v.toNat ≤ 1 then 0 else Nat.log2 (v.toNat - 1) + 1 := by
  unfold coverDepth
  by_cases h0 : v = 0
  · subst h0; rfl
  by_cases h1 : v = 1
  · subst h1; rfl
  have hc : (v == 0 || v == 1) = false := by simp [h0, h1]
  have hn0 := toNat_ne_zero h0
  have hn1 : v.toNat ≠ 1 := fun h => h1 (UInt64.toNat_inj.mp (by rw [h]; rfl))
  rw [hc]
  simp only [Bool.false_eq_true, if_false]
  rw [if_neg (by omega), UInt8.toNat_add, bitIndex_toNat', toNat_sub_one h0]
  have := log2_lt_64 (v - 1)
  rw [toNat_sub_one h0] at this
  show (_ + 1) % 256 = _
  omega

/-! ### single-bit tests -/

theorem and_two_pow_eq (n k : Nat) : n &&& 2 ^ k = if n.testBit k then 2 ^ k else 0 := by
  apply Nat.eq_of_testBit_eq
  intro i
  rw [Nat.testBit_and, Nat.testBit_two_pow]
  by_cases hb : n.testBit k = true
  · rw [if_pos hb, Nat.testBit_two_pow]
    by_cases hik : k = i
    · subst hik; simp [hb]
    · simp [hik]
  · rw [if_neg hb, Nat.zero_testBit]
    by_cases hik : k = i
    · subst hik; simp at hb; simp [hb]
    · simp [hik]

theorem and_two_pow_eq_zero_iff (n k : Nat) : n &&& 2 ^ k = 0 ↔ n.testBit k = false := by
  rw [and_two_pow_eq]
  have : 0 < 2 ^ k := Nat.two_pow_pos k
  by_cases hb : n.testBit k = true
  · rw [if_pos hb]; simp [hb]
  · rw [if_neg hb]; simpa using hb

/-! ### navigation -/

theorem anchor_toNat (v : UInt64) : (anchor v).toNat = 2 ^ Nat.log2 v.toNat := by
  unfold anchor
  rw [shl64_one_toNat (bitIndex_lt v), bitIndex_toNat']

theorem left_toNat (v : UInt64) : (left v).toNat = 2 * v.toNat % 2 ^ 64 := by
  unfold left; rw [shl64_toNat, Nat.mul_comm]

theorem right_toNat {v : UInt64} (h : v.toNat < 2 ^ 63) : (right v).toNat = 2 * v.toNat + 1 := by
  unfold right
  rw [UInt64.toNat_or, shl64_toNat, UInt64.toNat_one, Nat.mod_eq_of_lt (by omega)]
  have := (Nat.two_pow_add_eq_or_of_lt (i := 1) (b := 1) (by decide) v.toNat)
  rw [Nat.pow_one] at this
  rw [Nat.mul_comm v.toNat 2]
  exact this.symm

theorem parent_toNat (v : UInt64) : (parent v).toNat = v.toNat / 2 := by
  unfold parent; rw [shr64_toNat]

theorem pivot_toNat {v : UInt64} (h : 2 ≤ v.toNat) :
    (shr64 (shl64 1 (bitIndex v).toNat) 1).toNat = 2 ^ (Nat.log2 v.toNat - 1) := by
  have hl : 1 ≤ Nat.log2 v.toNat := (Nat.le_log2 (by omega)).mpr (by omega)
  rw [shr64_toNat, shl64_one_toNat (bitIndex_lt v), bitIndex_toNat']
  exact Nat.pow_div hl (by omega)

theorem isLeft_iff {v : UInt64} (h : 2 ≤ v.toNat) :
    isLeft v = true ↔ v.toNat.testBit (Nat.log2 v.toNat - 1) = false := by
  unfold isLeft
  simp only [beq_iff_eq]
  rw [← UInt64.toNat_inj, UInt64.toNat_and, pivot_toNat h, UInt64.toNat_zero]
  exact and_two_pow_eq_zero_iff _ _

theorem subtree_toNat {v : UInt64} (h : 2 ≤ v.toNat) :
    (subtree v).toNat = 2 ^ (Nat.log2 v.toNat - 1) + v.toNat % 2 ^ (Nat.log2 v.toNat - 1) := by
  have hv0 : v.toNat ≠ 0 := by omega
  have hl : 1 ≤ Nat.log2 v.toNat := (Nat.le_log2 hv0).mpr (by omega)
  unfold subtree
  simp only []
  rw [UInt64.toNat_or, UInt64.toNat_xor, pivot_toNat h, shl64_one_toNat (bitIndex_lt v),
    bitIndex_toNat']
  generalize hL : Nat.log2 v.toNat = L at *
  have hlt : v.toNat < 2 ^ (L + 1) := by rw [← hL]; exact Nat.lt_log2_self
  have htop : v.toNat.testBit L = true := by rw [← hL]; exact Nat.testBit_log2 hv0
  have hmod : v.toNat % 2 ^ (L - 1) < 2 ^ (L - 1) := Nat.mod_lt _ (Nat.two_pow_pos _)
  have hsum : 2 ^ (L - 1) + v.toNat % 2 ^ (L - 1) = 2 ^ (L - 1) ||| v.toNat % 2 ^ (L - 1) := by
    have := Nat.two_pow_add_eq_or_of_lt hmod 1
    simpa using this
  rw [hsum]
  apply Nat.eq_of_testBit_eq
  intro i
  simp only [Nat.testBit_or, Nat.testBit_xor, Nat.testBit_two_pow, Nat.testBit_mod_two_pow]
  by_cases h1 : i < L - 1
  · have : ¬ L = i := by omega
    have : ¬ L - 1 = i := by omega
    simp [*]
  · by_cases h2 : i = L - 1
    · subst h2; simp
    · by_cases h3 : i = L
      · subst h3
        have : ¬ i - 1 = i := by omega
        simp [*]
      · have hhi : v.toNat.testBit i = false :=
          Nat.testBit_lt_two_pow (Nat.lt_of_lt_of_le hlt (Nat.pow_le_pow_right (by omega) (by omega)))
        have : ¬ L = i := by omega
        have : ¬ L - 1 = i := by omega
        simp [*]

/-! ### bit iterator -/

theorem nexts_dead (m : Nat) (it : BitIter) (h : it.marker.toNat ≤ 1) :
    it.nexts m = List.replicate m (false, false) ∧ (m ≠ 0 → (it.after m).marker = 0) := by
  induction m generalizing it with
  | zero => exact ⟨rfl, fun h => absurd rfl h⟩
  | succ m ih =>
    have hz : shr64 it.marker 1 = 0 := by
      apply UInt64.toNat_inj.mp
      rw [shr64_toNat, UInt64.toNat_zero]; omega
    have hn : it.next = ({ it with marker := 0 }, (false, false)) := by
      unfold BitIter.next
      simp only [hz]
      simp
    have ih' := ih { it with marker := 0 } (by simp)
    constructor
    · rw [BitIter.nexts, hn, List.replicate_succ, ih'.1]
    · intro _
      rw [BitIter.after, hn]
      by_cases hm : m = 0
      · subst hm; rfl
      · exact ih'.2 hm

theorem nexts_live (k m : Nat) (it : BitIter) (hk : k < 64) (h : it.marker.toNat = 2 ^ k) :
    it.nexts (k + m) =
      ((List.range k).reverse.map fun i => (it.gindex.toNat.testBit i, true))
        ++ List.replicate m (false, false)
    ∧ (m ≠ 0 → (it.after (k + m)).marker = 0) := by
  induction k generalizing it with
  | zero =>
    simp only [Nat.zero_add, List.range_zero, List.reverse_nil, List.map_nil, List.nil_append]
    exact nexts_dead m it (by rw [h]; simp)
  | succ k ih =>
    have hm' : (shr64 it.marker 1).toNat = 2 ^ k := by
      rw [shr64_toNat, h, Nat.pow_succ]; simp
    have hne : shr64 it.marker 1 ≠ 0 := by
      apply ne_zero_of_toNat; rw [hm']; exact Nat.ne_of_gt (Nat.two_pow_pos k)
    have hbit : (it.gindex &&& shr64 it.marker 1 != 0) = it.gindex.toNat.testBit k := by
      have hiff := and_two_pow_eq_zero_iff it.gindex.toNat k
      have heq : (it.gindex &&& shr64 it.marker 1 = 0) ↔ it.gindex.toNat.testBit k = false := by
        rw [← UInt64.toNat_inj, UInt64.toNat_and, hm', UInt64.toNat_zero]; exact hiff
      cases hb : it.gindex.toNat.testBit k
      · have := heq.mpr hb; simp [this]
      · have : ¬ (it.gindex &&& shr64 it.marker 1 = 0) := by rw [heq, hb]; simp
        simp [this]
    have hn : it.next = ({ it with marker := shr64 it.marker 1 },
        (it.gindex.toNat.testBit k, true)) := by
      unfold BitIter.next
      simp only [hbit]
      simp [hne]
    have ih' := ih { it with marker := shr64 it.marker 1 } (by omega) hm'
    have hsucc : k + 1 + m = (k + m) + 1 := by omega
    constructor
    · rw [hsucc, BitIter.nexts, hn, ih'.1, List.range_succ, List.reverse_append]
      rfl
    · intro hm
      rw [hsucc, BitIter.after, hn]
      exact ih'.2 hm

/-! ### `ToGindex64` -/

theorem toGindex64_eq (i : UInt64) (d : UInt8) :
    toGindex64 i d =
      if d.toNat < 64 ∧ i.toNat < 2 ^ d.toNat then .ok (UInt64.ofNat (2 ^ d.toNat + i.toNat))
      else .error .err := by
  unfold toGindex64
  by_cases hd : d ≥ 64
  · have : ¬ d.toNat < 64 := by
      have := UInt8.le_iff_toNat_le.mp hd
      simp at this; omega
    rw [if_pos hd, if_neg (fun h => this h.1)]
  · have hd' : d.toNat < 64 := by
      have : ¬ (64 : UInt8).toNat ≤ d.toNat := fun h => hd (UInt8.le_iff_toNat_le.mpr h)
      simp at this; omega
    rw [if_neg hd]
    simp only []
    by_cases hi : i ≥ shl64 1 d.toNat
    · have : ¬ i.toNat < 2 ^ d.toNat := by
        have := UInt64.le_iff_toNat_le.mp hi
        rw [shl64_one_toNat hd'] at this; omega
      rw [if_pos hi, if_neg (fun h => this h.2)]
    · have hi' : i.toNat < 2 ^ d.toNat := by
        have : ¬ (shl64 1 d.toNat).toNat ≤ i.toNat := fun h => hi (UInt64.le_iff_toNat_le.mpr h)
        rw [shl64_one_toNat hd'] at this; omega
      rw [if_neg hi, if_pos ⟨hd', hi'⟩]
      congr 1
      apply UInt64.toNat_inj.mp
      have hlt : 2 ^ d.toNat + i.toNat < 2 ^ 64 := by
        have : 2 ^ (d.toNat + 1) ≤ 2 ^ 64 := Nat.pow_le_pow_right (by omega) (by omega)
        rw [Nat.pow_succ] at this; omega
      rw [UInt64.toNat_or, shl64_one_toNat hd', UInt64.toNat_ofNat_of_lt' hlt]
      have := Nat.two_pow_add_eq_or_of_lt hi' 1
      simpa using this.symm

/-! ### byte strings -/

theorem take_leBytes (s k n : Nat) (h : s ≤ k) : (leBytes k n).take s = leBytes s n := by
  induction s generalizing k n with
  | zero => simp [leBytes]
  | succ s ih =>
    obtain ⟨k', rfl⟩ : ∃ k', k = k' + 1 := ⟨k - 1, by omega⟩
    simp only [leBytes, List.take_succ_cons]
    rw [ih k' _ (by omega)]

theorem drop_leBytes (j k n : Nat) : (leBytes k n).drop j = leBytes (k - j) (n / 256 ^ j) := by
  induction j generalizing k n with
  | zero => simp
  | succ j ih =>
    cases k with
    | zero => simp [leBytes]
    | succ k =>
      simp only [leBytes, List.drop_succ_cons]
      rw [ih, Nat.div_div_eq_div_mul, Nat.pow_succ, Nat.mul_comm 256]
      congr 1
      omega

theorem leNat_lt (bs : Bytes) : leNat bs < 256 ^ bs.length := by
  induction bs with
  | nil => simp [leNat]
  | cons b bs ih =>
    simp only [leNat, List.length_cons, Nat.pow_succ]
    have := b.toNat_lt
    omega

theorem leNat_leBytes_of_lt {k n : Nat} (h : n < 256 ^ k) : leNat (leBytes k n) = n := by
  rw [leNat_leBytes, Nat.mod_eq_of_lt h]

theorem beNat_append_singleton (bs : Bytes) (b : UInt8) :
    beNat (bs ++ [b]) = 256 * beNat bs + b.toNat := by
  simp [beNat, List.foldl_append]

theorem beNat_reverse (bs : Bytes) : beNat bs.reverse = leNat bs := by
  induction bs with
  | nil => rfl
  | cons b bs ih =>
    rw [List.reverse_cons, beNat_append_singleton, ih, leNat]; omega

theorem beNat_eq_leNat_reverse (bs : Bytes) : beNat bs = leNat bs.reverse := by
  rw [← beNat_reverse, List.reverse_reverse]

theorem putLE64_eq (v : UInt64) : putLE64 v = leBytes 8 v.toNat := by
  have hb : ∀ (x : UInt64) (m : Nat), x.toNat = m → x.toUInt8 = UInt8.ofNat (m % 256) := by
    intro x m h
    apply UInt8.toNat_inj.mp
    rw [UInt64.toNat_toUInt8, UInt8.toNat_ofNat', h]
    omega
  simp only [putLE64, leBytes]
  rw [hb v _ rfl, hb (shr64 v 8) _ (shr64_toNat v 8), hb (shr64 v 16) _ (shr64_toNat v 16),
    hb (shr64 v 24) _ (shr64_toNat v 24), hb (shr64 v 32) _ (shr64_toNat v 32),
    hb (shr64 v 40) _ (shr64_toNat v 40), hb (shr64 v 48) _ (shr64_toNat v 48),
    hb (shr64 v 56) _ (shr64_toNat v 56)]
  simp only [Nat.div_div_eq_div_mul]

theorem putBE64_eq (v : UInt64) : putBE64 v = (leBytes 8 v.toNat).reverse := by
  rw [← putLE64_eq]; rfl

/-! ### byte-length search (`LittleEndian` / `BigEndian`) -/

/-- invariant before a block with shift `sh`: `c` bytes have been shifted out so far -/
structure LInv (sh n : Nat) (s0 sgn : Int) (st : UInt64 × Int) : Prop where
  pos : 0 < st.1.toNat
  lt : st.1.toNat < 2 ^ (2 * sh)
  rel : ∃ c : Nat, st.2 = s0 + sgn * c ∧ Nat.log2 n = Nat.log2 st.1.toNat + 8 * c

theorem lenStep_inv {w n : Nat} {s0 sgn : Int} {bound : UInt64} {st : UInt64 × Int}
    (hsgn : sgn = 1 ∨ sgn = -1) (hb : bound.toNat = 2 ^ (8 * w))
    (h : LInv (8 * w) n s0 sgn st) :
    LInv (4 * w) n s0 sgn (lenStep bound (8 * w) (sgn * w) st) := by
  have hpos : 0 < 2 ^ (8 * w) := Nat.two_pow_pos _
  unfold lenStep
  split
  · rename_i hc
    have hge : 2 ^ (8 * w) ≤ st.1.toNat := by
      have := UInt64.le_iff_toNat_le.mp hc
      rw [hb] at this; exact this
    obtain ⟨c, hc1, hc2⟩ := h.rel
    refine ⟨?_, ?_, ⟨c + w, ?_, ?_⟩⟩
    · show 0 < (shr64 st.1 (8 * w)).toNat
      rw [shr64_toNat]
      exact (Nat.le_div_iff_mul_le hpos).mpr (by omega)
    · show (shr64 st.1 (8 * w)).toNat < _
      rw [shr64_toNat, Nat.div_lt_iff_lt_mul hpos, ← Nat.pow_add]
      have : 2 * (4 * w) + 8 * w = 2 * (8 * w) := by omega
      rw [this]; exact h.lt
    · show st.2 + sgn * w = s0 + sgn * ((c + w : Nat) : Int)
      rcases hsgn with rfl | rfl <;> omega
    · show _ = Nat.log2 (shr64 st.1 (8 * w)).toNat + 8 * (c + w)
      rw [shr64_toNat, hc2]
      have := log2_div_two_pow hge
      omega
  · rename_i hc
    have hlt : st.1.toNat < 2 ^ (8 * w) := by
      have : ¬ bound.toNat ≤ st.1.toNat := fun h' => hc (UInt64.le_iff_toNat_le.mpr h')
      rw [hb] at this; omega
    refine ⟨h.pos, ?_, h.rel⟩
    have : 2 * (4 * w) = 8 * w := by omega
    rw [this]; exact hlt

/-- the three blocks compute `s0 ± ⌊log2 v / 8⌋` -/
theorem lenSteps_snd {v : UInt64} (hv : v ≠ 0) (s0 sgn : Int) (hsgn : sgn = 1 ∨ sgn = -1) :
    (lenStep 0x100 8 (sgn * 1) (lenStep 0x10000 16 (sgn * 2)
      (lenStep 0x100000000 32 (sgn * 4) (v, s0)))).2 = s0 + sgn * ((Nat.log2 v.toNat / 8 : Nat) : Int) := by
  have hv' : 0 < v.toNat := Nat.pos_of_ne_zero (toNat_ne_zero hv)
  have h4 : LInv (8 * 4) v.toNat s0 sgn (v, s0) :=
    ⟨hv', v.toNat_lt, ⟨0, by simp, by simp⟩⟩
  have h2 := lenStep_inv (w := 4) (bound := 0x100000000) hsgn (by decide) h4
  have h1 := lenStep_inv (w := 2) (bound := 0x10000) hsgn (by decide) h2
  have h0 := lenStep_inv (w := 1) (bound := 0x100) hsgn (by decide) h1
  generalize (lenStep 0x100 (8 * 1) (sgn * ((1 : Nat) : Int)) _) = st at h0
  obtain ⟨c, hc1, hc2⟩ := h0.rel
  have hlt := h0.lt
  have : Nat.log2 st.1.toNat < 8 := (Nat.log2_lt (by have := h0.pos; omega)).mpr hlt
  have : Nat.log2 v.toNat / 8 = c := by omega
  rw [hc1, this]

theorem littleEndian_eq {v : UInt64} (hv : v ≠ 0) :
    littleEndian v = .ok (leBytes (Nat.log2 v.toNat / 8 + 1) v.toNat) := by
  have hc : (v == 0) = false := by simpa using hv
  have hL := log2_lt_64 v
  unfold littleEndian
  rw [hc]
  simp only [Bool.false_eq_true, if_false]
  have := lenSteps_snd hv 1 1 (Or.inl rfl)
  simp only [Int.one_mul] at this
  rw [this, putLE64_eq]
  unfold sliceTo
  rw [if_pos (by rw [leBytes_length]; omega)]
  congr 1
  have : (1 + ((Nat.log2 v.toNat / 8 : Nat) : Int)).toNat = Nat.log2 v.toNat / 8 + 1 := by omega
  rw [this, take_leBytes _ _ _ (by omega)]

theorem bigEndian_eq {v : UInt64} (hv : v ≠ 0) :
    bigEndian v = .ok (leBytes (Nat.log2 v.toNat / 8 + 1) v.toNat).reverse := by
  have hc : (v == 0) = false := by simpa using hv
  have hL := log2_lt_64 v
  unfold bigEndian
  rw [hc]
  simp only [Bool.false_eq_true, if_false]
  have := lenSteps_snd hv 7 (-1) (Or.inr rfl)
  rw [show (-1 : Int) * 1 = -1 from rfl, show (-1 : Int) * 2 = -2 from rfl,
    show (-1 : Int) * 4 = -4 from rfl] at this
  rw [this, putBE64_eq]
  unfold sliceFrom
  rw [if_pos (by rw [List.length_reverse, leBytes_length]; omega)]
  congr 1
  have : (7 + -1 * ((Nat.log2 v.toNat / 8 : Nat) : Int)).toNat = 7 - Nat.log2 v.toNat / 8 := by omega
  rw [this, List.drop_reverse, leBytes_length, take_leBytes _ _ _ (by omega)]
  congr 2
  omega

/-- the byte length `⌊log2 n / 8⌋ + 1` is exactly the minimal one -/
theorem byteLen_bounds {n : Nat} (hn : n ≠ 0) :
    256 ^ (Nat.log2 n / 8) ≤ n ∧ n < 256 ^ (Nat.log2 n / 8 + 1) := by
  have e : ∀ k, 256 ^ k = 2 ^ (8 * k) := by
    intro k; rw [Nat.pow_mul]
  rw [e, e]
  constructor
  · exact Nat.le_trans (Nat.pow_le_pow_right (by omega) (by omega)) (Nat.log2_self_le hn)
  · exact Nat.lt_of_lt_of_le Nat.lt_log2_self (Nat.pow_le_pow_right (by omega) (by omega))

theorem leftAligned_eq {v : UInt64} (hv : v ≠ 0) :
    leftAlignedBigEndian v =
      .ok ((leBytes ((Nat.log2 v.toNat + 8) / 8)
              (v.toNat * 2 ^ (8 * ((Nat.log2 v.toNat + 8) / 8) - (Nat.log2 v.toNat + 1)))).reverse,
           UInt32.ofNat (Nat.log2 v.toNat + 1)) := by
  have hc : (v == 0) = false := by simpa using hv
  have hL := log2_lt_64 v
  have hbl := bitLength_toNat hv
  generalize hLd : Nat.log2 v.toNat = L at *
  have hsub : ((64 : UInt8) - bitLength v).toNat = 63 - L := by
    rw [UInt8.toNat_sub, hbl]; show (2 ^ 8 - (L + 1) + 64) % 2 ^ 8 = _; omega
  have hlen : ((bitLength v + 7) >>> 3).toNat = (L + 8) / 8 := by
    rw [UInt8.toNat_shiftRight, UInt8.toNat_add, hbl]
    show ((L + 1 + 7) % 256) >>> 3 = _
    rw [Nat.shiftRight_eq_div_pow]
    show (L + 1 + 7) % 256 / 8 = _
    omega
  have hvlt : v.toNat < 2 ^ (L + 1) := by rw [← hLd]; exact Nat.lt_log2_self
  have hshift : (shl64 v (63 - L)).toNat = v.toNat * 2 ^ (63 - L) := by
    rw [shl64_toNat]
    apply Nat.mod_eq_of_lt
    have : 2 ^ (L + 1) * 2 ^ (63 - L) = 2 ^ 64 := by rw [← Nat.pow_add]; congr 1; omega
    rw [← this]
    exact Nat.mul_lt_mul_of_lt_of_le hvlt (Nat.le_refl _) (Nat.two_pow_pos _)
  unfold leftAlignedBigEndian
  rw [hc]
  simp only [Bool.false_eq_true, if_false]
  rw [hsub, hlen, putBE64_eq, hshift]
  unfold sliceTo
  rw [if_pos (by rw [List.length_reverse, leBytes_length]; omega)]
  simp only [Int.toNat_natCast]
  rw [List.take_reverse, leBytes_length, drop_leBytes]
  have hk : 8 - (8 - (L + 8) / 8) = (L + 8) / 8 := by omega
  have hdiv : v.toNat * 2 ^ (63 - L) / 256 ^ (8 - (L + 8) / 8)
      = v.toNat * 2 ^ (8 * ((L + 8) / 8) - (L + 1)) := by
    have e : (256 : Nat) ^ (8 - (L + 8) / 8) = 2 ^ (8 * (8 - (L + 8) / 8)) := by rw [Nat.pow_mul]
    have hsplit : 63 - L = (8 * ((L + 8) / 8) - (L + 1)) + 8 * (8 - (L + 8) / 8) := by omega
    rw [e, hsplit, Nat.pow_add, ← Nat.mul_assoc]
    exact Nat.mul_div_cancel _ (Nat.two_pow_pos _)
  rw [hk, hdiv]
  congr 2
  apply UInt32.toNat_inj.mp
  rw [UInt8.toNat_toUInt32, hbl, UInt32.toNat_ofNat']
  omega

end ZtypV.Bits64
