/-
Concrete objects for the non-vacuity examples of Props/C12.lean: a non-commutative toy pair
hash with pairwise different zero hashes at the heights used, a constant (maximally unfaithful)
hash, and two hand-built `Rep` backings of `List[uint256, 8]` with MATERIALISED zero padding
(as `Pop` leaves it), together with their partial versions.
-/
import ZtypV.Proofs.SummIter
import ZtypV.Proofs.SummView
namespace ZtypV.Partial.Ex
open ZtypV ZtypV.View ZtypV.Partial

/-- toy hash, bytewise `3a + 5b + 1` (non-commutative; `zh` = 0,1,9,73,… bytewise) -/
def exH : HashFn := fun a b => (List.range 32).map fun i => 3 * a.getD i 0 + 5 * b.getD i 0 + 1

/-- the constant hash: every subtree hashes to the zero hash of every height -/
def constH : HashFn := fun _ _ => z0

def exT : Ty := .list (.uint 32) 8

/-- the leaf of the `uint256` value `k` -/
def el (k : Nat) : Node := .leaf (chunkOf (leBytes 32 k))

/-- a materialised zero subtree of height 2 -/
def zmat : Node := .pair (.pair (.leaf z0) (.leaf z0)) (.pair (.leaf z0) (.leaf z0))

/-- `[1,2,3]` -/
def exV3 : Val := .seq [.num 1, .num 2, .num 3]
def exN3 : Node :=
  .pair (.pair (.pair (.pair (el 1) (el 2)) (.pair (el 3) (.leaf z0))) zmat) (lengthNode 3)
/-- `exN3` with the subtree holding element 2 (view path `[false,false,true]`) summarised -/
def exP3 : Node :=
  .pair (.pair (.pair (.pair (el 1) (el 2)) (.leaf (exH (chunkOf (leBytes 32 3)) z0))) zmat)
    (lengthNode 3)

/-- `[1,2,3,4]` -/
def exV4 : Val := .seq [.num 1, .num 2, .num 3, .num 4]
def exN4 : Node :=
  .pair (.pair (.pair (.pair (el 1) (el 2)) (.pair (el 3) (el 4))) zmat) (lengthNode 4)
/-- `exN4` with the materialised zero subtree (view path `[false,true]`) summarised -/
def exP4 : Node :=
  .pair (.pair (.pair (.pair (el 1) (el 2)) (.pair (el 3) (el 4))) (.leaf (zh exH 2))) (lengthNode 4)

theorem zmat_zero (h : HashFn) : ZeroTree h 2 zmat :=
  ZeroTree.pair (ZeroTree.pair (ZeroTree.leaf 0) (ZeroTree.leaf 0))
    (ZeroTree.pair (ZeroTree.leaf 0) (ZeroTree.leaf 0))

theorem exT_depth : seriesDepth (.uint 32) 8 = 3 := by decide

theorem exRep3 (h : HashFn) : Rep h exT exV3 exN3 := by
  simp only [exT, exV3, exN3, Rep, isBasicElem, if_true]
  refine ⟨by decide, _, rfl, ?_⟩
  have hp : packedNodes (serList (.uint 32) [.num 1, .num 2, .num 3]).flatten = [el 1, el 2, el 3] := by
    decide
  rw [exT_depth, hp]
  apply seqShape_pair_intro (List.cons_ne_nil _ _)
  · apply seqShape_pair_intro (List.cons_ne_nil _ _)
    · apply seqShape_pair_intro (List.cons_ne_nil _ _) <;>
        simp only [SeqShape, Nat.pow_zero, List.take_succ_cons, List.take_zero, List.drop_succ_cons,
          List.drop_zero]
    · apply seqShape_pair_intro (List.cons_ne_nil _ _)
      · simp only [SeqShape, Nat.pow_zero, List.take_succ_cons, List.take_zero]
      · exact seqShape_nil_iff.mpr (ZeroTree.leaf 0)
  · exact seqShape_nil_iff.mpr (zmat_zero h)

set_option maxRecDepth 4000 in
theorem exRep4 (h : HashFn) : Rep h exT exV4 exN4 := by
  simp only [exT, exV4, exN4, Rep, isBasicElem, if_true]
  refine ⟨by decide, _, rfl, ?_⟩
  have hp : packedNodes (serList (.uint 32) [.num 1, .num 2, .num 3, .num 4]).flatten
      = [el 1, el 2, el 3, el 4] := by decide
  rw [exT_depth, hp]
  apply seqShape_pair_intro (List.cons_ne_nil _ _)
  · apply seqShape_pair_intro (List.cons_ne_nil _ _)
    · apply seqShape_pair_intro (List.cons_ne_nil _ _) <;>
        simp only [SeqShape, Nat.pow_zero, List.take_succ_cons, List.take_zero, List.drop_succ_cons,
          List.drop_zero]
    · apply seqShape_pair_intro (List.cons_ne_nil _ _) <;>
        simp only [SeqShape, Nat.pow_zero, List.take_succ_cons, List.take_zero, List.drop_succ_cons,
          List.drop_zero]
  · exact seqShape_nil_iff.mpr (zmat_zero h)

theorem exSumm3 : Summ exH exN3 exP3 :=
  Summ.pair (Summ.pair (Summ.pair (Summ.refl _) (Summ.collapse _)) (Summ.refl _)) (Summ.refl _)

theorem exSumm4 : Summ exH exN4 exP4 :=
  Summ.pair (Summ.pair (Summ.refl _) (Summ.of_root_eq (zeroTree_root exH (zmat_zero exH)))) (Summ.refl _)

/-- the toy hash is faithful on `exN4` down to the view depth -/
theorem exFaithful4' : ZeroFaithful exH 4 exN4 := by
  refine ⟨fun hr => absurd hr (by decide), ⟨fun hr => absurd hr (by decide), ?_, ?_⟩, True.intro⟩
  · refine ⟨fun hr => absurd hr (by decide), ?_, ?_⟩
    · exact ⟨fun hr => absurd hr (by decide), True.intro, True.intro⟩
    · exact ⟨fun hr => absurd hr (by decide), True.intro, True.intro⟩
  · refine ⟨fun _ => zmat_zero exH, ?_, ?_⟩
    · exact ⟨fun _ => ZeroTree.pair (ZeroTree.leaf 0) (ZeroTree.leaf 0), True.intro, True.intro⟩
    · exact ⟨fun _ => ZeroTree.pair (ZeroTree.leaf 0) (ZeroTree.leaf 0), True.intro, True.intro⟩

theorem exFaithful4 : ZeroFaithful exH (viewDepth exT) exN4 := by
  have hd : viewDepth exT = 4 := by decide
  rw [hd]; exact exFaithful4'

theorem exFaithful3 : ZeroFaithful exH (viewDepth exT) exN3 := by
  have hd : viewDepth exT = 4 := by decide
  rw [hd]
  refine ⟨fun hr => absurd hr (by decide), ⟨fun hr => absurd hr (by decide), ?_, ?_⟩, True.intro⟩
  · refine ⟨fun hr => absurd hr (by decide), ?_, ?_⟩
    · exact ⟨fun hr => absurd hr (by decide), True.intro, True.intro⟩
    · exact ⟨fun hr => absurd hr (by decide), True.intro, True.intro⟩
  · refine ⟨fun _ => zmat_zero exH, ?_, ?_⟩
    · exact ⟨fun _ => ZeroTree.pair (ZeroTree.leaf 0) (ZeroTree.leaf 0), True.intro, True.intro⟩
    · exact ⟨fun _ => ZeroTree.pair (ZeroTree.leaf 0) (ZeroTree.leaf 0), True.intro, True.intro⟩

/-- a container holding the list: `Container{uint64, List[uint256,8]}` = `(7, [1,2,3])` -/
def exTC : Ty := .container [.uint 8, exT]
def exVC : Val := .seq [.num 7, exV3]
def exNC : Node := .pair (.leaf (chunkOf (leBytes 8 7))) exN3
def exPC : Node := .pair (.leaf (chunkOf (leBytes 8 7))) exP3

theorem exRepC (h : HashFn) : Rep h exTC exVC exNC := by
  simp only [exTC, exVC, exNC, Rep]
  refine ⟨[.leaf (chunkOf (leBytes 8 7)), exN3], ⟨rfl, exRep3 h, True.intro⟩, ?_⟩
  have hd : coverDepth [Ty.uint 8, exT].length = 1 := by decide
  rw [hd]
  apply seqShape_pair_intro (List.cons_ne_nil _ _) <;>
    simp only [SeqShape, Nat.pow_zero, List.take_succ_cons, List.take_zero, List.drop_succ_cons,
      List.drop_zero]

theorem exSummC : Summ exH exNC exPC := Summ.pair (Summ.refl _) exSumm3

/-- the contents subtrees (iterator anchors) of `exN3` / `exP3` -/
def exC3 : Node := .pair (.pair (.pair (el 1) (el 2)) (.pair (el 3) (.leaf z0))) zmat
def exCP3 : Node :=
  .pair (.pair (.pair (el 1) (el 2)) (.leaf (exH (chunkOf (leBytes 32 3)) z0))) zmat

theorem exSummC3 : Summ exH exC3 exCP3 :=
  Summ.pair (Summ.pair (Summ.refl _) (Summ.collapse _)) (Summ.refl _)

theorem exLeavesC3 : BottomLeaves exC3 3 := by
  have h1 := (rep_readLeaves exH (exRep3 exH)).2 rfl
  have hd : viewDepth exT = 3 + 1 := by decide
  rw [hd] at h1
  exact h1.left

end ZtypV.Partial.Ex
