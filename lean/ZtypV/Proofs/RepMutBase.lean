/-
C04, typed mutators preserve the representation relation — shared helpers:
the depth side condition, list-level facts about `RepList` / `RepFields`, preservation of
`hasType` by the value-level operations, and two list-view shape lemmas derived from the
tree-level interface of Proofs/Shape.lean.
-/
import ZtypV.Proofs.Shape
import ZtypV.Proofs.ViewGetMain
import ZtypV.Proofs.ViewConstruct
namespace ZtypV
open ZtypV.View ZtypV.Sim

/-- one-level depth / `uint64` side condition of the typed mutators of a view of type `t`:
    `tree.ToGindex64` rejects depth ≥ 64, list views navigate one level above their contents,
    and the length mix-in is a `uint64`.  Implied by `View.inRange t` (`depthOk_of_inRange`). -/
def DepthOk : Ty → Prop
  | .bitvector n => bitDepth n < 64
  | .bitlist lim => lim < 2 ^ 64 ∧ bitDepth lim + 1 < 64
  | .vector e n => seriesDepth e n < 64
  | .list e lim => lim < 2 ^ 64 ∧ seriesDepth e lim + 1 < 64
  | .container fs => coverDepth fs.length < 64
  | _ => True

theorem depthOk_of_inRange (t : Ty) (h : inRange t = true) : DepthOk t := by
  cases t <;> simp only [DepthOk] <;> simp only [inRange, Bool.and_eq_true, decide_eq_true_eq] at h
  · exact h
  · exact h
  · exact h.1
  · exact h.1
  · exact h.1

/-- the slots of `t` are packed into chunks (uint series, bitfields): `Set`/`Append` take the
    element *value*; otherwise they take the element's backing node -/
def packedSlot : Ty → Bool
  | .vector e _ | .list e _ => isBasicElem e
  | .bitvector _ | .bitlist _ => true
  | _ => false

namespace RepMut

/-! ### `RepList` / `RepFields` as lists -/

theorem repList_length (h : HashFn) (e : Ty) : ∀ (vs : List Val) (xs : List Node),
    RepList h e vs xs → xs.length = vs.length := by
  intro vs
  induction vs with
  | nil => intro xs hr; cases xs <;> simp [RepList] at hr ⊢
  | cons v vs ih =>
    intro xs hr
    cases xs with
    | nil => simp [RepList] at hr
    | cons x xs => simp only [RepList] at hr; simp [ih xs hr.2]

theorem repList_get (h : HashFn) (e : Ty) : ∀ (vs : List Val) (xs : List Node),
    RepList h e vs xs → ∀ i (h1 : i < vs.length) (h2 : i < xs.length), Rep h e vs[i] xs[i] := by
  intro vs
  induction vs with
  | nil => intro xs _ i h1; simp at h1
  | cons v vs ih =>
    intro xs hr i h1 h2
    cases xs with
    | nil => simp at h2
    | cons x xs =>
      simp only [RepList] at hr
      cases i with
      | zero => exact hr.1
      | succ i => exact ih xs hr.2 i (by simpa using h1) (by simpa using h2)

theorem repList_set (h : HashFn) (e : Ty) (x : Val) (en : Node) (hx : Rep h e x en) :
    ∀ (vs : List Val) (xs : List Node) (i : Nat),
    RepList h e vs xs → RepList h e (vs.set i x) (xs.set i en) := by
  intro vs
  induction vs with
  | nil => intro xs i hr; cases xs <;> simp [RepList] at hr ⊢
  | cons v vs ih =>
    intro xs i hr
    cases xs with
    | nil => simp [RepList] at hr
    | cons y xs =>
      simp only [RepList] at hr
      cases i with
      | zero => simp only [List.set_cons_zero, RepList]; exact ⟨hx, hr.2⟩
      | succ i => simp only [List.set_cons_succ, RepList]; exact ⟨hr.1, ih xs i hr.2⟩

theorem repList_append (h : HashFn) (e : Ty) (x : Val) (en : Node) (hx : Rep h e x en) :
    ∀ (vs : List Val) (xs : List Node),
    RepList h e vs xs → RepList h e (vs ++ [x]) (xs ++ [en]) := by
  intro vs
  induction vs with
  | nil =>
    intro xs hr
    cases xs with
    | nil => simp only [List.nil_append, RepList]; exact ⟨hx, trivial⟩
    | cons _ _ => simp [RepList] at hr
  | cons v vs ih =>
    intro xs hr
    cases xs with
    | nil => simp [RepList] at hr
    | cons y xs =>
      simp only [RepList] at hr
      simp only [List.cons_append, RepList]
      exact ⟨hr.1, ih xs hr.2⟩

theorem repList_dropLast (h : HashFn) (e : Ty) : ∀ (vs : List Val) (xs : List Node),
    RepList h e vs xs → RepList h e vs.dropLast xs.dropLast := by
  intro vs
  induction vs with
  | nil => intro xs hr; cases xs <;> simp [RepList] at hr ⊢
  | cons v vs ih =>
    intro xs hr
    cases xs with
    | nil => simp [RepList] at hr
    | cons y xs =>
      simp only [RepList] at hr
      have hl := repList_length h e vs xs hr.2
      cases vs with
      | nil =>
        cases xs with
        | nil => simp [RepList]
        | cons _ _ => simp at hl
      | cons v2 vs =>
        cases xs with
        | nil => simp at hl
        | cons y2 xs =>
          simp only [List.dropLast_cons_cons, RepList]
          exact ⟨hr.1, ih (y2 :: xs) hr.2⟩

theorem repFields_length (h : HashFn) : ∀ (fs : List Ty) (vs : List Val) (xs : List Node),
    RepFields h fs vs xs → vs.length = fs.length ∧ xs.length = fs.length := by
  intro fs
  induction fs with
  | nil => intro vs xs hr; cases vs <;> cases xs <;> simp [RepFields] at hr ⊢
  | cons t ts ih =>
    intro vs xs hr
    cases vs with
    | nil => simp [RepFields] at hr
    | cons v vs =>
      cases xs with
      | nil => simp [RepFields] at hr
      | cons x xs =>
        simp only [RepFields] at hr
        have := ih vs xs hr.2
        simp [this.1, this.2]

theorem repFields_get (h : HashFn) : ∀ (fs : List Ty) (vs : List Val) (xs : List Node),
    RepFields h fs vs xs → ∀ i (h0 : i < fs.length) (h1 : i < vs.length) (h2 : i < xs.length),
      Rep h fs[i] vs[i] xs[i] := by
  intro fs
  induction fs with
  | nil => intro vs xs _ i h0; simp at h0
  | cons t ts ih =>
    intro vs xs hr i h0 h1 h2
    cases vs with
    | nil => simp at h1
    | cons v vs =>
      cases xs with
      | nil => simp at h2
      | cons x xs =>
        simp only [RepFields] at hr
        cases i with
        | zero => exact hr.1
        | succ i => exact ih vs xs hr.2 i (by simpa using h0) (by simpa using h1) (by simpa using h2)

theorem repFields_set (h : HashFn) (x : Val) (en : Node) :
    ∀ (fs : List Ty) (vs : List Val) (xs : List Node) (i : Nat) (h0 : i < fs.length),
    Rep h fs[i] x en → RepFields h fs vs xs → RepFields h fs (vs.set i x) (xs.set i en) := by
  intro fs
  induction fs with
  | nil => intro vs xs i h0; simp at h0
  | cons t ts ih =>
    intro vs xs i h0 hx hr
    cases vs with
    | nil => simp [RepFields] at hr
    | cons v vs =>
      cases xs with
      | nil => simp [RepFields] at hr
      | cons y xs =>
        simp only [RepFields] at hr
        cases i with
        | zero =>
          simp only [List.set_cons_zero, RepFields]
          exact ⟨hx, hr.2⟩
        | succ i =>
          simp only [List.set_cons_succ, RepFields]
          exact ⟨hr.1, ih vs xs i (by simpa using h0) (by simpa using hx) hr.2⟩

/-! ### `hasType` is preserved by the value-level updates -/

theorem allHaveType_set (e : Ty) (x : Val) (hx : hasType e x = true) : ∀ (vs : List Val) (i : Nat),
    allHaveType e vs = true → allHaveType e (vs.set i x) = true := by
  intro vs
  induction vs with
  | nil => intro i h; simpa using h
  | cons v vs ih =>
    intro i hall
    simp only [allHaveType, Bool.and_eq_true] at hall
    cases i with
    | zero => simp only [List.set_cons_zero, allHaveType, Bool.and_eq_true]; exact ⟨hx, hall.2⟩
    | succ i => simp only [List.set_cons_succ, allHaveType, Bool.and_eq_true]; exact ⟨hall.1, ih i hall.2⟩

theorem allHaveType_append (e : Ty) (x : Val) (hx : hasType e x = true) : ∀ (vs : List Val),
    allHaveType e vs = true → allHaveType e (vs ++ [x]) = true := by
  intro vs
  induction vs with
  | nil => intro _; simp [allHaveType, hx]
  | cons v vs ih =>
    intro hall
    simp only [allHaveType, Bool.and_eq_true] at hall
    simp only [List.cons_append, allHaveType, Bool.and_eq_true]
    exact ⟨hall.1, ih hall.2⟩

theorem allHaveType_dropLast (e : Ty) : ∀ (vs : List Val),
    allHaveType e vs = true → allHaveType e vs.dropLast = true := by
  intro vs
  induction vs with
  | nil => intro _; rfl
  | cons v vs ih =>
    intro hall
    simp only [allHaveType, Bool.and_eq_true] at hall
    cases vs with
    | nil => rfl
    | cons v2 vs =>
      simp only [List.dropLast_cons_cons, allHaveType, Bool.and_eq_true]
      exact ⟨hall.1, ih hall.2⟩

theorem fieldsHaveType_set (x : Val) : ∀ (fs : List Ty) (vs : List Val) (i : Nat) (h0 : i < fs.length),
    hasType fs[i] x = true → fieldsHaveType fs vs = true → fieldsHaveType fs (vs.set i x) = true := by
  intro fs
  induction fs with
  | nil => intro vs i h0; simp at h0
  | cons t ts ih =>
    intro vs i h0 hx hall
    cases vs with
    | nil => simp [fieldsHaveType] at hall
    | cons v vs =>
      simp only [fieldsHaveType, Bool.and_eq_true] at hall
      cases i with
      | zero =>
        simp only [List.set_cons_zero, fieldsHaveType, Bool.and_eq_true]
        exact ⟨hx, hall.2⟩
      | succ i =>
        simp only [List.set_cons_succ, fieldsHaveType, Bool.and_eq_true]
        exact ⟨hall.1, ih vs i (by simpa using h0) (by simpa using hx) hall.2⟩

theorem fieldsHaveType_get : ∀ (fs : List Ty) (vs : List Val), fieldsHaveType fs vs = true →
    ∀ i (h0 : i < fs.length) (h1 : i < vs.length), hasType fs[i] vs[i] = true := by
  intro fs
  induction fs with
  | nil => intro vs _ i h0; simp at h0
  | cons t ts ih =>
    intro vs hall i h0 h1
    cases vs with
    | nil => simp at h1
    | cons v vs =>
      simp only [fieldsHaveType, Bool.and_eq_true] at hall
      cases i with
      | zero => exact hall.1
      | succ i => exact ih vs hall.2 i (by simpa using h0) (by simpa using h1)

/-! ### a represented element can always be opened as a view -/

theorem rep_viewOk (h : HashFn) (t : Ty) (v : Val) (n : Node) (hr : Rep h t v n) :
    viewFromBackingOk t n = true := by
  cases t with
  | uint b => cases v <;> simp only [Rep] at hr; subst hr; rfl
  | bool => cases v <;> simp only [Rep] at hr; subst hr; rfl
  | bytesN k => cases v <;> simp only [Rep] at hr; subst hr; rfl
  | bitvector k => cases n <;> rfl
  | bitlist k => cases n <;> rfl
  | vector e k => cases n <;> rfl
  | list e k => cases n <;> rfl
  | container fs => cases n <;> rfl
  | union hn opts => cases n <;> rfl

/-! ### list views: derived shape lemmas -/

/-- pop of a complex element of a list view (navigation at depth `d + 1`) -/
theorem listShape_pop (h : HashFn) {d : Nat} {n : Node} {xs : List Node} {len : Nat}
    (hs : ListShape h d n xs len) (hne : xs ≠ []) (hd : d + 1 < 64) :
    ∃ p n', toPath (xs.length - 1) (d + 1) = .ok p ∧ setNode h n p true (zeroNode h 0) = .ok n' ∧
      ListShape h d n' xs.dropLast len := by
  obtain ⟨c, rfl, hc⟩ := hs
  obtain ⟨p0, c', hp0, hset, hc'⟩ := shape_pop h hc hne (by omega)
  obtain ⟨hp0e, _, hlt⟩ := toPath_eq hp0
  have hlt' : xs.length - 1 < 2 ^ (d + 1) := by rw [Nat.pow_succ]; omega
  refine ⟨false :: p0, .pair c' (lengthNode len), ?_, ?_, c', rfl, hc'⟩
  · rw [toPath_ok _ _ hd hlt', bitsOf_succ, testBit_top_false _ _ hlt, hp0e]
  · simp only [setNode, hset]; rfl

/-- a trailing zero chunk of the contents of a list view is padding -/
theorem listShape_dropLast_zero (h : HashFn) {d : Nat} {n : Node} {xs : List Node} {len : Nat}
    (hs : ListShape h d n (xs ++ [.leaf z0]) len) : ListShape h d n xs len := by
  obtain ⟨c, rfl, hc⟩ := hs
  exact ⟨c, rfl, shape_dropLast_zero h hc⟩

end RepMut
end ZtypV
