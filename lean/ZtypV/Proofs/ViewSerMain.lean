/-
C02, serialization half: `View.Serialize` on a constructed backing writes exactly the spec
encoding.  Induction over the nested inductive `Val` (`Val.induct`).
-/
import ZtypV.Proofs.ViewSer
namespace ZtypV.View

/-- the induction predicate of `ser_ok` -/
def SerOk (h : HashFn) (v : Val) : Prop :=
  ∀ (t : Ty) (n : Node), t.wf = true → inRange t = true → hasType t v = true →
    SizeOk t v → construct h t v = .ok n →
    serializeView t n = .ok (serialize t v)

theorem serOptView_get : ∀ (opts : List Ty) (k : Nat) (t : Ty) (c : Node), opts[k]? = some t →
    serOptView opts k c = serializeView t c := by
  intro opts
  induction opts with
  | nil => intro k t c h; simp at h
  | cons a opts ih =>
    intro k t c h
    cases k with
    | zero => simp at h; subst h; simp only [serOptView]
    | succ k => simp only [serOptView]; exact ih k t c (by simpa using h)

/-- fields: navigation to field `i + j` and serialization of each gives the spec parts -/
theorem serFieldsView_ok (n : Node) (d : Nat) : ∀ (ts : List Ty) (vs : List Val) (i : Nat),
    ts.length = vs.length →
    (∀ j (h1 : j < ts.length) (h2 : j < vs.length), ∃ c, subtreeGet n d (i + j) = .ok c ∧
      serializeView ts[j] c = .ok (serialize ts[j] vs[j])) →
    serFieldsView ts n d i = .ok (serFields ts vs) := by
  intro ts
  induction ts with
  | nil =>
    intro vs i hl _
    cases vs with
    | nil => simp only [serFieldsView, serFields]
    | cons _ _ => simp at hl
  | cons t ts ih =>
    intro vs i hl hj
    cases vs with
    | nil => simp at hl
    | cons v vs =>
      obtain ⟨c, hc1, hc2⟩ := hj 0 (by simp) (by simp)
      simp only [Nat.add_zero, List.getElem_cons_zero] at hc1 hc2
      have hrest := ih vs (i + 1) (by simpa using hl) (fun j h1 h2 => by
        obtain ⟨c, h3, h4⟩ := hj (j + 1) (by simp; omega) (by simp; omega)
        refine ⟨c, ?_, by simpa using h4⟩
        rw [← h3]; congr 1; omega)
      simp only [serFieldsView, hc1, hc2, hrest, R.bind_ok, serFields]

theorem ser_uint (h : HashFn) (b k : Nat) (n : Node) (hw : (Ty.uint b).wf = true)
    (hc : construct h (.uint b) (.num k) = .ok n) :
    serializeView (.uint b) n = .ok (leBytes b k) := by
  simp only [construct] at hc
  cases hc
  have hb := uint_wf_le hw
  have := chunkOf_take_self (leBytes b k) (by simp; omega)
  rw [leBytes_length] at this
  simp only [serializeView, asLeaf_leaf, R.bind_ok, this]

theorem bottomNodes_eq (b k : Nat) (hb : b = 1 ∨ b = 2 ∨ b = 4 ∨ b = 8 ∨ b = 32) :
    bottomNodes b k = (k * b + 31) / 32 := by
  unfold bottomNodes perNode
  rcases hb with rfl | rfl | rfl | rfl | rfl <;> simp <;> omega

theorem isBasicElem_uint {e : Ty} (hb : isBasicElem e = true) : ∃ b, e = .uint b := by
  cases e <;> simp [isBasicElem] at hb
  exact ⟨_, rfl⟩

theorem uint_isFixed (b : Nat) : (Ty.uint b).isFixed = true := by simp [Ty.isFixed]

/-- encoding of a series of uints: `len * b` bytes -/
theorem basic_flatten_length (b : Nat) (vs : List Val) (ht : allHaveType (.uint b) vs = true) :
    (serList (.uint b) vs).flatten.length = vs.length * b := by
  rw [flatten_uniform_length b, serList_length]
  intro l hl
  obtain ⟨w, hw, rfl⟩ := mem_serList _ vs l hl
  have := serialize_fixed_length w (.uint b) (uint_isFixed b) (allHaveType_mem _ vs ht w hw)
  simpa [Ty.fixedSize] using this

theorem ser_bitvector (h : HashFn) (k : Nat) (bs : List Bool) (n : Node)
    (hr : inRange (.bitvector k) = true) (ht : hasType (.bitvector k) (.bits bs) = true)
    (hc : construct h (.bitvector k) (.bits bs) = .ok n) :
    serializeView (.bitvector k) n = .ok (packBits bs) := by
  simp only [hasType, beq_iff_eq] at ht
  simp only [inRange, decide_eq_true_eq] at hr
  simp only [construct, bitsToBytes] at hc
  rw [if_neg (by omega)] at hc
  have hf := orNil_ok hc
  simp only [serializeView]
  rw [subtreeIntoBytes_fill hf hr _ _ (by rw [packBits_length]; omega)]
  have : (k + 7) / 8 = (packBits bs).length := by rw [packBits_length, ht]
  rw [this, chunks_flatten_take]

theorem ser_bitlist (h : HashFn) (lim : Nat) (bs : List Bool) (n : Node)
    (hr : inRange (.bitlist lim) = true) (ht : hasType (.bitlist lim) (.bits bs) = true)
    (hc : construct h (.bitlist lim) (.bits bs) = .ok n) :
    serializeView (.bitlist lim) n = .ok (packBits (bs ++ [true])) := by
  simp only [hasType, decide_eq_true_eq] at ht
  simp only [inRange, Bool.and_eq_true, decide_eq_true_eq] at hr
  simp only [construct, bitsToBytes] at hc
  rw [if_neg (by omega)] at hc
  cases hf : fillToContents h (bitDepth lim) (bytesIntoNodes (packBits bs)) with
  | error e => simp [hf, orNil] at hc
  | ok c =>
    simp only [hf, orNil, R.bind_ok] at hc
    cases hc
    simp only [serializeView]
    rw [getNode_pair_false, getNode_nil, R.bind_ok, listLength_pair c _ lim ht hr.1, R.bind_ok,
      subtreeIntoBytes_fill hf (by omega) _ _ (by rw [packBits_length]; omega), R.bind_ok]
    have hpad := chunks_take_pad (packBits bs) ((bs.length + 8) / 8) (by rw [packBits_length]; omega)
    rw [packBits_length] at hpad
    obtain ⟨last, hl1, hl2⟩ := packBits_delimiter bs _ hpad
    simp only [hl1, hl2]

theorem fieldsHaveType_getElem : ∀ (fs : List Ty) (vs : List Val), fieldsHaveType fs vs = true →
    ∀ j (h1 : j < fs.length) (h2 : j < vs.length), hasType fs[j] vs[j] = true := by
  intro fs
  induction fs with
  | nil => intro vs _ j h1; simp at h1
  | cons t ts ih =>
    intro vs hft j h1 h2
    cases vs with
    | nil => simp at h2
    | cons v vs =>
      simp only [fieldsHaveType, Bool.and_eq_true] at hft
      cases j with
      | zero => exact hft.1
      | succ j => exact ih vs hft.2 j (by simpa using h1) (by simpa using h2)

theorem serFields_getElem : ∀ (fs : List Ty) (vs : List Val) (j : Nat) (h1 : j < fs.length)
    (h2 : j < vs.length), (serFields fs vs)[j]'(by simp; omega) = (fs[j].isFixed, serialize fs[j] vs[j]) := by
  intro fs
  induction fs with
  | nil => intro vs j h1; simp at h1
  | cons t ts ih =>
    intro vs j h1 h2
    cases vs with
    | nil => simp at h2
    | cons v vs =>
      cases j with
      | zero => simp [serFields]
      | succ j => simp [serFields, ih vs j (by simpa using h1) (by simpa using h2)]

theorem seriesDepth_complex {e : Ty} (hb : isBasicElem e = false) (k : Nat) :
    seriesDepth e k = coverDepth k := by simp [seriesDepth, hb]

theorem vector_ser_ge (e : Ty) (k : Nat) (vs : List Val) :
    (serList e vs).flatten.length ≤ (serialize (.vector e k) (.seq vs)).length := by
  simp only [serialize]
  split
  · exact Nat.le_refl _
  · rw [serVarParts_length]; omega

theorem list_ser_ge (e : Ty) (k : Nat) (vs : List Val) :
    (serList e vs).flatten.length ≤ (serialize (.list e k) (.seq vs)).length := by
  simp only [serialize]
  split
  · exact Nat.le_refl _
  · rw [serVarParts_length]; omega

theorem elem_ser_le (e : Ty) (vs : List Val) (i : Nat) (hi : i < vs.length) :
    (serialize e vs[i]).length ≤ (serList e vs).flatten.length := by
  apply mem_le_flatten_length
  rw [← serList_getElem e vs i hi]
  exact List.getElem_mem _

/-- elements of a complex series: serialize each = the spec's element encodings -/
theorem ser_elems (h : HashFn) (e : Ty) (vs : List Val) (ns : List Node) (n : Node) (d : Nat)
    (ih : ∀ v ∈ vs, SerOk h v) (hwe : e.wf = true) (hre : inRange e = true)
    (hall : allHaveType e vs = true) (hs : ∀ i (hi : i < vs.length), SizeOk e vs[i])
    (hcl : constructList h e vs = .ok ns) (hf : fillToContents h d ns = .ok n) (hd : d < 64) :
    (List.range vs.length).mapM (fun i => do let c ← subtreeGet n d i; serializeView e c)
      = .ok (serList e vs) := by
  obtain ⟨hl, hel⟩ := constructList_ok h e vs ns hcl
  have := mapM_series (serializeView e) (serList e vs) hf hd (by simp [hl]) (by
    intro i h1 h2
    have hi : i < vs.length := by omega
    rw [serList_getElem e vs i hi]
    exact ih vs[i] (List.getElem_mem hi) e ns[i] hwe hre (allHaveType_getElem e vs hall i hi)
      (hs i hi) (hel i hi h1))
  rwa [serList_length] at this

theorem ser_vector (h : HashFn) (e : Ty) (k : Nat) (vs : List Val) (n : Node)
    (ih : ∀ v ∈ vs, SerOk h v) (hw : (Ty.vector e k).wf = true)
    (hr : inRange (.vector e k) = true) (ht : hasType (.vector e k) (.seq vs) = true)
    (hs : SizeOk (.vector e k) (.seq vs))
    (hc : construct h (.vector e k) (.seq vs) = .ok n) :
    serializeView (.vector e k) n = .ok (serialize (.vector e k) (.seq vs)) := by
  have hge := vector_ser_ge e k vs
  have hse : ∀ i (hi : i < vs.length), SizeOk e vs[i] := by
    intro i hi
    rcases hs with hs | hs
    · simp only [offsetFree, Bool.and_eq_true] at hs
      exact Or.inl hs.2
    · have := elem_ser_le e vs i hi
      exact Or.inr (by omega)
  simp only [hasType, Bool.and_eq_true, beq_iff_eq] at ht
  simp only [Ty.wf, Bool.and_eq_true, decide_eq_true_eq] at hw
  simp only [inRange, Bool.and_eq_true, decide_eq_true_eq] at hr
  obtain ⟨hlen, hall⟩ := ht
  cases hb : isBasicElem e
  · -- complex series
    simp only [construct, hb, Bool.false_eq_true, if_false] at hc
    rw [if_neg (by omega)] at hc
    cases hcl : constructList h e vs with
    | error err => simp [hcl] at hc
    | ok ns =>
      simp only [hcl, R.bind_ok] at hc
      have hf := orNil_ok hc
      have hd : coverDepth k < 64 := by rw [← seriesDepth_complex hb k]; exact hr.1
      have hm := ser_elems h e vs ns n _ ih hw.2 hr.2 hall hse hcl hf hd
      rw [hlen] at hm
      simp only [serializeView, hb, Bool.false_eq_true, if_false, hm, R.bind_ok]
      cases hfx : e.isFixed
      · rcases hs with hs | hs
        · simp [offsetFree, hfx] at hs
        simp only [serialize, hfx, Bool.false_eq_true, if_false] at hs ⊢
        exact serVarSeries_ok _ hs
      · simp only [serialize, hfx, if_true]
  · -- packed uints
    obtain ⟨b, rfl⟩ := isBasicElem_uint hb
    have hbw := uint_wf_le hw.2
    simp only [construct, isBasicElem, if_true] at hc
    rw [if_neg (by omega)] at hc
    have hf := orNil_ok hc
    have hfl := basic_flatten_length b vs hall
    simp only [serializeView, isBasicElem, if_true, Ty.fixedSize, serialize, Ty.isFixed]
    rw [subtreeIntoBytes_fill hf hr.1 _ _ (by rw [bottomNodes_eq b k hbw, hfl, hlen])]
    rw [← hlen, ← hfl, chunks_flatten_take]

theorem ser_list (h : HashFn) (e : Ty) (lim : Nat) (vs : List Val) (n : Node)
    (ih : ∀ v ∈ vs, SerOk h v) (hw : (Ty.list e lim).wf = true)
    (hr : inRange (.list e lim) = true) (ht : hasType (.list e lim) (.seq vs) = true)
    (hs : SizeOk (.list e lim) (.seq vs))
    (hc : construct h (.list e lim) (.seq vs) = .ok n) :
    serializeView (.list e lim) n = .ok (serialize (.list e lim) (.seq vs)) := by
  have hge := list_ser_ge e lim vs
  have hse : ∀ i (hi : i < vs.length), SizeOk e vs[i] := by
    intro i hi
    rcases hs with hs | hs
    · simp only [offsetFree, Bool.and_eq_true] at hs
      exact Or.inl hs.2
    · have := elem_ser_le e vs i hi
      exact Or.inr (by omega)
  simp only [hasType, Bool.and_eq_true, decide_eq_true_eq] at ht
  simp only [Ty.wf] at hw
  simp only [inRange, Bool.and_eq_true, decide_eq_true_eq] at hr
  obtain ⟨hlen, hall⟩ := ht
  simp only [construct] at hc
  rw [if_neg (by omega)] at hc
  cases hb : isBasicElem e
  · -- complex series
    simp only [hb, Bool.false_eq_true, if_false] at hc
    cases hcl : constructList h e vs with
    | error err => simp [hcl] at hc
    | ok ns =>
      simp only [hcl, R.bind_ok] at hc
      cases hf : fillToContents h (coverDepth lim) ns with
      | error err => simp [hf, orNil] at hc
      | ok c =>
        simp only [hf, orNil, R.bind_ok] at hc
        cases hc
        have hd : coverDepth lim < 64 := by rw [← seriesDepth_complex hb lim]; omega
        have hm := ser_elems h e vs ns c _ ih hw hr.2 hall hse hcl hf hd
        simp only [serializeView, hb, Bool.false_eq_true, if_false]
        rw [listLength_pair c _ lim hlen hr.1.1, R.bind_ok, getNode_pair_false, getNode_nil, R.bind_ok,
          hm, R.bind_ok]
        cases hfx : e.isFixed
        · rcases hs with hs | hs
          · simp [offsetFree, hfx] at hs
          simp only [serialize, hfx, Bool.false_eq_true, if_false] at hs ⊢
          exact serVarSeries_ok _ hs
        · simp only [serialize, hfx, if_true]
  · -- packed uints
    obtain ⟨b, rfl⟩ := isBasicElem_uint hb
    have hbw := uint_wf_le hw
    simp only [isBasicElem, if_true] at hc
    cases hf : fillToContents h (seriesDepth (.uint b) lim)
        (bytesIntoNodes (serList (.uint b) vs).flatten) with
    | error err => simp [hf, orNil] at hc
    | ok c =>
      simp only [hf, orNil, R.bind_ok] at hc
      cases hc
      have hfl := basic_flatten_length b vs hall
      simp only [serializeView, isBasicElem, if_true, Ty.fixedSize, serialize, Ty.isFixed]
      rw [getNode_pair_false, getNode_nil, R.bind_ok, listLength_pair c _ lim hlen hr.1.1, R.bind_ok]
      have hbn := bottomNodes_eq b vs.length hbw
      unfold bottomNodes at hbn
      rw [subtreeIntoBytes_fill hf (by omega) _ _ (by rw [hbn, hfl])]
      rw [← hfl, chunks_flatten_take]

theorem field_ser_le (fs : List Ty) (vs : List Val) (j : Nat) (h1 : j < fs.length)
    (h2 : j < vs.length) :
    (serialize fs[j] vs[j]).length ≤ (serContainerParts (serFields fs vs)).length := by
  rw [serContainerParts_length]
  have hm : (fs[j].isFixed, serialize fs[j] vs[j]) ∈ serFields fs vs := by
    rw [← serFields_getElem fs vs j h1 h2]
    exact List.getElem_mem _
  exact part_le_serContainerParts _ _ hm

theorem getElem?_of_lt {α : Type} (l : List α) (j : Nat) (h : j < l.length) : l[j]? = some l[j] :=
  List.getElem?_eq_getElem h

theorem ser_container (h : HashFn) (fs : List Ty) (vs : List Val) (n : Node)
    (ih : ∀ v ∈ vs, SerOk h v) (hw : (Ty.container fs).wf = true)
    (hr : inRange (.container fs) = true) (ht : hasType (.container fs) (.seq vs) = true)
    (hs : SizeOk (.container fs) (.seq vs))
    (hc : construct h (.container fs) (.seq vs) = .ok n) :
    serializeView (.container fs) n = .ok (serialize (.container fs) (.seq vs)) := by
  simp only [hasType] at ht
  simp only [Ty.wf, Bool.and_eq_true] at hw
  simp only [inRange, Bool.and_eq_true, decide_eq_true_eq] at hr
  simp only [SizeOk, serialize, offsetFree, Bool.and_eq_true] at hs
  simp only [serialize]
  have hlen := fieldsHaveType_length fs vs ht
  simp only [construct] at hc
  rw [if_neg (by omega)] at hc
  cases hcl : constructFields h fs vs with
  | error err => simp [hcl] at hc
  | ok ns =>
    simp only [hcl, R.bind_ok] at hc
    cases hf : fillToContents h (coverDepth fs.length) ns with
    | error err => simp [hf] at hc
    | ok m =>
      simp only [hf] at hc
      cases hc
      obtain ⟨hl, hel⟩ := constructFields_ok h fs vs ns hlen hcl
      have hparts : serFieldsView fs n (coverDepth fs.length) 0 = .ok (serFields fs vs) := by
        apply serFieldsView_ok n _ fs vs 0 hlen
        intro j h1 h2
        have h3 : j < ns.length := by omega
        refine ⟨ns[j], ?_, ?_⟩
        · rw [Nat.zero_add]; exact get_fill hf h3 hr.1
        · refine ih vs[j] (List.getElem_mem h2) fs[j] ns[j]
            (wfAll_get fs j _ hw.2 (getElem?_of_lt fs j h1))
            (inRangeAll_get fs j _ hr.2 (getElem?_of_lt fs j h1))
            (fieldsHaveType_getElem fs vs ht j h1 h2) ?_ (hel j h1 h2 h3)
          rcases hs with hs | hs
          · exact Or.inl (offsetFreeAll_get fs j _ hs.2 (getElem?_of_lt fs j h1))
          · have := field_ser_le fs vs j h1 h2
            exact Or.inr (by omega)
      simp only [serializeView, hparts, R.bind_ok]
      have hfp := (fixedPartLen_serFields fs vs (fun v _ t => serialize_fixed_length v t) ht).symm
      rcases hs with hs | hs
      · exact serContainer_ok_fixed _ _ hfp (serFields_allFixed fs vs hs.1)
      · exact serContainer_ok _ _ hfp hs

theorem hasType_none (t : Ty) : hasType t .none = false := by
  cases t <;> simp [hasType]

theorem chunkOf_single_drop (x : UInt8) : ((chunkOf [x]).drop 1).any (· != 0) = false := by
  simp [chunkOf, List.replicate]

theorem chunkOf_single_getD (x : UInt8) : (chunkOf [x]).getD 0 0 = x := by
  simp [chunkOf]

theorem unionOpt_lt {hasNone : Bool} {opts : List Ty} {sel : Nat} {t : Ty}
    (ho : unionOpt hasNone opts sel = some t) :
    sel < opts.length + (if hasNone then 1 else 0) ∧ (hasNone && sel == 0) = false ∧
      opts[if hasNone then sel - 1 else sel]? = some t := by
  unfold unionOpt at ho
  cases hasNone
  · simp only [Bool.false_eq_true, if_false] at ho ⊢
    have := (List.getElem?_eq_some_iff.mp ho).1
    exact ⟨by omega, by simp, ho⟩
  · simp only [if_true] at ho ⊢
    split at ho
    · cases ho
    · rename_i hne
      have := (List.getElem?_eq_some_iff.mp ho).1
      refine ⟨by omega, by simpa using hne, ho⟩

theorem ser_union (h : HashFn) (hasNone : Bool) (opts : List Ty) (sel : Nat) (v : Val) (n : Node)
    (ih : SerOk h v) (hw : (Ty.union hasNone opts).wf = true)
    (hr : inRange (.union hasNone opts) = true)
    (ht : hasType (.union hasNone opts) (.union sel v) = true)
    (hs : SizeOk (.union hasNone opts) (.union sel v))
    (hc : construct h (.union hasNone opts) (.union sel v) = .ok n) :
    serializeView (.union hasNone opts) n = .ok (serialize (.union hasNone opts) (.union sel v)) := by
  simp only [Ty.wf, Bool.and_eq_true, decide_eq_true_eq] at hw
  simp only [inRange] at hr
  simp only [hasType] at ht
  cases ho : unionOpt hasNone opts sel with
  | none =>
    simp only [ho, Bool.and_eq_true, beq_iff_eq] at ht
    obtain ⟨⟨hn, hsel⟩, hv⟩ := ht
    subst hn; subst hsel
    cases v <;> simp at hv
    simp only [construct] at hc
    cases hc
    simp only [serializeView, serialize, ho, getNode_pair_true, getNode_pair_false, getNode_nil,
      R.bind_ok, asLeaf_leaf, chunkOf_single_drop, Bool.false_eq_true, if_false, chunkOf_single_getD]
    simp
  | some t =>
    simp only [ho] at ht
    obtain ⟨hlt, hnz, hget⟩ := unionOpt_lt ho
    have hvn : v ≠ .none := by
      intro hv; subst hv; rw [hasType_none] at ht; cases ht
    have hsel : (UInt8.ofNat sel).toNat = sel := by
      rw [UInt8.toNat_ofNat']; apply Nat.mod_eq_of_lt; omega
    simp only [SizeOk, offsetFree, serialize, ho, List.length_cons] at hs
    simp only [serialize, ho]
    have hc' : (do let c ← construct h t v
                   (Except.ok (.pair c (.leaf (chunkOf [UInt8.ofNat sel]))) : R Node)) = .ok n := by
      cases v <;> first | exact absurd rfl hvn | (simp only [construct, ho] at hc; exact hc)
    cases hcv : construct h t v with
    | error err => simp [hcv] at hc'
    | ok c =>
      simp only [hcv, R.bind_ok] at hc'
      cases hc'
      have hrec := ih t c (wfAll_get opts _ t hw.1.2 hget) (inRangeAll_get opts _ t hr hget) ht
        (by
          rcases hs with hs | hs
          · exact Or.inl (offsetFreeAll_get opts _ t hs hget)
          · exact Or.inr (by omega)) hcv
      simp only [serializeView, getNode_pair_true, getNode_pair_false, getNode_nil,
        R.bind_ok, asLeaf_leaf, chunkOf_single_drop, Bool.false_eq_true, if_false,
        chunkOf_single_getD, hsel]
      rw [if_neg (by omega)]
      simp only [hnz, Bool.false_eq_true, if_false, serOptView_get opts _ t c hget, hrec, R.bind_ok]

/-- C02 (serialization): `Serialize` of a constructed view is the spec encoding -/
theorem ser_ok (h : HashFn) : ∀ v, SerOk h v := by
  intro v
  induction v using Val.induct with
  | num k =>
    intro t n hw hr ht hs hc
    cases t <;> simp [hasType] at ht
    simp only [serialize]
    exact ser_uint h _ k n hw hc
  | bool b =>
    intro t n hw hr ht hs hc
    cases t <;> simp [hasType] at ht
    simp only [construct] at hc
    cases hc
    simp only [serializeView, asLeaf_leaf, R.bind_ok, chunkOf_single_getD, serialize]
    cases b <;> simp
  | bytes bs =>
    intro t n hw hr ht hs hc
    cases t <;> simp [hasType] at ht
    simp only [construct] at hc
    cases hc
    simp only [Ty.wf, Bool.and_eq_true, decide_eq_true_eq] at hw
    have := chunkOf_take_self bs (by omega)
    rw [ht] at this
    simp only [serializeView, asLeaf_leaf, R.bind_ok, serialize, this]
  | bits bs =>
    intro t n hw hr ht hs hc
    cases t <;> try (simp [hasType] at ht; done)
    · simp only [serialize]; exact ser_bitvector h _ bs n hr ht hc
    · simp only [serialize]; exact ser_bitlist h _ bs n hr ht hc
  | seq vs ih =>
    intro t n hw hr ht hs hc
    cases t <;> try (simp [hasType] at ht; done)
    · exact ser_vector h _ _ vs n ih hw hr ht hs hc
    · exact ser_list h _ _ vs n ih hw hr ht hs hc
    · exact ser_container h _ vs n ih hw hr ht hs hc
  | none =>
    intro t n hw hr ht hs hc
    rw [hasType_none] at ht; cases ht
  | union sel v ih =>
    intro t n hw hr ht hs hc
    cases t <;> try (simp [hasType] at ht; done)
    exact ser_union h _ _ sel v n ih hw hr ht hs hc

end ZtypV.View
