/-
The representation relation `Rep`, part 4: the default backing of a type is a `Rep` backing
of the spec default value (`default_rep`).  Needs three tree-level shape lemmas that are not in
the interface of Proofs/Shape.lean and are proved here:
`fillToDepth_zero_shape`, `fillToDepth_full_shape`, `fillToLength_shape`.
-/
import ZtypV.Proofs.RepView1
namespace ZtypV
open View

/-! ### shapes of `fillToDepth` / `fillToLength` -/

theorem seqShape_nil_iff {h : HashFn} {d : Nat} {n : Node} : SeqShape h d n [] ↔ ZeroTree h d n := by
  simp only [SeqShape]

/-- a pair over a non-empty content list: the halves carry `take` / `drop` -/
theorem seqShape_pair_intro {h : HashFn} {d : Nat} {l r : Node} {xs : List Node} (hne : xs ≠ [])
    (hl : SeqShape h d l (xs.take (2 ^ d))) (hr : SeqShape h d r (xs.drop (2 ^ d))) :
    SeqShape h (d + 1) (.pair l r) xs := by
  cases xs with
  | nil => exact absurd rfl hne
  | cons x xs =>
    simp only [SeqShape]
    exact ⟨l, r, rfl, hl, hr⟩

/-- the fully materialised zero tree -/
theorem zeroTree_fillToDepth (h : HashFn) : ∀ d : Nat, ZeroTree h d (fillToDepth (zeroNode h 0) d)
  | 0 => ZeroTree.leaf 0
  | d + 1 => ZeroTree.pair (zeroTree_fillToDepth h d) (zeroTree_fillToDepth h d)

/-- `SubtreeFillToDepth(zero leaf, d)`: any number `m ≤ 2^d` of leading zero chunks, rest padding -/
theorem fillToDepth_zero_shape (h : HashFn) : ∀ (d m : Nat), m ≤ 2 ^ d →
    SeqShape h d (fillToDepth (zeroNode h 0) d) (List.replicate m (.leaf z0))
  | d, 0, _ => seqShape_nil_iff.mpr (zeroTree_fillToDepth h d)
  | 0, m + 1, hm => by
    have : m = 0 := by simpa using hm
    subst this
    simp only [List.replicate, SeqShape]
    rfl
  | d + 1, m + 1, hm => by
    have h2 : 2 ^ (d + 1) = 2 ^ d + 2 ^ d := by rw [Nat.pow_succ]; omega
    show SeqShape h (d + 1) (.pair (fillToDepth (zeroNode h 0) d) (fillToDepth (zeroNode h 0) d)) _
    apply seqShape_pair_intro (by simp)
    · rw [List.take_replicate]
      exact fillToDepth_zero_shape h d _ (Nat.min_le_left _ _)
    · rw [List.drop_replicate]
      exact fillToDepth_zero_shape h d _ (by omega)

theorem replicate_ne_nil {α : Type} {k : Nat} (x : α) (hk : 0 < k) : List.replicate k x ≠ [] := by
  intro hnil
  have := congrArg List.length hnil
  simp at this; omega

/-- `SubtreeFillToDepth(bottom, d)`: `2^d` copies of `bottom` -/
theorem fillToDepth_full_shape (h : HashFn) (b : Node) : ∀ d : Nat,
    SeqShape h d (fillToDepth b d) (List.replicate (2 ^ d) b)
  | 0 => by
    simp only [Nat.pow_zero, List.replicate, SeqShape]
    rfl
  | d + 1 => by
    have h2 : 2 ^ (d + 1) = 2 ^ d + 2 ^ d := by rw [Nat.pow_succ]; omega
    have hp : 0 < 2 ^ d := Nat.two_pow_pos d
    show SeqShape h (d + 1) (.pair (fillToDepth b d) (fillToDepth b d)) _
    apply seqShape_pair_intro (replicate_ne_nil b (by omega))
    · rw [List.take_replicate, show min (2 ^ d) (2 ^ (d + 1)) = 2 ^ d by omega]
      exact fillToDepth_full_shape h b d
    · rw [List.drop_replicate, show 2 ^ (d + 1) - 2 ^ d = 2 ^ d by omega]
      exact fillToDepth_full_shape h b d

/-- `SubtreeFillToLength(bottom, d, len)`: `len` copies of `bottom`, zero padded -/
theorem fillToLength_shape (h : HashFn) (b : Node) (d : Nat) :
    ∀ (len : Nat) (n : Node), 0 < len → fillToLength h b d len = .ok n →
      SeqShape h d n (List.replicate len b) := by
  induction d with
  | zero =>
    intro len n hpos hf
    unfold fillToLength at hf
    split at hf; · cases hf
    split at hf
    · rename_i _ he
      have he' : len = 2 ^ 0 := he
      cases hf; rw [he']; exact fillToDepth_full_shape h b 0
    · cases hf
  | succ d ih =>
    intro len n hpos hf
    unfold fillToLength at hf
    split at hf; · cases hf
    split at hf
    · rename_i _ he
      have he' : len = 2 ^ (d + 1) := he
      cases hf; rw [he']; exact fillToDepth_full_shape h b (d + 1)
    · rename_i hgt hne
      simp only at hf
      have h2 : 2 ^ (d + 1) = 2 ^ d + 2 ^ d := by rw [Nat.pow_succ]; omega
      split at hf
      · rename_i hd; subst hd
        have hlen : len = 1 := by simp at hgt hne; omega
        subst hlen
        simp at hf; subst hf
        apply seqShape_pair_intro (by simp)
        · simp only [Nat.pow_zero, List.replicate, List.take_succ_cons, List.take_zero, SeqShape]
        · simp only [Nat.pow_zero, List.replicate, List.drop_succ_cons, List.drop_zero, SeqShape]
          exact ZeroTree.leaf 0
      · split at hf
        · rename_i hp
          cases hl : fillToLength h b d len with
          | error e => simp [hl, bind, Except.bind] at hf
          | ok l =>
            simp [hl, bind, Except.bind] at hf; subst hf
            apply seqShape_pair_intro (replicate_ne_nil b hpos)
            · rw [List.take_replicate, show min (2 ^ d) len = len by omega]
              exact ih len l hpos hl
            · rw [List.drop_replicate, show len - 2 ^ d = 0 by omega]
              exact seqShape_nil_iff.mpr (ZeroTree.leaf d)
        · rename_i hp
          cases hr : fillToLength h b d (len - 2 ^ d) with
          | error e => simp [hr, bind, Except.bind] at hf
          | ok r =>
            simp [hr, bind, Except.bind] at hf; subst hf
            apply seqShape_pair_intro (replicate_ne_nil b hpos)
            · rw [List.take_replicate, show min (2 ^ d) len = 2 ^ d by omega]
              exact fillToDepth_full_shape h b d
            · rw [List.drop_replicate]
              exact ih _ r (by omega) hr

/-- the default list-like view: zero summary contents, zero length node -/
theorem listShape_default (h : HashFn) (d : Nat) :
    ListShape h d (.pair (zeroNode h d) (zeroNode h 0)) [] 0 := by
  refine ⟨zeroNode h d, ?_, seqShape_nil_iff.mpr (ZeroTree.leaf d)⟩
  have : lengthNode 0 = zeroNode h 0 := by
    unfold lengthNode zeroNode
    rw [ViewRoot.z0_number_chunk]; rfl
  rw [this]

/-! ### all-zero packed contents -/

theorem packedNodes_zeros (k : Nat) :
    packedNodes (List.replicate k 0) = List.replicate ((k + 31) / 32) (.leaf z0) := by
  obtain ⟨m, hm⟩ := ViewRoot.chunks_zeros k
  have hlen : m = (k + 31) / 32 := by
    have := congrArg List.length hm
    rw [ViewRoot.chunks_length] at this
    simpa using this.symm
  unfold packedNodes bytesIntoNodes
  rw [hm, List.map_replicate, hlen]

theorem packBits_false_eq (n : Nat) :
    packBits (List.replicate n false) = List.replicate ((n + 7) / 8) 0 := by
  obtain ⟨k, hk⟩ := ViewRoot.packBits_false n
  have : k = (n + 7) / 8 := by
    have := congrArg List.length hk
    rw [ViewRoot.packBits_length] at this
    simpa using this.symm
  rw [hk, this]

theorem serList_default_uint_eq (b : Nat) : ∀ n : Nat,
    (serList (.uint b) (List.replicate n (.num 0))).flatten = List.replicate (n * b) 0
  | 0 => by simp [serList]
  | n + 1 => by
    simp only [List.replicate_succ, serList, serialize, List.flatten_cons,
      serList_default_uint_eq b n, ViewRoot.leBytes_zero, List.replicate_append_replicate]
    congr 1
    rw [Nat.succ_mul]; omega

theorem repList_replicate {h : HashFn} {e : Ty} {v : Val} {x : Node} (hr : Rep h e v x) :
    ∀ n : Nat, RepList h e (List.replicate n v) (List.replicate n x)
  | 0 => by simp only [List.replicate, RepList]
  | n + 1 => by
    simp only [List.replicate, RepList]
    exact ⟨hr, repList_replicate hr n⟩

theorem defaultVal_ne_none (t : Ty) : defaultVal t ≠ .none := by
  cases t with
  | union hasNone opts =>
    cases hasNone <;> cases opts <;> simp [defaultVal]
  | _ => simp [defaultVal]

/-! ### 2. the default backing -/

/-- induction predicate of `default_rep` -/
def DefaultRep (h : HashFn) (t : Ty) : Prop :=
  ∀ n : Node, t.wf = true → defaultNode h t = .ok n → Rep h t (defaultVal t) n

theorem defaultNodes_rep (h : HashFn) : ∀ (fs : List Ty) (ns : List Node),
    (∀ t ∈ fs, DefaultRep h t) → Ty.wfAll fs = true → defaultNodes h fs = .ok ns →
    RepFields h fs (defaultVals fs) ns
  | [], ns, _, _, hd => by
    simp only [defaultNodes] at hd
    cases hd
    simp only [defaultVals, RepFields]
  | t :: ts, ns, ih, hw, hd => by
    simp only [Ty.wfAll, Bool.and_eq_true] at hw
    simp only [defaultNodes] at hd
    cases h1 : defaultNode h t with
    | error err => simp [h1] at hd
    | ok m =>
      cases h2 : defaultNodes h ts with
      | error err => simp [h1, h2] at hd
      | ok ms =>
        simp only [h1, h2, R.bind_ok] at hd
        cases hd
        simp only [defaultVals, RepFields]
        exact ⟨ih t List.mem_cons_self m hw.1 h1,
          defaultNodes_rep h ts ms (fun u hu => ih u (List.mem_cons_of_mem _ hu)) hw.2 h2⟩

theorem default_vector_rep (h : HashFn) (e : Ty) (k : Nat) (ih : DefaultRep h e) :
    DefaultRep h (.vector e k) := by
  intro n hw hd
  simp only [Ty.wf, Bool.and_eq_true, decide_eq_true_eq] at hw
  cases hb : isBasicElem e
  · simp only [defaultNode, hb, Bool.false_eq_true, if_false] at hd
    cases hde : defaultNode h e with
    | error err => simp [hde] at hd
    | ok d =>
      simp only [hde, R.bind_ok] at hd
      have hf := orNil_ok hd
      simp only [defaultVal, Rep, hb, Bool.false_eq_true, if_false, List.length_replicate, true_and]
      exact ⟨List.replicate k d, repList_replicate (ih d hw.2 hde) k,
        fillToLength_shape h d (coverDepth k) k n (by omega) hf⟩
  · obtain ⟨b, rfl⟩ := isBasicElem_uint hb
    simp only [defaultNode, isBasicElem, if_true] at hd
    cases hd
    simp only [defaultVal, Rep, isBasicElem, if_true, List.length_replicate, true_and]
    rw [serList_default_uint_eq, packedNodes_zeros]
    exact fillToDepth_zero_shape h _ _ (ViewRoot.basic_fit b k k hw.2 (Nat.le_refl _))

theorem default_list_rep (h : HashFn) (e : Ty) (lim : Nat) : DefaultRep h (.list e lim) := by
  intro n hw hd
  simp only [defaultNode] at hd
  cases hd
  cases hb : isBasicElem e
  · simp only [defaultVal, Rep, hb, Bool.false_eq_true, if_false, List.length_nil, Nat.zero_le,
      true_and]
    refine ⟨[], by simp only [RepList], ?_⟩
    rw [seriesDepth_complex hb lim]
    exact listShape_default h _
  · simp only [defaultVal, Rep, hb, if_true, List.length_nil, Nat.zero_le, true_and]
    have : packedNodes (serList e []).flatten = [] := by
      simp only [serList, List.flatten_nil]; rfl
    rw [this]
    exact listShape_default h _

theorem default_union_rep (h : HashFn) (hasNone : Bool) (opts : List Ty)
    (ih : ∀ t ∈ opts, DefaultRep h t) : DefaultRep h (.union hasNone opts) := by
  intro n hw hd
  simp only [Ty.wf, Bool.and_eq_true, decide_eq_true_eq] at hw
  cases opts with
  | nil => simp at hw
  | cons t rest =>
    have hz : chunkOf [UInt8.ofNat 0] = z0 := ViewRoot.chunkOf_zeros 1
    cases hasNone with
    | true =>
      simp only [defaultNode, if_true] at hd
      cases hd
      simp only [defaultVal, if_true]
      refine rep_union_none.mpr ⟨rfl, rfl, ?_⟩
      rw [hz]
    | false =>
      simp only [defaultNode, Bool.false_eq_true, if_false] at hd
      cases hde : defaultNode h t with
      | error err => simp [hde] at hd
      | ok d =>
        simp only [hde, R.bind_ok] at hd
        cases hd
        simp only [Ty.wfAll, Bool.and_eq_true] at hw
        have ho : unionOpt false (t :: rest) 0 = some t := by simp [unionOpt]
        simp only [defaultVal, Bool.false_eq_true, if_false]
        refine (rep_union_some ho (defaultVal_ne_none t)).mpr
          ⟨d, ih t List.mem_cons_self d hw.1.2.1 hde, ?_⟩
        rw [hz]

theorem defaultRep_all (h : HashFn) : ∀ t, DefaultRep h t := by
  intro t
  induction t using Ty.induct with
  | uint b =>
    intro n hw hd
    simp only [defaultNode] at hd
    cases hd
    simp only [defaultVal, Rep, ViewRoot.leBytes_zero, ViewRoot.chunkOf_zeros]
    rfl
  | bool =>
    intro n hw hd
    simp only [defaultNode] at hd
    cases hd
    simp only [defaultVal, Rep]
    have : chunkOf [if false = true then (1 : UInt8) else 0] = z0 := ViewRoot.chunkOf_zeros 1
    rw [this]; rfl
  | bytesN k =>
    intro n hw hd
    simp only [defaultNode] at hd
    cases hd
    simp only [defaultVal, Rep, ViewRoot.chunkOf_zeros]
    rfl
  | bitvector k =>
    intro n hw hd
    simp only [defaultNode] at hd
    cases hd
    simp only [defaultVal, Rep, List.length_replicate, true_and]
    rw [packBits_false_eq, packedNodes_zeros]
    exact fillToDepth_zero_shape h _ _ (ViewRoot.bits_fit k k (Nat.le_refl _))
  | bitlist lim =>
    intro n hw hd
    simp only [defaultNode] at hd
    cases hd
    simp only [defaultVal, Rep, List.length_nil, Nat.zero_le, true_and]
    have : packedNodes (packBits []) = [] := rfl
    rw [this]
    exact listShape_default h _
  | vector e k ih => exact default_vector_rep h e k ih
  | list e lim _ => exact default_list_rep h e lim
  | container fs ih =>
    intro n hw hd
    simp only [Ty.wf, Bool.and_eq_true] at hw
    simp only [defaultNode] at hd
    cases hns : defaultNodes h fs with
    | error err => simp [hns] at hd
    | ok ns =>
      simp only [hns, R.bind_ok] at hd
      have hf := orNil_ok hd
      simp only [defaultVal, Rep]
      exact ⟨ns, defaultNodes_rep h fs ns ih hw.2 hns, fill_shape h hf⟩
  | union hasNone opts ih => exact default_union_rep h hasNone opts ih

/-- 2. the default backing of a well-formed type is a `Rep` backing of the spec default value -/
theorem default_rep (h : HashFn) {t : Ty} {n : Node} (hwf : t.wf = true)
    (hd : defaultNode h t = .ok n) : Rep h t (defaultVal t) n :=
  defaultRep_all h t n hwf hd

end ZtypV
