/-
C12, iterators on a partial backing.  Corollary of C17 (for ANY tree the read-only iterators
produce exactly the `iterSpec` sequence of indexed access) and the backward simulation of
indexed access (Proofs/SummMut.lean): call by call, the iterator over the partial tree shows
the summary of what the iterator over the full tree shows, the same end, or a (non-panic)
error — from the first missing position on it keeps reporting that error.
-/
import ZtypV.Proofs.SummMut
import ZtypV.Proofs.IterNav
namespace ZtypV.Partial
open ZtypV ZtypV.View ZtypV.View.Iter ZtypV.TreeNav

/-- what the partial-tree iterator may answer (second) given the full-tree iterator's answer
    to the same call (first) -/
def StepSumm {α : Type} (S : α → α → Prop) : Step α → Step α → Prop
  | _, .err e => e ≠ .panic
  | .item a, .item a' => S a a'
  | .done, .done => True
  | _, _ => False

/-- call-by-call relation of two output sequences of the same length -/
def StepsSumm {α : Type} (S : α → α → Prop) : List (Step α) → List (Step α) → Prop
  | [], [] => True
  | x :: xs, y :: ys => StepSumm S x y ∧ StepsSumm S xs ys
  | _, _ => False

theorem StepsSumm.nil {α : Type} (S : α → α → Prop) : StepsSumm S [] [] := True.intro

theorem StepsSumm.cons {α : Type} {S : α → α → Prop} {x y : Step α} {xs ys : List (Step α)}
    (h1 : StepSumm S x y) (h2 : StepsSumm S xs ys) : StepsSumm S (x :: xs) (y :: ys) := ⟨h1, h2⟩

/-- pointwise reading of `StepsSumm` -/
theorem StepsSumm.get {α : Type} {S : α → α → Prop} : ∀ {xs ys : List (Step α)}, StepsSumm S xs ys →
    xs.length = ys.length ∧ ∀ j (h1 : j < xs.length) (h2 : j < ys.length), StepSumm S xs[j] ys[j] := by
  intro xs
  induction xs with
  | nil =>
    intro ys hs
    cases ys with
    | nil => exact ⟨rfl, fun j h1 _ => by simp at h1⟩
    | cons y ys => exact hs.elim
  | cons x xs ih =>
    intro ys hs
    cases ys with
    | nil => exact hs.elim
    | cons y ys =>
      obtain ⟨hl, hg⟩ := ih hs.2
      refine ⟨by simp [hl], fun j h1 h2 => ?_⟩
      cases j with
      | zero => exact hs.1
      | succ j => simpa using hg j (by simpa using h1) (by simpa using h2)

theorem iterSpec_length {α : Type} (get : Nat → R α) (length : Nat) :
    ∀ n k, (iterSpec get length k n).length = n := by
  intro n
  induction n with
  | zero => intro k; rfl
  | succ n ih =>
    intro k
    unfold iterSpec
    split
    · split <;> simp [ih]
    · simp [ih]

theorem stepsSumm_err {α : Type} (S : α → α → Prop) (e : Err) (he : e ≠ .panic) :
    ∀ (xs : List (Step α)), StepsSumm S xs (List.replicate xs.length (.err e)) := by
  intro xs
  induction xs with
  | nil => exact StepsSumm.nil S
  | cons x xs ih =>
    rw [List.length_cons, List.replicate_succ]
    exact StepsSumm.cons (by cases x <;> exact he) ih

/-- indexed access simulated backward ⇒ the `iterSpec` sequences are related call by call -/
theorem iterSpec_summ {α : Type} (S : α → α → Prop) (get get' : Nat → R α) (length : Nat)
    (hb : ∀ k, k < length → BackR S (get k) (get' k)) (hnp : ∀ k, NoPanic (get' k)) :
    ∀ n k, StepsSumm S (iterSpec get length k n) (iterSpec get' length k n) := by
  intro n
  induction n with
  | zero => intro k; exact StepsSumm.nil S
  | succ n ih =>
    intro k
    by_cases hk : k < length
    · cases hg' : get' k with
      | error e' =>
        have hp : iterSpec get' length k (n + 1) = List.replicate (n + 1) (.err e') :=
          iterSpec_err get' length k e' hk hg' (n + 1)
        have hl := iterSpec_length get length (n + 1) k
        rw [hp]
        have := stepsSumm_err S e' (fun he => hnp k (by rw [hg', he])) (iterSpec get length k (n + 1))
        rw [hl] at this
        exact this
      | ok a' =>
        obtain ⟨a, ha, hs⟩ := hb k hk a' hg'
        have h1 : iterSpec get length k (n + 1) = .item a :: iterSpec get length (k + 1) n := by
          conv => lhs; unfold iterSpec
          rw [if_pos hk, ha]
        have h2 : iterSpec get' length k (n + 1) = .item a' :: iterSpec get' length (k + 1) n := by
          conv => lhs; unfold iterSpec
          rw [if_pos hk, hg']
        rw [h1, h2]
        exact StepsSumm.cons hs (ih (k + 1))
    · have h1 : iterSpec get length k (n + 1) = .done :: iterSpec get length k n := by
        conv => lhs; unfold iterSpec
        rw [if_neg hk]
      have h2 : iterSpec get' length k (n + 1) = .done :: iterSpec get' length k n := by
        conv => lhs; unfold iterSpec
        rw [if_neg hk]
      rw [h1, h2]
      exact StepsSumm.cons True.intro (ih k)

/-! ### the three stack iterators -/

/-- node iterator (`nodeReadonlyIter`; elements of complex series, container fields) -/
theorem nodeIter_summ {h : HashFn} {anchor anchor' : Node} (hs : Summ h anchor anchor')
    (length depth : Nat) (hb : (NodeIt.new anchor length depth).bad = false) (n : Nat) :
    StepsSumm (Summ h)
      (runSteps NodeIt.next n (NodeIt.new anchor length depth))
      (runSteps NodeIt.next n (NodeIt.new anchor' length depth)) := by
  rw [node_run anchor length depth hb n, node_run anchor' length depth hb n]
  exact iterSpec_summ (Summ h) _ _ length (fun k _ => subtreeGet_back hs depth k)
    (fun k => NoPanic.subtreeGet anchor' depth k) n 0

theorem basicAt_back {h : HashFn} {anchor anchor' : Node} (hs : Summ h anchor anchor') {depth : Nat}
    (hl : BottomLeaves anchor depth) (size k : Nat) :
    BackR Eq (basicAt size anchor depth k) (basicAt size anchor' depth k) := by
  unfold basicAt
  exact chunkK_back hs hl _ _

theorem basicAt_noPanic (size : Nat) (anchor : Node) (depth k : Nat) :
    NoPanic (basicAt size anchor depth k) := by
  unfold basicAt
  exact NoPanic.bind (NoPanic.subtreeGet _ _ _) (fun c => NoPanic.bind (NoPanic.asLeaf c)
    (fun r => basicFromChunk_noPanic _ _ _))

/-- packed element iterator (`basicElemReadonlyIter`): the same VALUES or an error -/
theorem basicIter_summ {h : HashFn} {anchor anchor' : Node} (hs : Summ h anchor anchor')
    (length depth size : Nat) (hl : BottomLeaves anchor depth)
    (hb : (BasicIt.new anchor length depth size).bad = false) (n : Nat) :
    StepsSumm Eq
      (runSteps BasicIt.next n (BasicIt.new anchor length depth size))
      (runSteps BasicIt.next n (BasicIt.new anchor' length depth size)) := by
  rw [basic_run anchor length depth size hb n, basic_run anchor' length depth size hb n]
  exact iterSpec_summ Eq _ _ length (fun k _ => basicAt_back hs hl size k)
    (fun k => basicAt_noPanic size anchor' depth k) n 0

theorem bitAt_back {h : HashFn} {anchor anchor' : Node} (hs : Summ h anchor anchor') {depth : Nat}
    (hl : BottomLeaves anchor depth) (k : Nat) :
    BackR Eq (bitAt anchor depth k) (bitAt anchor' depth k) := by
  unfold bitAt
  exact chunkK_back hs hl _ _

theorem bitAt_noPanic (anchor : Node) (depth k : Nat) : NoPanic (bitAt anchor depth k) := by
  unfold bitAt
  exact NoPanic.bind (NoPanic.subtreeGet _ _ _) (fun c => NoPanic.bind (NoPanic.asLeaf c)
    (fun r => NoPanic.ok _))

/-- bit iterator (`bitReadonlyIter`): the same BITS or an error -/
theorem bitIter_summ {h : HashFn} {anchor anchor' : Node} (hs : Summ h anchor anchor')
    (length depth : Nat) (hl : BottomLeaves anchor depth)
    (hb : (BitIt.new anchor length depth).bad = false) (n : Nat) :
    StepsSumm Eq
      (runSteps BitIt.next n (BitIt.new anchor length depth))
      (runSteps BitIt.next n (BitIt.new anchor' length depth)) := by
  rw [bit_run anchor length depth hb n, bit_run anchor' length depth hb n]
  exact iterSpec_summ Eq _ _ length (fun k _ => bitAt_back hs hl k)
    (fun k => bitAt_noPanic anchor' depth k) n 0

/-! ### what a client sees (`AnyIt`) -/

/-- client observations: what the partial view's iterator may show (second) given what the
    full view's iterator shows at the same call (first) -/
def OutSumm (h : HashFn) : Out → Out → Prop
  | _, .err => True
  | .node t x, .node t' x' => t = t' ∧ Summ h x x'
  | .val t v, .val t' v' => t = t' ∧ v = v'
  | .bit b, .bit b' => b = b'
  | .done, .done => True
  | _, _ => False

theorem OutSumm.err (h : HashFn) (o : Out) : OutSumm h o .err := by
  cases o <;> exact True.intro

/-- call-by-call relation of two client observation sequences -/
def OutsSumm (h : HashFn) : List Out → List Out → Prop
  | [], [] => True
  | x :: xs, y :: ys => OutSumm h x y ∧ OutsSumm h xs ys
  | _, _ => False

theorem OutsSumm.get {h : HashFn} : ∀ {xs ys : List Out}, OutsSumm h xs ys →
    xs.length = ys.length ∧ ∀ j (h1 : j < xs.length) (h2 : j < ys.length), OutSumm h xs[j] ys[j] := by
  intro xs
  induction xs with
  | nil =>
    intro ys hs
    cases ys with
    | nil => exact ⟨rfl, fun j h1 _ => by simp at h1⟩
    | cons y ys => exact hs.elim
  | cons x xs ih =>
    intro ys hs
    cases ys with
    | nil => exact hs.elim
    | cons y ys =>
      obtain ⟨hl, hg⟩ := ih hs.2
      refine ⟨by simp [hl], fun j h1 h2 => ?_⟩
      cases j with
      | zero => exact hs.1
      | succ j => simpa using hg j (by simpa using h1) (by simpa using h2)

theorem outsSumm_err (h : HashFn) : ∀ (xs : List Out), OutsSumm h xs (List.replicate xs.length .err) := by
  intro xs
  induction xs with
  | nil => exact True.intro
  | cons x xs ih =>
    rw [List.length_cons, List.replicate_succ]
    exact ⟨OutSumm.err h x, ih⟩

/-- mapping related step sequences to client observations -/
theorem outsSumm_map {α : Type} {h : HashFn} {S : α → α → Prop} (f : α → Out)
    (hf : ∀ a a', S a a' → OutSumm h (f a) (f a')) :
    ∀ (xs ys : List (Step α)), StepsSumm S xs ys →
      OutsSumm h (xs.map (stepOut f)) (ys.map (stepOut f)) := by
  intro xs
  induction xs with
  | nil =>
    intro ys hs
    cases ys with
    | nil => exact True.intro
    | cons y ys => exact hs.elim
  | cons x xs ih =>
    intro ys hs
    cases ys with
    | nil => exact hs.elim
    | cons y ys =>
      refine ⟨?_, ih ys hs.2⟩
      have h1 := hs.1
      cases y with
      | err e => exact OutSumm.err h _
      | item a' =>
        cases x with
        | item a => exact hf a a' h1
        | done => exact h1.elim
        | err e => exact h1.elim
      | done =>
        cases x with
        | item a => exact h1.elim
        | done => exact True.intro
        | err e => exact h1.elim

theorem nodesSeq_length (get : Nat → R Node) (ety : Nat → Option Ty) (length : Nat) :
    ∀ m k, (nodesSeq get ety length k m).length = m := by
  intro m
  induction m with
  | zero => intro k; rfl
  | succ m ih =>
    intro k
    unfold nodesSeq
    split
    · split <;> simp [ih]
    · simp [ih]

theorem nodesSeq_err (get : Nat → R Node) (ety : Nat → Option Ty) (length k : Nat) (e : Err)
    (hk : k < length) (he : get k = .error e) :
    ∀ m, nodesSeq get ety length k m = List.replicate m .err := by
  intro m
  induction m with
  | zero => rfl
  | succ m ih =>
    unfold nodesSeq
    rw [if_pos hk, he]
    simp only [ih, List.replicate_succ]

/-- element / field iterators as the client sees them (`nodesSeq`): `hview` says that on the
    full tree every element node can be opened as a view of its type (true for `Rep` backings,
    `rep_viewOk`) -/
theorem nodesSeq_summ (h : HashFn) (get get' : Nat → R Node) (ety : Nat → Option Ty) (length : Nat)
    (hb : ∀ k, k < length → BackR (Summ h) (get k) (get' k))
    (hview : ∀ k c t, k < length → get k = .ok c → ety k = some t → elemViewOk t c = true) :
    ∀ m k, OutsSumm h (nodesSeq get ety length k m) (nodesSeq get' ety length k m) := by
  intro m
  induction m with
  | zero => intro k; exact True.intro
  | succ m ih =>
    intro k
    by_cases hk : k < length
    · cases hg' : get' k with
      | error e' =>
        rw [nodesSeq_err get' ety length k e' hk hg' (m + 1)]
        have := outsSumm_err h (nodesSeq get ety length k (m + 1))
        rw [nodesSeq_length] at this
        exact this
      | ok c' =>
        obtain ⟨c, hc, hs⟩ := hb k hk c' hg'
        have h1 : nodesSeq get ety length k (m + 1) =
            nodeOut ety k c :: nodesSeq get ety length (k + 1) m := by
          conv => lhs; unfold nodesSeq
          rw [if_pos hk, hc]
        have h2 : nodesSeq get' ety length k (m + 1) =
            nodeOut ety k c' :: nodesSeq get' ety length (k + 1) m := by
          conv => lhs; unfold nodesSeq
          rw [if_pos hk, hg']
        rw [h1, h2]
        refine ⟨?_, ih (k + 1)⟩
        unfold nodeOut
        cases het : ety k with
        | none => exact True.intro
        | some t =>
          simp only [hview k c t hk hc het, if_true]
          by_cases hv' : elemViewOk t c' = true
          · simp only [hv', if_true]; exact ⟨rfl, hs⟩
          · simp only [hv', Bool.false_eq_true, if_false]; exact True.intro
    · have h1 : nodesSeq get ety length k (m + 1) = .done :: nodesSeq get ety length k m := by
        conv => lhs; unfold nodesSeq
        rw [if_neg hk]
      have h2 : nodesSeq get' ety length k (m + 1) = .done :: nodesSeq get' ety length k m := by
        conv => lhs; unfold nodesSeq
        rw [if_neg hk]
      rw [h1, h2]
      exact ⟨True.intro, ih k⟩

/-- `ReadonlyIter()` of complex series / containers as the client sees it -/
theorem anyNodes_summ {h : HashFn} {anchor anchor' : Node} (hs : Summ h anchor anchor')
    (length depth : Nat) (ety : Nat → Option Ty)
    (hb : (NodeIt.new anchor length depth).bad = false)
    (hview : ∀ k c t, k < length → subtreeGet anchor depth k = .ok c → ety k = some t →
      elemViewOk t c = true) (m : Nat) :
    OutsSumm h (runSteps AnyIt.next m (.nodes (NodeIt.new anchor length depth) ety))
      (runSteps AnyIt.next m (.nodes (NodeIt.new anchor' length depth) ety)) := by
  rw [anyNodes_run anchor length depth hb ety m, anyNodes_run anchor' length depth hb ety m]
  exact nodesSeq_summ h _ _ ety length (fun k _ => subtreeGet_back hs depth k) hview m 0

/-- `ReadonlyIter()` of packed uint series as the client sees it -/
theorem anyBasics_summ {h : HashFn} {anchor anchor' : Node} (hs : Summ h anchor anchor')
    (length depth size : Nat) (t : Ty) (hl : BottomLeaves anchor depth)
    (hb : (BasicIt.new anchor length depth size).bad = false) (m : Nat) :
    OutsSumm h (runSteps AnyIt.next m (.basics (BasicIt.new anchor length depth size) t))
      (runSteps AnyIt.next m (.basics (BasicIt.new anchor' length depth size) t)) := by
  rw [anyBasics_run, anyBasics_run]
  exact outsSumm_map (Out.val t) (fun a a' he => ⟨rfl, he⟩) _ _
    (basicIter_summ hs length depth size hl hb m)

/-- `ReadonlyIter()` of bitfields as the client sees it -/
theorem anyBits_summ {h : HashFn} {anchor anchor' : Node} (hs : Summ h anchor anchor')
    (length depth : Nat) (hl : BottomLeaves anchor depth)
    (hb : (BitIt.new anchor length depth).bad = false) (m : Nat) :
    OutsSumm h (runSteps AnyIt.next m (.bits (BitIt.new anchor length depth)))
      (runSteps AnyIt.next m (.bits (BitIt.new anchor' length depth))) := by
  rw [anyBits_run, anyBits_run]
  exact outsSumm_map Out.bit (fun a a' he => he) _ _ (bitIter_summ hs length depth hl hb m)

/-! ### the typed getter and the index-based `Iter()` -/

/-- `Get(i)` on a partial `Rep`-backed view: success only with the summary of the full view's
    element backing, which represents the element the value model reads -/
theorem getElem_partial (h : HashFn) {t : Ty} {v : Val} {n n' : Node} (i : Nat) (hwf : t.wf = true)
    (hd : DepthOk t) (hty : hasType t v = true) (hrep : Rep h t v n) (hs : Summ h n n')
    {et : Ty} {en' : Node} (hg : getElemNode t n' i = .ok (et, en')) :
    ∃ en x, getElemNode t n i = .ok (et, en) ∧ Summ h en en' ∧
      Sim.valElem t v i = some (et, x) ∧ Rep h et x en ∧ hasType et x = true ∧
      viewFromBackingOk et en = true := by
  obtain ⟨⟨et0, en⟩, hfull, het, hsum⟩ := getElem_back t i hs (rep_readLeaves h hrep) _ hg
  simp only at het hsum
  subst het
  have hspec := getElem_rep h t v n i hwf hd hty hrep
  cases hve : Sim.valElem t v i with
  | none =>
    rw [hve] at hspec
    obtain ⟨e, he, _⟩ := hspec
    rw [he] at hfull; cases hfull
  | some ex =>
    obtain ⟨et1, x⟩ := ex
    rw [hve] at hspec
    obtain ⟨en1, h1, hrx, hvo, htx⟩ := hspec
    rw [h1] at hfull
    cases hfull
    exact ⟨en, x, h1, hsum, rfl, hrx, htx, hvo⟩

/-- position `k` of the index-based `Iter()` on a partial view -/
theorem indexedOut_summ (h : HashFn) {t : Ty} {v : Val} {n n' : Node} (k : Nat) (hwf : t.wf = true)
    (hd : DepthOk t) (hty : hasType t v = true) (hrep : Rep h t v n) (hs : Summ h n n') :
    OutSumm h (indexedOut t n k) (indexedOut t n' k) := by
  cases hg' : getElemNode t n' k with
  | error e =>
    have : indexedOut t n' k = .err := by unfold indexedOut; rw [hg']
    rw [this]; exact OutSumm.err h _
  | ok p =>
    obtain ⟨et, en'⟩ := p
    obtain ⟨en, x, hfull, hsum, hve, hrx, _, hvo⟩ := getElem_partial h k hwf hd hty hrep hs hg'
    have hvo' : elemViewOk et en = true := hvo
    by_cases hv' : elemViewOk et en' = true
    · cases t with
      | uint _ => cases hg'
      | bool => cases hg'
      | bytesN _ => cases hg'
      | union _ _ => cases hg'
      | vector e j =>
        unfold indexedOut
        simp only [hfull, hg', hvo', hv', Bool.not_true, Bool.false_eq_true, if_false]
        exact ⟨rfl, hsum⟩
      | list e lim =>
        unfold indexedOut
        simp only [hfull, hg', hvo', hv', Bool.not_true, Bool.false_eq_true, if_false]
        exact ⟨rfl, hsum⟩
      | container fs =>
        unfold indexedOut
        simp only [hfull, hg', hvo', hv', Bool.not_true, Bool.false_eq_true, if_false]
        exact ⟨rfl, hsum⟩
      | bitvector j =>
        unfold indexedOut
        simp only [hfull, hg', hvo', hv', Bool.not_true, Bool.false_eq_true, if_false]
        cases v <;> try (simp [hasType] at hty; done)
        rename_i bs
        simp only [Sim.valElem] at hve
        cases hb : bs[k]? with
        | none => rw [hb] at hve; cases hve
        | some b =>
          rw [hb] at hve
          simp only [Option.map_some, Option.some.injEq, Prod.mk.injEq] at hve
          obtain ⟨he, hx⟩ := hve
          subst he; subst hx
          simp only [Rep] at hrx
          subst hrx
          have he' := hsum.leaf_left
          subst he'
          exact rfl
      | bitlist lim =>
        unfold indexedOut
        simp only [hfull, hg', hvo', hv', Bool.not_true, Bool.false_eq_true, if_false]
        cases v <;> try (simp [hasType] at hty; done)
        rename_i bs
        simp only [Sim.valElem] at hve
        cases hb : bs[k]? with
        | none => rw [hb] at hve; cases hve
        | some b =>
          rw [hb] at hve
          simp only [Option.map_some, Option.some.injEq, Prod.mk.injEq] at hve
          obtain ⟨he, hx⟩ := hve
          subst he; subst hx
          simp only [Rep] at hrx
          subst hrx
          have he' := hsum.leaf_left
          subst he'
          exact rfl
    · have : indexedOut t n' k = .err := by
        unfold indexedOut
        simp only [hg', hv', Bool.not_false, if_true]
      rw [this]; exact OutSumm.err h _

theorem outSeq_summ (h : HashFn) (out out' : Nat → Out) (length : Nat)
    (ho : ∀ k, k < length → OutSumm h (out k) (out' k)) :
    ∀ m k, OutsSumm h (outSeq out length k m) (outSeq out' length k m) := by
  intro m
  induction m with
  | zero => intro k; exact True.intro
  | succ m ih =>
    intro k
    unfold outSeq
    by_cases hk : k < length
    · rw [if_pos hk, if_pos hk]; exact ⟨ho k hk, ih (k + 1)⟩
    · rw [if_neg hk, if_neg hk]; exact ⟨True.intro, ih k⟩

/-- the index-based `Iter()` on a partial view, call by call (every call advances, so after an
    error the following positions are served again) -/
theorem anyIndexed_summ (h : HashFn) {t : Ty} {v : Val} {n n' : Node} (length : Nat)
    (hwf : t.wf = true) (hd : DepthOk t) (hty : hasType t v = true) (hrep : Rep h t v n)
    (hs : Summ h n n') (m : Nat) :
    OutsSumm h (runSteps AnyIt.next m (.indexed t n length 0))
      (runSteps AnyIt.next m (.indexed t n' length 0)) := by
  rw [indexed_run, indexed_run]
  exact outSeq_summ h _ _ length (fun k _ => indexedOut_summ h k hwf hd hty hrep hs) m 0

end ZtypV.Partial
