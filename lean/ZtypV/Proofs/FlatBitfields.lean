/-
Bridge between the bit-field checks as the flat decoder model uses them (on naturals,
`ZtypV.Flat.bitlistCheck` / `bitvectorCheck`) and the machine-integer model of package
`bitfields` (`ZtypV.Bitfields.bitlistCheck` / `bitvectorCheck`, Model/Bitfields.lean, property C18):
they accept the same byte strings for all lengths and limits below 2^64.  Core Lean only.
-/
import ZtypV.Proofs.FlatSound
namespace ZtypV.FlatProofs
open ZtypV ZtypV.Flat

theorem bitlistCheck_iff (b : Bytes) (lim : Nat) :
    Flat.bitlistCheck b lim = true ↔
      b.length ≠ 0 ∧ Flat.lastByte b ≠ 0 ∧ 8 * (b.length - 1) + Nat.log2 (Flat.lastByte b).toNat ≤ lim := by
  constructor
  · exact bitlistCheck_true
  · intro ⟨h0, hz, hle⟩
    unfold Flat.bitlistCheck
    rw [if_neg h0, if_neg (by omega), if_neg hz, if_neg (by omega)]

/-- `DecodingReader.BitList`'s final check is `bitfields.BitlistCheck` -/
theorem bitlistCheck_agrees (b : Bytes) (lim : Nat) (hb : b.length < 2 ^ 64) (hl : lim < 2 ^ 64) :
    Flat.bitlistCheck b lim = true ↔ Bitfields.bitlistCheck b (UInt64.ofNat lim) = .ok () := by
  rw [bitlistCheck_iff, Bitfields.bitlistCheck_ok_iff b _ hb, Bitfields.u64_ofNat hl]
  rfl

theorem bitvectorCheck_iff (b : Bytes) (n : Nat) :
    Flat.bitvectorCheck b n = true ↔
      b.length = (n + 7) / 8 ∧ ∀ i, n ≤ i → Bitfields.bitAt b i = false := by
  constructor
  · exact bitvectorCheck_true
  · intro ⟨hl, hbits⟩
    unfold Flat.bitvectorCheck
    rw [if_neg (by simpa using hl)]
    by_cases h0 : b.length = 0
    · rw [if_pos h0]
    rw [if_neg h0, if_neg (by omega)]
    by_cases h8 : n % 8 = 0
    · rw [if_pos h8]
    rw [if_neg h8]
    simp only [decide_eq_true_eq]
    apply Nat.eq_of_testBit_eq
    intro j
    rw [Nat.testBit_shiftRight, Nat.zero_testBit]
    by_cases hj : n % 8 + j < 8
    · have := hbits (8 * (b.length - 1) + (n % 8 + j)) (by omega)
      rw [Bitfields.bitAt_last b h0 _ hj] at this
      exact this
    · exact Bitfields.tb_ge8 (Bitfields.lastByte b) (by omega)

/-- `DecodingReader.BitVector`'s final check is `bitfields.BitvectorCheck` -/
theorem bitvectorCheck_agrees (b : Bytes) (n : Nat) (hb : b.length < 2 ^ 64) (hn : n + 7 < 2 ^ 64) :
    Flat.bitvectorCheck b n = true ↔ Bitfields.bitvectorCheck b (UInt64.ofNat n) = .ok () := by
  have hn' : n < 2 ^ 64 := by omega
  rw [bitvectorCheck_iff, Bitfields.bitvectorCheck_ok_iff b _ hb (by rw [Bitfields.u64_ofNat hn']; exact hn),
    Bitfields.u64_ofNat hn']

end ZtypV.FlatProofs
