/-
C20, helper lemmas, part 4: the top-level form of the bound, the depth bound
`maxDepth t ≤ 66 · nest t` for 64-bit limits, and limit-independence of `footprint` / `nest`.
-/
import ZtypV.Proofs.DecodeCostBound
namespace ZtypV.CostProofs
open ZtypV ZtypV.View ZtypV.DecodeProofs

/-! ### top level -/

/-- every run of the instrumented decoder on `bs` with scope `bs.length` -/
theorem decodeM_top (h : HashFn) (t : Ty) (hw : t.wf = true) (bs : Bytes) :
    (decodeM h t (DR.new bs bs.length)).cost ≤ 2048 * (bs.length + footprint t) * (1 + maxDepth t) := by
  have h1 := (decodeM_bound h t hw).2 (DR.new bs bs.length)
  rw [new_scope, new_avail] at h1
  have e1 : 2048 * (bs.length + footprint t) * (1 + maxDepth t) =
      1024 * (1 + maxDepth t) * bs.length + 1024 * (1 + maxDepth t) * bs.length +
        2048 * (footprint t * (1 + maxDepth t)) := by
    rw [Nat.mul_assoc, Nat.add_mul, Nat.mul_add]
    have : 1024 * (1 + maxDepth t) * bs.length = 1024 * (bs.length * (1 + maxDepth t)) := by
      rw [Nat.mul_assoc, Nat.mul_comm (1 + maxDepth t)]
    omega
  have e2 : footprint t ≤ footprint t * (1 + maxDepth t) := Nat.le_mul_of_pos_right _ (by omega)
  omega

/-- successful runs on composite types: no footprint term -/
theorem decodeM_top_ok (h : HashFn) (t : Ty) (hw : t.wf = true) (hc : isLeafTy t = false) (bs : Bytes)
    (n : Node) (dr' : DR) (hr : (decodeM h t (DR.new bs bs.length)).res = .ok (n, dr')) :
    (decodeM h t (DR.new bs bs.length)).cost ≤ 1024 * (1 + maxDepth t) * bs.length + 192 := by
  have h1 := (decodeM_bound h t hw).1 _ n dr' hr (by rw [hc]; intro hh; cases hh)
  rw [new_scope] at h1
  exact h1

/-! ### depth ≤ 66 per nesting level -/

theorem coverDepth_le_64 {n : Nat} (hn : n < 2 ^ 64) : coverDepth n ≤ 64 := by
  unfold coverDepth
  split
  · omega
  · rename_i h1
    have h0 : n - 1 ≠ 0 := by omega
    have : (n - 1).log2 < 64 := (Nat.log2_lt h0).mpr (by omega)
    omega

theorem bottomNodes_le (size n : Nat) : bottomNodes size n ≤ n := by
  unfold bottomNodes
  rcases Nat.eq_zero_or_pos (perNode size) with h0 | hp
  · rw [h0, Nat.div_zero]; omega
  · rcases Nat.eq_zero_or_pos n with hn | hn
    · subst hn
      rw [Nat.div_eq_of_lt (by omega)]; omega
    · apply Nat.div_le_of_le_mul
      -- p + n ≤ p * n + 1 whenever p, n ≥ 1
      have key : perNode size + n ≤ perNode size * n + 1 := by
        obtain ⟨p, hp'⟩ : ∃ p, perNode size = p + 1 := ⟨perNode size - 1, by omega⟩
        obtain ⟨m, hm'⟩ : ∃ m, n = m + 1 := ⟨n - 1, by omega⟩
        rw [hp', hm', Nat.add_mul, Nat.mul_add, Nat.one_mul, Nat.mul_one]
        have := Nat.zero_le (p * m)
        omega
      omega

theorem seriesDepth_le_64 (e : Ty) {n : Nat} (hn : n < 2 ^ 64) : seriesDepth e n ≤ 64 := by
  unfold seriesDepth
  split
  · exact coverDepth_le_64 (Nat.lt_of_le_of_lt (bottomNodes_le _ _) hn)
  · exact coverDepth_le_64 hn

theorem bitDepth_le_64 {n : Nat} (hn : n < 2 ^ 64) : bitDepth n ≤ 64 := by
  unfold bitDepth
  exact coverDepth_le_64 (by omega)

theorem maxDepths_le_of : ∀ (fs : List Ty) (_b : Nat), (∀ t ∈ fs, maxDepth t ≤ 66 * nest t) →
    maxDepths fs ≤ 66 * nests fs
  | [], _, _ => by simp [maxDepths, nests]
  | a :: as, _b, hh => by
    have h1 := hh a (by simp)
    have h2 := maxDepths_le_of as 0 (fun t ht => hh t (by simp [ht]))
    rw [maxDepths, nests]
    have := Nat.le_max_left (nest a) (nests as)
    have := Nat.le_max_right (nest a) (nests as)
    apply Nat.max_le.mpr
    constructor <;> omega

theorem lims64s_mem : ∀ (fs : List Ty), lims64s fs = true → ∀ t ∈ fs, lims64 t = true
  | [], _, t, ht => by cases ht
  | a :: as, hl, t, ht => by
    simp only [lims64s, Bool.and_eq_true] at hl
    rcases List.mem_cons.mp ht with rfl | ht'
    · exact hl.1
    · exact lims64s_mem as hl.2 t ht'

/-- with 64-bit limits every nesting level contributes at most 66 to `maxDepth` -/
theorem maxDepth_le : (t : Ty) → lims64 t = true → maxDepth t ≤ 66 * nest t
  | .uint _, _ | .bool, _ | .bytesN _, _ => by simp [maxDepth]
  | .bitvector n, hl => by
    simp only [lims64, decide_eq_true_eq] at hl
    have := bitDepth_le_64 hl
    rw [maxDepth, nest]; omega
  | .bitlist lim, hl => by
    simp only [lims64, decide_eq_true_eq] at hl
    have := bitDepth_le_64 hl
    rw [maxDepth, nest]; omega
  | .vector e n, hl => by
    simp only [lims64, Bool.and_eq_true, decide_eq_true_eq] at hl
    have := seriesDepth_le_64 e hl.1
    have := maxDepth_le e hl.2
    rw [maxDepth, nest]; omega
  | .list e lim, hl => by
    simp only [lims64, Bool.and_eq_true, decide_eq_true_eq] at hl
    have := seriesDepth_le_64 e hl.1
    have := maxDepth_le e hl.2
    rw [maxDepth, nest]; omega
  | .container fs, hl => by
    simp only [lims64, Bool.and_eq_true, decide_eq_true_eq] at hl
    have := coverDepth_le_64 hl.1
    have := maxDepths_le_of fs 0 (fun t ht => maxDepth_le t (lims64s_mem fs hl.2 t ht))
    rw [maxDepth, nest]; omega
  | .union _ fs, hl => by
    simp only [lims64] at hl
    have := maxDepths_le_of fs 0 (fun t ht => maxDepth_le t (lims64s_mem fs hl t ht))
    rw [maxDepth, nest]; omega
termination_by t => sizeOf t
decreasing_by
  all_goals simp_wf
  all_goals first
    | omega
    | (have := List.sizeOf_lt_of_mem ‹_›; omega)

/-! ### `footprint` and `nest` do not see limits -/

theorem footprints_erase_of : ∀ (fs : List Ty), (∀ t ∈ fs, footprint (eraseLims t) = footprint t) →
    footprints (eraseLimsL fs) = footprints fs ∧ (eraseLimsL fs).length = fs.length
  | [], _ => by simp [eraseLimsL, footprints]
  | a :: as, hh => by
    obtain ⟨h1, h2⟩ := footprints_erase_of as (fun t ht => hh t (by simp [ht]))
    rw [eraseLimsL, footprints, footprints, hh a (by simp), h1]
    simp [h2]

theorem footprint_eraseLims : (t : Ty) → footprint (eraseLims t) = footprint t
  | .uint _ | .bool | .bytesN _ | .bitvector _ => by rw [eraseLims]
  | .bitlist _ => by rw [eraseLims]; simp [footprint]
  | .vector e n => by rw [eraseLims, footprint, footprint, footprint_eraseLims e]
  | .list e _ => by rw [eraseLims, footprint, footprint, footprint_eraseLims e]
  | .container fs => by
    obtain ⟨h1, h2⟩ := footprints_erase_of fs (fun t _ => footprint_eraseLims t)
    rw [eraseLims, footprint, footprint, h1, h2]
  | .union _ fs => by
    obtain ⟨h1, _⟩ := footprints_erase_of fs (fun t _ => footprint_eraseLims t)
    rw [eraseLims, footprint, footprint, h1]
termination_by t => sizeOf t
decreasing_by
  all_goals simp_wf
  all_goals first
    | omega
    | (have := List.sizeOf_lt_of_mem ‹_›; omega)

theorem nests_erase_of : ∀ (fs : List Ty), (∀ t ∈ fs, nest (eraseLims t) = nest t) →
    nests (eraseLimsL fs) = nests fs
  | [], _ => by simp [eraseLimsL]
  | a :: as, hh => by
    have h1 := nests_erase_of as (fun t ht => hh t (by simp [ht]))
    rw [eraseLimsL, nests, nests, hh a (by simp), h1]

theorem nest_eraseLims : (t : Ty) → nest (eraseLims t) = nest t
  | .uint _ | .bool | .bytesN _ | .bitvector _ => by rw [eraseLims]
  | .bitlist _ => by rw [eraseLims]; simp [nest]
  | .vector e n => by rw [eraseLims, nest, nest, nest_eraseLims e]
  | .list e _ => by rw [eraseLims, nest, nest, nest_eraseLims e]
  | .container fs => by
    rw [eraseLims, nest, nest, nests_erase_of fs (fun t _ => nest_eraseLims t)]
  | .union _ fs => by
    rw [eraseLims, nest, nest, nests_erase_of fs (fun t _ => nest_eraseLims t)]
termination_by t => sizeOf t
decreasing_by
  all_goals simp_wf
  all_goals first
    | omega
    | (have := List.sizeOf_lt_of_mem ‹_›; omega)

end ZtypV.CostProofs
