/-
C10, panic freedom of the flat decoder model: no `panic` outcome of `flatDecode` is reachable,
for every type (well-formed or not), every prior destination content and every reader state.
One lemma per codec helper, then recursion over the type.  Core Lean only.
-/
import ZtypV.Proofs.Flat
namespace ZtypV.FlatProofs
open ZtypV ZtypV.View ZtypV.Flat ZtypV.DecodeProofs

/-- a decoder that never panics -/
def DNoPanic (f : DR → R (Val × DR)) : Prop := ∀ dr, f dr ≠ .error .panic

theorem err_ne_panic {α : Type} : (Flat.err : R α) ≠ .error .panic := by
  intro hc; cases hc

theorem readFull_ne_panic (s : Slice) (dr : DR) : s.readFull dr ≠ .error .panic := by
  unfold Slice.readFull
  apply bind_ne_panic (read_ne_panic dr _)
  rintro ⟨bs, d⟩ _
  exact ok_ne_panic _

theorem decByteVector_ne_panic (dst : Slice) (n : Nat) (dr : DR) :
    decByteVector dst n dr ≠ .error .panic := readFull_ne_panic _ _

theorem decByteList_ne_panic (dst : Slice) (n : Nat) (dr : DR) :
    decByteList dst n dr ≠ .error .panic := by
  unfold decByteList
  exact ite_ne_panic (fun _ => err_ne_panic) (fun _ => readFull_ne_panic _ _)

theorem decBitVector_ne_panic (dst : Slice) (n : Nat) (dr : DR) :
    decBitVector dst n dr ≠ .error .panic := by
  unfold decBitVector
  apply bind_ne_panic (readFull_ne_panic _ _)
  rintro ⟨s, d⟩ _
  dsimp only
  split
  · exact ok_ne_panic _
  · exact err_ne_panic

theorem decBitList_ne_panic (dst : Slice) (n : Nat) (dr : DR) :
    decBitList dst n dr ≠ .error .panic := by
  unfold decBitList
  refine ite_ne_panic (fun _ => err_ne_panic) (fun _ => ?_)
  apply bind_ne_panic (readFull_ne_panic _ _)
  rintro ⟨s, d⟩ _
  dsimp only
  split
  · exact ok_ne_panic _
  · exact err_ne_panic

theorem readRootsLoop_ne_panic : ∀ (n : Nat) (dr : DR), readRootsLoop n dr ≠ .error .panic
  | 0, dr => by unfold readRootsLoop; exact ok_ne_panic _
  | n + 1, dr => by
    unfold readRootsLoop
    apply bind_ne_panic (read_ne_panic dr _)
    rintro ⟨r, d1⟩ _
    apply bind_ne_panic (readRootsLoop_ne_panic n d1)
    rintro ⟨rs, d2⟩ _
    exact ok_ne_panic _

theorem readRoots_ne_panic (dst : RSlice) (n : Nat) (dr : DR) : readRoots dst n dr ≠ .error .panic := by
  unfold readRoots
  apply bind_ne_panic (readRootsLoop_ne_panic _ _)
  rintro ⟨rs, d⟩ _
  exact ok_ne_panic _

theorem readRootsLimited_ne_panic (dst : RSlice) (n : Nat) (dr : DR) :
    readRootsLimited dst n dr ≠ .error .panic := by
  unfold readRootsLimited
  refine ite_ne_panic (fun _ => err_ne_panic) (fun _ => ?_)
  exact ite_ne_panic (fun _ => err_ne_panic) (fun _ => readRoots_ne_panic _ _ _)

theorem decFixedItems_ne_panic (size : Nat) : ∀ (items : List Des) (dr : DR),
    (∀ it ∈ items, DNoPanic it.run) → decFixedItems size items dr ≠ .error .panic
  | [], dr, _ => by unfold decFixedItems; exact ok_ne_panic _
  | it :: its, dr, h => by
    unfold decFixedItems
    apply bind_ne_panic (inSub_ne_panic dr size it.run (h it (by simp)))
    rintro ⟨x, d1⟩ _
    apply bind_ne_panic (decFixedItems_ne_panic size its d1 (fun j hj => h j (by simp [hj])))
    rintro ⟨xs, d2⟩ _
    exact ok_ne_panic _

theorem readOffsetsN_ne_panic : ∀ (n : Nat) (dr : DR), readOffsetsN n dr ≠ .error .panic
  | 0, dr => by unfold readOffsetsN; exact ok_ne_panic _
  | n + 1, dr => by
    unfold readOffsetsN
    apply bind_ne_panic (readOffset_ne_panic dr)
    rintro ⟨o, d1⟩ _
    apply bind_ne_panic (readOffsetsN_ne_panic n d1)
    rintro ⟨os, d2⟩ _
    exact ok_ne_panic _

theorem readOffsetsN_length : ∀ (n : Nat) (dr : DR) (os : List Nat) (dr' : DR),
    readOffsetsN n dr = .ok (os, dr') → os.length = n
  | 0, dr, os, dr', h => by
    unfold readOffsetsN at h; cases h; rfl
  | n + 1, dr, os, dr', h => by
    unfold readOffsetsN at h
    obtain ⟨⟨o, d1⟩, _, h⟩ := bind_eq_ok h
    obtain ⟨⟨os', d2⟩, h2, h⟩ := bind_eq_ok h
    have ih := readOffsetsN_length n d1 os' d2 h2
    cases h
    simp [ih]

theorem decOffsetItems_ne_panic (vec : Bool) (scope : Nat) : ∀ (offs : List Nat) (items : List Des)
    (prev : Nat) (dr : DR), offs.length ≤ items.length → (∀ it ∈ items, DNoPanic it.run) →
    decOffsetItems vec scope prev offs items dr ≠ .error .panic
  | [], _, _, dr, _, _ => by unfold decOffsetItems; exact ok_ne_panic _
  | _ :: _, [], _, _, hl, _ => by simp at hl
  | off :: rest, it :: its, prev, dr, hl, h => by
    unfold decOffsetItems
    refine ite_ne_panic (fun _ => err_ne_panic) (fun _ => ?_)
    dsimp only
    refine ite_ne_panic (fun _ => err_ne_panic) (fun _ => ?_)
    apply bind_ne_panic (inSub_ne_panic dr _ it.run (h it (by simp)))
    rintro ⟨x, d1⟩ _
    apply bind_ne_panic (decOffsetItems_ne_panic vec scope rest its _ d1
      (by simpa using hl) (fun j hj => h j (by simp [hj])))
    rintro ⟨xs, d2⟩ _
    exact ok_ne_panic _

theorem decVector_ne_panic (items : List Des) (fix : Nat) (dr : DR)
    (h : ∀ it ∈ items, DNoPanic it.run) : decVector items fix dr ≠ .error .panic := by
  unfold decVector
  refine ite_ne_panic (fun _ => decFixedItems_ne_panic _ _ _ h) (fun _ => ?_)
  apply bind_ne_panic (readOffsetsN_ne_panic _ _)
  rintro ⟨offs, d1⟩ ho
  dsimp only
  refine ite_ne_panic (fun _ => err_ne_panic) (fun _ => ?_)
  exact decOffsetItems_ne_panic _ _ _ _ _ _ (by rw [readOffsetsN_length _ _ _ _ ho]; exact Nat.le_refl _) h

theorem mem_replicate_run {n : Nat} {d it : Des} (h : it ∈ List.replicate n d) : it = d :=
  (List.mem_replicate.mp h).2

theorem decList_ne_panic (add : DR → R (Val × DR)) (fix lim : Nat) (dr : DR)
    (h : DNoPanic add) : decList add fix lim dr ≠ .error .panic := by
  unfold decList
  dsimp only
  refine ite_ne_panic (fun _ => ok_ne_panic _) (fun _ => ?_)
  refine ite_ne_panic (fun _ => ?_) (fun _ => ?_)
  · refine ite_ne_panic (fun _ => err_ne_panic) (fun _ => ?_)
    refine ite_ne_panic (fun _ => err_ne_panic) (fun _ => ?_)
    apply decFixedItems_ne_panic
    intro it hit
    rw [mem_replicate_run hit]; exact h
  · apply bind_ne_panic (readOffset_ne_panic dr)
    rintro ⟨first, d1⟩ _
    dsimp only
    refine ite_ne_panic (fun _ => err_ne_panic) (fun _ => ?_)
    refine ite_ne_panic (fun _ => err_ne_panic) (fun hne => ?_)
    refine ite_ne_panic (fun _ => err_ne_panic) (fun _ => ?_)
    apply bind_ne_panic (readOffsetsN_ne_panic _ _)
    rintro ⟨os, d2⟩ ho
    dsimp only
    apply decOffsetItems_ne_panic
    · have hl := readOffsetsN_length _ _ _ _ ho
      simp only [List.length_cons, List.length_replicate, hl]
      omega
    · intro it hit
      rw [mem_replicate_run hit]; exact h

theorem decFixedLenContainer_ne_panic : ∀ (fields : List Des) (dr : DR),
    (∀ f ∈ fields, DNoPanic f.run) → decFixedLenContainer fields dr ≠ .error .panic
  | [], dr, _ => by unfold decFixedLenContainer; exact ok_ne_panic _
  | f :: fs, dr, h => by
    unfold decFixedLenContainer
    apply bind_ne_panic (h f (by simp) dr)
    rintro ⟨x, d1⟩ _
    apply bind_ne_panic (decFixedLenContainer_ne_panic fs d1 (fun j hj => h j (by simp [hj])))
    rintro ⟨xs, d2⟩ _
    exact ok_ne_panic _

theorem decContainerFixed_ne_panic : ∀ (fields : List Des) (dr : DR),
    (∀ f ∈ fields, DNoPanic f.run) → decContainerFixed fields dr ≠ .error .panic
  | [], dr, _ => by unfold decContainerFixed; exact ok_ne_panic _
  | f :: fs, dr, h => by
    unfold decContainerFixed
    refine ite_ne_panic (fun _ => ?_) (fun _ => ?_)
    · apply bind_ne_panic (inSub_ne_panic dr _ f.run (h f (by simp)))
      rintro ⟨x, d1⟩ _
      apply bind_ne_panic (decContainerFixed_ne_panic fs d1 (fun j hj => h j (by simp [hj])))
      rintro ⟨slots, offs, dyn, d2⟩ _
      exact ok_ne_panic _
    · apply bind_ne_panic (readOffset_ne_panic dr)
      rintro ⟨o, d1⟩ _
      apply bind_ne_panic (decContainerFixed_ne_panic fs d1 (fun j hj => h j (by simp [hj])))
      rintro ⟨slots, offs, dyn, d2⟩ _
      exact ok_ne_panic _

/-- the first loop returns as many offsets as dynamic fields, all of them fields -/
theorem decContainerFixed_shape : ∀ (fields : List Des) (dr : DR) (slots : List (Option Val))
    (offs : List Nat) (dyn : List Des) (dr' : DR),
    decContainerFixed fields dr = .ok (slots, offs, dyn, dr') →
    offs.length = dyn.length ∧ (∀ f ∈ dyn, f ∈ fields)
  | [], dr, slots, offs, dyn, dr', h => by
    unfold decContainerFixed at h; cases h; simp
  | f :: fs, dr, slots, offs, dyn, dr', h => by
    unfold decContainerFixed at h
    split at h
    · obtain ⟨⟨x, d1⟩, _, h⟩ := bind_eq_ok h
      obtain ⟨⟨slots', offs', dyn', d2⟩, h2, h⟩ := bind_eq_ok h
      obtain ⟨hl, hm⟩ := decContainerFixed_shape fs d1 slots' offs' dyn' d2 h2
      cases h
      exact ⟨hl, fun g hg => by simp [hm g hg]⟩
    · obtain ⟨⟨o, d1⟩, _, h⟩ := bind_eq_ok h
      obtain ⟨⟨slots', offs', dyn', d2⟩, h2, h⟩ := bind_eq_ok h
      obtain ⟨hl, hm⟩ := decContainerFixed_shape fs d1 slots' offs' dyn' d2 h2
      cases h
      refine ⟨by simp [hl], fun g hg => ?_⟩
      rcases List.mem_cons.mp hg with rfl | hg'
      · simp
      · simp [hm g hg']

theorem decContainerDyn_ne_panic (scope : Nat) : ∀ (offs : List Nat) (dyn : List Des) (dr : DR),
    offs.length ≤ dyn.length → (∀ f ∈ dyn, DNoPanic f.run) →
    decContainerDyn scope offs dyn dr ≠ .error .panic
  | [], _, dr, _, _ => by unfold decContainerDyn; exact ok_ne_panic _
  | _ :: _, [], _, hl, _ => by simp at hl
  | off :: rest, f :: fs, dr, hl, h => by
    unfold decContainerDyn
    dsimp only
    refine ite_ne_panic (fun _ => err_ne_panic) (fun _ => ?_)
    apply bind_ne_panic (inSub_ne_panic dr _ f.run (h f (by simp)))
    rintro ⟨x, d1⟩ _
    apply bind_ne_panic (decContainerDyn_ne_panic scope rest fs d1 (by simpa using hl)
      (fun j hj => h j (by simp [hj])))
    rintro ⟨xs, d2⟩ _
    exact ok_ne_panic _

theorem decContainer_ne_panic (fields : List Des) (dr : DR)
    (h : ∀ f ∈ fields, DNoPanic f.run) : decContainer fields dr ≠ .error .panic := by
  unfold decContainer
  dsimp only
  apply bind_ne_panic (decContainerFixed_ne_panic fields dr h)
  rintro ⟨slots, offs, dyn, d1⟩ hf
  dsimp only
  obtain ⟨hl, hm⟩ := decContainerFixed_shape _ _ _ _ _ _ hf
  refine ite_ne_panic (fun _ => ok_ne_panic _) (fun _ => ?_)
  refine ite_ne_panic (fun _ => err_ne_panic) (fun _ => ?_)
  apply bind_ne_panic (decContainerDyn_ne_panic _ _ _ _ (by omega) (fun g hg => h g (hm g hg)))
  rintro ⟨vs, d2⟩ _
  exact ok_ne_panic _

theorem decUnion_ne_panic (select : Nat → R (Option Des)) (dr : DR)
    (hs : ∀ sel, select sel ≠ .error .panic)
    (hd : ∀ sel d, select sel = .ok (some d) → DNoPanic d.run) :
    decUnion select dr ≠ .error .panic := by
  unfold decUnion
  apply bind_ne_panic (read_ne_panic dr 1)
  rintro ⟨sb, d1⟩ _
  dsimp only
  apply bind_ne_panic (hs _)
  intro dest hdest
  cases dest with
  | none =>
    dsimp only
    refine ite_ne_panic (fun _ => err_ne_panic) (fun _ => ?_)
    exact ite_ne_panic (fun _ => err_ne_panic) (fun _ => ok_ne_panic _)
  | some d =>
    dsimp only
    refine ite_ne_panic (fun _ => err_ne_panic) (fun _ => ?_)
    apply bind_ne_panic (hd _ d hdest d1)
    rintro ⟨v, d2⟩ _
    exact ok_ne_panic _

theorem decUint_ne_panic (b : Nat) : DNoPanic (decUint b) := by
  intro dr
  unfold decUint
  apply bind_ne_panic (read_ne_panic dr b)
  rintro ⟨bs, d⟩ _
  exact ok_ne_panic _

theorem decBool_ne_panic : DNoPanic decBool := by
  intro dr
  unfold decBool
  apply bind_ne_panic (read_ne_panic dr 1)
  rintro ⟨bs, d⟩ _
  dsimp only
  exact ite_ne_panic (fun _ => err_ne_panic) (fun _ => ok_ne_panic _)

theorem decRoot_ne_panic : DNoPanic decRoot := by
  intro dr
  unfold decRoot
  apply bind_ne_panic (read_ne_panic dr 32)
  rintro ⟨bs, d⟩ _
  exact ok_ne_panic _

/-! ### the flat composition -/

/-- what the union's `selectFn` returns for an option index inside the option list -/
theorem flatSelect_eq : ∀ (opts : List Ty) (k : Nat) (t : Ty), opts[k]? = some t →
    flatSelect opts k = .ok (some ⟨flatFixedLength t, fun d => flatDecode t Val.none d⟩)
  | [], k, t, h => by simp at h
  | a :: as, 0, t, h => by
    simp only [List.getElem?_cons_zero, Option.some.injEq] at h
    subst h; rw [flatSelect]
  | a :: as, k + 1, t, h => by
    simp only [List.getElem?_cons_succ] at h
    rw [flatSelect]; exact flatSelect_eq as k t h

/-- every field deserializer is the flat decoder of a field type with some prior content -/
theorem flatFieldDes_mem : ∀ (fs : List Ty) (p : Val) (i : Nat) (f : Des), f ∈ flatFieldDes fs p i →
    ∃ t ∈ fs, ∃ q : Val, f = ⟨flatFixedLength t, fun d => flatDecode t q d⟩
  | [], p, i, f, h => by rw [flatFieldDes] at h; cases h
  | t :: ts, p, i, f, h => by
    rw [flatFieldDes] at h
    rcases List.mem_cons.mp h with rfl | h'
    · exact ⟨t, by simp, _, rfl⟩
    · obtain ⟨t', ht', q, hq⟩ := flatFieldDes_mem ts p (i + 1) f h'
      exact ⟨t', by simp [ht'], q, hq⟩

/-- the union's `selectFn` as `flatDecode` builds it -/
def unionSelect (hasNone : Bool) (opts : List Ty) : Nat → R (Option Des) := fun sel =>
  if sel ≥ opts.length + (if hasNone then 1 else 0) then Flat.err
  else if hasNone && sel == 0 then .ok Option.none
  else flatSelect opts (if hasNone then sel - 1 else sel)

/-- the selector function: an error, nil, or the fresh destination of option `unionOpt … sel` -/
theorem unionSelect_cases (hasNone : Bool) (opts : List Ty) (sel : Nat) :
    (unionSelect hasNone opts sel = Flat.err ∧ unionOpt hasNone opts sel = Option.none ∧ ¬ (hasNone = true ∧ sel = 0)) ∨
    (unionSelect hasNone opts sel = .ok Option.none ∧ hasNone = true ∧ sel = 0) ∨
    (∃ t, unionOpt hasNone opts sel = some t ∧
      unionSelect hasNone opts sel = .ok (some ⟨flatFixedLength t, fun d => flatDecode t Val.none d⟩)) := by
  unfold unionSelect unionOpt
  cases hasNone with
  | false =>
    simp only [Bool.false_eq_true, if_false, Nat.add_zero, Bool.false_and, false_and, not_false_eq_true, and_true]
    by_cases hs : sel ≥ opts.length
    · left
      rw [if_pos hs]
      exact ⟨rfl, by simp [List.getElem?_eq_none hs]⟩
    · right; right
      rw [if_neg hs]
      have hlt : sel < opts.length := by omega
      refine ⟨opts[sel], by simp [List.getElem?_eq_getElem hlt], ?_⟩
      exact flatSelect_eq opts sel _ (by simp [List.getElem?_eq_getElem hlt])
  | true =>
    simp only [if_true, Bool.true_and, beq_iff_eq, true_and]
    by_cases hs : sel ≥ opts.length + 1
    · left
      rw [if_pos hs]
      refine ⟨rfl, ?_, by omega⟩
      rw [if_neg (by omega)]
      exact List.getElem?_eq_none (by omega)
    · rw [if_neg hs]
      by_cases h0 : sel = 0
      · right; left
        rw [if_pos h0]; exact ⟨rfl, h0⟩
      · right; right
        rw [if_neg h0, if_neg h0]
        have hlt : sel - 1 < opts.length := by omega
        refine ⟨opts[sel - 1], by simp [List.getElem?_eq_getElem hlt], ?_⟩
        exact flatSelect_eq opts (sel - 1) _ (by simp [List.getElem?_eq_getElem hlt])

theorem unionOpt_mem {hasNone : Bool} {opts : List Ty} {sel : Nat} {t : Ty}
    (h : unionOpt hasNone opts sel = some t) : t ∈ opts := by
  unfold unionOpt at h
  split at h
  · split at h
    · cases h
    · exact List.mem_of_getElem? h
  · exact List.mem_of_getElem? h

/-- `flatDecode` never panics: every type, every prior destination content, every reader -/
theorem flatDecode_noPanic : (t : Ty) → ∀ (prior : Val), DNoPanic (flatDecode t prior)
  | .uint b, p, dr => by rw [flatDecode]; exact decUint_ne_panic b dr
  | .bool, p, dr => by rw [flatDecode]; exact decBool_ne_panic dr
  | .bytesN n, p, dr => by
    rw [flatDecode]
    refine ite_ne_panic (fun _ => decRoot_ne_panic dr) (fun _ => ?_)
    apply bind_ne_panic (decByteVector_ne_panic _ _ _)
    rintro ⟨s, d⟩ _
    exact ok_ne_panic _
  | .bitvector n, p, dr => by
    rw [flatDecode]
    apply bind_ne_panic (decBitVector_ne_panic _ _ _)
    rintro ⟨s, d⟩ _
    exact ok_ne_panic _
  | .bitlist n, p, dr => by
    rw [flatDecode]
    apply bind_ne_panic (decBitList_ne_panic _ _ _)
    rintro ⟨s, d⟩ _
    exact ok_ne_panic _
  | .vector e n, p, dr => by
    rw [flatDecode]
    refine ite_ne_panic (fun _ => ?_) (fun _ => ite_ne_panic (fun _ => ?_) (fun _ => ?_))
    · apply bind_ne_panic (decByteVector_ne_panic _ _ _)
      rintro ⟨s, d⟩ _
      exact ok_ne_panic _
    · apply bind_ne_panic (readRoots_ne_panic _ _ _)
      rintro ⟨s, d⟩ _
      exact ok_ne_panic _
    · dsimp only
      apply bind_ne_panic
      · apply decVector_ne_panic
        intro it hit
        obtain ⟨i, _, rfl⟩ := List.mem_map.mp hit
        exact flatDecode_noPanic e _
      · rintro ⟨vs, d⟩ _
        exact ok_ne_panic _
  | .list e lim, p, dr => by
    rw [flatDecode]
    refine ite_ne_panic (fun _ => ?_) (fun _ => ite_ne_panic (fun _ => ?_) (fun _ => ?_))
    · apply bind_ne_panic (decByteList_ne_panic _ _ _)
      rintro ⟨s, d⟩ _
      exact ok_ne_panic _
    · apply bind_ne_panic (readRootsLimited_ne_panic _ _ _)
      rintro ⟨s, d⟩ _
      exact ok_ne_panic _
    · apply bind_ne_panic (decList_ne_panic _ _ _ _ (flatDecode_noPanic e _))
      rintro ⟨vs, d⟩ _
      exact ok_ne_panic _
  | .container fs, p, dr => by
    rw [flatDecode]
    have hf : ∀ f ∈ flatFieldDes fs p 0, DNoPanic f.run := by
      intro f hf
      obtain ⟨t, ht, q, rfl⟩ := flatFieldDes_mem fs p 0 f hf
      exact flatDecode_noPanic t q
    refine ite_ne_panic (fun _ => ?_) (fun _ => ?_)
    · apply bind_ne_panic (decFixedLenContainer_ne_panic _ _ hf)
      rintro ⟨vs, d⟩ _
      exact ok_ne_panic _
    · apply bind_ne_panic (decContainer_ne_panic _ _ hf)
      rintro ⟨vs, d⟩ _
      exact ok_ne_panic _
  | .union hasNone opts, p, dr => by
    rw [flatDecode]
    dsimp only
    apply bind_ne_panic
    · apply decUnion_ne_panic (unionSelect hasNone opts)
      · intro sel
        rcases unionSelect_cases hasNone opts sel with ⟨h, _⟩ | ⟨h, _⟩ | ⟨t, _, h⟩ <;> rw [h]
        · exact err_ne_panic
        · exact ok_ne_panic _
        · exact ok_ne_panic _
      · intro sel d hd
        rcases unionSelect_cases hasNone opts sel with ⟨h, _⟩ | ⟨h, _⟩ | ⟨t, ht, h⟩ <;> rw [h] at hd
        · cases hd
        · cases hd
        · cases hd
          have := unionOpt_mem ht
          exact flatDecode_noPanic t _
    · rintro ⟨⟨sel, ov⟩, d⟩ _
      dsimp only
      split <;> exact ok_ne_panic _
termination_by t => sizeOf t
decreasing_by
  all_goals simp_wf
  · omega
  · omega
  · have := List.sizeOf_lt_of_mem ht; omega
  · have := List.sizeOf_lt_of_mem this; omega

theorem flatDecodeTop_noPanic (t : Ty) (prior : Val) (bs : Bytes) :
    flatDecodeTop t prior bs ≠ .error .panic := by
  unfold flatDecodeTop
  apply bind_ne_panic (flatDecode_noPanic t prior _)
  rintro ⟨v, d⟩ _
  exact ok_ne_panic _

end ZtypV.FlatProofs
