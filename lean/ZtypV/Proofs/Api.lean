/-
Helper lemmas for property family C02c (Props/C02c.lean), part 1: the type-definition
accessors in `UInt64` arithmetic (Model/Api.lean), `ByteBitIndex`, `typeString`, the cast table,
`MustUint256`.  Core Lean only (plus the project's own Proofs files).
-/
import ZtypV.Model.Api
import ZtypV.Proofs.BasicApi
import ZtypV.Proofs.Bitfields
import ZtypV.Proofs.Conv
import ZtypV.Proofs.Sizes
namespace ZtypV.Api
open ZtypV ZtypV.View

/-- the element sizes of `UintMeta`: uint8/16/32/64/256 -/
abbrev uintSize (s : Nat) : Prop := BasicApi.uintSize s

theorem two64 : (2 : Nat) ^ 64 = 18446744073709551616 := by decide

/-! ### `ElementsPerBottomNode`, `BottomNodeLimit`, `TranslateIndex` -/

theorem elementsPerBottomNode_spec (s : Nat) (h : uintSize s) :
    elementsPerBottomNode (UInt64.ofNat s) = some (UInt64.ofNat (32 / s)) := by
  rcases h with h | h | h | h | h <;> subst h <;> decide

theorem elementsPerBottomNode_zero : elementsPerBottomNode 0 = none := by decide

theorem perNode_ne_zero (s : Nat) (h : uintSize s) : UInt64.ofNat (32 / s) ≠ 0 := by
  rcases h with h | h | h | h | h <;> subst h <;> decide

theorem bottomNodeLimit_eq (s : Nat) (h : uintSize s) (limit : UInt64) :
    bottomNodeLimit limit (UInt64.ofNat s) =
      some ((limit + UInt64.ofNat (32 / s) - 1) / UInt64.ofNat (32 / s)) := by
  unfold bottomNodeLimit
  rw [elementsPerBottomNode_spec s h]
  simp only [perNode_ne_zero s h, if_false]

theorem translateIndex_eq (s : Nat) (h : uintSize s) (index : UInt64) :
    translateIndex (UInt64.ofNat s) index =
      some (index / UInt64.ofNat (32 / s), (index &&& (UInt64.ofNat (32 / s) - 1)).toUInt8) := by
  unfold translateIndex
  rw [elementsPerBottomNode_spec s h]
  simp only [perNode_ne_zero s h, if_false]

/-- the value `BottomNodeLimit` computes, wrap-around included -/
theorem bottomNodeLimit_val (s : Nat) (h : uintSize s) (limit : UInt64) :
    ∃ v, bottomNodeLimit limit (UInt64.ofNat s) = some v ∧
      v.toNat = ((limit.toNat + 32 / s - 1) % 2 ^ 64) / (32 / s) := by
  refine ⟨_, bottomNodeLimit_eq s h limit, ?_⟩
  have hl : limit.toNat < 2 ^ 64 := limit.toNat_lt
  rw [two64] at *
  rw [UInt64.toNat_div, UInt64.toNat_sub, UInt64.toNat_add]
  rcases h with h | h | h | h | h <;> subst h <;>
    simp only [Nat.reduceDiv, UInt64.reduceOfNat, UInt64.reduceToNat, two64] <;> omega

/-- without wrap-around: the SSZ chunk count `ceil(limit · size / 32)` -/
theorem bottomNodeLimit_nowrap (s : Nat) (h : uintSize s) (limit : UInt64)
    (hw : limit.toNat + 32 / s - 1 < 2 ^ 64) :
    ∃ v, bottomNodeLimit limit (UInt64.ofNat s) = some v ∧ v.toNat = basicChunkCount s limit.toNat := by
  obtain ⟨v, h1, h2⟩ := bottomNodeLimit_val s h limit
  refine ⟨v, h1, ?_⟩
  rw [h2, Nat.mod_eq_of_lt hw]
  unfold basicChunkCount
  rcases h with h | h | h | h | h <;> subst h <;> omega

theorem translateIndex_val (s : Nat) (h : uintSize s) (index : UInt64) :
    ∃ a b, translateIndex (UInt64.ofNat s) index = some (a, b) ∧
      a.toNat = index.toNat / (32 / s) ∧ b.toNat = index.toNat % (32 / s) := by
  refine ⟨_, _, translateIndex_eq s h index, ?_, ?_⟩
  · rw [UInt64.toNat_div]
    rcases h with h | h | h | h | h <;> subst h <;> rfl
  · rw [UInt64.toNat_toUInt8, UInt64.toNat_and]
    rcases h with h | h | h | h | h <;> subst h
    · show (index.toNat &&& (2 ^ 5 - 1)) % 256 = index.toNat % 32
      rw [Nat.and_two_pow_sub_one_eq_mod]; omega
    · show (index.toNat &&& (2 ^ 4 - 1)) % 256 = index.toNat % 16
      rw [Nat.and_two_pow_sub_one_eq_mod]; omega
    · show (index.toNat &&& (2 ^ 3 - 1)) % 256 = index.toNat % 8
      rw [Nat.and_two_pow_sub_one_eq_mod]; omega
    · show (index.toNat &&& (2 ^ 2 - 1)) % 256 = index.toNat % 4
      rw [Nat.and_two_pow_sub_one_eq_mod]; omega
    · show (index.toNat &&& (2 ^ 0 - 1)) % 256 = index.toNat % 1
      rw [Nat.and_two_pow_sub_one_eq_mod]; omega

/-! ### bitfields -/

theorem bitBottomNodes_val (n : UInt64) : (bitBottomNodes n).toNat = ((n.toNat + 255) % 2 ^ 64) / 256 := by
  unfold bitBottomNodes
  rw [UInt64.toNat_shiftRight, UInt64.toNat_add]
  show ((n.toNat + 255) % 2 ^ 64) >>> (8 % 64) = _
  rw [Nat.shiftRight_eq_div_pow]

theorem bitBottomNodes_nowrap (n : UInt64) (hw : n.toNat + 255 < 2 ^ 64) :
    (bitBottomNodes n).toNat = (n.toNat + 255) / 256 := by
  rw [bitBottomNodes_val, Nat.mod_eq_of_lt hw]

/-! ### `ByteBitIndex` -/

set_option maxRecDepth 100000 in
theorem byteBitIndex_eq_log2 : ∀ v : UInt8, (byteBitIndex v).toNat = Nat.log2 v.toNat := by
  apply Bitfields.forall_u8
  decide

/-- `ByteBitIndex` is the function Model/Decode.lean uses for the delimiter bit -/
theorem byteBitIndex_eq_decode (v : UInt8) : (byteBitIndex v).toNat = View.byteBitIndex v :=
  byteBitIndex_eq_log2 v

/-! ### `String()` / `TypeRepr()` -/

mutual
/-- `String()` of the type definition reaches the nil option of a `Union[None, …]`: through
    series element types and union options, not through container fields (a container's
    `String()` is its name) -/
def strPanics : Ty → Bool
  | .vector e _ | .list e _ => strPanics e
  | .union hasNone opts => hasNone || anyStrPanics opts
  | _ => false
def anyStrPanics : List Ty → Bool
  | [] => false
  | t :: ts => strPanics t || anyStrPanics ts
end

theorem optionStrings_none_iff (ts : List Ty)
    (ih : ∀ t, t ∈ ts → (typeString t = none ↔ strPanics t = true)) :
    optionStrings ts = none ↔ anyStrPanics ts = true := by
  induction ts with
  | nil => simp [optionStrings, anyStrPanics]
  | cons t ts iht =>
    have h1 := ih t (List.mem_cons_self ..)
    have h2 := iht (fun t ht => ih t (List.mem_cons_of_mem _ ht))
    rw [optionStrings, anyStrPanics]
    cases hs : typeString t with
    | none => simp [h1.mp hs]
    | some s =>
      have hp : strPanics t = false := by
        cases hp : strPanics t with
        | false => rfl
        | true => rw [h1.mpr hp] at hs; cases hs
      simp [hp, h2]

theorem typeString_none_iff : ∀ t : Ty, typeString t = none ↔ strPanics t = true := by
  apply Sizes.tyInd
  · intro b; simp [typeString, strPanics]
  · simp [typeString, strPanics]
  · intro n; simp only [typeString, strPanics]; split <;> simp
  · intro n; simp [typeString, strPanics]
  · intro n; simp [typeString, strPanics]
  · intro e n ih; simp [typeString, strPanics, ih]
  · intro e n ih; simp [typeString, strPanics, ih]
  · intro fs _; simp [typeString, strPanics]
  · intro hn fs ih
    rw [typeString, strPanics]
    cases hn with
    | true => simp
    | false => simp [optionStrings_none_iff fs ih]

theorem anyStrPanics_iff (ts : List Ty) : anyStrPanics ts = true ↔ ∃ t, t ∈ ts ∧ strPanics t = true := by
  induction ts with
  | nil => simp [anyStrPanics]
  | cons t ts ih => simp [anyStrPanics, ih]

theorem fieldLines_none_iff (ts : List Ty) (i : Nat) : fieldLines ts i = none ↔ anyStrPanics ts = true := by
  induction ts generalizing i with
  | nil => simp [fieldLines, anyStrPanics]
  | cons t ts ih =>
    rw [fieldLines, anyStrPanics]
    cases hs : typeString t with
    | none => simp [(typeString_none_iff t).mp hs]
    | some s =>
      have hp : strPanics t = false := by
        cases hp : strPanics t with
        | false => rfl
        | true => rw [(typeString_none_iff t).mpr hp] at hs; cases hs
      simp [hp, ih]

theorem typeRepr_container_none_iff (fs : List Ty) :
    typeRepr (.container fs) = none ↔ anyStrPanics fs = true := by
  simp [typeRepr, fieldLines_none_iff]

theorem typeRepr_union_none_iff (hn : Bool) (opts : List Ty) :
    typeRepr (.union hn opts) = none ↔ (hn = true ∨ anyStrPanics opts = true) := by
  rw [typeRepr, typeString_none_iff, strPanics]; simp

/-! ### the casts -/

/-- series of booleans: basic in the SSZ sense, complex in the library (known finding D3) -/
def boolSeries : Ty → Bool
  | .vector .bool _ | .list .bool _ => true
  | _ => false

/-- on every type but boolean series the Go type assertion succeeds exactly for the SSZ type
    the cast is for -/
theorem accepts_eq_isFor (c : Cast) (t : Ty) (k : Kind) (hk : kindOf t = some k)
    (hb : boolSeries t = false) : c.accepts k = c.isFor t := by
  cases t with
  | uint b =>
    simp only [kindOf] at hk
    split at hk
    · cases hk; subst_vars; cases c <;> rfl
    · split at hk
      · cases hk; subst_vars; cases c <;> rfl
      · split at hk
        · cases hk; subst_vars; cases c <;> rfl
        · split at hk
          · cases hk; subst_vars; cases c <;> rfl
          · split at hk
            · cases hk; subst_vars; cases c <;> rfl
            · cases hk
  | bool => cases hk; cases c <;> rfl
  | bytesN n =>
    simp only [kindOf] at hk
    split at hk
    · cases hk; subst_vars; cases c <;> rfl
    · rename_i hn
      cases hk
      cases c <;> simp [Cast.accepts, Cast.isFor, asBytesN, hn] <;>
        (first | rfl | (by_cases h : n = 4 <;> simp [h]) | (by_cases h : n = 8 <;> simp [h]) | (by_cases h : n = 16 <;> simp [h]))
  | bitvector n => cases hk; cases c <;> rfl
  | bitlist n => cases hk; cases c <;> rfl
  | container fs => cases hk; cases c <;> rfl
  | union hn fs => cases hk; cases c <;> rfl
  | vector e n =>
    cases e <;> (simp only [kindOf, isBasicElem] at hk; cases hk) <;>
      first
      | (simp [boolSeries] at hb; done)
      | (cases c <;> simp [Cast.accepts, Cast.isFor, Ty.isBasic, asBytesN])
  | list e n =>
    cases e <;> (simp only [kindOf, isBasicElem] at hk; cases hk) <;>
      first
      | (simp [boolSeries] at hb; done)
      | (cases c <;> simp [Cast.accepts, Cast.isFor, Ty.isBasic, asBytesN])

theorem apply_err (c : Cast) : c.apply .err = none := rfl
theorem apply_nil (c : Cast) : c.apply .nil = none := rfl

theorem apply_view (c : Cast) (t : Ty) (n : Node) (k : Kind) (hk : kindOf t = some k) :
    c.apply (.view t n) = if c.accepts k then some (t, n) else none := by
  simp [Cast.apply, hk]

/-- exactly the matching casts succeed: for every dynamic type the list of accepting casts -/
theorem accepting_casts (k : Kind) :
    Cast.all.filter (fun c => c.accepts k) =
      match k with
      | .u8 => [.u8, .byte] | .u16 => [.u16] | .u32 => [.u32] | .u64 => [.u64] | .u256 => [.u256]
      | .bool => [.bool] | .root => [.root]
      | .small len =>
        [.small] ++ (if len = 4 then [Cast.b4] else []) ++ (if len = 8 then [Cast.b8] else []) ++
          (if len = 16 then [Cast.b16] else [])
      | .blist => [.blist] | .bvec => [.bvec] | .clist => [.clist] | .cvec => [.cvec]
      | .container => [.container] | .union => [.union] | .bitlist => [.bitlist] | .bitvec => [.bitvec] := by
  cases k <;> try rfl
  rename_i len
  simp only [Cast.all, List.filter, Cast.accepts, asBytesN]
  by_cases h4 : len = 4
  · subst h4; rfl
  · by_cases h8 : len = 8
    · subst h8; rfl
    · by_cases h16 : len = 16
      · subst h16; rfl
      · simp [h4, h8, h16]

/-! ### `MustUint256` -/

theorem mustUint256_iff (s : Conv.Text) (n : Nat) :
    mustUint256 s = some n ↔ (Conv.denotesInt s = some (n : Int) ∧ n < 2 ^ 256) := by
  rw [← Conv.specInt256_ok_iff, ← Conv.uint256ViewUnmarshalText_eq]
  unfold mustUint256
  cases Conv.uint256ViewUnmarshalText s <;> simp

theorem mustUint256_decimal (n : Nat) : mustUint256 (Conv.decDigits n) = if n < 2 ^ 256 then some n else none := by
  by_cases h : n < 2 ^ 256
  · rw [if_pos h, mustUint256_iff]; exact ⟨Conv.denotesInt_decDigits n, h⟩
  · rw [if_neg h]
    cases hm : mustUint256 (Conv.decDigits n) with
    | none => rfl
    | some m =>
      obtain ⟨h1, h2⟩ := (mustUint256_iff _ m).mp hm
      rw [Conv.denotesInt_decDigits] at h1
      have : n = m := by
        have := Option.some.inj h1
        exact Int.ofNat.inj this
      omega

end ZtypV.Api
