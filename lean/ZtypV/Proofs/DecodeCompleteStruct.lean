/-
C02 round trip, decoder completeness for unions and containers: selector range, the `None`
option (scope 1), fixed-size options (exact remaining scope); the container scope check
(`minFields ≤ len ≤ maxFields`, by the C15 bounds) and both container loops
(`decodeFixedPart`, `decodeDynPart`) on the layout `serContainerParts` writes.
-/
import ZtypV.Proofs.DecodeCompleteSeq
namespace ZtypV.DecodeProofs
open ZtypV ZtypV.View

/-! ### union -/

theorem decodeOpt_complete {h : HashFn} {P : Node × DR → Prop} : ∀ (opts : List Ty) (k rem : Nat)
    (dr : DR) (t : Ty), opts[k]? = some t → (t.isFixed = true → t.fixedSize = rem) →
    Ok (decode h t dr) P → Ok (decodeOpt h opts k rem dr) P := by
  intro opts
  induction opts with
  | nil => intro k rem dr t hk _ _; simp at hk
  | cons t' ts ih =>
    intro k rem dr t hk hfix hd
    cases k with
    | zero =>
      simp only [List.getElem?_cons_zero, Option.some.injEq] at hk
      subst hk
      rw [decodeOpt]
      apply Ok.ite_err _ hd
      intro hc
      simp only [Bool.and_eq_true, bne_iff_ne, ne_eq] at hc
      exact hc.2 (hfix hc.1)
    | succ k =>
      rw [decodeOpt]
      exact ih k rem dr t (by simpa using hk) hfix hd

/-- what `unionOpt = some t` means for the decoder: the selector is in range, it is not the
    `None` selector and the option index the decoder uses holds `t` -/
theorem unionOpt_some {hasNone : Bool} {opts : List Ty} {sel : Nat} {t : Ty}
    (hu : unionOpt hasNone opts sel = some t) :
    sel < opts.length + (if hasNone then 1 else 0) ∧ (hasNone && sel == 0) = false ∧
      opts[if hasNone then sel - 1 else sel]? = some t := by
  unfold unionOpt at hu
  cases hasNone with
  | true =>
    simp only [if_true] at hu ⊢
    by_cases h0 : sel = 0
    · simp [h0] at hu
    · rw [if_neg h0] at hu
      have hlt : sel - 1 < opts.length := by
        apply Nat.lt_of_not_ge
        intro hge
        rw [List.getElem?_eq_none hge] at hu
        cases hu
      refine ⟨by omega, by simpa using h0, hu⟩
  | false =>
    simp only [Bool.false_eq_true, if_false] at hu ⊢
    have hlt : sel < opts.length := by
      apply Nat.lt_of_not_ge
      intro hge
      rw [List.getElem?_eq_none hge] at hu
      cases hu
    exact ⟨by omega, by simp, hu⟩

theorem union_complete {h : HashFn} {hasNone : Bool} {opts : List Ty}
    (hopts : ∀ t ∈ opts, Complete h t)
    (hcnt : opts.length + (if hasNone then 1 else 0) ≤ 128) :
    Complete h (.union hasNone opts) := by
  intro v dr rest hv hlt hsc hi hav
  cases v with
  | union sel w =>
    simp only [hasType] at hv
    simp only [serialize, List.length_cons] at hlt hsc
    simp only [serialize] at hav
    have hav' : dr.avail = [UInt8.ofNat sel] ++
        ((match unionOpt hasNone opts sel with
          | some t => serialize t w
          | Option.none => []) ++ rest) := by
      rw [hav]; rfl
    have hr := read_complete hav' (by simp only [DR.scope] at hsc; simp only [List.length_singleton]; omega)
    simp only [List.length_singleton] at hr
    rw [decode]
    simp only []
    apply Ok.ite_err (by omega)
    apply Ok.bind hr
    rintro ⟨sb, d1⟩ ⟨h1, h2, hi1, hm1⟩
    simp only at h1 h2 hi1 hm1
    subst h1
    cases hu : unionOpt hasNone opts sel with
    | none =>
      rw [hu] at hv hsc h2
      simp only [Bool.and_eq_true, beq_iff_eq] at hv
      obtain ⟨⟨hN, hs0⟩, _⟩ := hv
      subst hN
      subst hs0
      simp only [List.length_nil] at hsc
      simp only [List.getD_cons_zero]
      apply Ok.ite_err (by simp)
      rw [if_pos (by decide)]
      apply Ok.ite_err (by omega)
      exact Ok.pure (by simpa using h2)
    | some t =>
      rw [hu] at hv hlt hsc h2
      simp only at hv hlt hsc h2
      obtain ⟨hrange, hnn, hget⟩ := unionOpt_some hu
      have hselnat : (UInt8.ofNat sel).toNat = sel := by
        rw [UInt8.toNat_ofNat']
        exact Nat.mod_eq_of_lt (by omega)
      simp only [List.getD_cons_zero, hselnat]
      apply Ok.ite_err (by omega)
      rw [if_neg (by rw [hnn]; simp)]
      have hmem : t ∈ opts := List.mem_of_getElem? hget
      have hd := hopts t hmem w d1 rest hv (by omega)
        (by simp only [DR.scope, hi1, hm1]; simp only [DR.scope] at hsc; omega) (by simp only [DR.scope] at hsc; omega) h2
      apply Ok.bind (decodeOpt_complete opts _ (dr.scope - 1) d1 t hget
        (fun hf => by rw [← serialize_fixed_length w t hf hv]; omega) hd)
      rintro ⟨c, d2⟩ ha
      exact Ok.pure ha
  | _ => simp [hasType] at hv

/-! ### container layout -/

/-- the offsets `serFixedPart` writes for the variable-size fields, as numbers -/
def dynOffsets (off : Nat) : List (Bool × Bytes) → List Nat
  | [] => []
  | (true, _) :: ps => dynOffsets off ps
  | (false, p) :: ps => off :: dynOffsets (off + p.length) ps

theorem dynOffsets_headD : ∀ (ps : List (Bool × Bytes)) (off scope : Nat),
    off + (serVarPart ps).length = scope → (dynOffsets off ps).headD scope = off := by
  intro ps
  induction ps with
  | nil => intro off scope hs; simpa [dynOffsets, serVarPart] using hs.symm
  | cons x ps ih =>
    intro off scope hs
    obtain ⟨fx, p⟩ := x
    cases fx with
    | true => simpa [dynOffsets, serVarPart] using ih off scope (by simpa [serVarPart] using hs)
    | false => simp [dynOffsets]

theorem serFixedPart_length : ∀ (ps : List (Bool × Bytes)) (off : Nat),
    (serFixedPart off ps).length = fixedPartLen ps := by
  intro ps
  induction ps with
  | nil => intro _; rfl
  | cons x ps ih =>
    intro off
    obtain ⟨fx, p⟩ := x
    cases fx with
    | true => simp [serFixedPart, fixedPartLen, ih]
    | false => simp [serFixedPart, fixedPartLen, ih]

theorem mergeFields_length : ∀ (slots : List (Option Node)) (dyn : List Node),
    (mergeFields slots dyn).length = slots.length := by
  intro slots
  induction slots with
  | nil => intro dyn; rw [mergeFields]; rfl
  | cons s slots ih =>
    intro dyn
    cases s with
    | some x => rw [mergeFields]; simp [ih]
    | none =>
      cases dyn with
      | nil => rw [mergeFields]; simp [ih]
      | cons d dyn => rw [mergeFields]; simp [ih]

/-! ### container, first loop -/

theorem fixedPart_complete {h : HashFn} : ∀ (fs : List Ty), (∀ t ∈ fs, Complete h t) →
    ∀ (vs : List Val) (prev : Nat) (first : Bool) (off scope : Nat) (dr : DR) (rest : Bytes),
    fieldsHaveType fs vs = true → scope < 2 ^ 32 → Ty.fixedPart fs ≤ scope →
    prev ≤ off → (first = true → off = prev) →
    off + (serVarPart (serFields fs vs)).length ≤ scope →
    dr.i + Ty.fixedPart fs ≤ dr.max →
    dr.avail = serFixedPart off (serFields fs vs) ++ rest →
    Ok (decodeFixedPart h fs prev first scope dr) (fun r =>
      r.1.length = fs.length ∧ r.2.1 = dynOffsets off (serFields fs vs) ∧ r.2.2.avail = rest ∧
      r.2.2.i ≤ dr.i + Ty.fixedPart fs ∧ r.2.2.max = dr.max) := by
  intro fs
  induction fs with
  | nil =>
    intro _ vs prev first off scope dr rest hv _ _ _ _ _ _ hav
    cases vs with
    | cons v vs => simp [fieldsHaveType] at hv
    | nil =>
      rw [decodeFixedPart]
      exact Ok.pure ⟨rfl, rfl, by simpa [serFields, serFixedPart] using hav, Nat.le_add_right _ _, rfl⟩
  | cons t ts ih =>
    intro hall vs prev first off scope dr rest hv hs32 hfp hprev hfirst hoff hi hav
    have ht : Complete h t := hall t (by simp)
    have hts : ∀ t' ∈ ts, Complete h t' := fun t' ht' => hall t' (by simp [ht'])
    cases vs with
    | nil => simp [fieldsHaveType] at hv
    | cons v vs =>
      simp only [fieldsHaveType, Bool.and_eq_true] at hv
      rw [decodeFixedPart]
      by_cases hf : t.isFixed = true
      · rw [if_pos hf]
        have hfpe : Ty.fixedPart (t :: ts) = t.fixedSize + Ty.fixedPart ts := by
          simp [Ty.fixedPart, hf]
        rw [hfpe] at hfp hi
        simp only [serFields, hf, serFixedPart, serVarPart, List.append_assoc] at hav hoff
        have hl := serialize_fixed_length v t hf hv.1
        have h1 := inSub_decode_complete ht hv.1 (by omega) hav
          (by simp only [DR.scope]; omega)
        rw [hl] at h1
        apply Ok.bind h1
        rintro ⟨x, d1⟩ ⟨ha, hi1, hm1⟩
        simp only at ha hi1 hm1
        simp only []
        apply Ok.bind (ih hts vs prev first off scope d1 rest hv.2 hs32 (by omega) hprev hfirst
          hoff (by omega) ha)
        rintro ⟨slots, offs, d2⟩ ⟨hl2, ho2, ha2, hi2, hm2⟩
        simp only at hl2 ho2 ha2 hi2 hm2
        refine Ok.pure ⟨by simp [hl2], ?_, ha2, ?_, by rw [hm2, hm1]⟩
        · simp only [serFields, hf, dynOffsets]; exact ho2
        · simp only [hfpe]; omega
      · rw [if_neg hf]
        have hf' : t.isFixed = false := by simpa using hf
        have hfpe : Ty.fixedPart (t :: ts) = 4 + Ty.fixedPart ts := by
          simp [Ty.fixedPart, hf']
        rw [hfpe] at hfp hi
        simp only [serFields, hf', serFixedPart, serVarPart, List.append_assoc,
          List.length_append] at hav hoff
        apply Ok.bind (readOffset_complete hav (by omega) (by omega))
        rintro ⟨o, d1⟩ ⟨ho, ha, hi1, hm1⟩
        simp only at ho ha hi1 hm1
        subst ho
        simp only []
        apply Ok.ite_err (by omega)
        apply Ok.ite_err (by
          intro hc
          simp only [Bool.and_eq_true, decide_eq_true_eq] at hc
          exact hc.2 (hfirst hc.1))
        apply Ok.ite_err (by omega)
        apply Ok.bind (ih hts vs o false (o + (serialize t v).length) scope d1 rest hv.2 hs32
          (by omega) (by omega) (fun hc => by cases hc) (by omega) (by omega) ha)
        rintro ⟨slots, offs, d2⟩ ⟨hl2, ho2, ha2, hi2, hm2⟩
        simp only at hl2 ho2 ha2 hi2 hm2
        refine Ok.pure ⟨by simp [hl2], ?_, ha2, ?_, by rw [hm2, hm1]⟩
        · simp only [serFields, hf', dynOffsets, ho2]
        · simp only [hfpe]; omega

/-! ### container, second loop -/

theorem dynPart_complete {h : HashFn} : ∀ (fs : List Ty), (∀ t ∈ fs, Complete h t) →
    ∀ (vs : List Val) (off scope : Nat) (dr : DR) (rest : Bytes),
    fieldsHaveType fs vs = true → scope < 2 ^ 32 →
    off + (serVarPart (serFields fs vs)).length = scope →
    (serVarPart (serFields fs vs)).length ≤ dr.scope →
    dr.avail = serVarPart (serFields fs vs) ++ rest →
    Ok (decodeDynPart h fs scope (dynOffsets off (serFields fs vs)) dr)
      (fun r => r.2.avail = rest) := by
  intro fs
  induction fs with
  | nil =>
    intro _ vs off scope dr rest hv _ _ _ hav
    cases vs with
    | cons v vs => simp [fieldsHaveType] at hv
    | nil =>
      rw [decodeDynPart]
      exact Ok.pure (by simpa [serFields, serVarPart] using hav)
  | cons t ts ih =>
    intro hall vs off scope dr rest hv hs32 hoff hsc hav
    have ht : Complete h t := hall t (by simp)
    have hts : ∀ t' ∈ ts, Complete h t' := fun t' ht' => hall t' (by simp [ht'])
    cases vs with
    | nil => simp [fieldsHaveType] at hv
    | cons v vs =>
      simp only [fieldsHaveType, Bool.and_eq_true] at hv
      rw [decodeDynPart_cons]
      by_cases hf : t.isFixed = true
      · rw [if_pos hf]
        simp only [serFields, hf, serVarPart, dynOffsets] at hav hoff hsc ⊢
        exact ih hts vs off scope dr rest hv.2 hs32 hoff hsc hav
      · rw [if_neg hf]
        have hf' : t.isFixed = false := by simpa using hf
        simp only [serFields, hf', serVarPart, dynOffsets, List.append_assoc,
          List.length_append] at hav hoff hsc ⊢
        rw [dynOffsets_headD _ _ scope (by omega), Nat.add_sub_cancel_left]
        apply Ok.bind (inSub_decode_complete ht hv.1 (by omega) hav (by omega))
        rintro ⟨x, d1⟩ ⟨ha, hi1, hm1⟩
        simp only at ha hi1 hm1
        simp only []
        apply Ok.bind (ih hts vs (off + (serialize t v).length) scope d1 rest hv.2 hs32
          (by omega) (by simp only [DR.scope, hi1, hm1]; simp only [DR.scope] at hsc; omega) ha)
        rintro ⟨xs, d2⟩ ha2
        exact Ok.pure ha2

/-! ### container -/

theorem container_complete {h : HashFn} {fs : List Ty} (hfs : ∀ t ∈ fs, Complete h t) :
    Complete h (.container fs) := by
  intro v dr rest hv hlt hsc hi hav
  have hb := ZtypV.Sizes.ser_bounds (.container fs) v hv
  cases v with
  | seq vs =>
    simp only [hasType] at hv
    simp only [Ty.minSize, Ty.maxSize] at hb
    simp only [serialize, serContainerParts] at hlt hsc hav hb
    have hfpl : fixedPartLen (serFields fs vs) = Ty.fixedPart fs :=
      fixedPartLen_serFields fs vs (fun w _ t hf hw => serialize_fixed_length w t hf hw) hv
    rw [hfpl] at hlt hsc hav hb
    rw [List.length_append, serFixedPart_length, hfpl] at hlt hsc hb
    rw [List.append_assoc] at hav
    rw [decode]
    simp only []
    apply Ok.ite_err (by omega)
    apply Ok.bind (fixedPart_complete fs hfs vs (Ty.fixedPart fs) true (Ty.fixedPart fs) dr.scope
      dr _ hv (by omega) (by omega) (Nat.le_refl _) (fun _ => rfl) (by omega)
      (by simp only [DR.scope] at hsc; omega) hav)
    rintro ⟨slots, offs, d1⟩ ⟨hl1, ho1, ha1, hi1, hm1⟩
    simp only at hl1 ho1 ha1 hi1 hm1
    subst ho1
    simp only []
    apply Ok.bind (dynPart_complete fs hfs vs (Ty.fixedPart fs) dr.scope d1 rest hv (by omega)
      (by omega) (by simp only [DR.scope] at hsc hi1 ⊢; omega) ha1)
    rintro ⟨dyn, d2⟩ ha2
    simp only at ha2
    simp only []
    obtain ⟨n, hn⟩ := fill_nodes_ok h (mergeFields slots dyn) fs.length
      (by rw [mergeFields_length, hl1]; exact Nat.le_refl _)
    rw [hn]
    exact Ok.pure ha2
  | _ => simp [hasType] at hv

end ZtypV.DecodeProofs
