/-
Shared helper lemmas for C09/C10 (flat codec): the type-level `FixedLength()` of the flat value
agrees with the spec's sizes on well-formed types; route predicates.  Core Lean only.
-/
import ZtypV.Model.Flat
import ZtypV.Proofs.DecodeBasic
namespace ZtypV.FlatProofs
open ZtypV ZtypV.View ZtypV.Flat ZtypV.DecodeProofs

theorem wfAll_mem : ∀ (fs : List Ty), Ty.wfAll fs = true → ∀ t ∈ fs, t.wf = true := by
  intro fs
  induction fs with
  | nil => intro _ t ht; cases ht
  | cons a as ih =>
    intro hw t ht
    simp only [Ty.wfAll, Bool.and_eq_true] at hw
    rcases List.mem_cons.mp ht with rfl | ht'
    · exact hw.1
    · exact ih hw.2 t ht'

theorem wf_uint {b : Nat} (hw : (Ty.uint b).wf = true) : b = 1 ∨ b = 2 ∨ b = 4 ∨ b = 8 ∨ b = 32 := by
  simpa [Ty.wf, or_assoc] using hw

theorem isU8_iff {t : Ty} : isU8 t = true ↔ t = .uint 1 := by
  constructor
  · intro h
    unfold isU8 at h
    split at h
    · rfl
    · cases h
  · rintro rfl; rfl

theorem isRootTy_iff {t : Ty} : isRootTy t = true ↔ t = .bytesN 32 := by
  constructor
  · intro h
    unfold isRootTy at h
    split at h
    · rfl
    · cases h
  · rintro rfl; rfl

mutual
/-- on well-formed types the flat `FixedLength()` is the spec's fixed size, and it is non-zero
    exactly for the fixed-size types -/
theorem flatFixedLength_spec : (t : Ty) → t.wf = true →
    (t.isFixed = true → flatFixedLength t = t.fixedSize ∧ 0 < t.fixedSize) ∧
    (t.isFixed = false → flatFixedLength t = 0)
  | .uint b, hw => by
    rcases wf_uint hw with rfl | rfl | rfl | rfl | rfl <;> simp [flatFixedLength, Ty.fixedSize, Ty.isFixed]
  | .bool, _ => by simp [flatFixedLength, Ty.fixedSize, Ty.isFixed]
  | .bytesN k, hw => by
    simp only [Ty.wf, Bool.and_eq_true, decide_eq_true_eq] at hw
    simp only [flatFixedLength, Ty.fixedSize, Ty.isFixed]
    exact ⟨fun _ => ⟨by trivial, by omega⟩, fun h => by cases h⟩
  | .bitvector k, hw => by
    simp only [Ty.wf, decide_eq_true_eq] at hw
    simp only [flatFixedLength, Ty.fixedSize, Ty.isFixed]
    exact ⟨fun _ => ⟨by trivial, by omega⟩, fun h => by cases h⟩
  | .bitlist _, _ => by simp [flatFixedLength, Ty.isFixed]
  | .list _ _, _ => by simp [flatFixedLength, Ty.isFixed]
  | .union _ _, _ => by simp [flatFixedLength, Ty.isFixed]
  | .vector e k, hw => by
    simp only [Ty.wf, Bool.and_eq_true, decide_eq_true_eq] at hw
    have ih := flatFixedLength_spec e hw.2
    simp only [flatFixedLength, Ty.isFixed, Ty.fixedSize]
    constructor
    · intro hf
      obtain ⟨h1, h2⟩ := ih.1 hf
      rw [h1]; simp only [hf, if_true]
      exact ⟨by trivial, Nat.mul_pos (by omega) h2⟩
    · intro hf
      rw [ih.2 hf]; simp
  | .container fs, hw => by
    simp only [Ty.wf, Bool.and_eq_true] at hw
    have ih := flatFixedSum_spec fs hw.2
    simp only [flatFixedLength, Ty.isFixed, Ty.fixedSize]
    constructor
    · intro hf
      obtain ⟨h1, h2⟩ := ih.1 hf
      rw [h1]; simp only [Option.getD_some, true_and]
      cases fs with
      | nil => simp at hw
      | cons a as => exact h2 (by simp)
    · intro hf
      rw [ih.2 hf]; rfl
theorem flatFixedSum_spec : (fs : List Ty) → Ty.wfAll fs = true →
    (Ty.allFixed fs = true → flatFixedSum fs = some (Ty.fixedPart fs) ∧ (fs ≠ [] → 0 < Ty.fixedPart fs)) ∧
    (Ty.allFixed fs = false → flatFixedSum fs = Option.none)
  | [], _ => by simp [flatFixedSum, Ty.fixedPart, Ty.allFixed]
  | t :: ts, hw => by
    simp only [Ty.wfAll, Bool.and_eq_true] at hw
    have iht := flatFixedLength_spec t hw.1
    have ihs := flatFixedSum_spec ts hw.2
    simp only [flatFixedSum, Ty.allFixed, Ty.fixedPart]
    constructor
    · intro hf
      simp only [Bool.and_eq_true] at hf
      obtain ⟨h1, h2⟩ := iht.1 hf.1
      obtain ⟨h3, _⟩ := ihs.1 hf.2
      rw [h1, h3]
      simp only [hf.1, if_true]
      rw [if_neg (by omega)]
      exact ⟨rfl, fun _ => by omega⟩
    · intro hf
      cases hft : t.isFixed with
      | false => rw [iht.2 hft]; simp
      | true =>
        rw [hft] at hf
        simp only [Bool.true_and] at hf
        obtain ⟨h1, h2⟩ := iht.1 hft
        rw [h1, if_neg (by omega), ihs.2 hf]; rfl
end

theorem flatFixedLength_fixed {t : Ty} (hw : t.wf = true) (hf : t.isFixed = true) :
    flatFixedLength t = t.fixedSize := ((flatFixedLength_spec t hw).1 hf).1

theorem fixedSize_pos {t : Ty} (hw : t.wf = true) (hf : t.isFixed = true) : 0 < t.fixedSize :=
  ((flatFixedLength_spec t hw).1 hf).2

theorem flatFixedLength_var {t : Ty} (hw : t.wf = true) (hf : t.isFixed = false) :
    flatFixedLength t = 0 := (flatFixedLength_spec t hw).2 hf

theorem flatFixedLength_ne_zero_iff {t : Ty} (hw : t.wf = true) :
    flatFixedLength t ≠ 0 ↔ t.isFixed = true := by
  cases hf : t.isFixed with
  | true =>
    have := flatFixedLength_fixed hw hf
    have := fixedSize_pos hw hf
    constructor <;> intro _ <;> first | rfl | omega
  | false =>
    rw [flatFixedLength_var hw hf]; simp

theorem flatFixedLength_eq_typeByteLength {t : Ty} (hw : t.wf = true) :
    flatFixedLength t = t.typeByteLength := by
  unfold Ty.typeByteLength
  cases hf : t.isFixed with
  | true => simp [flatFixedLength_fixed hw hf]
  | false => simp [flatFixedLength_var hw hf]

/-! ### concrete data for the non-vacuity examples of Props/C09 and Props/C10 -/

namespace Ex
/-- container { uint16, List[uint8, 5], Union[None, uint8], Vector[List[uint16,4], 2], Bitlist[10] } -/
def T : Ty := .container [.uint 2, .list (.uint 1) 5, .union true [.uint 1],
  .vector (.list (.uint 2) 4) 2, .bitlist 10]
def V : Val := .seq [.num 258, .seq [.num 7, .num 8, .num 9], .union 1 (.num 5),
  .seq [.seq [.num 1], .seq [.num 2, .num 3]],
  .bits [true, true, true, true, true, true, true, true, true]]
/-- fixed part 2+4+4+4+4 = 18; list at 18 (3 bytes), union at 21 (2 bytes), vector at 23
    (offsets 8, 10; items 2 and 4 bytes = 14 bytes), bitlist at 37 (2 bytes: 9 bits) -/
def enc : Bytes := [2, 1, 18, 0, 0, 0, 21, 0, 0, 0, 23, 0, 0, 0, 37, 0, 0, 0,
  7, 8, 9, 1, 5, 8, 0, 0, 0, 10, 0, 0, 0, 1, 0, 2, 0, 3, 0, 255, 3]
/-- a destination that held something longer before -/
def prior : Val := .seq [.num 9, .seq [.num 1, .num 1, .num 1, .num 1, .num 1], .union 0 .none,
  .seq [.seq [.num 5, .num 5, .num 5, .num 5], .seq []],
  .bits [true, true, true, true, true, true, true, true, true, true]]
def isOkB {α : Type} : R α → Bool
  | .ok _ => true
  | .error _ => false
theorem isOk_ex {α : Type} {x : R α} (h : isOkB x = true) : ∃ r, x = .ok r := by
  cases x with
  | ok a => exact ⟨a, rfl⟩
  | error e => cases h
/-- `x = .ok b` for byte strings, as a Boolean -/
def okBytes : R Bytes → Bytes → Bool
  | .ok a, b => a == b
  | .error _, _ => false
end Ex

end ZtypV.FlatProofs
