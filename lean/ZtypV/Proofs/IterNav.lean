/-
Helpers for C17: the stack navigation of the read-only iterators (`navStep`) reaches bottom
node number `i` exactly like indexed access (`getNode` along the `depth`-bit path of `i`), for
ANY tree; generic "run an iterator n times" and the specification sequence `iterSpec`.
Core Lean only.
-/
import ZtypV.Model.Iter
import ZtypV.Proofs.FillGet
namespace ZtypV.View.Iter
open ZtypV ZtypV.View

/-! ### arithmetic: `i xor (i-1)` and the bit paths of `i-1` and `i` -/

theorem xor_halves (a b : Nat) : a ^^^ b = 2 * (a / 2 ^^^ b / 2) + (a + b) % 2 := by
  have h1 : (a ^^^ b) / 2 = a / 2 ^^^ b / 2 := Nat.xor_div_two
  have h2 : (a ^^^ b) % 2 = (a + b) % 2 := by
    have := @Nat.xor_mod_two_eq_one a b
    by_cases hx : (a ^^^ b) % 2 = 1
    · have := this.mp hx; omega
    · have hn := mt this.mpr hx
      have : (a % 2 = 1 ↔ b % 2 = 1) := Classical.not_not.mp hn
      omega
  have := Nat.div_add_mod (a ^^^ b) 2
  omega

/-- every positive number is `2^t * (2m+1)` (`t` = number of trailing zeros) -/
theorem exists_odd_part : ∀ i, 0 < i → ∃ t m, i = 2 ^ t * (2 * m + 1) := by
  intro i
  induction i using Nat.strongRecOn with
  | _ i ih =>
    intro hi
    by_cases hodd : i % 2 = 1
    · exact ⟨0, i / 2, by omega⟩
    · obtain ⟨t, m, h⟩ := ih (i / 2) (by omega) (by omega)
      refine ⟨t + 1, m, ?_⟩
      rw [Nat.pow_succ, Nat.mul_assoc, Nat.mul_comm 2, ← Nat.mul_assoc, ← h]
      omega

/-- `i xor (i-1)` is a block of `t+1` ones, `t` the number of trailing zeros of `i` -/
theorem xor_pred_pow (t m : Nat) :
    (2 ^ t * (2 * m + 1)) ^^^ (2 ^ t * (2 * m + 1) - 1) = 2 ^ (t + 1) - 1 := by
  induction t with
  | zero =>
    rw [xor_halves]
    have h1 : (2 ^ 0 * (2 * m + 1)) / 2 = m := by omega
    have h2 : (2 ^ 0 * (2 * m + 1) - 1) / 2 = m := by omega
    rw [h1, h2, Nat.xor_self]
    omega
  | succ t ih =>
    have hp : 0 < 2 ^ t := Nat.two_pow_pos t
    have hj : 0 < 2 ^ t * (2 * m + 1) := Nat.mul_pos hp (by omega)
    have he : 2 ^ (t + 1) * (2 * m + 1) = 2 * (2 ^ t * (2 * m + 1)) := by
      rw [Nat.pow_succ, Nat.mul_comm (2 ^ t) 2, Nat.mul_assoc]
    rw [he, xor_halves]
    generalize 2 ^ t * (2 * m + 1) = j at hj ih
    have h1 : 2 * j / 2 = j := by omega
    have h2 : (2 * j - 1) / 2 = j - 1 := by omega
    rw [h1, h2, ih]
    have hp1 : 0 < 2 ^ (t + 1) := Nat.two_pow_pos _
    rw [Nat.pow_succ 2 (t + 1)]
    omega

theorem bitLen_ones (t : Nat) : bitLen (2 ^ (t + 1) - 1) = t + 1 := by
  have hp : 0 < 2 ^ t := Nat.two_pow_pos t
  have hs : 2 ^ (t + 1) = 2 * 2 ^ t := by rw [Nat.pow_succ]; omega
  have hne : 2 ^ (t + 1) - 1 ≠ 0 := by omega
  unfold bitLen
  rw [if_neg hne]
  have h1 : Nat.log2 (2 ^ (t + 1) - 1) < t + 1 := (Nat.log2_lt hne).mpr (by omega)
  have h2 : ¬ Nat.log2 (2 ^ (t + 1) - 1) < t := fun h => by
    have := (Nat.log2_lt hne).mp h
    omega
  omega

theorem bitLen_xor_pred (t m : Nat) :
    bitLen ((2 ^ t * (2 * m + 1)) ^^^ (2 ^ t * (2 * m + 1) - 1)) = t + 1 := by
  rw [xor_pred_pow, bitLen_ones]

/-! ### bit paths -/

theorem bitsOf_add (i a b : Nat) : bitsOf i (a + b) = bitsOf (i >>> b) a ++ bitsOf i b := by
  induction a with
  | zero => simp
  | succ a ih =>
    have : a + 1 + b = (a + b) + 1 := by omega
    rw [this, bitsOf_succ, bitsOf_succ, ih, Nat.testBit_shiftRight, Nat.add_comm b a]
    rfl

theorem bitsOf_low_zero (i t : Nat) (h : ∀ k, k < t → i.testBit k = false) :
    bitsOf i t = List.replicate t false := by
  induction t with
  | zero => rfl
  | succ t ih =>
    rw [bitsOf_succ, h t (by omega), ih (fun k hk => h k (by omega)), List.replicate_succ]

theorem bitsOf_zero_left (d : Nat) : bitsOf 0 d = List.replicate d false :=
  bitsOf_low_zero 0 d (fun k _ => Nat.zero_testBit k)

/-- the path of `i = 2^t (2m+1)`: the path of `m`, then right, then `t` times left -/
theorem bitsOf_odd_part (t m a : Nat) :
    bitsOf (2 ^ t * (2 * m + 1)) (a + (t + 1)) = bitsOf m a ++ true :: List.replicate t false := by
  have hp : 0 < 2 ^ t := Nat.two_pow_pos t
  rw [bitsOf_add, bitsOf_succ]
  congr 1
  · congr 1
    rw [Nat.shiftRight_eq_div_pow, Nat.pow_succ, Nat.mul_div_mul_left _ _ hp]
    omega
  · congr 1
    · rw [Nat.testBit_two_pow_mul]
      simp
    · apply bitsOf_low_zero
      intro k hk
      rw [Nat.testBit_two_pow_mul]
      simp; omega

theorem pred_div (p m : Nat) (hp : 0 < p) : (p * (2 * m + 1) - 1) / (p * 2) = m := by
  have he : p * (2 * m + 1) = (p * 2) * m + p := by
    rw [Nat.mul_add, Nat.mul_one, ← Nat.mul_assoc]
  have h2 : (p * 2) * m + p - 1 = (p * 2) * m + (p - 1) := by omega
  rw [he, h2, Nat.mul_add_div (by omega), Nat.div_eq_of_lt (by omega)]
  rfl

/-- the path of `i - 1` shares the first `a` bits with the path of `i` -/
theorem bitsOf_pred_odd_part (t m a : Nat) :
    ∃ q, q.length = t + 1 ∧ bitsOf (2 ^ t * (2 * m + 1) - 1) (a + (t + 1)) = bitsOf m a ++ q := by
  have hp : 0 < 2 ^ t := Nat.two_pow_pos t
  refine ⟨bitsOf (2 ^ t * (2 * m + 1) - 1) (t + 1), by simp, ?_⟩
  rw [bitsOf_add]
  congr 2
  rw [Nat.shiftRight_eq_div_pow, Nat.pow_succ]
  exact pred_div _ m hp

/-! ### the descent loop -/

theorem getNode_replicate_succ (node : Node) (k : Nat) :
    getNode node (List.replicate (k + 1) false) =
      (match node with
       | .pair l _ => getNode l (List.replicate k false)
       | .leaf _ => .error .nav) := by
  cases node with
  | leaf r => rfl
  | pair l r => rw [List.replicate_succ, getNode_pair_false]

/-- the "move down left" loop from stack position `si` to `depth`: it ends on the node that
    `Getter` reaches along `depth - si` left turns (same error otherwise), keeps the stack below
    `si` and stores at `k ≥ si` the node passed at depth `k` -/
theorem down_spec (depth : Nat) : ∀ (fuel : Nat) (node : Node) (si : Nat) (stack : Array Node),
    si ≤ depth → stack.size = depth → depth - si ≤ fuel →
    match getNode node (List.replicate (depth - si) false) with
    | .ok n => ∃ st', navStep.down depth fuel node si stack = .ok (n, st') ∧ st'.size = depth ∧
        (∀ k, k < si → st'[k]? = stack[k]?) ∧
        (∀ k, si ≤ k → k < depth → ∃ m, st'[k]? = some m ∧
          getNode node (List.replicate (k - si) false) = .ok m)
    | .error e => navStep.down depth fuel node si stack = .error e := by
  intro fuel
  induction fuel with
  | zero =>
    intro node si stack hsi hsz hf
    have h0 : depth - si = 0 := by omega
    rw [h0]
    simp only [List.replicate_zero, getNode_nil]
    refine ⟨stack, rfl, hsz, fun _ _ => rfl, ?_⟩
    intro k h1 h2; omega
  | succ fuel ih =>
    intro node si stack hsi hsz hf
    by_cases hlt : si < depth
    · have hd : depth - si = (depth - (si + 1)) + 1 := by omega
      rw [hd, getNode_replicate_succ]
      unfold navStep.down
      rw [if_pos hlt, if_neg (by omega)]
      cases node with
      | leaf r => rfl
      | pair l r =>
        simp only
        have hsz' : (stack.set! si (Node.pair l r)).size = depth := by
          rw [Array.set!, Array.size_setIfInBounds]; exact hsz
        have := ih l (si + 1) (stack.set! si (Node.pair l r)) (by omega) hsz' (by omega)
        revert this
        cases getNode l (List.replicate (depth - (si + 1)) false) with
        | error e => exact fun h => h
        | ok n =>
          simp only
          rintro ⟨st', h1, h2, h3, h4⟩
          refine ⟨st', h1, h2, ?_, ?_⟩
          · intro k hk
            rw [h3 k (by omega), Array.set!, Array.getElem?_setIfInBounds, if_neg (by omega)]
          · intro k hk1 hk2
            by_cases hks : k = si
            · subst hks
              refine ⟨Node.pair l r, ?_, ?_⟩
              · rw [h3 k (by omega), Array.set!, Array.getElem?_setIfInBounds, if_pos rfl,
                  if_pos (by omega)]
              · rw [Nat.sub_self]; rfl
            · obtain ⟨m, hm1, hm2⟩ := h4 k (by omega) hk2
              refine ⟨m, hm1, ?_⟩
              have : k - si = (k - (si + 1)) + 1 := by omega
              rw [this, getNode_replicate_succ]
              exact hm2
    · have h0 : depth - si = 0 := by omega
      rw [h0]
      simp only [List.replicate_zero, getNode_nil]
      unfold navStep.down
      rw [if_neg hlt]
      refine ⟨stack, rfl, hsz, fun _ _ => rfl, ?_⟩
      intro k h1 h2; omega

/-! ### the navigation invariant -/

/-- what the iterator leaves behind after serving bottom node `i`: `stack[k]` is the ancestor
    of `i` at depth `k`, for every `k < depth` -/
def StackFull (anchor : Node) (depth : Nat) (stack : Array Node) (i : Nat) : Prop :=
  stack.size = depth ∧
  ∀ k, k < depth → ∃ m, stack[k]? = some m ∧ getNode anchor ((bitsOf i depth).take k) = .ok m

/-- what the step towards bottom node `i` needs: at every depth `k` where the paths of `i-1`
    and `i` still agree, `stack[k]` is the ancestor of `i` at depth `k` (nothing for `i = 0`) -/
def StackInv (anchor : Node) (depth : Nat) (stack : Array Node) (i : Nat) : Prop :=
  stack.size = depth ∧
  (0 < i → ∀ k, k < depth → (bitsOf (i - 1) depth).take k = (bitsOf i depth).take k →
    ∃ m, stack[k]? = some m ∧ getNode anchor ((bitsOf i depth).take k) = .ok m)

theorem StackFull.inv_succ {anchor : Node} {depth : Nat} {stack : Array Node} {i : Nat}
    (h : StackFull anchor depth stack i) : StackInv anchor depth stack (i + 1) := by
  refine ⟨h.1, fun _ k hk he => ?_⟩
  rw [Nat.add_sub_cancel] at he
  rw [← he]
  exact h.2 k hk

theorem StackFull.inv_same {anchor : Node} {depth : Nat} {stack : Array Node} {i : Nat}
    (h : StackFull anchor depth stack i) : StackInv anchor depth stack i :=
  ⟨h.1, fun _ k hk _ => h.2 k hk⟩

theorem StackInv_new (anchor : Node) (depth : Nat) (x : Node) :
    StackInv anchor depth (Array.replicate depth x) 0 :=
  ⟨Array.size_replicate, fun h => absurd h (Nat.lt_irrefl 0)⟩

/-! ### `navStep` -/

theorem navStep_zero (anchor : Node) (depth : Nat) (stack : Array Node) :
    navStep anchor depth stack 0 = navStep.down depth 256 anchor 0 stack := by
  unfold navStep
  rfl

theorem navStep_pos (anchor : Node) (depth : Nat) (stack : Array Node) (idx : Nat) (h : idx ≠ 0) :
    navStep anchor depth stack idx =
      match stack[(depth + 256 - bitLen (idx ^^^ (idx - 1)) % 256) % 256]? with
      | none => .error .panic
      | some (.leaf _) => .error .nav
      | some (.pair _ r) =>
        navStep.down depth 256 r
          (((depth + 256 - bitLen (idx ^^^ (idx - 1)) % 256) % 256 + 1) % 256) stack := by
  unfold navStep
  rw [if_pos h]
  simp only
  cases stack[(depth + 256 - bitLen (idx ^^^ (idx - 1)) % 256) % 256]? with
  | none => rfl
  | some up =>
    cases up with
    | leaf r => rfl
    | pair l r => rfl

/-- MAIN NAVIGATION LEMMA (any tree): under the stack invariant the step towards bottom node
    `i` returns exactly the node indexed access reaches along the `depth`-bit path of `i` and
    leaves the full ancestor stack of `i`; if indexed access fails, the step fails with the
    same error (missing data is an error, never a wrong node). -/
theorem navStep_spec (anchor : Node) (depth : Nat) (stack : Array Node) (i : Nat)
    (hd : depth < 256) (hi : i < 2 ^ depth) (inv : StackInv anchor depth stack i) :
    match getNode anchor (bitsOf i depth) with
    | .ok n => ∃ st', navStep anchor depth stack i = .ok (n, st') ∧ StackFull anchor depth st' i
    | .error e => navStep anchor depth stack i = .error e := by
  rcases Nat.eq_zero_or_pos i with h0 | hpos
  · subst h0
    rw [navStep_zero, bitsOf_zero_left]
    have := down_spec depth 256 anchor 0 stack (Nat.zero_le _) inv.1 (by omega)
    rw [Nat.sub_zero] at this
    revert this
    cases getNode anchor (List.replicate depth false) with
    | error e => exact fun h => h
    | ok n =>
      simp only
      rintro ⟨st', h1, h2, _, h4⟩
      refine ⟨st', h1, h2, fun k hk => ?_⟩
      obtain ⟨m, hm1, hm2⟩ := h4 k (Nat.zero_le _) hk
      refine ⟨m, hm1, ?_⟩
      rw [bitsOf_zero_left, List.take_replicate, Nat.min_eq_left (by omega)]
      simpa using hm2
  · obtain ⟨t, m, rfl⟩ := exists_odd_part i hpos
    have hp : 0 < 2 ^ t := Nat.two_pow_pos t
    have htd : t < depth := by
      have : 2 ^ t < 2 ^ depth := Nat.lt_of_le_of_lt (Nat.le_mul_of_pos_right _ (by omega)) hi
      exact (Nat.pow_lt_pow_iff_right (by omega)).mp this
    obtain ⟨a, rfl⟩ : ∃ a, depth = a + (t + 1) := ⟨depth - (t + 1), by omega⟩
    have hne : 2 ^ t * (2 * m + 1) ≠ 0 := by omega
    rw [navStep_pos _ _ _ _ hne, bitLen_xor_pred]
    have hsi : (a + (t + 1) + 256 - (t + 1) % 256) % 256 = a := by omega
    have hsi1 : (a + 1) % 256 = a + 1 := by omega
    rw [hsi, hsi1, bitsOf_odd_part]
    obtain ⟨q, hq, hpred⟩ := bitsOf_pred_odd_part t m a
    have hshare : ∀ k, k ≤ a → (bitsOf (2 ^ t * (2 * m + 1) - 1) (a + (t + 1))).take k =
        (bitsOf (2 ^ t * (2 * m + 1)) (a + (t + 1))).take k := by
      intro k hk
      rw [hpred, bitsOf_odd_part, List.take_append_of_le_length (by simp; omega),
        List.take_append_of_le_length (by simp; omega)]
    obtain ⟨up, hup1, hup2⟩ := inv.2 hpos a (by omega) (hshare a (Nat.le_refl _))
    rw [hup1]
    rw [bitsOf_odd_part, List.take_left' (by simp)] at hup2
    rw [getNode_append_ok _ hup2]
    cases up with
    | leaf r => rfl
    | pair l r =>
      simp only [getNode_pair_true]
      have := down_spec (a + (t + 1)) 256 r (a + 1) stack (by omega) inv.1 (by omega)
      have hsub : a + (t + 1) - (a + 1) = t := by omega
      rw [hsub] at this
      revert this
      cases getNode r (List.replicate t false) with
      | error e => exact fun h => h
      | ok n =>
        simp only
        rintro ⟨st', h1, h2, h3, h4⟩
        refine ⟨st', h1, h2, fun k hk => ?_⟩
        by_cases hka : k ≤ a
        · obtain ⟨x, hx1, hx2⟩ := inv.2 hpos k hk (hshare k hka)
          exact ⟨x, by rw [h3 k (by omega)]; exact hx1, hx2⟩
        · obtain ⟨x, hx1, hx2⟩ := h4 k (by omega) hk
          refine ⟨x, hx1, ?_⟩
          have hk1 : k - a = (k - (a + 1)) + 1 := by omega
          rw [bitsOf_odd_part, List.take_append, List.take_of_length_le (by simp; omega),
            bitsOf_length, hk1, List.take_succ_cons, List.take_replicate,
            Nat.min_eq_left (by omega), getNode_append_ok _ hup2, getNode_pair_true]
          exact hx2

/-! ### running an iterator, and the sequence it has to produce -/

/-- the outputs of `n` successive calls of `next` -/
def runSteps {σ α : Type} (next : σ → α × σ) : Nat → σ → List α
  | 0, _ => []
  | n + 1, s => (next s).1 :: runSteps next n (next s).2

/-- the sequence an iterator over `length` components has to produce in `n` calls when it is
    about to serve component `k` and `get` is indexed access: the components in order, `done`
    from `length` on for ever; a failing access is reported as that error, again and again,
    and nothing is skipped -/
def iterSpec {α : Type} (get : Nat → R α) (length : Nat) : Nat → Nat → List (Step α)
  | _, 0 => []
  | k, n + 1 =>
    if k < length then
      match get k with
      | .ok a => .item a :: iterSpec get length (k + 1) n
      | .error e => .err e :: iterSpec get length k n
    else .done :: iterSpec get length k n

theorem iterSpec_congr {α : Type} {get get' : Nat → R α} {length : Nat}
    (h : ∀ j, j < length → get j = get' j) :
    ∀ n k, iterSpec get length k n = iterSpec get' length k n := by
  intro n
  induction n with
  | zero => intro k; rfl
  | succ n ih =>
    intro k
    unfold iterSpec
    by_cases hk : k < length
    · rw [if_pos hk, if_pos hk, h k hk]
      cases get' k with
      | ok a => simp only [ih]
      | error e => simp only [ih]
    · rw [if_neg hk, if_neg hk, ih]

theorem iterSpec_done {α : Type} (get : Nat → R α) (length k : Nat) (hk : length ≤ k) :
    ∀ n, iterSpec get length k n = List.replicate n .done := by
  intro n
  induction n with
  | zero => rfl
  | succ n ih =>
    unfold iterSpec
    rw [if_neg (by omega), ih, List.replicate_succ]

theorem iterSpec_err {α : Type} (get : Nat → R α) (length k : Nat) (e : Err) (hk : k < length)
    (he : get k = .error e) : ∀ n, iterSpec get length k n = List.replicate n (.err e) := by
  intro n
  induction n with
  | zero => rfl
  | succ n ih =>
    unfold iterSpec
    rw [if_pos hk, he]
    simp only [ih, List.replicate_succ]

theorem iterSpec_ok_from {α : Type} (get : Nat → R α) (f : Nat → α) (length stop : Nat)
    (hstop : stop ≤ length) :
    ∀ n k, k ≤ stop → (∀ j, k ≤ j → j < stop → get j = .ok (f j)) →
      iterSpec get length k n =
        (List.range' k (min n (stop - k))).map (fun j => Step.item (f j)) ++
          iterSpec get length stop (n - (stop - k)) := by
  intro n
  induction n with
  | zero =>
    intro k _ _
    simp [iterSpec]
  | succ n ih =>
    intro k hk hok
    by_cases hks : k = stop
    · subst hks
      simp
    · have hlt : k < stop := by omega
      have h1 : min (n + 1) (stop - k) = min n (stop - (k + 1)) + 1 := by omega
      have h2 : n + 1 - (stop - k) = n - (stop - (k + 1)) := by omega
      rw [h1, h2, List.range'_succ, List.map_cons, List.cons_append,
        ← ih (k + 1) (by omega) (fun j hj1 hj2 => hok j (by omega) hj2)]
      conv => lhs; unfold iterSpec
      rw [if_pos (by omega), hok k (Nat.le_refl _) hlt]

/-- all accesses succeed: exactly `length` items in order, then `done` for ever -/
theorem iterSpec_all_ok {α : Type} (get : Nat → R α) (f : Nat → α) (length : Nat)
    (hok : ∀ j, j < length → get j = .ok (f j)) (n : Nat) :
    iterSpec get length 0 n =
      (List.range (min n length)).map (fun j => Step.item (f j)) ++
        List.replicate (n - length) .done := by
  rw [iterSpec_ok_from get f length length (Nat.le_refl _) n 0 (Nat.zero_le _)
    (fun j _ hj => hok j hj), Nat.sub_zero, iterSpec_done get length length (Nat.le_refl _),
    List.range_eq_range']

/-- access `j` is the first to fail: `j` items in order, then that error for ever -/
theorem iterSpec_first_err {α : Type} (get : Nat → R α) (f : Nat → α) (length j : Nat) (e : Err)
    (hj : j < length) (hok : ∀ k, k < j → get k = .ok (f k)) (he : get j = .error e) (n : Nat) :
    iterSpec get length 0 n =
      (List.range (min n j)).map (fun k => Step.item (f k)) ++ List.replicate (n - j) (.err e) := by
  rw [iterSpec_ok_from get f length j (by omega) n 0 (Nat.zero_le _)
    (fun k _ hk => hok k hk), Nat.sub_zero, iterSpec_err get length j e hj he,
    List.range_eq_range']

/-- simulation: an iterator whose `next` preserves an invariant `Inv state k` ("about to serve
    component `k`") and answers as `get k` produces `iterSpec` -/
theorem runSteps_sim {σ α : Type} (next : σ → Step α × σ) (get : Nat → R α) (length : Nat)
    (Inv : σ → Nat → Prop)
    (hdone : ∀ s k, Inv s k → length ≤ k → next s = (.done, s))
    (hstep : ∀ s k, Inv s k → k < length →
      match get k with
      | .ok a => ∃ s', next s = (.item a, s') ∧ Inv s' (k + 1)
      | .error e => ∃ s', next s = (.err e, s') ∧ Inv s' k) :
    ∀ n s k, Inv s k → runSteps next n s = iterSpec get length k n := by
  intro n
  induction n with
  | zero => intro s k _; rfl
  | succ n ih =>
    intro s k hinv
    unfold runSteps iterSpec
    by_cases hk : k < length
    · rw [if_pos hk]
      have := hstep s k hinv hk
      revert this
      cases get k with
      | ok a =>
        simp only
        rintro ⟨s', h1, h2⟩
        rw [h1]
        simp only [ih s' (k + 1) h2]
      | error e =>
        simp only
        rintro ⟨s', h1, h2⟩
        rw [h1]
        simp only [ih s' k h2]
    · rw [if_neg hk, hdone s k hinv (by omega)]
      simp only [ih s k hinv]

/-! ### the node iterator -/

/-- reachable states of `nodeReadonlyIter` about to serve node `k` -/
def NodeInv (anchor : Node) (length depth : Nat) (it : NodeIt) (k : Nat) : Prop :=
  ∃ st, it = ⟨anchor, length, depth, st, k, false⟩ ∧ StackInv anchor depth st k

theorem NodeInv_new (anchor : Node) (length depth : Nat)
    (hb : (NodeIt.new anchor length depth).bad = false) :
    NodeInv anchor length depth (NodeIt.new anchor length depth) 0 := by
  refine ⟨Array.replicate depth (.leaf z0), ?_, StackInv_new _ _ _⟩
  unfold NodeIt.new at hb ⊢
  simp only at hb
  rw [hb]

theorem node_next_done (anchor : Node) (length depth : Nat) (it : NodeIt) (k : Nat)
    (hinv : NodeInv anchor length depth it k) (hk : length ≤ k) : it.next = (.done, it) := by
  obtain ⟨st, rfl, _⟩ := hinv
  unfold NodeIt.next
  simp only [Bool.false_eq_true, if_false]
  rw [if_pos (by simpa using hk)]

theorem node_next_step (anchor : Node) (length depth : Nat) (hd : depth < 256)
    (hl : length ≤ 2 ^ depth) (it : NodeIt) (k : Nat)
    (hinv : NodeInv anchor length depth it k) (hk : k < length) :
    match getNode anchor (bitsOf k depth) with
    | .ok a => ∃ it', it.next = (.item a, it') ∧ NodeInv anchor length depth it' (k + 1)
    | .error e => ∃ it', it.next = (.err e, it') ∧ NodeInv anchor length depth it' k := by
  obtain ⟨st, rfl, hst⟩ := hinv
  have := navStep_spec anchor depth st k hd (by omega) hst
  revert this
  unfold NodeIt.next
  simp only [Bool.false_eq_true, if_false]
  rw [if_neg (by simpa using hk)]
  cases getNode anchor (bitsOf k depth) with
  | ok a =>
    simp only
    rintro ⟨st', h1, h2⟩
    rw [h1]
    exact ⟨_, rfl, st', rfl, h2.inv_succ⟩
  | error e =>
    simp only
    intro h1
    rw [h1]
    exact ⟨_, rfl, st, rfl, hst⟩

/-- construction succeeded ⇒ the subtree is deep enough (or there is nothing to iterate) -/
theorem node_new_ok {anchor : Node} {length depth : Nat}
    (hb : (NodeIt.new anchor length depth).bad = false) :
    length = 0 ∨ (depth < 64 ∧ length ≤ 2 ^ depth) := by
  unfold NodeIt.new at hb
  simp only [decide_eq_false_iff_not] at hb
  by_cases h64 : depth ≥ 64
  · rw [if_pos h64] at hb; left; omega
  · rw [if_neg h64] at hb; right; omega

theorem subtreeGet_eq (anchor : Node) (depth k : Nat) (hd : depth < 64) (hk : k < 2 ^ depth) :
    subtreeGet anchor depth k = getNode anchor (bitsOf k depth) := by
  unfold subtreeGet
  rw [toPath_ok k depth hd hk]
  rfl

/-- the node iterator against indexed access `SubtreeView.GetNode(k)`, any tree -/
theorem node_run (anchor : Node) (length depth : Nat)
    (hb : (NodeIt.new anchor length depth).bad = false) (n : Nat) :
    runSteps NodeIt.next n (NodeIt.new anchor length depth) =
      iterSpec (fun k => subtreeGet anchor depth k) length 0 n := by
  have hok := node_new_ok hb
  rw [runSteps_sim NodeIt.next (fun k => getNode anchor (bitsOf k depth)) length
    (NodeInv anchor length depth) (node_next_done anchor length depth) ?_ n _ 0
    (NodeInv_new anchor length depth hb)]
  · apply iterSpec_congr
    intro j hj
    rcases hok with h0 | ⟨h64, hl⟩
    · omega
    · exact (subtreeGet_eq anchor depth j h64 (by omega)).symm
  · intro it k hinv hk
    rcases hok with h0 | ⟨h64, hl⟩
    · omega
    · have := node_next_step anchor length depth (by omega) hl it k hinv hk
      revert this
      cases getNode anchor (bitsOf k depth) with
      | ok a => exact id
      | error e => exact id

/-! ### the packed basic element iterator -/

theorem succ_divmod (k per : Nat) (hp : 0 < per) :
    (k % per + 1 < per → (k + 1) / per = k / per ∧ (k + 1) % per = k % per + 1) ∧
    (k % per + 1 = per → (k + 1) / per = k / per + 1 ∧ (k + 1) % per = 0) := by
  have h := Nat.div_add_mod k per
  constructor
  · intro hlt
    have he : k + 1 = per * (k / per) + (k % per + 1) := by omega
    rw [he, Nat.mul_add_div hp, Nat.mul_add_mod, Nat.div_eq_of_lt hlt, Nat.mod_eq_of_lt hlt]
    simp
  · intro heq
    have he : k + 1 = per * (k / per + 1) := by rw [Nat.mul_add, Nat.mul_one]; omega
    rw [he, Nat.mul_div_cancel_left _ hp, Nat.mul_mod_right]
    simp

/-- indexed access to packed element `k`: chunk `k / perNode` through `SubtreeView.GetNode`,
    then `BasicViewFromBacking(chunk, k % perNode)` (the body of `readBasics`) -/
def basicAt (size : Nat) (anchor : Node) (depth k : Nat) : R Val := do
  let c ← subtreeGet anchor depth (k / perNode size)
  let r ← asLeaf c
  basicFromChunk size r (k % perNode size)

/-- the same along the bit path (no `depth < 64` check) -/
def basicAtPath (size : Nat) (anchor : Node) (depth k : Nat) : R Val := do
  let c ← getNode anchor (bitsOf (k / (32 / size)) depth)
  let r ← asLeaf c
  basicFromChunk size r (k % (32 / size))

/-- reachable states of `basicElemReadonlyIter` about to serve element `k` -/
def BasicInv (anchor : Node) (length depth size : Nat) (it : BasicIt) (k : Nat) : Prop :=
  ∃ st j cur ri, it = ⟨anchor, length, depth, size, st, k, j, cur, ri, false⟩ ∧
    StackInv anchor depth st ri ∧
    (if k % (32 / size) = 0 then j = 32 / size ∧ ri = k / (32 / size)
     else j = k % (32 / size) ∧ ri = k / (32 / size) + 1 ∧
       getNode anchor (bitsOf (k / (32 / size)) depth) = .ok (.leaf cur))

theorem BasicInv_new (anchor : Node) (length depth size : Nat)
    (hb : (BasicIt.new anchor length depth size).bad = false) :
    BasicInv anchor length depth size (BasicIt.new anchor length depth size) 0 := by
  refine ⟨Array.replicate depth (.leaf z0), 32 / size, z0, 0, ?_, StackInv_new _ _ _, ?_⟩
  · unfold BasicIt.new at hb ⊢
    simp only at hb ⊢
    rw [hb]
  · simp

theorem basic_next_done (anchor : Node) (length depth size : Nat) (it : BasicIt) (k : Nat)
    (hinv : BasicInv anchor length depth size it k) (hk : length ≤ k) : it.next = (.done, it) := by
  obtain ⟨st, j, cur, ri, rfl, _⟩ := hinv
  unfold BasicIt.next
  simp only [Bool.false_eq_true, if_false]
  rw [if_pos (by simpa using hk)]

theorem basic_next_step (anchor : Node) (length depth size : Nat) (hd : depth < 256)
    (hp : 0 < 32 / size) (hl : length ≤ 2 ^ depth * (32 / size)) (it : BasicIt) (k : Nat)
    (hinv : BasicInv anchor length depth size it k) (hk : k < length) :
    match basicAtPath size anchor depth k with
    | .ok a => ∃ it', it.next = (.item a, it') ∧ BasicInv anchor length depth size it' (k + 1)
    | .error e => ∃ it', it.next = (.err e, it') ∧ BasicInv anchor length depth size it' k := by
  obtain ⟨st, j, cur, ri, rfl, hst, hj⟩ := hinv
  have hsd := succ_divmod k (32 / size) hp
  have hmod : k % (32 / size) < 32 / size := Nat.mod_lt _ hp
  unfold BasicIt.next basicAtPath
  simp only [Bool.false_eq_true, if_false]
  rw [if_neg (by simpa using hk)]
  by_cases hm : k % (32 / size) = 0
  · -- a new chunk is needed
    rw [if_pos hm] at hj
    obtain ⟨rfl, rfl⟩ := hj
    rw [if_neg (Nat.lt_irrefl _)]
    have hri : k / (32 / size) < 2 ^ depth := by
      apply Nat.div_lt_of_lt_mul
      rw [Nat.mul_comm]; omega
    have := navStep_spec anchor depth st (k / (32 / size)) hd hri hst
    revert this
    cases hg : getNode anchor (bitsOf (k / (32 / size)) depth) with
    | error e =>
      simp only
      intro h1
      rw [h1]
      exact ⟨_, rfl, st, _, cur, _, rfl, hst, by rw [if_pos hm]; exact ⟨rfl, rfl⟩⟩
    | ok a =>
      simp only
      rintro ⟨st', h1, h2⟩
      rw [h1]
      cases a with
      | pair l r =>
        exact ⟨_, rfl, st', _, cur, _, rfl, h2.inv_same, by rw [if_pos hm]; exact ⟨rfl, rfl⟩⟩
      | leaf r =>
        simp only [asLeaf, bind, Except.bind, hm]
        cases hv : basicFromChunk size r 0 with
        | error e =>
          exact ⟨_, rfl, st', _, r, _, rfl, h2.inv_same, by rw [if_pos hm]; exact ⟨rfl, rfl⟩⟩
        | ok v =>
          refine ⟨_, rfl, st', 1, r, _, rfl, h2.inv_succ, ?_⟩
          by_cases h1p : k % (32 / size) + 1 < 32 / size
          · obtain ⟨e1, e2⟩ := hsd.1 h1p
            rw [if_neg (by omega), e1, e2, hm]
            exact ⟨rfl, rfl, hg⟩
          · obtain ⟨e1, e2⟩ := hsd.2 (by omega)
            rw [if_pos e2, e1]
            exact ⟨by omega, rfl⟩
  · -- inside the current chunk
    rw [if_neg hm] at hj
    obtain ⟨rfl, rfl, hcur⟩ := hj
    rw [if_pos hmod, hcur]
    simp only [asLeaf, bind, Except.bind]
    cases hv : basicFromChunk size cur (k % (32 / size)) with
    | error e =>
      exact ⟨_, rfl, st, _, cur, _, rfl, hst, by rw [if_neg hm]; exact ⟨rfl, rfl, hcur⟩⟩
    | ok v =>
      refine ⟨_, rfl, st, _, cur, _, rfl, hst, ?_⟩
      by_cases h1p : k % (32 / size) + 1 < 32 / size
      · obtain ⟨e1, e2⟩ := hsd.1 h1p
        rw [if_neg (by omega), e1, e2]
        exact ⟨rfl, rfl, hcur⟩
      · obtain ⟨e1, e2⟩ := hsd.2 (by omega)
        rw [if_pos e2, e1]
        exact ⟨by omega, rfl⟩

/-- construction succeeded ⇒ nothing to iterate, or the element size divides into a chunk and
    the subtree is deep enough -/
theorem basic_new_ok {anchor : Node} {length depth size : Nat}
    (hb : (BasicIt.new anchor length depth size).bad = false) :
    length = 0 ∨ (depth < 64 ∧ 0 < 32 / size ∧ length ≤ 2 ^ depth * (32 / size)) := by
  unfold BasicIt.new at hb
  simp only [decide_eq_false_iff_not] at hb
  by_cases h64 : depth ≥ 64
  · rw [if_pos h64, Nat.zero_mul] at hb; left; omega
  · rw [if_neg h64] at hb
    by_cases hp : 32 / size = 0
    · rw [hp, Nat.mul_zero] at hb; left; omega
    · right; exact ⟨by omega, Nat.pos_of_ne_zero hp, by omega⟩

theorem basicAt_eq (size : Nat) (anchor : Node) (depth k : Nat) (hd : depth < 64)
    (hk : k / (32 / size) < 2 ^ depth) :
    basicAt size anchor depth k = basicAtPath size anchor depth k := by
  unfold basicAt basicAtPath perNode
  rw [subtreeGet_eq anchor depth _ hd hk]

/-- the packed element iterator against indexed access, any tree -/
theorem basic_run (anchor : Node) (length depth size : Nat)
    (hb : (BasicIt.new anchor length depth size).bad = false) (n : Nat) :
    runSteps BasicIt.next n (BasicIt.new anchor length depth size) =
      iterSpec (basicAt size anchor depth) length 0 n := by
  have hok := basic_new_ok hb
  rw [runSteps_sim BasicIt.next (basicAtPath size anchor depth) length
    (BasicInv anchor length depth size) (basic_next_done anchor length depth size) ?_ n _ 0
    (BasicInv_new anchor length depth size hb)]
  · apply iterSpec_congr
    intro j hj
    rcases hok with h0 | ⟨h64, hp, hl⟩
    · omega
    · refine (basicAt_eq size anchor depth j h64 ?_).symm
      apply Nat.div_lt_of_lt_mul
      rw [Nat.mul_comm]; omega
  · intro it k hinv hk
    rcases hok with h0 | ⟨h64, hp, hl⟩
    · omega
    · have := basic_next_step anchor length depth size (by omega) hp hl it k hinv hk
      revert this
      cases basicAtPath size anchor depth k with
      | ok a => exact id
      | error e => exact id

/-! ### the bit iterator -/

theorem bitFromChunk_mod (r : Root) (k : Nat) : bitFromChunk r (k % 256) = bitFromChunk r k := by
  unfold bitFromChunk
  simp only [Nat.mod_mod]

/-- indexed access to bit `k`: chunk `k / 256` through `SubtreeView.GetNode`, then bit
    `k % 256` of it (the body of `readBits`) -/
def bitAt (anchor : Node) (depth k : Nat) : R Bool := do
  let c ← subtreeGet anchor depth (k / 256)
  let r ← asLeaf c
  .ok (bitFromChunk r k)

def bitAtPath (anchor : Node) (depth k : Nat) : R Bool := do
  let c ← getNode anchor (bitsOf (k / 256) depth)
  let r ← asLeaf c
  .ok (bitFromChunk r k)

/-- reachable states of `bitReadonlyIter` about to serve bit `k`: the uint8 counter `j` is
    `k mod 256` -/
def BitInv (anchor : Node) (length depth : Nat) (it : BitIt) (k : Nat) : Prop :=
  ∃ st cur ri, it = ⟨anchor, length, depth, st, k, k % 256, cur, ri, false⟩ ∧
    StackInv anchor depth st ri ∧
    (if k % 256 = 0 then ri = k / 256
     else ri = k / 256 + 1 ∧ getNode anchor (bitsOf (k / 256) depth) = .ok (.leaf cur))

theorem BitInv_new (anchor : Node) (length depth : Nat)
    (hb : (BitIt.new anchor length depth).bad = false) :
    BitInv anchor length depth (BitIt.new anchor length depth) 0 := by
  refine ⟨Array.replicate depth (.leaf z0), z0, 0, ?_, StackInv_new _ _ _, ?_⟩
  · unfold BitIt.new at hb ⊢
    simp only at hb ⊢
    rw [hb]
  · simp

theorem bit_next_done (anchor : Node) (length depth : Nat) (it : BitIt) (k : Nat)
    (hinv : BitInv anchor length depth it k) (hk : length ≤ k) : it.next = (.done, it) := by
  obtain ⟨st, cur, ri, rfl, _⟩ := hinv
  unfold BitIt.next
  simp only [Bool.false_eq_true, if_false]
  rw [if_pos (by simpa using hk)]

theorem bit_next_step (anchor : Node) (length depth : Nat) (hd : depth < 256)
    (hl : length ≤ 2 ^ depth * 256) (it : BitIt) (k : Nat)
    (hinv : BitInv anchor length depth it k) (hk : k < length) :
    match bitAtPath anchor depth k with
    | .ok a => ∃ it', it.next = (.item a, it') ∧ BitInv anchor length depth it' (k + 1)
    | .error e => ∃ it', it.next = (.err e, it') ∧ BitInv anchor length depth it' k := by
  obtain ⟨st, cur, ri, rfl, hst, hj⟩ := hinv
  unfold BitIt.next bitAtPath
  simp only [Bool.false_eq_true, if_false]
  rw [if_neg (by simpa using hk)]
  by_cases hm : k % 256 = 0
  · rw [if_pos hm] at hj
    subst hj
    rw [if_neg (by omega)]
    have hri : k / 256 < 2 ^ depth := by omega
    have := navStep_spec anchor depth st (k / 256) hd hri hst
    revert this
    cases hg : getNode anchor (bitsOf (k / 256) depth) with
    | error e =>
      simp only
      intro h1
      rw [h1]
      exact ⟨_, rfl, st, cur, _, rfl, hst, by rw [if_pos hm]⟩
    | ok a =>
      simp only
      rintro ⟨st', h1, h2⟩
      rw [h1]
      cases a with
      | pair l r =>
        exact ⟨_, rfl, st', cur, _, rfl, h2.inv_same, by rw [if_pos hm]⟩
      | leaf r =>
        simp only [asLeaf, bind, Except.bind]
        rw [← bitFromChunk_mod r k, hm]
        refine ⟨_, rfl, st', r, k / 256 + 1, ?_, h2.inv_succ, ?_⟩
        · have : (k + 1) % 256 = 1 := by omega
          rw [this]
        · rw [if_neg (by omega)]
          have : (k + 1) / 256 = k / 256 := by omega
          rw [this]
          exact ⟨rfl, hg⟩
  · rw [if_neg hm] at hj
    obtain ⟨rfl, hcur⟩ := hj
    rw [if_pos (by omega), hcur]
    simp only [asLeaf, bind, Except.bind]
    rw [bitFromChunk_mod]
    refine ⟨_, rfl, st, cur, k / 256 + 1, ?_, hst, ?_⟩
    · have : (k % 256 + 1) % 256 = (k + 1) % 256 := by omega
      rw [this]
    · by_cases h1 : (k + 1) % 256 = 0
      · rw [if_pos h1]; omega
      · rw [if_neg h1]
        have : (k + 1) / 256 = k / 256 := by omega
        rw [this]
        exact ⟨rfl, hcur⟩

theorem bit_new_ok {anchor : Node} {length depth : Nat}
    (hb : (BitIt.new anchor length depth).bad = false) :
    length = 0 ∨ (depth < 64 ∧ length ≤ 2 ^ depth * 256) := by
  unfold BitIt.new at hb
  simp only [decide_eq_false_iff_not] at hb
  by_cases h64 : depth ≥ 64
  · rw [if_pos h64] at hb; left; omega
  · rw [if_neg h64] at hb
    have := Nat.mod_le (2 ^ depth * 256) (2 ^ 64)
    right; exact ⟨by omega, by omega⟩

theorem bitAt_eq (anchor : Node) (depth k : Nat) (hd : depth < 64) (hk : k / 256 < 2 ^ depth) :
    bitAt anchor depth k = bitAtPath anchor depth k := by
  unfold bitAt bitAtPath
  rw [subtreeGet_eq anchor depth _ hd hk]

/-- the bit iterator against indexed access, any tree -/
theorem bit_run (anchor : Node) (length depth : Nat)
    (hb : (BitIt.new anchor length depth).bad = false) (n : Nat) :
    runSteps BitIt.next n (BitIt.new anchor length depth) =
      iterSpec (bitAt anchor depth) length 0 n := by
  have hok := bit_new_ok hb
  rw [runSteps_sim BitIt.next (bitAtPath anchor depth) length
    (BitInv anchor length depth) (bit_next_done anchor length depth) ?_ n _ 0
    (BitInv_new anchor length depth hb)]
  · apply iterSpec_congr
    intro j hj
    rcases hok with h0 | ⟨h64, hl⟩
    · omega
    · exact (bitAt_eq anchor depth j h64 (by omega)).symm
  · intro it k hinv hk
    rcases hok with h0 | ⟨h64, hl⟩
    · omega
    · have := bit_next_step anchor length depth (by omega) hl it k hinv hk
      revert this
      cases bitAtPath anchor depth k with
      | ok a => exact id
      | error e => exact id

/-! ### what a client sees: `AnyIt` -/

/-- what the index-based `Iter()` shows for position `k`: the typed getter `Get(k)` rendered
    as a client observation -/
def indexedOut (t : Ty) (n : Node) (k : Nat) : Out :=
  match getElemNode t n k with
  | .error _ => .err
  | .ok (et, en) =>
    if !elemViewOk et en then .err
    else match t with
      | .bitvector _ | .bitlist _ =>
        (match en with
         | .leaf r => .bit (r.getD 0 0 != 0)
         | _ => .err)
      | _ => .node et en

/-- `out k` for `k < length` in order (every call advances, also after an error), then `done` -/
def outSeq (out : Nat → Out) (length : Nat) : Nat → Nat → List Out
  | _, 0 => []
  | k, m + 1 =>
    if k < length then out k :: outSeq out length (k + 1) m
    else .done :: outSeq out length k m

theorem outSeq_congr {out out' : Nat → Out} {length : Nat}
    (h : ∀ j, j < length → out j = out' j) :
    ∀ m k, outSeq out length k m = outSeq out' length k m := by
  intro m
  induction m with
  | zero => intro k; rfl
  | succ m ih =>
    intro k
    unfold outSeq
    by_cases hk : k < length
    · rw [if_pos hk, if_pos hk, h k hk, ih]
    · rw [if_neg hk, if_neg hk, ih]

theorem outSeq_closed (out : Nat → Out) (length : Nat) :
    ∀ m k, outSeq out length k m =
      (List.range' k (min m (length - k))).map out ++ List.replicate (m - (length - k)) .done := by
  intro m
  induction m with
  | zero => intro k; simp [outSeq]
  | succ m ih =>
    intro k
    unfold outSeq
    by_cases hk : k < length
    · have h1 : min (m + 1) (length - k) = min m (length - (k + 1)) + 1 := by omega
      have h2 : m + 1 - (length - k) = m - (length - (k + 1)) := by omega
      rw [if_pos hk, ih, h1, h2, List.range'_succ, List.map_cons, List.cons_append]
    · have h0 : length - k = 0 := by omega
      rw [if_neg hk, ih, h0]
      simp [List.replicate_succ]

theorem next_indexed_eq (t : Ty) (n : Node) (length i : Nat) :
    AnyIt.next (.indexed t n length i) =
      if i < length then
        match getElemNode t n i with
        | .error _ => (.err, .indexed t n length (i + 1))
        | .ok (et, en) =>
          if !elemViewOk et en then (.err, .indexed t n length (i + 1))
          else match t with
            | .bitvector _ | .bitlist _ =>
              (match en with
               | .leaf r => (.bit (r.getD 0 0 != 0), .indexed t n length (i + 1))
               | _ => (.err, .indexed t n length (i + 1)))
            | _ => (.node et en, .indexed t n length (i + 1))
      else (.done, .indexed t n length i) := rfl

theorem next_nodes_eq (it : NodeIt) (ety : Nat → Option Ty) :
    AnyIt.next (.nodes it ety) =
      match it.next with
      | (.err _, it') => (.err, .nodes it' ety)
      | (.done, it') => (.done, .nodes it' ety)
      | (.item n, it') =>
        match ety it.i with
        | none => (.err, .nodes it' ety)
        | some t => if elemViewOk t n then (.node t n, .nodes it' ety) else (.err, .nodes it' ety) :=
  rfl

theorem next_basics_eq (it : BasicIt) (t : Ty) :
    AnyIt.next (.basics it t) =
      match it.next with
      | (.err _, it') => (.err, .basics it' t)
      | (.done, it') => (.done, .basics it' t)
      | (.item v, it') => (.val t v, .basics it' t) := rfl

theorem next_bits_eq (it : BitIt) :
    AnyIt.next (.bits it) =
      match it.next with
      | (.err _, it') => (.err, .bits it')
      | (.done, it') => (.done, .bits it')
      | (.item b, it') => (.bit b, .bits it') := rfl

theorem indexed_next (t : Ty) (n : Node) (length k : Nat) :
    AnyIt.next (.indexed t n length k) =
      if k < length then (indexedOut t n k, .indexed t n length (k + 1))
      else (.done, .indexed t n length k) := by
  rw [next_indexed_eq]
  unfold indexedOut
  by_cases hk : k < length
  · rw [if_pos hk, if_pos hk]
    cases getElemNode t n k with
    | error e => rfl
    | ok x =>
      obtain ⟨et, en⟩ := x
      simp only
      cases elemViewOk et en with
      | false => rfl
      | true =>
        simp only [Bool.not_true, Bool.false_eq_true, if_false]
        cases t <;> first | rfl | (cases en <;> rfl)
  · rw [if_neg hk, if_neg hk]

/-- the index-based iterator: `Get(k)` for `k < length` in order, then `done` for ever -/
theorem indexed_run (t : Ty) (n : Node) (length : Nat) :
    ∀ m k, runSteps AnyIt.next m (.indexed t n length k) = outSeq (indexedOut t n) length k m := by
  intro m
  induction m with
  | zero => intro k; rfl
  | succ m ih =>
    intro k
    unfold runSteps outSeq
    rw [indexed_next]
    by_cases hk : k < length
    · rw [if_pos hk, if_pos hk]
      simp only [ih]
    · rw [if_neg hk, if_neg hk]
      simp only [ih]

/-- client observation of element `k` whose backing node is `c`, element types by position -/
def nodeOut (ety : Nat → Option Ty) (k : Nat) (c : Node) : Out :=
  match ety k with
  | none => .err
  | some t => if elemViewOk t c then .node t c else .err

/-- what `elemReadonlyIter` / `fieldReadonlyIter` have to show: like `iterSpec` (a failing node
    access is an error that is repeated), with each node wrapped into an element view -/
def nodesSeq (get : Nat → R Node) (ety : Nat → Option Ty) (length : Nat) : Nat → Nat → List Out
  | _, 0 => []
  | k, m + 1 =>
    if k < length then
      match get k with
      | .ok c => nodeOut ety k c :: nodesSeq get ety length (k + 1) m
      | .error _ => .err :: nodesSeq get ety length k m
    else .done :: nodesSeq get ety length k m

theorem nodesSeq_congr {get get' : Nat → R Node} {ety : Nat → Option Ty} {length : Nat}
    (h : ∀ j, j < length → get j = get' j) :
    ∀ m k, nodesSeq get ety length k m = nodesSeq get' ety length k m := by
  intro m
  induction m with
  | zero => intro k; rfl
  | succ m ih =>
    intro k
    unfold nodesSeq
    by_cases hk : k < length
    · rw [if_pos hk, if_pos hk, h k hk]
      cases get' k with
      | ok a => simp only [ih]
      | error e => simp only [ih]
    · rw [if_neg hk, if_neg hk, ih]

/-- when every node access succeeds the sequence is the plain in-order one -/
theorem nodesSeq_all_ok (get : Nat → R Node) (ety : Nat → Option Ty) (length : Nat)
    (out : Nat → Out)
    (h : ∀ j, j < length → ∃ c, get j = .ok c ∧ nodeOut ety j c = out j) :
    ∀ m k, nodesSeq get ety length k m = outSeq out length k m := by
  intro m
  induction m with
  | zero => intro k; rfl
  | succ m ih =>
    intro k
    unfold nodesSeq outSeq
    by_cases hk : k < length
    · obtain ⟨c, hc1, hc2⟩ := h k hk
      rw [if_pos hk, if_pos hk, hc1]
      simp only [hc2, ih]
    · rw [if_neg hk, if_neg hk, ih]

theorem anyNodes_run_from (anchor : Node) (length depth : Nat) (hd : depth < 256)
    (hl : length ≤ 2 ^ depth) (ety : Nat → Option Ty) :
    ∀ m it k, NodeInv anchor length depth it k →
      runSteps AnyIt.next m (.nodes it ety) =
        nodesSeq (fun j => getNode anchor (bitsOf j depth)) ety length k m := by
  intro m
  induction m with
  | zero => intro it k _; rfl
  | succ m ih =>
    intro it k hinv
    unfold runSteps nodesSeq
    by_cases hk : k < length
    · rw [if_pos hk]
      have hi : it.i = k := by obtain ⟨st, rfl, _⟩ := hinv; rfl
      have := node_next_step anchor length depth hd hl it k hinv hk
      revert this
      cases getNode anchor (bitsOf k depth) with
      | ok c =>
        simp only
        rintro ⟨it', h1, h2⟩
        have hn : AnyIt.next (.nodes it ety) = (nodeOut ety k c, .nodes it' ety) := by
          rw [next_nodes_eq]
          unfold nodeOut
          rw [h1, hi]
          simp only
          cases ety k with
          | none => rfl
          | some t =>
            simp only
            cases elemViewOk t c <;> rfl
        rw [hn]
        simp only [ih it' (k + 1) h2]
      | error e =>
        simp only
        rintro ⟨it', h1, h2⟩
        have hn : AnyIt.next (.nodes it ety) = (.err, .nodes it' ety) := by
          rw [next_nodes_eq, h1]
        rw [hn]
        simp only [ih it' k h2]
    · rw [if_neg hk]
      have h1 := node_next_done anchor length depth it k hinv (by omega)
      have hn : AnyIt.next (.nodes it ety) = (.done, .nodes it ety) := by
        rw [next_nodes_eq, h1]
      rw [hn]
      simp only [ih it k hinv]

theorem anyNodes_run_zero (anchor : Node) (depth : Nat) (ety : Nat → Option Ty) :
    ∀ m it k, NodeInv anchor 0 depth it k →
      runSteps AnyIt.next m (.nodes it ety) =
        nodesSeq (fun j => getNode anchor (bitsOf j depth)) ety 0 k m := by
  intro m
  induction m with
  | zero => intro it k _; rfl
  | succ m ih =>
    intro it k hinv
    unfold runSteps nodesSeq
    rw [if_neg (by omega)]
    have h1 := node_next_done anchor 0 depth it k hinv (by omega)
    have hn : AnyIt.next (.nodes it ety) = (.done, .nodes it ety) := by
      rw [next_nodes_eq, h1]
    rw [hn]
    simp only [ih it k hinv]

/-- `elemReadonlyIter` / `fieldReadonlyIter` as a client sees them, against indexed access -/
theorem anyNodes_run (anchor : Node) (length depth : Nat)
    (hb : (NodeIt.new anchor length depth).bad = false) (ety : Nat → Option Ty) (m : Nat) :
    runSteps AnyIt.next m (.nodes (NodeIt.new anchor length depth) ety) =
      nodesSeq (fun j => subtreeGet anchor depth j) ety length 0 m := by
  rcases node_new_ok hb with h0 | ⟨h64, hl⟩
  · subst h0
    rw [anyNodes_run_zero anchor depth ety m _ 0 (NodeInv_new anchor 0 depth hb)]
    apply nodesSeq_congr
    intro j hj; omega
  · rw [anyNodes_run_from anchor length depth (by omega) hl ety m _ 0
      (NodeInv_new anchor length depth hb)]
    apply nodesSeq_congr
    intro j hj
    exact (subtreeGet_eq anchor depth j h64 (by omega)).symm

/-- wrapping a step of the packed / bit iterators into a client observation -/
def stepOut {α : Type} (f : α → Out) : Step α → Out
  | .item a => f a
  | .done => .done
  | .err _ => .err

theorem anyBasics_run (t : Ty) : ∀ m (it : BasicIt),
    runSteps AnyIt.next m (.basics it t) = (runSteps BasicIt.next m it).map (stepOut (Out.val t)) := by
  intro m
  induction m with
  | zero => intro it; rfl
  | succ m ih =>
    intro it
    have hn : AnyIt.next (.basics it t) = (stepOut (Out.val t) it.next.1, .basics it.next.2 t) := by
      rw [next_basics_eq]
      rcases it.next with ⟨s, it'⟩
      cases s <;> rfl
    unfold runSteps
    rw [hn, List.map_cons]
    simp only [ih]

theorem anyBits_run : ∀ m (it : BitIt),
    runSteps AnyIt.next m (.bits it) = (runSteps BitIt.next m it).map (stepOut Out.bit) := by
  intro m
  induction m with
  | zero => intro it; rfl
  | succ m ih =>
    intro it
    have hn : AnyIt.next (.bits it) = (stepOut Out.bit it.next.1, .bits it.next.2) := by
      rw [next_bits_eq]
      rcases it.next with ⟨s, it'⟩
      cases s <;> rfl
    unfold runSteps
    rw [hn, List.map_cons]
    simp only [ih]

theorem anyFailed_run : ∀ m, runSteps AnyIt.next m .failed = List.replicate m .err := by
  intro m
  induction m with
  | zero => rfl
  | succ m ih =>
    unfold runSteps
    have hn : AnyIt.next .failed = (.err, .failed) := rfl
    rw [hn, List.replicate_succ]
    simp only [ih]

/-! ### read-only iterator = index-based iterator (complex elements) -/

theorem node_new_not_bad (anchor : Node) (length depth : Nat)
    (h : length = 0 ∨ (depth < 64 ∧ length ≤ 2 ^ depth)) :
    (NodeIt.new anchor length depth).bad = false := by
  unfold NodeIt.new
  simp only [decide_eq_false_iff_not]
  rcases h with h0 | ⟨h64, hl⟩
  · omega
  · rw [if_neg (by omega)]; omega

theorem subtreeGet_ok_bounds {n c : Node} {d j : Nat} (h : subtreeGet n d j = .ok c) :
    d < 64 ∧ j < 2 ^ d := by
  unfold subtreeGet at h
  cases hp : toPath j d with
  | error e => rw [hp] at h; cases h
  | ok p => exact (toPath_eq hp).2

theorem le_two_pow_coverDepth' (n : Nat) : n ≤ 2 ^ coverDepth n := by
  unfold coverDepth
  split
  · simpa using ‹n ≤ 1›
  · have := @Nat.lt_log2_self (n - 1)
    omega

/-- core: a node iterator over `anchor` at `depth` whose positions are what the typed getter
    `Get(j)` of a (non-bitfield) view returns shows the same as the index-based iterator -/
theorem ro_eq_indexed_core (t : Ty) (n anchor : Node) (len depth : Nat) (ety : Nat → Option Ty)
    (hv : ∀ k, t ≠ .bitvector k) (hl : ∀ k, t ≠ .bitlist k)
    (hget : ∀ j, j < len → ∃ et c, getElemNode t n j = .ok (et, c) ∧
      subtreeGet anchor depth j = .ok c ∧ ety j = some et) (m : Nat) :
    runSteps AnyIt.next m (.nodes (NodeIt.new anchor len depth) ety) =
      runSteps AnyIt.next m (.indexed t n len 0) := by
  have hok : len = 0 ∨ (depth < 64 ∧ len ≤ 2 ^ depth) := by
    by_cases h0 : len = 0
    · exact Or.inl h0
    · obtain ⟨et, c, _, h2, _⟩ := hget (len - 1) (by omega)
      have := subtreeGet_ok_bounds h2
      right; exact ⟨this.1, by omega⟩
  rw [anyNodes_run anchor len depth (node_new_not_bad anchor len depth hok) ety m,
    indexed_run t n len m 0]
  apply nodesSeq_all_ok
  intro j hj
  obtain ⟨et, c, h1, h2, h3⟩ := hget j hj
  refine ⟨c, h2, ?_⟩
  unfold nodeOut indexedOut
  rw [h1, h3]
  simp only
  cases elemViewOk et c with
  | false => rfl
  | true =>
    cases t with
    | bitvector k => exact absurd rfl (hv k)
    | bitlist k => exact absurd rfl (hl k)
    | _ => rfl

theorem getElemNode_vector_complex (e : Ty) (k : Nat) (n : Node) (j : Nat) (hj : j < k)
    (hnb : isBasicElem e = false) :
    getElemNode (.vector e k) n j =
      (subtreeGet n (coverDepth k) j >>= fun c => .ok (e, c)) := by
  unfold getElemNode viewDepth seriesDepth
  simp only [hnb, Bool.false_eq_true, if_false]
  rw [if_neg (by omega)]

theorem getElemNode_container (fs : List Ty) (n : Node) (j : Nat) (ft : Ty) (hj : fs[j]? = some ft) :
    getElemNode (.container fs) n j =
      (subtreeGet n (coverDepth fs.length) j >>= fun c => .ok (ft, c)) := by
  unfold getElemNode viewDepth
  simp only [hj]

theorem listLength_ok {n : Node} {lim ll : Nat} (h : listLength n lim = .ok ll) :
    (∃ l r, n = .pair l r) ∧ ll ≤ lim := by
  unfold listLength at h
  cases n with
  | leaf x => cases h
  | pair l r =>
    refine ⟨⟨l, r, rfl⟩, ?_⟩
    simp only [getNode, if_true, bind, Except.bind] at h
    cases hr : asLeaf r with
    | error e => rw [hr] at h; cases h
    | ok x =>
      rw [hr] at h
      simp only at h
      split at h
      · cases h
      · cases h; omega

theorem getElemNode_list_complex (e : Ty) (lim : Nat) (n : Node) (ll j : Nat)
    (hll : listLength n lim = .ok ll) (hj : j < ll) (hnb : isBasicElem e = false) :
    getElemNode (.list e lim) n j =
      (subtreeGet n (coverDepth lim + 1) j >>= fun c => .ok (e, c)) := by
  have hle := (listLength_ok hll).2
  unfold getElemNode viewDepth seriesDepth
  simp only [hll, hnb, Bool.false_eq_true, if_false, bind, Except.bind]
  rw [if_neg (by omega), if_neg (by omega)]

/-! ### read-only iterator = index-based iterator (bitfields, packed basic elements) -/

/-- a successful `iterSpec` run, rendered for the client, is the plain in-order sequence -/
theorem iterSpec_map_all_ok {α : Type} (get : Nat → R α) (g : α → Out) (length : Nat)
    (out : Nat → Out) (h : ∀ j, j < length → ∃ a, get j = .ok a ∧ g a = out j) :
    ∀ m k, (iterSpec get length k m).map (stepOut g) = outSeq out length k m := by
  intro m
  induction m with
  | zero => intro k; rfl
  | succ m ih =>
    intro k
    unfold iterSpec outSeq
    by_cases hk : k < length
    · obtain ⟨a, h1, h2⟩ := h k hk
      rw [if_pos hk, if_pos hk, h1]
      simp only [List.map_cons, stepOut, h2, ih]
    · rw [if_neg hk, if_neg hk, List.map_cons, ih]
      rfl

theorem bit_new_not_bad (anchor : Node) (length depth : Nat) (hd : depth ≤ 55)
    (hl : length ≤ 2 ^ depth * 256) : (BitIt.new anchor length depth).bad = false := by
  unfold BitIt.new
  simp only [decide_eq_false_iff_not]
  rw [if_neg (by omega)]
  have h1 : 2 ^ depth ≤ 2 ^ 55 := Nat.pow_le_pow_right (by omega) hd
  rw [Nat.mod_eq_of_lt (by omega)]
  omega

theorem coverDepth_le_of_le (x d : Nat) (h : x ≤ 2 ^ d) : coverDepth x ≤ d := by
  unfold coverDepth
  split
  · omega
  · rename_i h1
    have hp : 0 < 2 ^ d := Nat.two_pow_pos d
    have : Nat.log2 (x - 1) < d := (Nat.log2_lt (by omega)).mpr (by omega)
    omega

/-- bitfields of at most `2^63` bits: the contents subtree is at most 55 deep and holds them -/
theorem bitDepth_bounds (len lim : Nat) (h1 : len ≤ lim) (h2 : lim ≤ 2 ^ 63) :
    bitDepth lim ≤ 55 ∧ len ≤ 2 ^ bitDepth lim * 256 := by
  unfold bitDepth
  constructor
  · apply coverDepth_le_of_le
    omega
  · have := le_two_pow_coverDepth' ((lim + 255) / 256)
    generalize 2 ^ coverDepth ((lim + 255) / 256) = X at this
    omega

theorem bool_chunk_getD (b : Bool) :
    ((chunkOf [if b then 1 else 0]).getD 0 0 != 0) = b := by
  cases b <;> rfl

/-- core for bitfields -/
theorem ro_eq_indexed_bits_core (t : Ty) (n anchor : Node) (len depth : Nat)
    (ht : (∃ k, t = .bitvector k) ∨ (∃ k, t = .bitlist k))
    (hb : (BitIt.new anchor len depth).bad = false)
    (hget : ∀ j, j < len → ∃ r, getElemNode t n j =
        .ok (.bool, .leaf (chunkOf [if bitFromChunk r j then 1 else 0])) ∧
      subtreeGet anchor depth (j / 256) = .ok (.leaf r)) (m : Nat) :
    runSteps AnyIt.next m (.bits (BitIt.new anchor len depth)) =
      runSteps AnyIt.next m (.indexed t n len 0) := by
  rw [anyBits_run, bit_run anchor len depth hb m, indexed_run t n len m 0]
  apply iterSpec_map_all_ok
  intro j hj
  obtain ⟨r, h1, h2⟩ := hget j hj
  refine ⟨bitFromChunk r j, ?_, ?_⟩
  · unfold bitAt
    rw [h2]
    rfl
  · unfold indexedOut
    rw [h1]
    rcases ht with ⟨k, rfl⟩ | ⟨k, rfl⟩
    · show Out.bit (bitFromChunk r j) = Out.bit _
      rw [bool_chunk_getD]
    · show Out.bit (bitFromChunk r j) = Out.bit _
      rw [bool_chunk_getD]

theorem getElemNode_bitvector (k : Nat) (n : Node) (j : Nat) (hj : j < k) :
    getElemNode (.bitvector k) n j =
      (subtreeGet n (bitDepth k) (j / 256) >>= fun c => asLeaf c >>= fun r =>
        .ok (.bool, .leaf (chunkOf [if bitFromChunk r j then 1 else 0]))) := by
  unfold getElemNode viewDepth
  simp only
  rw [if_neg (by omega)]

theorem getElemNode_bitlist (lim : Nat) (n : Node) (ll j : Nat)
    (hll : listLength n lim = .ok ll) (hj : j < ll) :
    getElemNode (.bitlist lim) n j =
      (subtreeGet n (bitDepth lim + 1) (j / 256) >>= fun c => asLeaf c >>= fun r =>
        .ok (.bool, .leaf (chunkOf [if bitFromChunk r j then 1 else 0]))) := by
  have hle := (listLength_ok hll).2
  unfold getElemNode viewDepth
  simp only [hll, bind, Except.bind]
  rw [if_neg (by omega), if_neg (by omega)]

/-- rendering a packed value as the fresh leaf `BasicView.Backing()` gives -/
def valToNode : Out → Out
  | .val t v => .node t (.leaf (chunkOf (leBytes t.fixedSize (numOf v))))
  | o => o

theorem basic_new_not_bad (anchor : Node) (length depth size : Nat)
    (h : length = 0 ∨ (depth < 64 ∧ length ≤ 2 ^ depth * (32 / size))) :
    (BasicIt.new anchor length depth size).bad = false := by
  unfold BasicIt.new
  simp only [decide_eq_false_iff_not]
  rcases h with h0 | ⟨h64, hl⟩
  · omega
  · rw [if_neg (by omega)]; omega

/-- core for packed basic elements: the index-based iterator shows, as fresh leaves, the
    values the read-only iterator shows -/
theorem ro_indexed_basics_core (t e : Ty) (n anchor : Node) (len depth : Nat)
    (hv : ∀ k, t ≠ .bitvector k) (hl : ∀ k, t ≠ .bitlist k)
    (he : ∀ x, elemViewOk e (.leaf x) = true)
    (hb : (BasicIt.new anchor len depth e.fixedSize).bad = false)
    (hget : ∀ j, j < len → ∃ v, getElemNode t n j =
        .ok (e, .leaf (chunkOf (leBytes e.fixedSize (numOf v)))) ∧
      basicAt e.fixedSize anchor depth j = .ok v) (m : Nat) :
    runSteps AnyIt.next m (.indexed t n len 0) =
      (runSteps AnyIt.next m (.basics (BasicIt.new anchor len depth e.fixedSize) e)).map
        valToNode := by
  rw [anyBasics_run, basic_run anchor len depth e.fixedSize hb m, indexed_run t n len m 0,
    List.map_map]
  have hfun : (valToNode ∘ stepOut (Out.val e)) = stepOut (fun v => valToNode (Out.val e v)) := by
    funext s
    cases s <;> rfl
  rw [hfun]
  symm
  apply iterSpec_map_all_ok
  intro j hj
  obtain ⟨v, h1, h2⟩ := hget j hj
  refine ⟨v, h2, ?_⟩
  unfold indexedOut
  rw [h1]
  simp only [he, Bool.not_true, Bool.false_eq_true, if_false]
  cases t with
  | bitvector k => exact absurd rfl (hv k)
  | bitlist k => exact absurd rfl (hl k)
  | _ => rfl

theorem getElemNode_vector_basic (e : Ty) (k : Nat) (n : Node) (j : Nat) (hj : j < k)
    (hbe : isBasicElem e = true) :
    getElemNode (.vector e k) n j =
      (basicAt e.fixedSize n (seriesDepth e k) j >>= fun v =>
        .ok (e, .leaf (chunkOf (leBytes e.fixedSize (numOf v))))) := by
  unfold getElemNode viewDepth basicAt
  simp only [hbe, if_true]
  rw [if_neg (by omega)]
  cases subtreeGet n (seriesDepth e k) (j / perNode e.fixedSize) with
  | error x => rfl
  | ok c =>
    cases c with
    | pair l r => rfl
    | leaf r =>
      simp only [bind, Except.bind, asLeaf]

theorem getElemNode_list_basic (e : Ty) (lim : Nat) (n : Node) (ll j : Nat)
    (hll : listLength n lim = .ok ll) (hj : j < ll) (hbe : isBasicElem e = true) :
    getElemNode (.list e lim) n j =
      (basicAt e.fixedSize n (seriesDepth e lim + 1) j >>= fun v =>
        .ok (e, .leaf (chunkOf (leBytes e.fixedSize (numOf v))))) := by
  have hle := (listLength_ok hll).2
  unfold getElemNode viewDepth basicAt
  simp only [hll, hbe, if_true, bind, Except.bind]
  rw [if_neg (by omega), if_neg (by omega)]
  cases subtreeGet n (seriesDepth e lim + 1) (j / perNode e.fixedSize) with
  | error x => rfl
  | ok c =>
    cases c with
    | pair l r => rfl
    | leaf r => simp only [asLeaf]

/-- a successful packed access pins down the geometry: the element size divides into a chunk
    and the position is inside the subtree -/
theorem basicAt_ok_bounds {size : Nat} {anchor : Node} {depth j : Nat} {v : Val}
    (h : basicAt size anchor depth j = .ok v) :
    depth < 64 ∧ j / (32 / size) < 2 ^ depth ∧ 0 < 32 / size := by
  unfold basicAt perNode at h
  cases hc : subtreeGet anchor depth (j / (32 / size)) with
  | error x => rw [hc] at h; cases h
  | ok c =>
    have hb := subtreeGet_ok_bounds hc
    refine ⟨hb.1, hb.2, ?_⟩
    rw [hc] at h
    cases c with
    | pair l r => cases h
    | leaf r =>
      simp only [bind, Except.bind, asLeaf, basicFromChunk] at h
      split at h
      · cases h
      · omega

theorem isBasicElem_viewOk (e : Ty) (hbe : isBasicElem e = true) (x : Root) :
    elemViewOk e (.leaf x) = true := by
  cases e <;> first | rfl | cases hbe

theorem basic_not_bad_of_last (size : Nat) (anchor : Node) (len depth : Nat)
    (h : ∀ j, j < len → ∃ v, basicAt size anchor depth j = .ok v) :
    (BasicIt.new anchor len depth size).bad = false := by
  apply basic_new_not_bad
  by_cases h0 : len = 0
  · exact Or.inl h0
  · obtain ⟨v, hv⟩ := h (len - 1) (by omega)
    obtain ⟨h64, hlt, hp⟩ := basicAt_ok_bounds hv
    have := (Nat.div_lt_iff_lt_mul hp).mp hlt
    right; exact ⟨h64, by omega⟩

theorem basic_list_pos_bound (size lim j : Nat) (hp : 0 < 32 / size) (hj : j < lim) :
    j / (32 / size) < 2 ^ coverDepth (bottomNodes size lim) := by
  have h1 : j / (32 / size) ≤ (lim - 1) / (32 / size) := Nat.div_le_div_right (by omega)
  have h2 : bottomNodes size lim = (lim - 1) / (32 / size) + 1 := by
    unfold bottomNodes perNode
    have : lim + 32 / size - 1 = (lim - 1) + 32 / size := by omega
    rw [this, Nat.add_div_right _ hp]
  have h3 := le_two_pow_coverDepth' (bottomNodes size lim)
  omega

/-- a packed access through a list view root (depth + 1) is the access into the contents -/
theorem basicAt_pair_left (size : Nat) (l r : Node) (d j : Nat) (hd : d + 1 < 64)
    (hj : j / (32 / size) < 2 ^ d) :
    basicAt size (.pair l r) (d + 1) j = basicAt size l d j := by
  unfold basicAt perNode
  rw [subtreeGet_pair_left l r d _ hd hj]

/-! ### small concrete trees for the non-vacuity examples of C17 -/

namespace Ex
def a : Node := .leaf (chunkOf [1])
def b : Node := .leaf (chunkOf [2])
def c : Node := .leaf (chunkOf [3])
def d : Node := .leaf (chunkOf [4])
/-- depth 2, all four positions present -/
def full : Node := .pair (.pair a b) (.pair c d)
/-- depth 2, positions 2 and 3 summarised away (missing data) -/
def part : Node := .pair (.pair a b) (.leaf z0)
/-- a chunk with bytes 0,1,2,…,31: four uint64 -/
def ch0 : Root := (List.range 32).map UInt8.ofNat
def ch1 : Root := (List.range 32).map fun i => UInt8.ofNat (100 + i)
/-- depth 1: two chunks -/
def two : Node := .pair (.leaf ch0) (.leaf ch1)
/-- first chunk: only bit 255 set; second chunk: only bit 0 (= bit 256 overall) set -/
def bits0 : Root := List.replicate 31 0 ++ [128]
def bits1 : Root := chunkOf [1]
def twoBits : Node := .pair (.leaf bits0) (.leaf bits1)
/-- depth 1 with a missing second chunk position: the right node is not a leaf -/
def twoBad : Node := .pair (.leaf ch0) (.pair (.leaf ch0) (.leaf ch0))
end Ex

end ZtypV.View.Iter
