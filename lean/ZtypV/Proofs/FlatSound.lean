/-
C10, soundness of the flat decoder model: whenever `flatDecode` returns a value it consumed
exactly its share of the stream (its whole scope for variable-size types, its fixed size for
fixed-size types), the consumed bytes are the spec encoding of the returned value and the value
is well-typed.  One lemma per codec helper, then recursion over the type.  Core Lean only.
-/
import ZtypV.Proofs.Flat
import ZtypV.Proofs.Bitfields
import ZtypV.Proofs.FlatNoPanic
namespace ZtypV.FlatProofs
open ZtypV ZtypV.View ZtypV.Flat ZtypV.DecodeProofs

/-- the bytes a decoder of type `t` must consume on reader `dr` -/
def need (t : Ty) (dr : DR) : Nat := if t.isFixed then t.fixedSize else dr.scope

/-- soundness of a decoder `f` for type `t` -/
def DSound (t : Ty) (f : DR → R (Val × DR)) : Prop :=
  ∀ (dr : DR) (v : Val) (dr' : DR), f dr = .ok (v, dr') →
    hasType t v = true ∧ serialize t v = dr.avail.take (need t dr) ∧
      need t dr ≤ dr.avail.length ∧ dr'.avail = dr.avail.drop (need t dr)

theorem need_fixed {t : Ty} (h : t.isFixed = true) (dr : DR) : need t dr = t.fixedSize := by
  simp [need, h]

theorem need_var {t : Ty} (h : t.isFixed = false) (dr : DR) : need t dr = dr.scope := by
  simp [need, h]

/-- a sound decoder run in a sub-scope of exactly the right size -/
theorem inSub_sound {t : Ty} {f : DR → R (Val × DR)} (hs : DSound t f) {dr dr' : DR} {count : Nat}
    {v : Val} (h : dr.inSub count f = .ok (v, dr')) (hc : t.isFixed = true → count = t.fixedSize) :
    hasType t v = true ∧ serialize t v = dr.avail.take count ∧ count ≤ dr.avail.length ∧
      dr'.avail = dr.avail.drop count := by
  obtain ⟨c1, h1, hav⟩ := inSub_ok h
  obtain ⟨hty, hser, hle, hc1⟩ := hs _ _ _ h1
  have hneed : need t { i := 0, max := count, avail := dr.avail.take count } = count := by
    cases hf : t.isFixed with
    | true => rw [need_fixed hf, hc hf]
    | false => rw [need_var hf]; simp [DR.scope]
  rw [hneed] at hser hle hc1
  simp only [List.length_take] at hle
  have hcl : count ≤ dr.avail.length := by omega
  refine ⟨hty, ?_, hcl, ?_⟩
  · rw [hser]
    show List.take count (List.take count dr.avail) = _
    rw [List.take_take, Nat.min_self]
  · rw [hav, hc1]
    simp only [List.length_take, List.length_drop]
    congr 1
    omega

/-! ### reads into destination slices -/

theorem resize_len (s : Slice) (n : Nat) : (s.resize n).len = n := by
  unfold Slice.resize; split <;> rfl

/-- `Read(*dst)` after the resize: whatever the destination held, it now shows the bytes read -/
theorem readFull_resize_ok {dst : Slice} {n : Nat} {dr dr' : DR} {s : Slice}
    (h : (dst.resize n).readFull dr = .ok (s, dr')) :
    n ≤ dr.avail.length ∧ s.bytes = dr.avail.take n ∧ dr'.avail = dr.avail.drop n := by
  unfold Slice.readFull at h
  obtain ⟨⟨bs, d⟩, h1, h⟩ := bind_eq_ok h
  rw [resize_len] at h1
  obtain ⟨hl, hbs, hav, _, _⟩ := read_ok h1
  cases h
  refine ⟨hl, ?_, hav⟩
  unfold Slice.bytes
  simp only [resize_len]
  have hlen : bs.length = n := by rw [hbs, List.length_take]; omega
  have key : ∀ (l : Bytes), (bs ++ l).take n = bs := by
    intro l; rw [List.take_append_of_le_length (by omega), List.take_of_length_le (by omega)]
  exact (key _).trans hbs

theorem readRootsLoop_ok : ∀ (n : Nat) (dr dr' : DR) (rs : List Bytes),
    readRootsLoop n dr = .ok (rs, dr') →
    rs.length = n ∧ (∀ r ∈ rs, r.length = 32) ∧ rs.flatten = dr.avail.take (n * 32) ∧
      n * 32 ≤ dr.avail.length ∧ dr'.avail = dr.avail.drop (n * 32)
  | 0, dr, dr', rs, h => by
    unfold readRootsLoop at h; cases h; simp
  | n + 1, dr, dr', rs, h => by
    unfold readRootsLoop at h
    obtain ⟨⟨r, d1⟩, h1, h⟩ := bind_eq_ok h
    obtain ⟨⟨rs', d2⟩, h2, h⟩ := bind_eq_ok h
    obtain ⟨hl, hr, hav, _, _⟩ := read_ok h1
    obtain ⟨ihl, ih32, ihf, ihle, ihav⟩ := readRootsLoop_ok n d1 d2 rs' h2
    cases h
    rw [hav] at ihf ihle ihav
    simp only [List.length_drop] at ihle
    have hrl : r.length = 32 := by rw [hr, List.length_take]; omega
    refine ⟨by simp [ihl], ?_, ?_, by omega, ?_⟩
    · intro x hx
      rcases List.mem_cons.mp hx with rfl | hx'
      · exact hrl
      · exact ih32 x hx'
    · rw [List.flatten_cons, ihf, hr, ← List.take_add]
      congr 1; omega
    · rw [ihav, List.drop_drop]; congr 1; omega

theorem readRoots_ok {dst : RSlice} {n : Nat} {dr dr' : DR} {s : RSlice}
    (h : readRoots dst n dr = .ok (s, dr')) :
    s.roots.length = n ∧ (∀ r ∈ s.roots, r.length = 32) ∧ s.roots.flatten = dr.avail.take (n * 32) ∧
      n * 32 ≤ dr.avail.length ∧ dr'.avail = dr.avail.drop (n * 32) := by
  unfold readRoots at h
  obtain ⟨⟨rs, d⟩, h1, h⟩ := bind_eq_ok h
  obtain ⟨hl, h32, hf, hle, hav⟩ := readRootsLoop_ok _ _ _ _ h1
  cases h
  have hroots : ∀ (d1 : RSlice), d1.len = n →
      (RSlice.roots { d1 with arr := rs ++ d1.arr.drop n }) = rs := by
    intro d1 hd
    unfold RSlice.roots
    simp only [hd]
    rw [List.take_append_of_le_length (by omega), ← hl, List.take_length]
  have : RSlice.roots { (if dst.len ≠ n then (if dst.cap ≥ n then { dst with len := n }
      else ⟨n, n, List.replicate n z0⟩) else dst) with
      arr := rs ++ (if dst.len ≠ n then (if dst.cap ≥ n then { dst with len := n }
      else ⟨n, n, List.replicate n z0⟩) else dst).arr.drop n } = rs := by
    apply hroots
    split
    · split <;> rfl
    · rename_i hn; simpa using hn
  rw [this]
  exact ⟨hl, h32, hf, hle, hav⟩

/-! ### leaves -/

theorem decUint_sound (b : Nat) : DSound (.uint b) (decUint b) := by
  intro dr v dr' h
  unfold decUint at h
  obtain ⟨⟨bs, d⟩, h1, h⟩ := bind_eq_ok h
  obtain ⟨hl, hbs, hav, _, _⟩ := read_ok h1
  cases h
  have hlen : bs.length = b := by rw [hbs, List.length_take]; omega
  rw [need_fixed (by rfl)]
  simp only [Ty.fixedSize]
  refine ⟨?_, ?_, hl, hav⟩
  · simp only [hasType, decide_eq_true_eq]
    rw [← hlen]; exact leNat_lt bs
  · simp only [serialize]
    rw [← hbs, ← hlen]; exact leBytes_leNat bs

theorem decBool_sound : DSound .bool decBool := by
  intro dr v dr' h
  unfold decBool at h
  obtain ⟨⟨bs, d⟩, h1, h⟩ := bind_eq_ok h
  obtain ⟨hl, hbs, hav, _, _⟩ := read_ok h1
  dsimp only at h
  split at h
  · cases h
  rename_i hd
  cases h
  rw [need_fixed (by rfl)]
  simp only [Ty.fixedSize]
  refine ⟨rfl, ?_, hl, hav⟩
  simp only [serialize]
  rw [← hbs]
  match bs, hbs with
  | [], hbs =>
    have : (dr.avail.take 1).length = 1 := by rw [List.length_take]; omega
    rw [← hbs] at this; simp at this
  | [x], _ =>
    simp only [List.headD_cons] at hd ⊢
    have hx : x.toNat ≤ 1 := by omega
    have : x = 0 ∨ x = 1 := by
      rcases Nat.le_one_iff_eq_zero_or_eq_one.mp hx with h0 | h1
      · left; exact UInt8.toNat_inj.mp h0
      · right; exact UInt8.toNat_inj.mp h1
    rcases this with rfl | rfl <;> simp
  | x :: y :: r, hbs =>
    have : (dr.avail.take 1).length ≤ 1 := by rw [List.length_take]; omega
    rw [← hbs] at this; simp at this

theorem decRoot_sound : DSound (.bytesN 32) decRoot := by
  intro dr v dr' h
  unfold decRoot at h
  obtain ⟨⟨bs, d⟩, h1, h⟩ := bind_eq_ok h
  obtain ⟨hl, hbs, hav, _, _⟩ := read_ok h1
  cases h
  rw [need_fixed (by rfl)]
  simp only [Ty.fixedSize]
  refine ⟨?_, ?_, hl, hav⟩
  · simp only [hasType, beq_iff_eq]
    rw [hbs, List.length_take]; omega
  · simp only [serialize]; exact hbs

theorem bytesN_sound (n : Nat) (p : Val) : DSound (.bytesN n) (flatDecode (.bytesN n) p) := by
  intro dr v dr' h
  rw [flatDecode] at h
  split at h
  · rename_i hn; subst hn
    exact decRoot_sound dr v dr' h
  · obtain ⟨⟨s, d⟩, h1, h⟩ := bind_eq_ok h
    cases h
    obtain ⟨hl, hb, hav⟩ := readFull_resize_ok h1
    rw [need_fixed (by rfl)]
    simp only [Ty.fixedSize]
    refine ⟨?_, ?_, hl, hav⟩
    · simp only [hasType, beq_iff_eq]
      rw [hb, List.length_take]; omega
    · simp only [serialize]; exact hb

/-! ### bit fields -/

theorem getBit_eq_bitAt : @getBit = @Bitfields.bitAt := rfl
theorem unpackBits_eq_unpack : @unpackBits = @Bitfields.unpack := rfl
theorem lastByte_eq : @Flat.lastByte = @Bitfields.lastByte := rfl

theorem shiftRight_eq_zero_testBit {x k : Nat} (h : x >>> k = 0) {j : Nat} (hj : k ≤ j) :
    x.testBit j = false := by
  have := Nat.testBit_shiftRight (i := k) (j := j - k) x
  rw [h] at this
  simp only [Nat.zero_testBit] at this
  rw [show k + (j - k) = j by omega] at this
  exact this.symm

/-- what `BitvectorCheck` establishes -/
theorem bitvectorCheck_true {b : Bytes} {n : Nat} (h : bitvectorCheck b n = true) :
    b.length = (n + 7) / 8 ∧ ∀ i, n ≤ i → Bitfields.bitAt b i = false := by
  unfold bitvectorCheck at h
  split at h; · cases h
  rename_i hl
  have hl : b.length = (n + 7) / 8 := by simpa using hl
  refine ⟨hl, fun i hi => ?_⟩
  by_cases hge : 8 * b.length ≤ i
  · exact Bitfields.bitAt_of_ge b hge
  split at h
  · omega
  rename_i h0
  split at h; · cases h
  split at h
  · omega
  rename_i hn0 hn8
  have hz : (Flat.lastByte b).toNat >>> (n % 8) = 0 := by simpa using h
  have hd : i = 8 * (b.length - 1) + (i - 8 * (b.length - 1)) := by omega
  rw [hd, Bitfields.bitAt_last b h0 _ (by omega)]
  show (Bitfields.lastByte b).toNat.testBit _ = false
  rw [← lastByte_eq]
  exact shiftRight_eq_zero_testBit hz (by omega)

theorem bitvector_sound (n : Nat) (p : Val) : DSound (.bitvector n) (flatDecode (.bitvector n) p) := by
  intro dr v dr' h
  rw [flatDecode] at h
  obtain ⟨⟨s, d⟩, h1, h⟩ := bind_eq_ok h
  cases h
  unfold decBitVector at h1
  obtain ⟨⟨s', d'⟩, h2, h1⟩ := bind_eq_ok h1
  dsimp only at h1
  split at h1
  · rename_i hck
    cases h1
    obtain ⟨hl, hb, hav⟩ := readFull_resize_ok h2
    obtain ⟨hlen, hbits⟩ := bitvectorCheck_true hck
    rw [need_fixed (by rfl)]
    simp only [Ty.fixedSize]
    refine ⟨?_, ?_, hl, hav⟩
    · simp [hasType, unpackBits]
    · simp only [serialize]
      rw [← hb]
      symm
      rw [unpackBits_eq_unpack, Bitfields.eq_packBits_iff]
      refine ⟨by simpa using hlen, fun i => ?_⟩
      rw [Bitfields.unpack_getD]
      split
      · rfl
      · exact hbits i (by omega)
  · cases h1

/-- what `BitlistCheck` establishes -/
theorem bitlistCheck_true {b : Bytes} {lim : Nat} (h : bitlistCheck b lim = true) :
    b.length ≠ 0 ∧ Flat.lastByte b ≠ 0 ∧
      8 * (b.length - 1) + Nat.log2 (Flat.lastByte b).toNat ≤ lim := by
  unfold bitlistCheck at h
  split at h; · cases h
  split at h; · cases h
  split at h; · cases h
  split at h; · cases h
  rename_i h0 hl hz hlog
  exact ⟨h0, hz, by omega⟩

theorem bitlist_sound (lim : Nat) (p : Val) : DSound (.bitlist lim) (flatDecode (.bitlist lim) p) := by
  intro dr v dr' h
  rw [flatDecode] at h
  obtain ⟨⟨s, d⟩, h1, h⟩ := bind_eq_ok h
  cases h
  unfold decBitList at h1
  dsimp only at h1
  split at h1; · cases h1
  obtain ⟨⟨s', d'⟩, h2, h1⟩ := bind_eq_ok h1
  dsimp only at h1
  split at h1
  · rename_i hck
    cases h1
    obtain ⟨hl, hb, hav⟩ := readFull_resize_ok h2
    obtain ⟨h0, hz, hle⟩ := bitlistCheck_true hck
    rw [need_var (by rfl)]
    refine ⟨?_, ?_, hl, hav⟩
    · simp only [hasType, decide_eq_true_eq, unpackBitlist, unpackBits, List.length_map, List.length_range]
      exact hle
    · simp only [serialize]
      rw [← hb]
      symm
      exact Bitfields.eq_packBits_delim s.bytes h0 hz
  · cases h1

/-! ### byte and root series -/

theorem u8_series : ∀ (bs : Bytes), allHaveType (.uint 1) (bs.map numOfByte) = true ∧
    (serList (.uint 1) (bs.map numOfByte)).flatten = bs
  | [] => by simp [allHaveType, serList]
  | b :: bs => by
    obtain ⟨h1, h2⟩ := u8_series bs
    have hb : b.toNat < 256 := UInt8.toNat_lt b
    refine ⟨?_, ?_⟩
    · simp only [List.map_cons, allHaveType, h1, Bool.and_true, numOfByte, hasType, decide_eq_true_eq]
      omega
    · simp only [List.map_cons, serList, List.flatten_cons, h2, numOfByte, serialize, leBytes]
      have : b.toNat % 256 = b.toNat := by omega
      rw [this, UInt8.ofNat_toNat]; rfl

theorem root_series : ∀ (rs : List Bytes), (∀ r ∈ rs, r.length = 32) →
    allHaveType (.bytesN 32) (rs.map Val.bytes) = true ∧
    (serList (.bytesN 32) (rs.map Val.bytes)).flatten = rs.flatten
  | [], _ => by simp [allHaveType, serList]
  | r :: rs, h => by
    obtain ⟨h1, h2⟩ := root_series rs (fun x hx => h x (by simp [hx]))
    have hr := h r (by simp)
    refine ⟨?_, ?_⟩
    · simp [List.map_cons, allHaveType, h1, hasType, hr]
    · simp only [List.map_cons, serList, List.flatten_cons, h2, serialize]

/-! ### series of fixed-size elements -/

theorem decFixedItems_sound {e : Ty} (hf : e.isFixed = true) : ∀ (items : List Des) (dr dr' : DR)
    (vs : List Val), (∀ it ∈ items, DSound e it.run) →
    decFixedItems e.fixedSize items dr = .ok (vs, dr') →
    vs.length = items.length ∧ allHaveType e vs = true ∧
      (serList e vs).flatten = dr.avail.take (items.length * e.fixedSize) ∧
      items.length * e.fixedSize ≤ dr.avail.length ∧
      dr'.avail = dr.avail.drop (items.length * e.fixedSize)
  | [], dr, dr', vs, _, h => by
    unfold decFixedItems at h; cases h
    simp [allHaveType, serList]
  | it :: its, dr, dr', vs, hs, h => by
    unfold decFixedItems at h
    obtain ⟨⟨x, d1⟩, h1, h⟩ := bind_eq_ok h
    obtain ⟨⟨xs, d2⟩, h2, h⟩ := bind_eq_ok h
    obtain ⟨hx, hser, hle, hav⟩ := inSub_sound (hs it (by simp)) h1 (fun _ => rfl)
    obtain ⟨ihl, iht, ihs, ihle, ihav⟩ :=
      decFixedItems_sound hf its d1 d2 xs (fun j hj => hs j (by simp [hj])) h2
    cases h
    rw [hav] at ihs ihle ihav
    simp only [List.length_drop] at ihle
    have hmul : (its.length + 1) * e.fixedSize = e.fixedSize + its.length * e.fixedSize := by
      rw [Nat.add_mul, Nat.one_mul, Nat.add_comm]
    simp only [List.length_cons, hmul]
    refine ⟨by simp [ihl], by simp [allHaveType, hx, iht], ?_, by omega, ?_⟩
    · simp only [serList, List.flatten_cons, hser, ihs]
      rw [List.take_add]
    · rw [ihav, List.drop_drop]

/-! ### offsets -/

/-- the running offsets of a series of parts starting at `o` -/
def offsFrom : Nat → List Bytes → List Nat
  | _, [] => []
  | o, p :: ps => o :: offsFrom (o + p.length) ps

theorem offsetsOf_eq : ∀ (ps : List Bytes) (o : Nat), offsetsOf o ps = (offsFrom o ps).map (leBytes 4)
  | [], _ => rfl
  | p :: ps, o => by simp [offsetsOf, offsFrom, offsetsOf_eq ps]

theorem offsFrom_length : ∀ (ps : List Bytes) (o : Nat), (offsFrom o ps).length = ps.length
  | [], _ => rfl
  | p :: ps, o => by simp [offsFrom, offsFrom_length ps]

theorem readOffsetsN_ok : ∀ (n : Nat) (dr dr' : DR) (os : List Nat),
    readOffsetsN n dr = .ok (os, dr') →
    os.length = n ∧ (os.map (leBytes 4)).flatten = dr.avail.take (4 * n) ∧
      4 * n ≤ dr.avail.length ∧ dr'.avail = dr.avail.drop (4 * n)
  | 0, dr, dr', os, h => by
    unfold readOffsetsN at h; cases h; simp
  | n + 1, dr, dr', os, h => by
    unfold readOffsetsN at h
    obtain ⟨⟨o, d1⟩, h1, h⟩ := bind_eq_ok h
    obtain ⟨⟨os', d2⟩, h2, h⟩ := bind_eq_ok h
    obtain ⟨hl, ho, hav⟩ := readOffset_ok h1
    obtain ⟨ihl, ihf, ihle, ihav⟩ := readOffsetsN_ok n d1 d2 os' h2
    cases h
    rw [hav] at ihf ihle ihav
    simp only [List.length_drop] at ihle
    refine ⟨by simp [ihl], ?_, by omega, ?_⟩
    · simp only [List.map_cons, List.flatten_cons, ihf, ho]
      rw [← List.take_add]; congr 1; omega
    · rw [ihav, List.drop_drop]; congr 1; omega

/-- the element loop over validated offsets: elements land in order, the consumed bytes are the
    concatenated element encodings, and the offsets are the running offsets of these encodings -/
theorem decOffsetItems_sound {e : Ty} (hv : e.isFixed = false) (vec : Bool) (S : Nat) :
    ∀ (offs : List Nat) (items : List Des) (prev : Nat) (dr dr' : DR) (vs : List Val),
    (∀ it ∈ items, DSound e it.run) → offs.length = items.length →
    decOffsetItems vec S prev offs items dr = .ok (vs, dr') →
    vs.length = offs.length ∧ allHaveType e vs = true ∧ (offs = [] → dr'.avail = dr.avail) ∧
    (∀ o0 rest, offs = o0 :: rest → o0 ≤ S ∧ (serList e vs).flatten = dr.avail.take (S - o0) ∧
      S - o0 ≤ dr.avail.length ∧ dr'.avail = dr.avail.drop (S - o0) ∧
      offs = offsFrom o0 (serList e vs))
  | [], items, prev, dr, dr', vs, _, _, h => by
    unfold decOffsetItems at h; cases h
    refine ⟨rfl, rfl, fun _ => rfl, fun o0 rest hc => by cases hc⟩
  | _ :: _, [], _, _, _, _, _, hl, _ => by simp at hl
  | off :: rest, it :: its, prev, dr, dr', vs, hs, hl, h => by
    unfold decOffsetItems at h
    split at h; · cases h
    dsimp only at h
    split at h; · cases h
    rename_i hprev hnext
    obtain ⟨⟨x, d1⟩, h1, h⟩ := bind_eq_ok h
    obtain ⟨⟨xs, d2⟩, h2, h⟩ := bind_eq_ok h
    obtain ⟨hx, hser, hle, hav⟩ := inSub_sound (hs it (by simp)) h1 (fun hc => by rw [hv] at hc; cases hc)
    obtain ⟨ihl, iht, ihnil, ihcons⟩ := decOffsetItems_sound hv vec S rest its _ d1 d2 xs
      (fun j hj => hs j (by simp [hj])) (by simpa using hl) h2
    cases h
    refine ⟨by simp [ihl], by simp [allHaveType, hx, iht], (fun hc => by cases hc), ?_⟩
    intro o0 rest' hc
    cases hc
    have hplen : (serialize e x).length = rest.headD S - off := by
      rw [hser, List.length_take]; omega
    cases rest with
    | nil =>
      have hxs : xs = [] := List.length_eq_zero_iff.mp ihl
      subst hxs
      simp only [List.headD_nil] at hnext hser hle hav hplen
      have hd := ihnil rfl
      refine ⟨by omega, ?_, hle, ?_, ?_⟩
      · simp [serList, hser]
      · rw [hd, hav]
      · simp [serList, offsFrom]
    | cons o1 rest'' =>
      simp only [List.headD_cons] at hnext hser hle hav hplen
      obtain ⟨h1S, hfl, hle2, hav2, hoffs⟩ := ihcons o1 rest'' rfl
      rw [hav] at hfl hle2 hav2
      simp only [List.length_drop] at hle2
      have hsum : S - off = (o1 - off) + (S - o1) := by omega
      refine ⟨by omega, ?_, by omega, ?_, ?_⟩
      · simp only [serList, List.flatten_cons, hser, hfl]
        rw [hsum, List.take_add]
      · rw [hav2, List.drop_drop, hsum]
      · simp only [serList, offsFrom, hplen]
        rw [show off + (o1 - off) = o1 by omega, ← hoffs]

/-- offsets part followed by the element part: the whole scope is the spec layout -/
theorem varSeries_finish {e : Ty} {A : Bytes} {S k : Nat} {offs : List Nat} {vs : List Val}
    {d1 d2 : DR} (hk : 0 < k) (hlen : offs.length = k)
    (hbytes : (offs.map (leBytes 4)).flatten = A.take (4 * k)) (h4k : 4 * k ≤ A.length)
    (hd1 : d1.avail = A.drop (4 * k)) (hhead : offs.headD 0 = 4 * k)
    (hvl : vs.length = offs.length)
    (hitems : ∀ o0 rest, offs = o0 :: rest → o0 ≤ S ∧ (serList e vs).flatten = d1.avail.take (S - o0) ∧
      S - o0 ≤ d1.avail.length ∧ d2.avail = d1.avail.drop (S - o0) ∧
      offs = offsFrom o0 (serList e vs)) :
    serVarParts (serList e vs) = A.take S ∧ S ≤ A.length ∧ d2.avail = A.drop S := by
  match offs, hlen with
  | [], hlen => simp at hlen; omega
  | o0 :: rest, hlen =>
    simp only [List.headD_cons] at hhead
    obtain ⟨hS, hfl, hle, hav, hoffs⟩ := hitems o0 rest rfl
    rw [hd1] at hfl hle hav
    simp only [List.length_drop] at hle
    have hsl : (serList e vs).length = k := by
      have := offsFrom_length (serList e vs) o0
      rw [← hoffs] at this
      omega
    unfold serVarParts
    rw [hsl, offsetsOf_eq, ← hhead, ← hoffs, hbytes, hfl, ← hhead]
    refine ⟨?_, by omega, ?_⟩
    · rw [← List.take_add]; congr 1; omega
    · rw [hav, List.drop_drop]; congr 1; omega

theorem items_range_sound {e : Ty} (he : ∀ q, DSound e (flatDecode e q)) (p : Val) (n : Nat) :
    ∀ it ∈ (List.range n).map (fun i => (⟨flatFixedLength e, fun d => flatDecode e (priorElem p i) d⟩ : Des)),
      DSound e it.run := by
  intro it hit
  obtain ⟨i, _, rfl⟩ := List.mem_map.mp hit
  exact he _

theorem vector_sound {e : Ty} (hwe : e.wf = true) (he : ∀ q, DSound e (flatDecode e q)) (n : Nat)
    (hn : 1 ≤ n) (p : Val) : DSound (.vector e n) (flatDecode (.vector e n) p) := by
  intro dr v dr' h
  rw [flatDecode] at h
  split at h
  · -- byte vector
    rename_i hu8
    have := isU8_iff.mp hu8; subst this
    obtain ⟨⟨s, d⟩, h1, h⟩ := bind_eq_ok h
    cases h
    obtain ⟨hl, hb, hav⟩ := readFull_resize_ok h1
    obtain ⟨ht, hs⟩ := u8_series s.bytes
    rw [need_fixed (by rfl)]
    have hfs : (Ty.vector (.uint 1) n).fixedSize = n := by simp [Ty.fixedSize, Ty.isFixed]
    rw [hfs]
    refine ⟨?_, ?_, hl, hav⟩
    · simp only [hasType, Bool.and_eq_true, beq_iff_eq, List.length_map, ht, and_true]
      rw [hb, List.length_take]; omega
    · simp only [serialize, Ty.isFixed, if_true, hs]; exact hb
  split at h
  · -- vector of roots
    rename_i _ hroot
    have := isRootTy_iff.mp hroot; subst this
    obtain ⟨⟨s, d⟩, h1, h⟩ := bind_eq_ok h
    cases h
    obtain ⟨hl, h32, hf, hle, hav⟩ := readRoots_ok h1
    obtain ⟨ht, hs⟩ := root_series s.roots h32
    rw [need_fixed (by rfl)]
    have hfs : (Ty.vector (.bytesN 32) n).fixedSize = n * 32 := by simp [Ty.fixedSize, Ty.isFixed]
    rw [hfs]
    refine ⟨?_, ?_, hle, hav⟩
    · simp [hasType, hl, ht]
    · simp only [serialize, Ty.isFixed, if_true, hs]; exact hf
  · -- generic
    dsimp only at h
    obtain ⟨⟨vs, d⟩, h1, h⟩ := bind_eq_ok h
    cases h
    have hitems := items_range_sound he p n
    have hilen : ((List.range n).map (fun i =>
        (⟨flatFixedLength e, fun d => flatDecode e (priorElem p i) d⟩ : Des))).length = n := by simp
    generalize (List.range n).map (fun i =>
        (⟨flatFixedLength e, fun d => flatDecode e (priorElem p i) d⟩ : Des)) = items at h1 hitems hilen
    unfold decVector at h1
    cases hf : e.isFixed with
    | true =>
      have hfl := flatFixedLength_fixed hwe hf
      have hpos := fixedSize_pos hwe hf
      rw [if_pos (by omega), hfl] at h1
      obtain ⟨hl, ht, hs, hle, hav⟩ := decFixedItems_sound hf _ _ _ _ hitems h1
      rw [hilen] at hl hs hle hav
      rw [need_fixed (by simp [Ty.isFixed, hf])]
      have hfs : (Ty.vector e n).fixedSize = n * e.fixedSize := by simp [Ty.fixedSize, hf]
      rw [hfs]
      refine ⟨?_, ?_, hle, hav⟩
      · simp [hasType, hl, ht]
      · simp only [serialize, hf, if_true]; exact hs
    | false =>
      have hfl := flatFixedLength_var hwe hf
      rw [if_neg (by omega)] at h1
      dsimp only at h1
      obtain ⟨⟨offs, d1⟩, h2, h1⟩ := bind_eq_ok h1
      dsimp only at h1
      split at h1; · cases h1
      rename_i hhead
      rw [hilen] at h2 hhead
      obtain ⟨hol, hob, ho4, hoav⟩ := readOffsetsN_ok _ _ _ _ h2
      have hhead' : offs.headD 0 = 4 * n := by
        by_cases hc : offs.headD 0 = n * 4
        · omega
        · exact absurd ⟨by omega, hc⟩ hhead
      obtain ⟨hvl, ht, _, hcons⟩ := decOffsetItems_sound hf true dr.scope offs _ 0 _ _ _ hitems
        (by rw [hol, hilen]) h1
      obtain ⟨hser, hle, hav⟩ := varSeries_finish (e := e) (by omega) hol hob ho4 hoav hhead' hvl hcons
      rw [need_var (by simp [Ty.isFixed, hf])]
      refine ⟨?_, ?_, hle, hav⟩
      · simp [hasType, hvl, hol, ht]
      · simp only [serialize, hf]; exact hser

theorem mem_replicate_sound {e : Ty} {add : DR → R (Val × DR)} (ha : DSound e add) (k fl : Nat) :
    ∀ it ∈ List.replicate k (⟨fl, add⟩ : Des), DSound e it.run := by
  intro it hit
  rw [(List.mem_replicate.mp hit).2]; exact ha

theorem list_sound {e : Ty} (hwe : e.wf = true) (he : ∀ q, DSound e (flatDecode e q)) (lim : Nat)
    (p : Val) : DSound (.list e lim) (flatDecode (.list e lim) p) := by
  intro dr v dr' h
  rw [flatDecode] at h
  rw [need_var (by rfl)]
  split at h
  · -- byte list
    rename_i hu8
    have := isU8_iff.mp hu8; subst this
    obtain ⟨⟨s, d⟩, h1, h⟩ := bind_eq_ok h
    cases h
    unfold decByteList at h1
    dsimp only at h1
    split at h1; · cases h1
    rename_i hlim
    obtain ⟨hl, hb, hav⟩ := readFull_resize_ok h1
    obtain ⟨ht, hs⟩ := u8_series s.bytes
    refine ⟨?_, ?_, hl, hav⟩
    · simp only [hasType, Bool.and_eq_true, decide_eq_true_eq, List.length_map, ht, and_true]
      rw [hb, List.length_take]; omega
    · simp only [serialize, Ty.isFixed, if_true, hs]; exact hb
  split at h
  · -- list of roots
    rename_i _ hroot
    have := isRootTy_iff.mp hroot; subst this
    obtain ⟨⟨s, d⟩, h1, h⟩ := bind_eq_ok h
    cases h
    unfold readRootsLimited at h1
    dsimp only at h1
    split at h1; · cases h1
    split at h1; · cases h1
    rename_i hmod hlim
    obtain ⟨hl, h32, hf, hle, hav⟩ := readRoots_ok h1
    obtain ⟨ht, hs⟩ := root_series s.roots h32
    have hsc : dr.scope / 32 * 32 = dr.scope := by omega
    rw [hsc] at hf hle hav
    refine ⟨?_, ?_, hle, hav⟩
    · simp only [hasType, Bool.and_eq_true, decide_eq_true_eq, List.length_map, ht, and_true]
      omega
    · simp only [serialize, Ty.isFixed, if_true, hs]; exact hf
  · -- generic
    obtain ⟨⟨vs, d⟩, h1, h⟩ := bind_eq_ok h
    cases h
    unfold decList at h1
    dsimp only at h1
    split at h1
    · -- empty scope
      rename_i h0
      cases h1
      rw [h0]
      refine ⟨by simp [hasType, allHaveType], ?_, by omega, by simp⟩
      simp only [serialize, serList, List.take_zero]
      split <;> rfl
    rename_i hS
    cases hf : e.isFixed with
    | true =>
      have hfl := flatFixedLength_fixed hwe hf
      have hpos := fixedSize_pos hwe hf
      rw [if_pos (by omega), hfl] at h1
      split at h1; · cases h1
      split at h1; · cases h1
      rename_i hmod hlim
      obtain ⟨hl, ht, hs, hle, hav⟩ := decFixedItems_sound hf _ _ _ _
        (mem_replicate_sound (he Val.none) _ _) h1
      simp only [List.length_replicate] at hl hs hle hav
      have hsc : dr.scope / e.fixedSize * e.fixedSize = dr.scope := by
        have := Nat.div_add_mod dr.scope e.fixedSize
        rw [Nat.mul_comm] at this
        omega
      rw [hsc] at hs hle hav
      refine ⟨?_, ?_, hle, hav⟩
      · simp only [hasType, Bool.and_eq_true, decide_eq_true_eq, ht, and_true]
        omega
      · simp only [serialize, hf, if_true]; exact hs
    | false =>
      have hfl := flatFixedLength_var hwe hf
      rw [if_neg (by omega)] at h1
      obtain ⟨⟨first, d1⟩, h2, h1⟩ := bind_eq_ok h1
      dsimp only at h1
      split at h1; · cases h1
      split at h1; · cases h1
      split at h1; · cases h1
      rename_i hmod hrange hlim
      obtain ⟨⟨os, d2⟩, h3, h1⟩ := bind_eq_ok h1
      dsimp only at h1
      have hfirst : first ≠ 0 ∧ first ≤ dr.scope := by omega
      have hk : first / 4 - 1 + 1 = first / 4 := by omega
      have hro : readOffsetsN (first / 4) dr = .ok (first :: os, d2) := by
        rw [← hk]
        unfold readOffsetsN
        rw [h2]
        show (readOffsetsN (first / 4 - 1) d1 >>= _) = _
        rw [h3]; rfl
      obtain ⟨hol, hob, ho4, hoav⟩ := readOffsetsN_ok _ _ _ _ hro
      obtain ⟨hvl, ht, _, hcons⟩ := decOffsetItems_sound hf false dr.scope (first :: os) _ 0 _ _ _
        (mem_replicate_sound (he Val.none) _ _) (by rw [hol]; simp) h1
      obtain ⟨hser, hle, hav⟩ := varSeries_finish (e := e) (k := first / 4) (by omega) hol hob ho4 hoav
        (by simp only [List.headD_cons]; omega) hvl hcons
      refine ⟨?_, ?_, hle, hav⟩
      · simp only [hasType, Bool.and_eq_true, decide_eq_true_eq, ht, and_true]
        omega
      · simp only [serialize, hf]; exact hser

/-! ### containers -/

/-- the field deserializers are sound decoders of the field types and report their fixed length -/
def FieldsSound : List Ty → List Des → Prop
  | [], [] => True
  | t :: ts, f :: fs => f.fixedLength = flatFixedLength t ∧ DSound t f.run ∧ FieldsSound ts fs
  | _, _ => False

theorem flatFieldDes_sound : ∀ (fs : List Ty) (p : Val) (i : Nat),
    (∀ t ∈ fs, ∀ q, DSound t (flatDecode t q)) → FieldsSound fs (flatFieldDes fs p i)
  | [], p, i, _ => by rw [flatFieldDes]; trivial
  | t :: ts, p, i, h => by
    rw [flatFieldDes]
    exact ⟨rfl, h t (by simp) _, flatFieldDes_sound ts p (i + 1) (fun t' ht' => h t' (by simp [ht']))⟩

/-- `FixedLenContainer`: the fields one after the other on the same reader -/
theorem decFixedLenContainer_sound : ∀ (ts : List Ty) (fields : List Des) (dr dr' : DR)
    (vs : List Val), FieldsSound ts fields → Ty.allFixed ts = true →
    decFixedLenContainer fields dr = .ok (vs, dr') →
    fieldsHaveType ts vs = true ∧ (∀ off, serFixedPart off (serFields ts vs) = dr.avail.take (Ty.fixedPart ts)) ∧
      serVarPart (serFields ts vs) = [] ∧ Ty.fixedPart ts ≤ dr.avail.length ∧
      dr'.avail = dr.avail.drop (Ty.fixedPart ts)
  | [], [], dr, dr', vs, _, _, h => by
    unfold decFixedLenContainer at h; cases h
    simp [fieldsHaveType, serFields, serFixedPart, serVarPart, Ty.fixedPart]
  | [], _ :: _, _, _, _, hs, _, _ => by cases hs
  | _ :: _, [], _, _, _, hs, _, _ => by cases hs
  | t :: ts, f :: fs, dr, dr', vs, hs, hf, h => by
    obtain ⟨_, hst, hss⟩ := hs
    simp only [Ty.allFixed, Bool.and_eq_true] at hf
    unfold decFixedLenContainer at h
    obtain ⟨⟨x, d1⟩, h1, h⟩ := bind_eq_ok h
    obtain ⟨⟨xs, d2⟩, h2, h⟩ := bind_eq_ok h
    obtain ⟨hx, hser, hle, hav⟩ := hst _ _ _ h1
    rw [need_fixed hf.1] at hser hle hav
    obtain ⟨iht, ihs, ihv, ihle, ihav⟩ := decFixedLenContainer_sound ts fs d1 d2 xs hss hf.2 h2
    cases h
    rw [hav] at ihs ihle ihav
    simp only [List.length_drop] at ihle
    simp only [Ty.fixedPart, hf.1, if_true]
    refine ⟨by simp [fieldsHaveType, hx, iht], ?_, ?_, by omega, ?_⟩
    · intro off
      simp only [serFields, hf.1, serFixedPart, hser, ihs off]
      rw [List.take_add]
    · simp only [serFields, hf.1, serVarPart, ihv]
    · rw [ihav, List.drop_drop]

/-- the variable-size field types in order -/
def varTys : List Ty → List Ty
  | [] => []
  | t :: ts => if t.isFixed then varTys ts else t :: varTys ts

theorem varTys_var : ∀ (ts : List Ty) (t : Ty), t ∈ varTys ts → t.isFixed = false
  | [], _, h => by cases h
  | a :: as, t, h => by
    unfold varTys at h
    split at h
    · exact varTys_var as t h
    · rcases List.mem_cons.mp h with rfl | h'
      · rename_i hf; simpa using hf
      · exact varTys_var as t h'

theorem varTys_ne_nil : ∀ (ts : List Ty), Ty.allFixed ts = false → varTys ts ≠ []
  | [], h => by simp [Ty.allFixed] at h
  | t :: ts, h => by
    unfold varTys
    cases hf : t.isFixed with
    | true =>
      simp only [Ty.allFixed, hf, Bool.true_and] at h
      simpa using varTys_ne_nil ts h
    | false => simp

/-- result of the first loop, per field: a decoded fixed-size value or a pending dynamic field -/
def SlotsOK : List Ty → List (Option Val) → Prop
  | [], [] => True
  | t :: ts, some x :: ss =>
    t.isFixed = true ∧ hasType t x = true ∧ (serialize t x).length = t.fixedSize ∧ SlotsOK ts ss
  | t :: ts, Option.none :: ss => t.isFixed = false ∧ SlotsOK ts ss
  | _, _ => False

/-- the bytes the first loop consumed: fixed fields and offset words -/
def headOf : List Ty → List (Option Val) → List Nat → Bytes
  | t :: ts, some x :: ss, offs => serialize t x ++ headOf ts ss offs
  | _ :: ts, Option.none :: ss, o :: offs => leBytes 4 o ++ headOf ts ss offs
  | _, _, _ => []

theorem decContainerFixed_sound : ∀ (ts : List Ty) (fields : List Des) (dr dr' : DR)
    (slots : List (Option Val)) (offs : List Nat) (dyn : List Des),
    Ty.wfAll ts = true → FieldsSound ts fields →
    decContainerFixed fields dr = .ok (slots, offs, dyn, dr') →
    headOf ts slots offs = dr.avail.take (Ty.fixedPart ts) ∧ Ty.fixedPart ts ≤ dr.avail.length ∧
      dr'.avail = dr.avail.drop (Ty.fixedPart ts) ∧ SlotsOK ts slots ∧
      FieldsSound (varTys ts) dyn ∧ offs.length = dyn.length ∧
      containerFixedLen fields = Ty.fixedPart ts
  | [], [], dr, dr', slots, offs, dyn, _, _, h => by
    unfold decContainerFixed at h; cases h
    simp [headOf, Ty.fixedPart, SlotsOK, varTys, FieldsSound, containerFixedLen]
  | [], _ :: _, _, _, _, _, _, _, hs, _ => by cases hs
  | _ :: _, [], _, _, _, _, _, _, hs, _ => by cases hs
  | t :: ts, f :: fs, dr, dr', slots, offs, dyn, hw, hs, h => by
    obtain ⟨hfl, hst, hss⟩ := hs
    simp only [Ty.wfAll, Bool.and_eq_true] at hw
    unfold decContainerFixed at h
    cases hf : t.isFixed with
    | true =>
      have hfix := flatFixedLength_fixed hw.1 hf
      have hpos := fixedSize_pos hw.1 hf
      rw [if_pos (by rw [hfl, hfix]; omega)] at h
      obtain ⟨⟨x, d1⟩, h1, h⟩ := bind_eq_ok h
      obtain ⟨⟨slots', offs', dyn', d2⟩, h2, h⟩ := bind_eq_ok h
      obtain ⟨hx, hser, hle, hav⟩ := inSub_sound hst h1 (fun _ => by rw [hfl, hfix])
      rw [hfl, hfix] at hser hle hav
      obtain ⟨ihh, ihle, ihav, ihsl, ihdyn, ihlen, ihc⟩ :=
        decContainerFixed_sound ts fs d1 d2 slots' offs' dyn' hw.2 hss h2
      cases h
      rw [hav] at ihh ihle ihav
      simp only [List.length_drop] at ihle
      simp only [Ty.fixedPart, hf, if_true]
      refine ⟨?_, by omega, ?_, ?_, ?_, ihlen, ?_⟩
      · simp only [headOf, hser, ihh]; rw [List.take_add]
      · rw [ihav, List.drop_drop]
      · refine ⟨hf, hx, ?_, ihsl⟩
        rw [hser, List.length_take]; omega
      · unfold varTys; simp only [hf, if_true]; exact ihdyn
      · unfold containerFixedLen
        rw [if_pos (by rw [hfl, hfix]; omega), hfl, hfix, ihc]
    | false =>
      have hvar := flatFixedLength_var hw.1 hf
      rw [if_neg (by rw [hfl, hvar]; simp)] at h
      obtain ⟨⟨o, d1⟩, h1, h⟩ := bind_eq_ok h
      obtain ⟨⟨slots', offs', dyn', d2⟩, h2, h⟩ := bind_eq_ok h
      obtain ⟨hl, ho, hav⟩ := readOffset_ok h1
      obtain ⟨ihh, ihle, ihav, ihsl, ihdyn, ihlen, ihc⟩ :=
        decContainerFixed_sound ts fs d1 d2 slots' offs' dyn' hw.2 hss h2
      cases h
      rw [hav] at ihh ihle ihav
      simp only [List.length_drop] at ihle
      simp only [Ty.fixedPart, hf, Bool.false_eq_true, if_false]
      refine ⟨?_, by omega, ?_, ⟨hf, ihsl⟩, ?_, by simp [ihlen], ?_⟩
      · simp only [headOf, ho, ihh]; rw [List.take_add]
      · rw [ihav, List.drop_drop]
      · unfold varTys; simp only [hf, Bool.false_eq_true, if_false]
        exact ⟨hfl, hst, ihdyn⟩
      · unfold containerFixedLen
        rw [if_neg (by rw [hfl, hvar]; simp), ihc]

/-- the encodings of the dynamic fields -/
def partsOf : List Ty → List Val → List Bytes
  | t :: ts, v :: vs => serialize t v :: partsOf ts vs
  | _, _ => []

theorem decContainerDyn_sound (S : Nat) : ∀ (ts : List Ty) (offs : List Nat) (dyn : List Des)
    (dr dr' : DR) (vs : List Val), (∀ t ∈ ts, t.isFixed = false) → FieldsSound ts dyn →
    offs.length = dyn.length → decContainerDyn S offs dyn dr = .ok (vs, dr') →
    fieldsHaveType ts vs = true ∧ (offs = [] → dr'.avail = dr.avail) ∧
    (∀ o0 rest, offs = o0 :: rest → o0 ≤ S ∧ (partsOf ts vs).flatten = dr.avail.take (S - o0) ∧
      S - o0 ≤ dr.avail.length ∧ dr'.avail = dr.avail.drop (S - o0) ∧
      offs = offsFrom o0 (partsOf ts vs))
  | [], [], [], dr, dr', vs, _, _, _, h => by
    unfold decContainerDyn at h; cases h
    exact ⟨rfl, fun _ => rfl, fun o0 rest hc => by cases hc⟩
  | [], _ :: _, [], _, _, _, _, _, hl, _ => by simp at hl
  | [], _, _ :: _, _, _, _, _, hs, _, _ => by cases hs
  | _ :: _, _, [], _, _, _, _, hs, _, _ => by cases hs
  | _ :: _, [], _ :: _, _, _, _, _, _, hl, _ => by simp at hl
  | t :: ts, off :: rest, f :: fs, dr, dr', vs, hv, hs, hl, h => by
    obtain ⟨_, hst, hss⟩ := hs
    have hvt := hv t (by simp)
    unfold decContainerDyn at h
    dsimp only at h
    split at h; · cases h
    rename_i hnext
    obtain ⟨⟨x, d1⟩, h1, h⟩ := bind_eq_ok h
    obtain ⟨⟨xs, d2⟩, h2, h⟩ := bind_eq_ok h
    obtain ⟨hx, hser, hle, hav⟩ := inSub_sound hst h1 (fun hc => by rw [hvt] at hc; cases hc)
    obtain ⟨iht, ihnil, ihcons⟩ := decContainerDyn_sound S ts rest fs d1 d2 xs
      (fun t' ht' => hv t' (by simp [ht'])) hss (by simpa using hl) h2
    cases h
    refine ⟨by simp [fieldsHaveType, hx, iht], (fun hc => by cases hc), ?_⟩
    intro o0 rest' hc
    cases hc
    have hplen : (serialize t x).length = rest.headD S - off := by
      rw [hser, List.length_take]; omega
    cases rest with
    | nil =>
      cases fs with
      | cons _ _ => simp at hl
      | nil =>
        cases ts with
        | cons _ _ => cases hss
        | nil =>
          have hxs : xs = [] := by
            cases xs with
            | nil => rfl
            | cons _ _ => simp [fieldsHaveType] at iht
          subst hxs
          simp only [List.headD_nil] at hnext hser hle hav hplen
          have hd := ihnil rfl
          refine ⟨by omega, ?_, hle, ?_, ?_⟩
          · simp [partsOf, hser]
          · rw [hd, hav]
          · simp [partsOf, offsFrom]
    | cons o1 rest'' =>
      simp only [List.headD_cons] at hnext hser hle hav hplen
      obtain ⟨h1S, hfl, hle2, hav2, hoffs⟩ := ihcons o1 rest'' rfl
      rw [hav] at hfl hle2 hav2
      simp only [List.length_drop] at hle2
      have hsum : S - off = (o1 - off) + (S - o1) := by omega
      refine ⟨by omega, ?_, by omega, ?_, ?_⟩
      · simp only [partsOf, List.flatten_cons, hser, hfl]
        rw [hsum, List.take_add]
      · rw [hav2, List.drop_drop, hsum]
      · simp only [partsOf, offsFrom, hplen]
        rw [show off + (o1 - off) = o1 by omega, ← hoffs]

/-- putting the dynamic values into their slots gives the spec layout of the container -/
theorem merge_spec : ∀ (ts : List Ty) (slots : List (Option Val)) (dvs : List Val) (o : Nat),
    SlotsOK ts slots → fieldsHaveType (varTys ts) dvs = true →
    fieldsHaveType ts (mergeSlots slots dvs) = true ∧
    serFixedPart o (serFields ts (mergeSlots slots dvs))
      = headOf ts slots (offsFrom o (partsOf (varTys ts) dvs)) ∧
    serVarPart (serFields ts (mergeSlots slots dvs)) = (partsOf (varTys ts) dvs).flatten ∧
    fixedPartLen (serFields ts (mergeSlots slots dvs)) = Ty.fixedPart ts
  | [], [], dvs, o, _, _ => by
    simp [mergeSlots, fieldsHaveType, serFields, serFixedPart, serVarPart, headOf, varTys, partsOf,
      fixedPartLen, Ty.fixedPart]
  | [], _ :: _, _, _, hs, _ => by cases hs
  | _ :: _, [], _, _, hs, _ => by cases hs
  | t :: ts, some x :: ss, dvs, o, hs, hd => by
    obtain ⟨hf, hx, hlen, hss⟩ := hs
    have hvt : varTys (t :: ts) = varTys ts := by
      show (if t.isFixed then varTys ts else t :: varTys ts) = _
      simp [hf]
    rw [hvt] at hd ⊢
    obtain ⟨i1, i2, i3, i4⟩ := merge_spec ts ss dvs o hss hd
    refine ⟨by simp [mergeSlots, fieldsHaveType, hx, i1], ?_, ?_, ?_⟩
    · simp only [mergeSlots, serFields, hf, serFixedPart, headOf, i2]
    · simp only [mergeSlots, serFields, hf, serVarPart, i3]
    · simp only [mergeSlots, serFields, hf, fixedPartLen, if_true, i4, hlen, Ty.fixedPart]
  | t :: ts, Option.none :: ss, dvs, o, hs, hd => by
    obtain ⟨hf, hss⟩ := hs
    have hvt : varTys (t :: ts) = t :: varTys ts := by
      show (if t.isFixed then varTys ts else t :: varTys ts) = _
      simp [hf]
    rw [hvt] at hd ⊢
    match dvs, hd with
    | [], hd => simp [fieldsHaveType] at hd
    | d :: dvs', hd =>
      simp only [fieldsHaveType, Bool.and_eq_true] at hd
      obtain ⟨i1, i2, i3, i4⟩ := merge_spec ts ss dvs' (o + (serialize t d).length) hss hd.2
      refine ⟨by simp [mergeSlots, fieldsHaveType, hd.1, i1], ?_, ?_, ?_⟩
      · simp only [mergeSlots, serFields, hf, serFixedPart, partsOf, offsFrom, headOf, i2]
      · simp only [mergeSlots, serFields, hf, serVarPart, partsOf, List.flatten_cons, i3]
      · simp only [mergeSlots, serFields, hf, fixedPartLen, Bool.false_eq_true, if_false, i4, Ty.fixedPart]

theorem container_sound {fs : List Ty} (hw : Ty.wfAll fs = true)
    (hfs : ∀ t ∈ fs, ∀ q, DSound t (flatDecode t q)) (p : Val) :
    DSound (.container fs) (flatDecode (.container fs) p) := by
  intro dr v dr' h
  rw [flatDecode] at h
  have hfields := flatFieldDes_sound fs p 0 hfs
  cases hall : Ty.allFixed fs with
  | true =>
    rw [if_pos hall] at h
    obtain ⟨⟨vs, d⟩, h1, h⟩ := bind_eq_ok h
    cases h
    obtain ⟨ht, hs, hv, hle, hav⟩ := decFixedLenContainer_sound fs _ _ _ _ hfields hall h1
    rw [need_fixed (by simp [Ty.isFixed, hall])]
    simp only [Ty.fixedSize]
    refine ⟨by simp [hasType, ht], ?_, hle, hav⟩
    simp only [serialize, serContainerParts, hs, hv, List.append_nil]
  | false =>
    rw [if_neg (by simp [hall])] at h
    obtain ⟨⟨vs, d⟩, h1, h⟩ := bind_eq_ok h
    cases h
    rw [need_var (by simp [Ty.isFixed, hall])]
    unfold decContainer at h1
    dsimp only at h1
    obtain ⟨⟨slots, offs, dyn, d1⟩, h2, h1⟩ := bind_eq_ok h1
    dsimp only at h1
    obtain ⟨hhead, hFle, hd1, hslots, hdyn, hlen, hcfl⟩ :=
      decContainerFixed_sound fs _ _ _ _ _ _ hw hfields h2
    have hvne := varTys_ne_nil fs hall
    -- the dynamic part is not empty
    have hdne : dyn ≠ [] := by
      intro hc; subst hc
      cases hvt : varTys fs with
      | nil => exact hvne hvt
      | cons a as => rw [hvt] at hdyn; cases hdyn
    have hone : offs ≠ [] := by
      intro hc; subst hc
      apply hdne
      exact List.length_eq_zero_iff.mp (by simpa using hlen.symm)
    rw [if_neg (by simp [hdne, hone])] at h1
    split at h1; · cases h1
    rename_i hfirst
    obtain ⟨⟨dvs, d2⟩, h3, h1⟩ := bind_eq_ok h1
    cases h1
    obtain ⟨hdt, _, hcons⟩ := decContainerDyn_sound dr.scope (varTys fs) offs dyn d1 _ _
      (varTys_var fs) hdyn hlen h3
    match offs, hone with
    | o0 :: rest, _ =>
      simp only [List.headD_cons] at hfirst
      have ho0 : o0 = Ty.fixedPart fs := by
        rw [hcfl] at hfirst
        exact (Decidable.not_not.mp hfirst).symm
      obtain ⟨hS, hfl, hle, hav, hoffs⟩ := hcons o0 rest rfl
      obtain ⟨m1, m2, m3, m4⟩ := merge_spec fs slots dvs o0 hslots hdt
      rw [hd1] at hfl hle hav
      simp only [List.length_drop] at hle
      rw [ho0] at hS hfl hle hav
      refine ⟨by simp [hasType, m1], ?_, by omega, ?_⟩
      · simp only [serialize, serContainerParts, m4]
        rw [← ho0, m2, ← hoffs, m3, hhead, hfl, ← List.take_add]
        congr 1; omega
      · rw [hav, List.drop_drop]; congr 1; omega

/-! ### unions -/

theorem read_in_scope {dr dr' : DR} {n : Nat} {bs : Bytes} (h : dr.read n = .ok (bs, dr'))
    (hn : n ≠ 0) : dr.i + n ≤ dr.max := by
  unfold DR.read at h
  rw [if_neg hn] at h
  split at h; · cases h
  omega

theorem union_sound {hasNone : Bool} {opts : List Ty} (hw : Ty.wfAll opts = true)
    (hopts : ∀ t ∈ opts, ∀ q, DSound t (flatDecode t q)) (p : Val) :
    DSound (.union hasNone opts) (flatDecode (.union hasNone opts) p) := by
  intro dr v dr' h
  rw [flatDecode] at h
  dsimp only at h
  obtain ⟨⟨⟨sel, ov⟩, d⟩, h1, h⟩ := bind_eq_ok h
  have h1' : decUnion (unionSelect hasNone opts) dr = .ok ((sel, ov), d) := h1
  clear h1
  rw [need_var (by rfl)]
  unfold decUnion at h1'
  obtain ⟨⟨sb, d1⟩, hr, h1'⟩ := bind_eq_ok h1'
  dsimp only at h1'
  obtain ⟨dest, hsel, h1'⟩ := bind_eq_ok h1'
  obtain ⟨hl, hsb, hav, hi, hmax⟩ := read_ok hr
  have hin := read_in_scope hr (by decide)
  have hscope : dr.scope = 1 + d1.scope := by unfold DR.scope; omega
  -- the selector byte
  have hsb1 : sb = [sb.headD 0] := by
    match sb, hsb with
    | [], hsb =>
      have : (dr.avail.take 1).length = 1 := by rw [List.length_take]; omega
      rw [← hsb] at this; simp at this
    | [x], _ => rfl
    | x :: y :: r, hsb =>
      have : (dr.avail.take 1).length ≤ 1 := by rw [List.length_take]; omega
      rw [← hsb] at this; simp at this
  generalize hb : sb.headD 0 = b at hsb1 hsel h1'
  have hbyte : UInt8.ofNat b.toNat = b := UInt8.ofNat_toNat
  rcases unionSelect_cases hasNone opts b.toNat with ⟨he, _⟩ | ⟨he, hn, h0⟩ | ⟨t, ht, he⟩
  · rw [he] at hsel; cases hsel
  · rw [he] at hsel; cases hsel
    dsimp only at h1'
    split at h1'; · cases h1'
    split at h1'; · cases h1'
    rename_i _ hsc
    have hsc0 : d1.scope = 0 := Decidable.not_not.mp hsc
    have hscope1 : dr.scope = 1 := by omega
    have huo : unionOpt hasNone opts b.toNat = Option.none := by
      unfold unionOpt; rw [hn, h0]; simp
    cases h1'
    dsimp only at h
    cases h
    refine ⟨?_, ?_, by omega, ?_⟩
    · simp only [hasType, hn, h0]; rfl
    · simp only [serialize, huo, hbyte]
      rw [hscope1, ← hsb, hsb1]
    · rw [hscope1]; exact hav
  · rw [he] at hsel; cases hsel
    dsimp only at h1'
    split at h1'; · cases h1'
    rename_i hfix
    obtain ⟨⟨x, d2⟩, hrun, h1'⟩ := bind_eq_ok h1'
    have htm := unionOpt_mem ht
    have hwt := wfAll_mem opts hw t htm
    obtain ⟨hx, hser, hle, hav2⟩ := hopts t htm Val.none _ _ _ hrun
    have hneed : need t d1 = d1.scope := by
      cases hf : t.isFixed with
      | false => exact need_var hf d1
      | true =>
        rw [need_fixed hf]
        have h1 := flatFixedLength_fixed hwt hf
        have h2 := fixedSize_pos hwt hf
        by_cases hc : flatFixedLength t = d1.scope
        · omega
        · exact absurd ⟨by omega, hc⟩ hfix
    rw [hneed, hav] at hser hle hav2
    simp only [List.length_drop] at hle
    cases h1'
    dsimp only at h
    cases h
    refine ⟨?_, ?_, by omega, ?_⟩
    · simp only [hasType, ht]; exact hx
    · simp only [serialize, ht, hbyte, hser]
      rw [hscope, List.take_add, ← hsb, hsb1]; rfl
    · rw [hav2, List.drop_drop, hscope]

/-! ### the flat composition -/

/-- `flatDecode` is a sound decoder of every well-formed type, whatever the destination held -/
theorem flatDecode_sound : (t : Ty) → t.wf = true → ∀ (prior : Val), DSound t (flatDecode t prior)
  | .uint b, _, p => by
    intro dr v dr' h
    rw [flatDecode] at h
    exact decUint_sound b dr v dr' h
  | .bool, _, p => by
    intro dr v dr' h
    rw [flatDecode] at h
    exact decBool_sound dr v dr' h
  | .bytesN n, _, p => bytesN_sound n p
  | .bitvector n, _, p => bitvector_sound n p
  | .bitlist n, _, p => bitlist_sound n p
  | .vector e n, hw, p => by
    simp only [Ty.wf, Bool.and_eq_true, decide_eq_true_eq] at hw
    exact vector_sound hw.2 (flatDecode_sound e hw.2) n hw.1 p
  | .list e lim, hw, p => by
    simp only [Ty.wf] at hw
    exact list_sound hw (flatDecode_sound e hw) lim p
  | .container fs, hw, p => by
    simp only [Ty.wf, Bool.and_eq_true] at hw
    exact container_sound hw.2 (fun t ht => flatDecode_sound t (wfAll_mem fs hw.2 t ht)) p
  | .union hasNone opts, hw, p => by
    simp only [Ty.wf, Bool.and_eq_true] at hw
    exact union_sound hw.1.2 (fun t ht => flatDecode_sound t (wfAll_mem opts hw.1.2 t ht)) p
termination_by t => sizeOf t
decreasing_by
  all_goals simp_wf
  · omega
  · omega
  · have := List.sizeOf_lt_of_mem ht; omega
  · have := List.sizeOf_lt_of_mem ht; omega

theorem new_scope (bs : Bytes) : (DR.new bs bs.length).scope = bs.length := by
  simp [DR.new, DR.scope]

theorem new_avail (bs : Bytes) : (DR.new bs bs.length).avail = bs := by
  simp [DR.new]

/-- top level, variable-size type: the whole input is the encoding of the returned value -/
theorem flatDecode_top_sound (t : Ty) (hw : t.wf = true) (hv : t.isFixed = false) (prior : Val)
    (bs : Bytes) (v : Val) (dr' : DR)
    (h : flatDecode t prior (DR.new bs bs.length) = .ok (v, dr')) :
    hasType t v = true ∧ serialize t v = bs := by
  obtain ⟨hx, hser, _, _⟩ := flatDecode_sound t hw prior _ _ _ h
  rw [need_var hv, new_scope, new_avail, List.take_length] at hser
  exact ⟨hx, hser⟩

/-- top level, fixed-size type: the decoder is a plain read of the type's size (the caller
    decides the scope; it is not checked) -/
theorem flatDecode_top_sound_fixed (t : Ty) (hw : t.wf = true) (hf : t.isFixed = true) (prior : Val)
    (bs : Bytes) (v : Val) (dr' : DR)
    (h : flatDecode t prior (DR.new bs bs.length) = .ok (v, dr')) :
    hasType t v = true ∧ serialize t v = bs.take t.fixedSize ∧ t.fixedSize ≤ bs.length := by
  obtain ⟨hx, hser, hle, _⟩ := flatDecode_sound t hw prior _ _ _ h
  rw [need_fixed hf, new_avail] at hser hle
  exact ⟨hx, hser, hle⟩

end ZtypV.FlatProofs
