/-
Shape of the backing built by `View.construct`, per type constructor (inversion lemmas).
-/
import ZtypV.Proofs.ViewSerMain
namespace ZtypV.View

theorem construct_bitvector_shape {h : HashFn} {k : Nat} {bs : List Bool} {n : Node}
    (hlen : bs.length = k) (hc : construct h (.bitvector k) (.bits bs) = .ok n) :
    fillToContents h (bitDepth k) (bytesIntoNodes (packBits bs)) = .ok n := by
  simp only [construct, bitsToBytes] at hc
  rw [if_neg (by omega)] at hc
  exact orNil_ok hc

theorem construct_bitlist_shape {h : HashFn} {lim : Nat} {bs : List Bool} {n : Node}
    (hlen : bs.length ≤ lim) (hc : construct h (.bitlist lim) (.bits bs) = .ok n) :
    ∃ c, n = .pair c (lengthNode bs.length) ∧
      fillToContents h (bitDepth lim) (bytesIntoNodes (packBits bs)) = .ok c := by
  simp only [construct, bitsToBytes] at hc
  rw [if_neg (by omega)] at hc
  cases hf : fillToContents h (bitDepth lim) (bytesIntoNodes (packBits bs)) with
  | error e => simp [hf, orNil] at hc
  | ok c =>
    simp only [hf, orNil, R.bind_ok] at hc
    cases hc
    exact ⟨c, rfl, rfl⟩

theorem construct_vector_basic_shape {h : HashFn} {b k : Nat} {vs : List Val} {n : Node}
    (hlen : vs.length = k) (hc : construct h (.vector (.uint b) k) (.seq vs) = .ok n) :
    fillToContents h (seriesDepth (.uint b) k) (bytesIntoNodes (serList (.uint b) vs).flatten) = .ok n := by
  simp only [construct, isBasicElem, if_true] at hc
  rw [if_neg (by omega)] at hc
  exact orNil_ok hc

theorem construct_vector_complex_shape {h : HashFn} {e : Ty} {k : Nat} {vs : List Val} {n : Node}
    (hb : isBasicElem e = false) (hlen : vs.length = k)
    (hc : construct h (.vector e k) (.seq vs) = .ok n) :
    ∃ ns, constructList h e vs = .ok ns ∧ fillToContents h (coverDepth k) ns = .ok n := by
  simp only [construct, hb, Bool.false_eq_true, if_false] at hc
  rw [if_neg (by omega)] at hc
  cases hcl : constructList h e vs with
  | error err => simp [hcl] at hc
  | ok ns =>
    simp only [hcl, R.bind_ok] at hc
    exact ⟨ns, rfl, orNil_ok hc⟩

theorem construct_list_basic_shape {h : HashFn} {b lim : Nat} {vs : List Val} {n : Node}
    (hlen : vs.length ≤ lim) (hc : construct h (.list (.uint b) lim) (.seq vs) = .ok n) :
    ∃ c, n = .pair c (lengthNode vs.length) ∧
      fillToContents h (seriesDepth (.uint b) lim)
        (bytesIntoNodes (serList (.uint b) vs).flatten) = .ok c := by
  simp only [construct] at hc
  rw [if_neg (by omega)] at hc
  simp only [isBasicElem, if_true] at hc
  cases hf : fillToContents h (seriesDepth (.uint b) lim)
      (bytesIntoNodes (serList (.uint b) vs).flatten) with
  | error err => simp [hf, orNil] at hc
  | ok c =>
    simp only [hf, orNil, R.bind_ok] at hc
    cases hc
    exact ⟨c, rfl, rfl⟩

theorem construct_list_complex_shape {h : HashFn} {e : Ty} {lim : Nat} {vs : List Val} {n : Node}
    (hb : isBasicElem e = false) (hlen : vs.length ≤ lim)
    (hc : construct h (.list e lim) (.seq vs) = .ok n) :
    ∃ c ns, n = .pair c (lengthNode vs.length) ∧ constructList h e vs = .ok ns ∧
      fillToContents h (coverDepth lim) ns = .ok c := by
  simp only [construct] at hc
  rw [if_neg (by omega)] at hc
  simp only [hb, Bool.false_eq_true, if_false] at hc
  cases hcl : constructList h e vs with
  | error err => simp [hcl] at hc
  | ok ns =>
    simp only [hcl, R.bind_ok] at hc
    cases hf : fillToContents h (coverDepth lim) ns with
    | error err => simp [hf, orNil] at hc
    | ok c =>
      simp only [hf, orNil, R.bind_ok] at hc
      cases hc
      exact ⟨c, ns, rfl, rfl, hf⟩

/-- every list view is `pair contents lengthNode` -/
theorem construct_list_pair {h : HashFn} {e : Ty} {lim : Nat} {vs : List Val} {n : Node}
    (hlen : vs.length ≤ lim) (hc : construct h (.list e lim) (.seq vs) = .ok n) :
    ∃ c, n = .pair c (lengthNode vs.length) := by
  cases hb : isBasicElem e
  · obtain ⟨c, ns, hn, _, _⟩ := construct_list_complex_shape hb hlen hc
    exact ⟨c, hn⟩
  · obtain ⟨b, rfl⟩ := isBasicElem_uint hb
    obtain ⟨c, hn, _⟩ := construct_list_basic_shape hlen hc
    exact ⟨c, hn⟩

theorem construct_container_shape {h : HashFn} {fs : List Ty} {vs : List Val} {n : Node}
    (hlen : fs.length = vs.length) (hc : construct h (.container fs) (.seq vs) = .ok n) :
    ∃ ns, constructFields h fs vs = .ok ns ∧ fillToContents h (coverDepth fs.length) ns = .ok n := by
  simp only [construct] at hc
  rw [if_neg (by omega)] at hc
  cases hcl : constructFields h fs vs with
  | error err => simp [hcl] at hc
  | ok ns =>
    simp only [hcl, R.bind_ok] at hc
    cases hf : fillToContents h (coverDepth fs.length) ns with
    | error err => simp [hf] at hc
    | ok m =>
      simp only [hf] at hc
      cases hc
      exact ⟨ns, rfl, hf⟩

theorem construct_union_none_shape {h : HashFn} {hasNone : Bool} {opts : List Ty} {sel : Nat}
    {n : Node} (hc : construct h (.union hasNone opts) (.union sel .none) = .ok n) :
    n = .pair (.leaf z0) (.leaf (chunkOf [UInt8.ofNat sel])) := by
  simp only [construct] at hc
  cases hc; rfl

theorem construct_union_some_shape {h : HashFn} {hasNone : Bool} {opts : List Ty} {sel : Nat}
    {v : Val} {t : Ty} {n : Node} (ho : unionOpt hasNone opts sel = some t) (hvn : v ≠ .none)
    (hc : construct h (.union hasNone opts) (.union sel v) = .ok n) :
    ∃ c, construct h t v = .ok c ∧ n = .pair c (.leaf (chunkOf [UInt8.ofNat sel])) := by
  have hc' : (do let c ← construct h t v
                 (Except.ok (.pair c (.leaf (chunkOf [UInt8.ofNat sel]))) : R Node)) = .ok n := by
    cases v <;> first | exact absurd rfl hvn | (simp only [construct, ho] at hc; exact hc)
  cases hcv : construct h t v with
  | error err => simp [hcv] at hc'
  | ok c =>
    simp only [hcv, R.bind_ok] at hc'
    cases hc'
    exact ⟨c, rfl, rfl⟩

end ZtypV.View
