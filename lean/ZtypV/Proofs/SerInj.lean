/-
`serialize` is injective on typed values of a well-formed type, provided the encoding is shorter
than 2^32 bytes (offsets are `uint32` and wrap; without the bound two different splits of the
same payload can produce the same bytes).  Spec-level only (no model involved).  Core Lean only.
-/
import ZtypV.Proofs.SerSize
namespace ZtypV

/-! ### little-endian numbers -/

theorem leBytes_inj (k a b : Nat) (ha : a < 256 ^ k) (hb : b < 256 ^ k)
    (h : leBytes k a = leBytes k b) : a = b := by
  have := congrArg leNat h
  rwa [leNat_leBytes, leNat_leBytes, Nat.mod_eq_of_lt ha, Nat.mod_eq_of_lt hb] at this

theorem leBytes4_inj (a b : Nat) (ha : a < 2 ^ 32) (hb : b < 2 ^ 32)
    (h : leBytes 4 a = leBytes 4 b) : a = b :=
  leBytes_inj 4 a b (by have : (256 : Nat) ^ 4 = 2 ^ 32 := by decide
                        omega)
    (by have : (256 : Nat) ^ 4 = 2 ^ 32 := by decide
        omega) h

/-- equal-length prefixes of equal concatenations -/
theorem append_inj_len {α : Type} {a b c d : List α} (h : a ++ b = c ++ d) (hl : a.length = c.length) :
    a = c ∧ b = d := List.append_inj h hl

/-! ### bits -/

theorem packBits_bit (bits : List Bool) (i : Nat) :
    (((packBits bits).getD (i / 8) 0).toNat / 2 ^ (i % 8) % 2 == 1) = bits.getD i false := by
  rw [packBits_getD, byteOfBits_bit _ _ (by simp; omega)]
  rw [List.getD_eq_getElem?_getD, List.getElem?_take, if_pos (Nat.mod_lt _ (by omega)),
    List.getElem?_drop, ← List.getD_eq_getElem?_getD]
  congr 1; omega

theorem getD_eq_of_packBits_eq {a b : List Bool} (h : packBits a = packBits b) (i : Nat) :
    a.getD i false = b.getD i false := by
  rw [← packBits_bit a i, ← packBits_bit b i, h]

theorem packBits_inj_len {a b : List Bool} (hl : a.length = b.length) (h : packBits a = packBits b) :
    a = b := by
  apply List.ext_getElem hl
  intro i h1 h2
  have := getD_eq_of_packBits_eq h i
  rwa [List.getD_eq_getElem?_getD, List.getD_eq_getElem?_getD, List.getElem?_eq_getElem h1,
    List.getElem?_eq_getElem h2] at this

theorem getD_snoc_true_len (a : List Bool) : (a ++ [true]).getD a.length false = true := by
  simp [List.getD_eq_getElem?_getD]

theorem getD_snoc_true_beyond (a : List Bool) (i : Nat) (hi : a.length < i) :
    (a ++ [true]).getD i false = false := by
  rw [List.getD_eq_getElem?_getD, List.getElem?_eq_none (by simp; omega)]; rfl

/-- the delimiter bit makes the bitlist encoding injective without knowing the length -/
theorem packBits_delim_inj {a b : List Bool} (h : packBits (a ++ [true]) = packBits (b ++ [true])) :
    a = b := by
  have hbit := getD_eq_of_packBits_eq h
  have hlen : a.length = b.length := by
    rcases Nat.lt_trichotomy a.length b.length with hlt | heq | hgt
    · have := hbit b.length
      rw [getD_snoc_true_len, getD_snoc_true_beyond a _ hlt] at this
      cases this
    · exact heq
    · have := hbit a.length
      rw [getD_snoc_true_len, getD_snoc_true_beyond b _ hgt] at this
      cases this
  have := packBits_inj_len (by simp [hlen]) h
  exact List.append_cancel_right this

/-! ### uniform pieces -/

theorem flatten_uniform_inj {α : Type} (s : Nat) (ls ms : List (List α)) (hl : ls.length = ms.length)
    (h1 : ∀ l ∈ ls, l.length = s) (h2 : ∀ l ∈ ms, l.length = s) (h : ls.flatten = ms.flatten) :
    ls = ms := by
  apply List.ext_getElem hl
  intro i hi1 hi2
  rw [← flatten_uniform_drop_take s ls i hi1 h1, ← flatten_uniform_drop_take s ms i hi2 h2, h]

/-! ### offsets of a series -/

theorem offsetsOf_length : ∀ (ps : List Bytes) (s : Nat), (offsetsOf s ps).length = ps.length := by
  intro ps
  induction ps with
  | nil => intro s; rfl
  | cons p ps ih => intro s; simp [offsetsOf, ih]

/-- equal offset tables + equal payloads (bounded) ⇒ equal parts -/
theorem parts_of_offsets : ∀ (ps qs : List Bytes) (start : Nat), ps.length = qs.length →
    (offsetsOf start ps).flatten = (offsetsOf start qs).flatten →
    ps.flatten = qs.flatten → start + ps.flatten.length < 2 ^ 32 → ps = qs := by
  intro ps
  induction ps with
  | nil =>
    intro qs start hl _ _ _
    cases qs with
    | nil => rfl
    | cons _ _ => simp at hl
  | cons p ps ih =>
    intro qs start hl hoff hpay hlt
    cases qs with
    | nil => simp at hl
    | cons q qs =>
      have hl' : ps.length = qs.length := by simpa using hl
      simp only [offsetsOf, List.flatten_cons] at hoff hpay
      have hrest := (append_inj_len hoff rfl).2
      have hpq : p.length = q.length := by
        cases ps with
        | nil =>
          cases qs with
          | nil =>
            simp only [List.flatten_nil, List.append_nil] at hpay
            rw [hpay]
          | cons _ _ => simp at hl'
        | cons p2 ps2 =>
          cases qs with
          | nil => simp at hl'
          | cons q2 qs2 =>
            simp only [offsetsOf, List.flatten_cons] at hrest
            have h4 := (append_inj_len hrest (by simp)).1
            have hlen2 := congrArg List.length hpay
            simp only [List.length_append, List.flatten_cons] at hlen2 hlt
            have := leBytes4_inj _ _ (by omega) (by omega) h4
            omega
      obtain ⟨hp, hfl⟩ := append_inj_len hpay hpq
      subst hp
      rw [List.flatten_cons, List.length_append] at hlt
      rw [ih qs (start + p.length) hl' hrest hfl (by omega)]

theorem serVarParts_inj (ps qs : List Bytes) (hlt : (serVarParts ps).length < 2 ^ 32)
    (h : serVarParts ps = serVarParts qs) : ps = qs := by
  have hlen := congrArg List.length h
  rw [serVarParts_length, serVarParts_length] at hlen
  rw [serVarParts_length] at hlt
  -- the number of parts
  have hcount : ps.length = qs.length := by
    cases ps with
    | nil =>
      cases qs with
      | nil => rfl
      | cons q qs => simp at hlen; omega
    | cons p ps =>
      cases qs with
      | nil => simp at hlen
      | cons q qs =>
        simp only [serVarParts, offsetsOf, List.flatten_cons, List.append_assoc] at h
        have h4 := (append_inj_len h (by simp)).1
        have := leBytes4_inj _ _ (by simp at hlt ⊢; omega) (by simp at hlt hlen ⊢; omega) h4
        omega
  unfold serVarParts at h
  rw [hcount] at h
  obtain ⟨hoff, hpay⟩ := append_inj_len h (by
    rw [offsetsOf_flatten_length, offsetsOf_flatten_length, hcount])
  exact parts_of_offsets ps qs _ hcount hoff hpay (by omega)

/-! ### container layout -/

/-- two part lists with the same fixed/variable flags and equal lengths at fixed positions -/
def PartsCompat : List (Bool × Bytes) → List (Bool × Bytes) → Prop
  | [], [] => True
  | (f, p) :: P, (g, q) :: Q => f = g ∧ (f = true → p.length = q.length) ∧ PartsCompat P Q
  | _, _ => False

def hasVar (P : List (Bool × Bytes)) : Bool := P.any (fun x => !x.1)

theorem hasVar_compat : ∀ (P Q : List (Bool × Bytes)), PartsCompat P Q → hasVar P = hasVar Q := by
  intro P
  induction P with
  | nil => intro Q h; cases Q with
    | nil => rfl
    | cons _ _ => exact absurd h (by simp [PartsCompat])
  | cons x P ih =>
    intro Q h
    cases Q with
    | nil => obtain ⟨f, p⟩ := x; exact absurd h (by simp [PartsCompat])
    | cons y Q =>
      obtain ⟨f, p⟩ := x; obtain ⟨g, q⟩ := y
      simp only [PartsCompat] at h
      simp only [hasVar, List.any_cons] at ih ⊢
      rw [ih Q h.2.2, h.1]

theorem serVarPart_noVar : ∀ (P : List (Bool × Bytes)), hasVar P = false → serVarPart P = [] := by
  intro P
  induction P with
  | nil => intro _; rfl
  | cons x P ih =>
    intro h
    obtain ⟨f, p⟩ := x
    simp only [hasVar, List.any_cons, Bool.or_eq_false_iff] at h
    cases f
    · simp at h
    · simp only [serVarPart]; exact ih h.2

theorem fixedPartLen_compat : ∀ (P Q : List (Bool × Bytes)), PartsCompat P Q →
    fixedPartLen P = fixedPartLen Q := by
  intro P
  induction P with
  | nil => intro Q h; cases Q with
    | nil => rfl
    | cons _ _ => exact absurd h (by simp [PartsCompat])
  | cons x P ih =>
    intro Q h
    cases Q with
    | nil => obtain ⟨f, p⟩ := x; exact absurd h (by simp [PartsCompat])
    | cons y Q =>
      obtain ⟨f, p⟩ := x; obtain ⟨g, q⟩ := y
      simp only [PartsCompat] at h
      obtain ⟨rfl, hlen, hrest⟩ := h
      simp only [fixedPartLen, ih Q hrest]
      cases f
      · rfl
      · simp [hlen rfl]

/-- the first offset written determines the starting offset -/
theorem first_offset_eq : ∀ (P Q : List (Bool × Bytes)) (off off' : Nat), PartsCompat P Q →
    serFixedPart off P = serFixedPart off' Q → off < 2 ^ 32 → off' < 2 ^ 32 → hasVar P = true →
    off = off' := by
  intro P
  induction P with
  | nil => intro Q off off' _ _ _ _ hv; simp [hasVar] at hv
  | cons x P ih =>
    intro Q off off' hc heq h1 h2 hv
    cases Q with
    | nil => obtain ⟨f, p⟩ := x; exact absurd hc (by simp [PartsCompat])
    | cons y Q =>
      obtain ⟨f, p⟩ := x; obtain ⟨g, q⟩ := y
      simp only [PartsCompat] at hc
      obtain ⟨rfl, hlen, hrest⟩ := hc
      cases f
      · simp only [serFixedPart] at heq
        exact leBytes4_inj _ _ h1 h2 (append_inj_len heq (by simp)).1
      · simp only [serFixedPart] at heq
        have := (append_inj_len heq (hlen rfl)).2
        simp only [hasVar, List.any_cons, Bool.not_true, Bool.false_or] at hv
        exact ih Q off off' hrest this h1 h2 hv

theorem parts_inj : ∀ (P Q : List (Bool × Bytes)) (off : Nat), PartsCompat P Q →
    serFixedPart off P = serFixedPart off Q → serVarPart P = serVarPart Q →
    off + (serVarPart P).length < 2 ^ 32 → P = Q := by
  intro P
  induction P with
  | nil => intro Q off h _ _ _; cases Q with
    | nil => rfl
    | cons _ _ => exact absurd h (by simp [PartsCompat])
  | cons x P ih =>
    intro Q off hc hfix hvar hlt
    cases Q with
    | nil => obtain ⟨f, p⟩ := x; exact absurd hc (by simp [PartsCompat])
    | cons y Q =>
      obtain ⟨f, p⟩ := x; obtain ⟨g, q⟩ := y
      simp only [PartsCompat] at hc
      obtain ⟨rfl, hlen, hrest⟩ := hc
      cases f
      · simp only [serFixedPart] at hfix
        simp only [serVarPart] at hvar hlt
        have htail := (append_inj_len hfix (by simp)).2
        have hvl := congrArg List.length hvar
        simp only [List.length_append] at hvl hlt
        have hpq : p = q := by
          cases hv : hasVar P
          · have hvQ : hasVar Q = false := by rw [← hasVar_compat P Q hrest]; exact hv
            rw [serVarPart_noVar P hv, serVarPart_noVar Q hvQ] at hvar
            simpa using hvar
          · have := first_offset_eq P Q _ _ hrest htail (by omega) (by omega) hv
            exact (append_inj_len hvar (by omega)).1
        subst hpq
        have hvar' := (append_inj_len hvar rfl).2
        rw [ih Q (off + p.length) hrest htail hvar' (by omega)]
      · simp only [serFixedPart] at hfix
        simp only [serVarPart] at hvar hlt
        obtain ⟨hp, htail⟩ := append_inj_len hfix (hlen rfl)
        subst hp
        rw [ih Q off hrest htail hvar hlt]

theorem serContainerParts_inj (P Q : List (Bool × Bytes)) (hc : PartsCompat P Q)
    (hlt : (serContainerParts P).length < 2 ^ 32) (h : serContainerParts P = serContainerParts Q) :
    P = Q := by
  rw [serContainerParts_length] at hlt
  unfold serContainerParts at h
  rw [← fixedPartLen_compat P Q hc] at h
  obtain ⟨hfix, hvar⟩ := append_inj_len h (by rw [serFixedPart_length, serFixedPart_length,
    fixedPartLen_compat P Q hc])
  exact parts_inj P Q _ hc hfix hvar hlt

/-! ### fixed sizes are positive -/

theorem fixedSize_pos : ∀ (t : Ty), t.wf = true → t.isFixed = true → 0 < t.fixedSize := by
  intro t
  induction t using Ty.induct with
  | uint b =>
    intro hw _
    simp [Ty.wf] at hw
    simp only [Ty.fixedSize]; omega
  | bool => intro _ _; simp [Ty.fixedSize]
  | bytesN n =>
    intro hw _
    simp only [Ty.wf, Bool.and_eq_true, decide_eq_true_eq] at hw
    simp only [Ty.fixedSize]; omega
  | bitvector n =>
    intro hw _
    simp only [Ty.wf, decide_eq_true_eq] at hw
    simp only [Ty.fixedSize]; omega
  | bitlist n => intro _ hf; simp [Ty.isFixed] at hf
  | vector e n ih =>
    intro hw hf
    simp only [Ty.wf, Bool.and_eq_true, decide_eq_true_eq] at hw
    simp only [Ty.isFixed] at hf
    simp only [Ty.fixedSize, hf, if_true]
    exact Nat.mul_pos (by omega) (ih hw.2 hf)
  | list e n ih => intro _ hf; simp [Ty.isFixed] at hf
  | container fs ih =>
    intro hw hf
    simp only [Ty.wf, Bool.and_eq_true] at hw
    simp only [Ty.isFixed] at hf
    cases fs with
    | nil => simp at hw
    | cons t ts =>
      simp only [Ty.wfAll, Bool.and_eq_true] at hw
      simp only [Ty.allFixed, Bool.and_eq_true] at hf
      have := ih t List.mem_cons_self hw.2.1 hf.1
      simp only [Ty.fixedSize, Ty.fixedPart, hf.1, if_true]
      omega
  | union hn opts ih => intro _ hf; simp [Ty.isFixed] at hf

/-! ### the main induction -/

def SerInj (v : Val) : Prop :=
  ∀ (t : Ty) (w : Val), t.wf = true → hasType t v = true → hasType t w = true →
    (serialize t v).length < 2 ^ 32 → serialize t v = serialize t w → v = w

theorem list_of_parts (e : Ty) : ∀ (vs ws : List Val), (∀ v ∈ vs, SerInj v) → e.wf = true →
    allHaveType e vs = true → allHaveType e ws = true →
    (∀ l ∈ serList e vs, l.length < 2 ^ 32) → serList e vs = serList e ws → vs = ws := by
  intro vs
  induction vs with
  | nil =>
    intro ws _ _ _ _ _ h
    cases ws with
    | nil => rfl
    | cons _ _ => simp [serList] at h
  | cons v vs ih =>
    intro ws hall hw hv hws hsz h
    cases ws with
    | nil => simp [serList] at h
    | cons w ws =>
      simp only [serList, List.cons.injEq] at h
      simp only [allHaveType, Bool.and_eq_true] at hv hws
      have h1 := hall v List.mem_cons_self e w hw hv.1 hws.1
        (hsz _ (by simp [serList])) h.1
      have h2 := ih ws (fun x hx => hall x (List.mem_cons_of_mem _ hx)) hw hv.2 hws.2
        (fun l hl => hsz l (by simp [serList, hl])) h.2
      rw [h1, h2]

theorem fields_of_parts : ∀ (fs : List Ty) (vs ws : List Val), (∀ v ∈ vs, SerInj v) →
    Ty.wfAll fs = true → fieldsHaveType fs vs = true → fieldsHaveType fs ws = true →
    (∀ x ∈ serFields fs vs, x.2.length < 2 ^ 32) → serFields fs vs = serFields fs ws → vs = ws := by
  intro fs
  induction fs with
  | nil =>
    intro vs ws _ _ hv hws _ _
    cases vs <;> cases ws <;> simp [fieldsHaveType] at hv hws ⊢
  | cons t ts ih =>
    intro vs ws hall hw hv hws hsz h
    cases vs with
    | nil => simp [fieldsHaveType] at hv
    | cons v vs =>
      cases ws with
      | nil => simp [fieldsHaveType] at hws
      | cons w ws =>
        simp only [serFields, List.cons.injEq, Prod.mk.injEq, true_and] at h
        simp only [fieldsHaveType, Bool.and_eq_true] at hv hws
        simp only [Ty.wfAll, Bool.and_eq_true] at hw
        have h1 := hall v List.mem_cons_self t w hw.1 hv.1 hws.1
          (hsz (t.isFixed, serialize t v) (by simp [serFields])) h.1
        have h2 := ih vs ws (fun x hx => hall x (List.mem_cons_of_mem _ hx)) hw.2 hv.2 hws.2
          (fun x hx => hsz x (by simp [serFields, hx])) h.2
        rw [h1, h2]

theorem fields_compat : ∀ (fs : List Ty) (vs ws : List Val), fieldsHaveType fs vs = true →
    fieldsHaveType fs ws = true → PartsCompat (serFields fs vs) (serFields fs ws) := by
  intro fs
  induction fs with
  | nil =>
    intro vs ws hv hws
    cases vs <;> cases ws <;> simp [fieldsHaveType] at hv hws
    simp [serFields, PartsCompat]
  | cons t ts ih =>
    intro vs ws hv hws
    cases vs with
    | nil => simp [fieldsHaveType] at hv
    | cons v vs =>
      cases ws with
      | nil => simp [fieldsHaveType] at hws
      | cons w ws =>
        simp only [fieldsHaveType, Bool.and_eq_true] at hv hws
        simp only [serFields, PartsCompat]
        refine ⟨trivial, ?_, ih vs ws hv.2 hws.2⟩
        intro hfx
        rw [serialize_fixed_length v t hfx hv.1, serialize_fixed_length w t hfx hws.1]

theorem inj_fixed_series_length (e : Ty) (vs : List Val) (hfx : e.isFixed = true)
    (hall : allHaveType e vs = true) :
    (∀ l ∈ serList e vs, l.length = e.fixedSize) ∧
      (serList e vs).flatten.length = vs.length * e.fixedSize := by
  have h1 : ∀ l ∈ serList e vs, l.length = e.fixedSize := by
    intro l hl
    obtain ⟨w, hw, rfl⟩ := mem_serList _ vs l hl
    exact serialize_fixed_length w e hfx (allHaveType_mem _ vs hall w hw)
  exact ⟨h1, by rw [flatten_uniform_length e.fixedSize _ h1, serList_length]⟩

/-- series (vector or list) of element type `e` -/
theorem series_inj (e : Ty) (vs ws : List Val) (ih : ∀ v ∈ vs, SerInj v) (hw : e.wf = true)
    (hv : allHaveType e vs = true) (hws : allHaveType e ws = true)
    (hcount : e.isFixed = true → vs.length = ws.length)
    (hlt : (if e.isFixed then (serList e vs).flatten else serVarParts (serList e vs)).length < 2 ^ 32)
    (h : (if e.isFixed then (serList e vs).flatten else serVarParts (serList e vs))
      = (if e.isFixed then (serList e ws).flatten else serVarParts (serList e ws))) :
    vs = ws := by
  have hparts : serList e vs = serList e ws ∧ (serList e vs).flatten.length < 2 ^ 32 := by
    cases hfx : e.isFixed
    · simp only [hfx, Bool.false_eq_true, if_false] at hlt h
      refine ⟨serVarParts_inj _ _ hlt h, ?_⟩
      rw [serVarParts_length] at hlt; omega
    · simp only [hfx, if_true] at hlt h
      obtain ⟨h1, _⟩ := inj_fixed_series_length e vs hfx hv
      obtain ⟨h2, _⟩ := inj_fixed_series_length e ws hfx hws
      exact ⟨flatten_uniform_inj e.fixedSize _ _ (by simp [hcount hfx]) h1 h2 h, hlt⟩
  refine list_of_parts e vs ws ih hw hv hws ?_ hparts.1
  intro l hl
  have := mem_le_flatten_length _ l hl
  omega

/-- `serialize` is injective on typed values (encodings shorter than 2^32 bytes) -/
theorem serInj_all : ∀ v, SerInj v := by
  intro v
  induction v using Val.induct with
  | num n =>
    intro t w hw hv hws hlt h
    cases t <;> simp [hasType] at hv
    cases w <;> simp [hasType] at hws
    simp only [serialize] at h
    rw [leBytes_inj _ _ _ hv hws h]
  | bool b =>
    intro t w hw hv hws hlt h
    cases t <;> simp [hasType] at hv
    cases w <;> simp [hasType] at hws
    rename_i b'
    simp only [serialize] at h
    cases b <;> cases b' <;> simp at h ⊢
  | bytes bs =>
    intro t w hw hv hws hlt h
    cases t <;> simp [hasType] at hv
    cases w <;> simp [hasType] at hws
    simp only [serialize] at h
    rw [h]
  | bits bs =>
    intro t w hw hv hws hlt h
    cases t <;> try (simp [hasType] at hv; done)
    · cases w <;> try (simp [hasType] at hws; done)
      simp only [hasType, beq_iff_eq] at hv hws
      simp only [serialize] at h
      rw [packBits_inj_len (by omega) h]
    · cases w <;> try (simp [hasType] at hws; done)
      simp only [serialize] at h
      rw [packBits_delim_inj h]
  | seq vs ih =>
    intro t w hw hv hws hlt h
    cases t <;> try (simp [hasType] at hv; done)
    · rename_i e k
      cases w <;> try (simp [hasType] at hws; done)
      rename_i ws
      simp only [hasType, Bool.and_eq_true, beq_iff_eq] at hv hws
      simp only [Ty.wf, Bool.and_eq_true, decide_eq_true_eq] at hw
      simp only [serialize] at h hlt
      rw [series_inj e vs ws ih hw.2 hv.2 hws.2 (fun _ => by omega) hlt h]
    · rename_i e lim
      cases w <;> try (simp [hasType] at hws; done)
      rename_i ws
      simp only [hasType, Bool.and_eq_true, decide_eq_true_eq] at hv hws
      simp only [Ty.wf] at hw
      simp only [serialize] at h hlt
      refine congrArg Val.seq (series_inj e vs ws ih hw hv.2 hws.2 ?_ hlt h)
      intro hfx
      simp only [hfx, if_true] at h
      have hl := congrArg List.length h
      rw [(inj_fixed_series_length e vs hfx hv.2).2, (inj_fixed_series_length e ws hfx hws.2).2] at hl
      exact Nat.eq_of_mul_eq_mul_right (fixedSize_pos e hw hfx) hl
    · rename_i fs
      cases w <;> try (simp [hasType] at hws; done)
      rename_i ws
      simp only [hasType] at hv hws
      simp only [Ty.wf, Bool.and_eq_true] at hw
      simp only [serialize] at h hlt
      have hP := serContainerParts_inj _ _ (fields_compat fs vs ws hv hws) hlt h
      refine congrArg Val.seq (fields_of_parts fs vs ws ih hw.2 hv hws ?_ hP)
      intro x hx
      have := part_le_serContainerParts _ x hx
      rw [serContainerParts_length] at hlt
      omega
  | none =>
    intro t w hw hv
    cases t <;> simp [hasType] at hv
  | union sel v ih =>
    intro t w hw hv hws hlt h
    cases t <;> try (simp [hasType] at hv; done)
    rename_i hasNone opts
    cases w <;> try (simp [hasType] at hws; done)
    rename_i sel' w
    simp only [Ty.wf, Bool.and_eq_true, decide_eq_true_eq] at hw
    simp only [hasType] at hv hws
    simp only [serialize, List.cons.injEq] at h
    -- selectors are below 128 on both sides
    have hsel : ∀ (s : Nat) (x : Val),
        (match unionOpt hasNone opts s with
          | some t => hasType t x
          | Option.none => hasNone && s == 0 && (match x with | .none => true | _ => false)) = true →
        s < 128 := by
      intro s x hx
      cases ho : unionOpt hasNone opts s with
      | none => simp only [ho, Bool.and_eq_true, beq_iff_eq] at hx; omega
      | some t =>
        unfold unionOpt at ho
        cases hasNone
        · simp only [Bool.false_eq_true, if_false] at ho hw
          have := (List.getElem?_eq_some_iff.mp ho).1; omega
        · simp only [if_true] at ho hw
          split at ho
          · cases ho
          · have := (List.getElem?_eq_some_iff.mp ho).1; omega
    have h1 := hsel sel v hv
    have h2 := hsel sel' w hws
    have hss : sel = sel' := by
      have := congrArg UInt8.toNat h.1
      rw [UInt8.toNat_ofNat', UInt8.toNat_ofNat', Nat.mod_eq_of_lt (by omega),
        Nat.mod_eq_of_lt (by omega)] at this
      exact this
    subst hss
    cases ho : unionOpt hasNone opts sel with
    | none =>
      simp only [ho, Bool.and_eq_true, beq_iff_eq] at hv hws
      have hvn : v = .none := by cases v <;> simp at hv ⊢
      have hwn : w = .none := by cases w <;> simp at hws ⊢
      rw [hvn, hwn]
    | some t =>
      simp only [ho] at hv hws h hlt
      have hget : ∃ k : Nat, opts[k]? = some t := by
        unfold unionOpt at ho
        cases hasNone
        · exact ⟨_, ho⟩
        · simp only [if_true] at ho
          split at ho
          · cases ho
          · exact ⟨_, ho⟩
      obtain ⟨k, hk⟩ := hget
      have hwt : t.wf = true := by
        have hmem := List.mem_of_getElem? hk
        clear hk ho hv hws h hlt
        induction opts with
        | nil => cases hmem
        | cons a opts ih2 =>
          simp only [Ty.wfAll, Bool.and_eq_true] at hw
          rcases List.mem_cons.mp hmem with rfl | hm
          · exact hw.1.2.1
          · exact wfAll_mem' opts hw.1.2.2 t hm
      simp only [serialize, ho, List.length_cons] at hlt
      rw [ih t w hwt hv hws (by omega) h.2]
where
  wfAll_mem' : ∀ (ts : List Ty), Ty.wfAll ts = true → ∀ t ∈ ts, t.wf = true := by
    intro ts
    induction ts with
    | nil => intro _ t ht; cases ht
    | cons a ts ih =>
      intro h t ht
      simp only [Ty.wfAll, Bool.and_eq_true] at h
      rcases List.mem_cons.mp ht with rfl | ht
      · exact h.1
      · exact ih h.2 t ht

/-- `serialize` is injective on the typed values of a well-formed type whose encoding is
    shorter than 2^32 bytes -/
theorem serialize_injective (t : Ty) (v w : Val) (hwf : t.wf = true) (hv : hasType t v = true)
    (hw : hasType t w = true) (hlt : (serialize t v).length < 2 ^ 32)
    (h : serialize t v = serialize t w) : v = w :=
  serInj_all v t w hwf hv hw hlt h

end ZtypV
