/-
SHA-256 (FIPS 180-4) over byte lists, plus the alternative pluggable pair hash
`altHash` that the Go harness implements identically.  Used only by the driver to
reproduce default-hash roots; no theorem mentions these (theorems are parametric in `h`).
-/
import ZtypV.Basic
namespace ZtypV.Sha

def K : Array UInt32 := #[
  0x428a2f98, 0x71374491, 0xb5c0fbcf, 0xe9b5dba5, 0x3956c25b, 0x59f111f1, 0x923f82a4, 0xab1c5ed5,
  0xd807aa98, 0x12835b01, 0x243185be, 0x550c7dc3, 0x72be5d74, 0x80deb1fe, 0x9bdc06a7, 0xc19bf174,
  0xe49b69c1, 0xefbe4786, 0x0fc19dc6, 0x240ca1cc, 0x2de92c6f, 0x4a7484aa, 0x5cb0a9dc, 0x76f988da,
  0x983e5152, 0xa831c66d, 0xb00327c8, 0xbf597fc7, 0xc6e00bf3, 0xd5a79147, 0x06ca6351, 0x14292967,
  0x27b70a85, 0x2e1b2138, 0x4d2c6dfc, 0x53380d13, 0x650a7354, 0x766a0abb, 0x81c2c92e, 0x92722c85,
  0xa2bfe8a1, 0xa81a664b, 0xc24b8b70, 0xc76c51a3, 0xd192e819, 0xd6990624, 0xf40e3585, 0x106aa070,
  0x19a4c116, 0x1e376c08, 0x2748774c, 0x34b0bcb5, 0x391c0cb3, 0x4ed8aa4a, 0x5b9cca4f, 0x682e6ff3,
  0x748f82ee, 0x78a5636f, 0x84c87814, 0x8cc70208, 0x90befffa, 0xa4506ceb, 0xbef9a3f7, 0xc67178f2]

@[inline] def rotr (x : UInt32) (n : UInt32) : UInt32 := (x >>> n) ||| (x <<< (32 - n))

def compress (st : Array UInt32) (block : Array UInt8) : Array UInt32 := Id.run do
  let mut w : Array UInt32 := Array.replicate 64 0
  for i in [0:16] do
    let b0 := (block[4*i]!).toUInt32
    let b1 := (block[4*i+1]!).toUInt32
    let b2 := (block[4*i+2]!).toUInt32
    let b3 := (block[4*i+3]!).toUInt32
    w := w.set! i ((b0 <<< 24) ||| (b1 <<< 16) ||| (b2 <<< 8) ||| b3)
  for i in [16:64] do
    let w15 := w[i-15]!
    let w2 := w[i-2]!
    let s0 := rotr w15 7 ^^^ rotr w15 18 ^^^ (w15 >>> 3)
    let s1 := rotr w2 17 ^^^ rotr w2 19 ^^^ (w2 >>> 10)
    w := w.set! i (w[i-16]! + s0 + w[i-7]! + s1)
  let mut a := st[0]!
  let mut b := st[1]!
  let mut c := st[2]!
  let mut d := st[3]!
  let mut e := st[4]!
  let mut f := st[5]!
  let mut g := st[6]!
  let mut hh := st[7]!
  for i in [0:64] do
    let s1 := rotr e 6 ^^^ rotr e 11 ^^^ rotr e 25
    let ch := (e &&& f) ^^^ ((~~~ e) &&& g)
    let t1 := hh + s1 + ch + K[i]! + w[i]!
    let s0 := rotr a 2 ^^^ rotr a 13 ^^^ rotr a 22
    let maj := (a &&& b) ^^^ (a &&& c) ^^^ (b &&& c)
    let t2 := s0 + maj
    hh := g; g := f; f := e; e := d + t1; d := c; c := b; b := a; a := t1 + t2
  return #[st[0]! + a, st[1]! + b, st[2]! + c, st[3]! + d, st[4]! + e, st[5]! + f, st[6]! + g, st[7]! + hh]

def init : Array UInt32 := #[0x6a09e667, 0xbb67ae85, 0x3c6ef372, 0xa54ff53a, 0x510e527f, 0x9b05688c, 0x1f83d9ab, 0x5be0cd19]

def sha256 (msg : List UInt8) : List UInt8 := Id.run do
  let len := msg.length
  let bitLen := len * 8
  let mut m : Array UInt8 := msg.toArray
  m := m.push 0x80
  while m.size % 64 != 56 do
    m := m.push 0
  for i in [0:8] do
    m := m.push (UInt8.ofNat ((bitLen >>> (8 * (7 - i))) % 256))
  let mut st := init
  for bi in [0:m.size / 64] do
    st := compress st (m.extract (64*bi) (64*bi + 64))
  let mut out : Array UInt8 := #[]
  for wv in st do
    out := out.push (wv >>> 24).toUInt8
    out := out.push (wv >>> 16).toUInt8
    out := out.push (wv >>> 8).toUInt8
    out := out.push wv.toUInt8
  return out.toList

def toHex (bs : List UInt8) : String :=
  let hexd (n : Nat) : Char := if n < 10 then Char.ofNat (48 + n) else Char.ofNat (87 + n)
  String.ofList (bs.foldr (fun b acc => hexd (b.toNat / 16) :: hexd (b.toNat % 16) :: acc) [])

/-- default pair hash of ztyp: sha256(a ‖ b) -/
def sha256Pair : HashFn := fun a b => sha256 (a ++ b)

def rotl64 (x : UInt64) (n : UInt64) : UInt64 := (x <<< n) ||| (x >>> (64 - n))

def le64 (bs : List UInt8) : UInt64 :=
  bs.foldr (fun b acc => (acc <<< 8) ||| b.toUInt64) 0

def le64Bytes (x : UInt64) : List UInt8 :=
  (List.range 8).map fun i => (x >>> (8 * i.toUInt64)).toUInt8

/-- SHA-256 with the first two output bytes forced to zero (harness `zHash`): never the all-zero
    root, but zero-looking to a test that inspects only part of a root -/
def zHash : List UInt8 → List UInt8 → List UInt8 := fun a b => 0 :: 0 :: (sha256Pair a b).drop 2

/-- alternative pluggable pair hash (same 20 lines exist in the Go harness). Not cryptographic;
    good enough mixing that distinct small trees get distinct roots. -/
def altHash : HashFn := fun a b => Id.run do
  let inp := (a ++ List.replicate 32 0).take 32 ++ (b ++ List.replicate 32 0).take 32
  let mut s : Array UInt64 := #[0x9e3779b97f4a7c15, 0xbf58476d1ce4e5b9, 0x94d049bb133111eb, 0x2545f4914f6cdd1d]
  for r in [0:2] do
    for k in [0:8] do
      let w := le64 ((inp.drop (8*k)).take 8)
      let i := (k + r) % 4
      let x := (s[i]! ^^^ w) * 0x100000001b3
      s := s.set! i (rotl64 x 23 + s[(i+1)%4]!)
  for k in [0:4] do
    let x := s[k]! ^^^ (s[k]! >>> 29)
    s := s.set! k (x * 0xff51afd7ed558ccd + s[(k+3)%4]!)
  return (le64Bytes s[0]!) ++ (le64Bytes s[1]!) ++ (le64Bytes s[2]!) ++ (le64Bytes s[3]!)

end ZtypV.Sha
