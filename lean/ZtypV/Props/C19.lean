/-
C19 — Text/JSON number and hex conversions are lossless and range-checked.

All statements are about the executable model functions of ZtypV.Model.Conv (parts A+B: the Go
code of /repo/conv and the views' Text/JSON methods on top of the transcribed stdlib behaviour),
which are the functions the driver (Driver/OpsConv.lean) runs in the correspondence check.
The specification side is part C of the model file: `denotes` (Go integer-literal grammar),
`denotesInt` (signed), `Unquoted` (optional JSON quotes), `unprefix` + `hexDenotes` (hex text).
No bounds on text lengths or values; widths are the four basic view widths and 256.
-/
import ZtypV.Proofs.Conv
namespace ZtypV.Props.C19
open ZtypV ZtypV.Conv

/-! ## 1. Unmarshalling numbers is exact: accepted ⇔ the text denotes a number that fits -/

/-- JSON form (`conv.UintNUnmarshal`, `UintNView.UnmarshalJSON`), N = 8, 16, 32, 64:
the call succeeds with `n` exactly when the text, with its optional quotes removed, is a Go
integer literal denoting `n` and `n < 2^N`.  In particular the narrowing cast never truncates. -/
theorem json_unmarshal_exact (w : Nat) (hw : StdWidth w) (s : Text) (n : Nat) :
    uintUnmarshalJSON w s = .ok n ↔ ∃ s', Unquoted s s' ∧ denotes s' = some n ∧ n < 2^w := by
  rw [uintUnmarshalJSON_eq w hw]
  cases hq : stripQuotes s with
  | none =>
    simp only [reduceCtorEq, false_iff]
    rintro ⟨s', hu, _⟩
    rw [(stripQuotes_eq_some_iff s s').2 hu] at hq; cases hq
  | some s0 =>
    simp only [specNum_ok_iff]
    constructor
    · intro h; exact ⟨s0, (stripQuotes_eq_some_iff s s0).1 hq, h⟩
    · rintro ⟨s', hu, h⟩
      rw [(stripQuotes_eq_some_iff s s').2 hu] at hq
      injection hq with hq; subst hq; exact h

example : uintUnmarshalJSON 8 [0x22, 0x30, 0x78, 0x5f, 0x66, 0x46, 0x22] = .ok 255 := by decide  -- "0x_fF" quoted

/-- text form (`UintNView.UnmarshalText`) -/
theorem text_unmarshal_exact (w : Nat) (hw : StdWidth w) (s : Text) (n : Nat) :
    uintUnmarshalText w s = .ok n ↔ (denotes s = some n ∧ n < 2^w) := by
  rw [uintUnmarshalText_eq w hw, specNum_ok_iff]

example : uintUnmarshalText 16 [0x30, 0x62, 0x31, 0x5f, 0x30, 0x31] = .ok 5 := by decide  -- 0b1_01

/-- no truncation, JSON form: a literal whose value does not fit is rejected (never reduced mod 2^N) -/
theorem json_no_truncation (w : Nat) (hw : StdWidth w) (s s' : Text) (n : Nat)
    (hu : Unquoted s s') (hd : denotes s' = some n) (hn : n ≥ 2^w) :
    uintUnmarshalJSON w s = .err := by
  rw [uintUnmarshalJSON_eq w hw, (stripQuotes_eq_some_iff s s').2 hu]
  simp only [specNum, hd]
  rw [if_neg (by omega)]

example : uintUnmarshalJSON 8 [0x32, 0x35, 0x36] = .err := by decide   -- 256
example : Unquoted [0x32, 0x35, 0x36] [0x32, 0x35, 0x36] ∧ denotes [0x32, 0x35, 0x36] = some 256 ∧ 256 ≥ 2^8 :=
  ⟨(unquote_eq_some_iff _ _).1 (by decide), by decide, by decide⟩

/-- no truncation, text form -/
theorem text_no_truncation (w : Nat) (hw : StdWidth w) (s : Text) (n : Nat)
    (hd : denotes s = some n) (hn : n ≥ 2^w) : uintUnmarshalText w s = .err := by
  rw [uintUnmarshalText_eq w hw]
  simp only [specNum, hd]
  rw [if_neg (by omega)]

example : uintUnmarshalText 16 [0x30, 0x78, 0x31, 0x30, 0x30, 0x30, 0x30] = .err := by decide  -- 0x10000

/-- everything that is not a literal (after quote removal) is rejected; the unmarshallers never panic -/
theorem json_rejects_non_literals (w : Nat) (hw : StdWidth w) (s : Text)
    (h : ∀ s', Unquoted s s' → denotes s' = none) : uintUnmarshalJSON w s = .err := by
  rw [uintUnmarshalJSON_eq w hw]
  cases hq : stripQuotes s with
  | none => rfl
  | some s0 =>
    simp only [specNum, h s0 ((stripQuotes_eq_some_iff s s0).1 hq)]

example : uintUnmarshalJSON 64 [0x22, 0x31] = .err := by decide        -- "1  (quote not closed)

theorem text_rejects_non_literals (w : Nat) (hw : StdWidth w) (s : Text) (h : denotes s = none) :
    uintUnmarshalText w s = .err := by
  rw [uintUnmarshalText_eq w hw]; simp only [specNum, h]

example : uintUnmarshalText 64 [0x2d, 0x31] = .err := by decide        -- -1

/-! ## 2. 256-bit numbers (math/big route): same statements with a signed literal -/

theorem u256_json_unmarshal_exact (s : Text) (n : Nat) :
    uintUnmarshalJSON 256 s = .ok n ↔
      ∃ s', Unquoted s s' ∧ denotesInt s' = some (n : Int) ∧ n < 2^256 := by
  show uint256Unmarshal s = .ok n ↔ _
  rw [uint256Unmarshal_eq]
  cases hq : stripQuotes s with
  | none =>
    simp only [reduceCtorEq, false_iff]
    rintro ⟨s', hu, _⟩
    rw [(stripQuotes_eq_some_iff s s').2 hu] at hq; cases hq
  | some s0 =>
    simp only [specInt256_ok_iff]
    constructor
    · intro h; exact ⟨s0, (stripQuotes_eq_some_iff s s0).1 hq, h⟩
    · rintro ⟨s', hu, h⟩
      rw [(stripQuotes_eq_some_iff s s').2 hu] at hq
      injection hq with hq; subst hq; exact h

theorem u256_text_unmarshal_exact (s : Text) (n : Nat) :
    uintUnmarshalText 256 s = .ok n ↔ (denotesInt s = some (n : Int) ∧ n < 2^256) := by
  show uint256ViewUnmarshalText s = .ok n ↔ _
  rw [uint256ViewUnmarshalText_eq, specInt256_ok_iff]

example : uintUnmarshalText 256 [0x2b, 0x30, 0x6f, 0x31, 0x37] = .ok 15 := by decide   -- +0o17
example : uintUnmarshalText 256 [0x2d, 0x30] = .ok 0 := by decide                      -- -0 denotes 0

/-- negative or too large values are rejected, not wrapped modulo 2^256 -/
theorem u256_json_no_truncation (s s' : Text) (v : Int) (hu : Unquoted s s')
    (hd : denotesInt s' = some v) (hv : v < 0 ∨ v ≥ 2^256) : uintUnmarshalJSON 256 s = .err := by
  show uint256Unmarshal s = .err
  rw [uint256Unmarshal_eq, (stripQuotes_eq_some_iff s s').2 hu]
  simp only [specInt256, hd]
  rw [if_neg (by omega)]

theorem u256_text_no_truncation (s : Text) (v : Int)
    (hd : denotesInt s = some v) (hv : v < 0 ∨ v ≥ 2^256) : uintUnmarshalText 256 s = .err := by
  show uint256ViewUnmarshalText s = .err
  rw [uint256ViewUnmarshalText_eq]
  simp only [specInt256, hd]
  rw [if_neg (by omega)]

example : uintUnmarshalText 256 [0x2d, 0x31] = .err ∧ denotesInt [0x2d, 0x31] = some (-1) := by decide

/-! ## 3. Round trips -/

/-- JSON: marshal then unmarshal returns the number, every width -/
theorem json_roundtrip (w : Nat) (hw : StdWidth w ∨ w = 256) (n : Nat) (hn : n < 2^w) :
    uintUnmarshalJSON w (uintMarshalJSON w n) = .ok n := by
  rcases hw with hw | rfl
  · have hne : w ≠ 256 := by rcases hw with rfl | rfl | rfl | rfl <;> omega
    rw [uintUnmarshalJSON_eq w hw]
    simp only [uintMarshalJSON, hne, if_false]
    rw [uint64Marshal_eq, stripQuotes_quoted]
    exact (specNum_ok_iff w _ n).2 ⟨denotes_decDigits n, hn⟩
  · show uint256Unmarshal (uint256Marshal n) = .ok n
    rw [uint256Unmarshal_eq, uint256Marshal_eq, stripQuotes_quoted]
    exact (specInt256_ok_iff _ n).2 ⟨denotesInt_decDigits n, hn⟩

example : uintUnmarshalJSON 16 (uintMarshalJSON 16 65535) = .ok 65535 :=
  json_roundtrip 16 (by decide) 65535 (by decide)
example : uintUnmarshalJSON 256 (uintMarshalJSON 256 (2^256 - 1)) = .ok (2^256 - 1) :=
  json_roundtrip 256 (by decide) _ (by decide)

/-- text: marshal then unmarshal returns the number, every width -/
theorem text_roundtrip (w : Nat) (hw : StdWidth w ∨ w = 256) (n : Nat) (hn : n < 2^w) :
    uintUnmarshalText w (uintMarshalText w n) = .ok n := by
  rcases hw with hw | rfl
  · have hne : w ≠ 256 := by rcases hw with rfl | rfl | rfl | rfl <;> omega
    rw [uintUnmarshalText_eq w hw]
    simp only [uintMarshalText, hne, if_false, uintViewMarshalText, appendUintDec, List.nil_append]
    exact (specNum_ok_iff w _ n).2 ⟨denotes_decDigits n, hn⟩
  · show uint256ViewUnmarshalText (uint256ViewMarshalText n) = .ok n
    rw [uint256ViewUnmarshalText_eq]
    exact (specInt256_ok_iff _ n).2 ⟨denotesInt_decDigits n, hn⟩

example : uintUnmarshalText 8 (uintMarshalText 8 200) = .ok 200 :=
  text_roundtrip 8 (by decide) 200 (by decide)

/-- the marshalled forms are the plain decimal rendering (quoted for JSON) and denote the number -/
theorem marshal_denotes (w : Nat) (n : Nat) :
    (∃ ds, uintMarshalText w n = ds ∧ denotes ds = some n) ∧
    (∃ ds, uintMarshalJSON w n = 0x22 :: (ds ++ [0x22]) ∧ denotes ds = some n) := by
  refine ⟨⟨decDigits n, ?_, denotes_decDigits n⟩, ⟨decDigits n, ?_, denotes_decDigits n⟩⟩
  · by_cases h : w = 256 <;> simp [uintMarshalText, h, uint256ViewMarshalText, fmtU256, uintViewMarshalText, appendUintDec]
  · by_cases h : w = 256 <;> simp [uintMarshalJSON, h, uint256Marshal_eq, uint64Marshal_eq]

/-! ## 4. Hex -/

/-- fixed-size decoding succeeds exactly on texts that, with the optional 0x/0X prefix removed,
have exactly `2·len` characters and denote the result -/
theorem fixed_hex_exact (len : Nat) (s : Text) (bs : Bytes) :
    fixedBytesUnmarshalText len s = .ok bs ↔
      ((unprefix s).length = 2 * len ∧ hexDenotes (unprefix s) = some bs) := by
  rw [fixedBytesUnmarshalText_eq]
  by_cases hl : (unprefix s).length = 2 * len
  · rw [if_pos hl, specHex_ok_iff]; simp [hl]
  · rw [if_neg hl]; simp [hl]

example : fixedBytesUnmarshalText 2 [0x30, 0x58, 0x61, 0x42, 0x30, 0x31] = .ok [0xab, 0x01] := by decide

/-- the same, position by position: exactly `2·len` characters, all of them hex digits, and
byte `i` of the result is `16·value(char 2i) + value(char 2i+1)` -/
theorem fixed_hex_exact_indexwise (len : Nat) (s : Text) (bs : Bytes) :
    fixedBytesUnmarshalText len s = .ok bs ↔
      ((unprefix s).length = 2 * len ∧ bs.length = len ∧ ∀ i, i < len → HexPairAt (unprefix s) bs i) := by
  rw [fixed_hex_exact, hexDenotes_iff_index]
  constructor
  · rintro ⟨h1, h2, h3⟩
    have : bs.length = len := by omega
    exact ⟨h1, this, fun i hi => h3 i (by omega)⟩
  · rintro ⟨h1, h2, h3⟩
    exact ⟨h1, by omega, fun i hi => h3 i (by omega)⟩

example : HexPairAt [0x61, 0x42] [0xab] 0 := ⟨10, 11, by decide, by decide, by decide, by decide, by decide⟩

/-- `hexDenotes` only accepts hex digit pairs, and the result has half the length -/
theorem hexDenotes_sound (t : Text) (bs : Bytes) (h : hexDenotes t = some bs) :
    t.length = 2 * bs.length ∧ ∀ c ∈ t, isDig 16 c = true :=
  ⟨hexDenotes_length t bs h, hexDenotes_allHex t bs h⟩

/-- accepted ⇒ the destination size is exactly the denoted size; any other size is an error -/
theorem fixed_hex_size (len : Nat) (s : Text) (bs : Bytes)
    (h : fixedBytesUnmarshalText len s = .ok bs) : bs.length = len := by
  obtain ⟨h1, h2⟩ := (fixed_hex_exact len s bs).1 h
  have := hexDenotes_length _ _ h2
  omega

theorem fixed_hex_wrong_size (len : Nat) (s : Text) (h : (unprefix s).length ≠ 2 * len) :
    fixedBytesUnmarshalText len s = .err := by
  rw [fixedBytesUnmarshalText_eq, if_neg h]

example : fixedBytesUnmarshalText 1 [0x30, 0x78] = .err := by decide     -- "0x" is not one byte

/-- a bad character or odd length is an error, never a panic -/
theorem fixed_hex_bad_text (len : Nat) (s : Text) (h : hexDenotes (unprefix s) = none) :
    fixedBytesUnmarshalText len s = .err := by
  rw [fixedBytesUnmarshalText_eq]
  split
  · simp only [specHex, h]
  · rfl

/-- dynamic decoding: exactly the denoted bytes, whatever the size -/
theorem dynamic_hex_exact (s : Text) (bs : Bytes) :
    dynamicBytesUnmarshalText s = .ok bs ↔ hexDenotes (unprefix s) = some bs := by
  rw [dynamicBytesUnmarshalText_eq, specHex_ok_iff]

theorem dynamic_hex_bad_text (s : Text) (h : hexDenotes (unprefix s) = none) :
    dynamicBytesUnmarshalText s = .err := by
  rw [dynamicBytesUnmarshalText_eq]; simp only [specHex, h]

example : dynamicBytesUnmarshalText [0x61, 0x62, 0x63] = .err := by decide

/-- bytes → "0x…" text → bytes -/
theorem hex_roundtrip (bs : Bytes) :
    ∃ t, bytesMarshalText bs = .ok t ∧ fixedBytesUnmarshalText bs.length t = .ok bs ∧
      dynamicBytesUnmarshalText t = .ok bs ∧ hexDenotes (unprefix t) = some bs := by
  refine ⟨_, bytesMarshalText_eq bs, ?_, ?_, ?_⟩
  · rw [fixed_hex_exact, unprefix_0x]; exact ⟨hexEncode_length bs, hexDenotes_hexEncode bs⟩
  · rw [dynamic_hex_exact, unprefix_0x]; exact hexDenotes_hexEncode bs
  · rw [unprefix_0x]; exact hexDenotes_hexEncode bs

example : bytesMarshalText [0x00, 0xff] = .ok [0x30, 0x78, 0x30, 0x30, 0x66, 0x66] := by decide

/-! ## 5. The environment transcriptions against the literal grammar (used by 1–3) -/

/-- `strconv.ParseUint(s, 0, w)` (1 ≤ w ≤ 64) accepts exactly the literals that fit -/
theorem parseUint_exact (s : Text) (w : Nat) (h1 : 1 ≤ w) (h2 : w ≤ 64) (n : Nat) :
    parseUint s w = .ok n ↔ (denotes s = some n ∧ n < 2^w) := parseUint_ok_iff s w h1 h2 n

/-- `big.Int.UnmarshalText` computes the signed-literal denotation -/
theorem bigSetString0_exact (s : Text) : bigSetString0 s = denotesInt s := bigSetString0_eq s

end ZtypV.Props.C19
