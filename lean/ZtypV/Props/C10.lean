/-
C10 — Flat codec decoding is canonical and panic-free.

Model: `ZtypV.Flat.flatDecode` (Model/Flat.lean): the composition of the models of the codec
helpers `DecodingReader.Vector/List/BitVector/BitList/ByteVector/ByteList/FixedLenContainer/
Container/Union`, `tree.ReadRoots/ReadRootsLimited`, `(*Root).Deserialize` and the basic values'
`Deserialize`, by the recipe of harness/flat.go, over the reader model `DR` (Model/Decode.lean).
`prior` is what the destination struct held before (any value; `Val.none` = zero struct).
Spec: `hasType`, `serialize`, `Valid` (Spec.lean).

Proved here, all at full strength (every type of the family, every prior destination content,
every byte string, no size bound):
* `C10_no_panic`, `C10_no_panic_reader`, `C10_total` — no panic outcome of the model is reachable
  (this needs no well-formedness hypothesis at all);
* `C10_sound` — a variable-size top-level type yields a value only if the input is the SSZ
  encoding of that value and the value is well-typed; `C10_valid`, `C10_rejects_invalid`;
* `C10_sound_reader` — the master statement on an arbitrary reader state (any `i`, `max`,
  stream): the decoder consumed exactly its share of the stream;
* `C10_reencode` — the accepted value re-encodes (model of the encoder composition) to exactly
  the input (inputs below 2^32 bytes: `WriteOffset` panics beyond);
* `C10_bitlistCheck_agrees`, `C10_bitvectorCheck_agrees` — the bit-field checks of the model (on
  naturals) accept exactly what the machine-integer model of package `bitfields` (C18) accepts;
* `C10_fixed_top` — what happens for a fixed-size top level (outside the property: the caller
  decides the scope): a plain read of the type's size, trailing bytes are not looked at.
-/
import ZtypV.Proofs.FlatSound
import ZtypV.Proofs.FlatEnc
import ZtypV.Proofs.FlatBitfields
namespace ZtypV.Props.C10
open ZtypV ZtypV.View ZtypV.Flat ZtypV.FlatProofs

/-! ### 1. panic freedom and totality -/

/-- decoding any byte string into any destination never panics -/
theorem C10_no_panic (t : Ty) (prior : Val) (bs : Bytes) :
    flatDecode t prior (DR.new bs bs.length) ≠ .error .panic :=
  flatDecode_noPanic t prior _

/-- the same on an arbitrary reader state -/
theorem C10_no_panic_reader (t : Ty) (prior : Val) (dr : DR) :
    flatDecode t prior dr ≠ .error .panic :=
  flatDecode_noPanic t prior dr

/-- decoding either yields a value or fails with a (non-panic) error -/
theorem C10_total (t : Ty) (prior : Val) (bs : Bytes) :
    (∃ r, flatDecode t prior (DR.new bs bs.length) = .ok r) ∨
    (∃ e, flatDecode t prior (DR.new bs bs.length) = .error e ∧ e ≠ .panic) := by
  cases hd : flatDecode t prior (DR.new bs bs.length) with
  | ok r => exact Or.inl ⟨r, rfl⟩
  | error e =>
    refine Or.inr ⟨e, rfl, ?_⟩
    intro he; subst he
    exact C10_no_panic t prior bs hd

/-! ### 2. soundness: a value is returned only for valid encodings, and it is the encoded value -/

/-- Master statement on an arbitrary reader: a successful decoder consumed exactly `need t dr`
    bytes of the stream (its whole scope `max - i` for a variable-size type, its fixed size
    otherwise), these bytes are the encoding of the returned value, the value is well-typed. -/
theorem C10_sound_reader (t : Ty) (hw : t.wf = true) (prior : Val) (dr dr' : DR) (v : Val)
    (h : flatDecode t prior dr = .ok (v, dr')) :
    hasType t v = true ∧ serialize t v = dr.avail.take (need t dr) ∧
      need t dr ≤ dr.avail.length ∧ dr'.avail = dr.avail.drop (need t dr) :=
  flatDecode_sound t hw prior dr v dr' h

/-- Top level with a variable-size type (the library decides every scope): the value is
    well-typed and its SSZ encoding is exactly the input — for every prior destination content. -/
theorem C10_sound (t : Ty) (hw : t.wf = true) (hvar : t.isFixed = false) (prior : Val)
    (bs : Bytes) (v : Val) (dr' : DR)
    (h : flatDecode t prior (DR.new bs bs.length) = .ok (v, dr')) :
    hasType t v = true ∧ serialize t v = bs :=
  flatDecode_top_sound t hw hvar prior bs v dr' h

/-- a value is yielded only for valid SSZ encodings of the type -/
theorem C10_valid (t : Ty) (hw : t.wf = true) (hvar : t.isFixed = false) (prior : Val)
    (bs : Bytes) (r : Val × DR) (h : flatDecode t prior (DR.new bs bs.length) = .ok r) :
    Valid t bs := by
  obtain ⟨v, dr'⟩ := r
  obtain ⟨hv, hs⟩ := C10_sound t hw hvar prior bs v dr' h
  exact ⟨v, hv, hs⟩

/-- contrapositive: everything that is not a valid encoding fails with an error -/
theorem C10_rejects_invalid (t : Ty) (hw : t.wf = true) (hvar : t.isFixed = false) (prior : Val)
    (bs : Bytes) (hinv : ¬ Valid t bs) :
    ∃ e, flatDecode t prior (DR.new bs bs.length) = .error e ∧ e ≠ .panic := by
  rcases C10_total t prior bs with ⟨r, hr⟩ | he
  · exact absurd (C10_valid t hw hvar prior bs r hr) hinv
  · exact he

/-- the accepted value re-encodes to exactly the input -/
theorem C10_reencode (t : Ty) (hw : t.wf = true) (hvar : t.isFixed = false) (prior : Val)
    (bs : Bytes) (hlen : bs.length < 2 ^ 32) (v : Val) (dr' : DR)
    (h : flatDecode t prior (DR.new bs bs.length) = .ok (v, dr')) :
    flatEncode t v = .ok bs ∧ flatByteLength t v = bs.length := by
  obtain ⟨hv, hs⟩ := C10_sound t hw hvar prior bs v dr' h
  have := flatEncode_correct t v hw hv (by rw [hs]; exact hlen)
  rw [hs] at this
  exact this

/-- the result does not depend on what the destination held before -/
theorem C10_prior_independent (t : Ty) (hw : t.wf = true) (hvar : t.isFixed = false)
    (p q : Val) (bs : Bytes) (v w : Val) (d1 d2 : DR)
    (h1 : flatDecode t p (DR.new bs bs.length) = .ok (v, d1))
    (h2 : flatDecode t q (DR.new bs bs.length) = .ok (w, d2)) :
    serialize t v = serialize t w := by
  rw [(C10_sound t hw hvar p bs v d1 h1).2, (C10_sound t hw hvar q bs w d2 h2).2]

/-- Outside the property (fixed-size top level, the caller decides the scope): the decoder is
    a plain read of the type's size; bytes beyond it are not looked at. -/
theorem C10_fixed_top (t : Ty) (hw : t.wf = true) (hfix : t.isFixed = true) (prior : Val)
    (bs : Bytes) (v : Val) (dr' : DR)
    (h : flatDecode t prior (DR.new bs bs.length) = .ok (v, dr')) :
    hasType t v = true ∧ serialize t v = bs.take t.fixedSize ∧ t.fixedSize ≤ bs.length :=
  flatDecode_top_sound_fixed t hw hfix prior bs v dr' h

/-! ### 3. the bit-field checks are those of package `bitfields` (the model of property C18) -/

/-- `DecodingReader.BitList` ends with `bitfields.BitlistCheck`: the check on naturals used by
    `flatDecode` accepts exactly what the machine-integer model of C18 accepts -/
theorem C10_bitlistCheck_agrees (b : Bytes) (lim : Nat) (hb : b.length < 2 ^ 64) (hl : lim < 2 ^ 64) :
    Flat.bitlistCheck b lim = true ↔ Bitfields.bitlistCheck b (UInt64.ofNat lim) = .ok () :=
  bitlistCheck_agrees b lim hb hl

/-- `DecodingReader.BitVector` ends with `bitfields.BitvectorCheck` -/
theorem C10_bitvectorCheck_agrees (b : Bytes) (n : Nat) (hb : b.length < 2 ^ 64) (hn : n + 7 < 2 ^ 64) :
    Flat.bitvectorCheck b n = true ↔ Bitfields.bitvectorCheck b (UInt64.ofNat n) = .ok () :=
  bitvectorCheck_agrees b n hb hn

example : Flat.bitlistCheck [0xa3, 0x01] 8 = true := by decide
example : Flat.bitvectorCheck [0xff, 0x01] 9 = true := by decide

/-! ### 4. non-vacuity -/

/-- the hypotheses of `C10_sound` are satisfiable on a nested type, fresh and used destination -/
example : Ex.T.wf = true ∧ Ex.T.isFixed = false := by decide
example : ∃ r, flatDecode Ex.T Val.none (DR.new Ex.enc Ex.enc.length) = .ok r :=
  Ex.isOk_ex (by decide +kernel)
example : ∃ r, flatDecode Ex.T Ex.prior (DR.new Ex.enc Ex.enc.length) = .ok r :=
  Ex.isOk_ex (by decide +kernel)
/-- … and an invalid input (first offset 19 instead of 18) is an error, not a panic -/
example : Ex.isOkB (flatDecode Ex.T Val.none (DR.new (Ex.enc.set 2 19) Ex.enc.length)) = false := by
  decide +kernel

end ZtypV.Props.C10
