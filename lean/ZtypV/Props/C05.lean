/-
C05  Backing trees are persistent: old versions never change; copies are detached.

Model H (`ZtypV/Model/Heap.lean`).  A backing node "obtained from a view" is an address of the
heap; "any later operation on that view, its copies, its sub-views or any other view sharing
structure" is an arbitrary client program `p` over the primitives of package `tree`
(allocate leaf / allocate pair / read / MerkleRoot).  `NoPoke p` — the client never writes into
an existing leaf — is not an assumption about the view layer made here: it is the regenerated
write-site inventory of the Go sources (the only in-place writes are the memo write in
`PairNode.MerkleRoot`, `InitZeroHashes`, and caller-owned-root writes).
The process-wide zero nodes (`&ZeroHashes[d]`) are ordinary leaf cells of the initial heap
(address 0 of `exHeap`), so every statement below covers them.
-/
import ZtypV.Proofs.Heap
import ZtypV.Proofs.HeapReloc
import ZtypV.Proofs.HeapCost
namespace ZtypV.Props.C05
open ZtypV ZtypV.H

/-- Frame: a client that does not poke leaves keeps the heap well-formed, only adds cells, leaves
    structure and content of every existing cell unchanged (only memo fields of existing pairs may
    change — C06 says to which values) and therefore leaves the pure tree denoted by every existing
    node unchanged. -/
theorem C05_frame (h : HashFn) {p : Prog α} {hp hp' : Heap} {a : Option α} {tr : Trace}
    (hw : WF hp) (hnp : NoPoke p) (hrun : run h p hp = (a, hp', tr)) :
    WF hp' ∧ hp.size ≤ hp'.size
      ∧ (∀ x, x < hp.size → (hp'[x]?).map Cell.erase = (hp[x]?).map Cell.erase)
      ∧ ∀ x, x < hp.size → absNode hp' x = absNode hp x := by
  have hf := run_frame h hnp hp hw
  rw [hrun] at hf
  exact ⟨hf.1, hf.2.1, hf.2.2, fun x hx => absNode_ext hw hf.2 hx⟩

example : ∃ a hp' tr, run exHash exClient exHeap3 = (a, hp', tr) ∧ exHeap3.size < hp'.size
    ∧ ∀ x, x < exHeap3.size → absNode hp' x = absNode exHeap3 x :=
  ⟨_, _, _, rfl, by decide,
    (C05_frame exHash (wfB_sound (by decide)) noPoke_exClient rfl).2.2.2⟩

/-- The only thing that can happen to an existing cell: it is bit-for-bit unchanged, or it was a pair
    with unset memo and now carries a memo — which, if set, is the root of its (unchanged) children.
    Leaves — in particular the shared zero leaves — and pairs that were already hashed are
    bit-for-bit unchanged. -/
theorem C05_only_memo_fill (h : HashFn) {p : Prog α} {hp : Heap} (hw : WF hp) (hm : MemoValid h hp)
    (hnp : NoPoke p) {y : Nat} (hy : y < hp.size) :
    (run h p hp).2.1[y]? = hp[y]? ∨
      ∃ l r v, hp[y]? = some (Cell.pair z0 l r) ∧ (run h p hp).2.1[y]? = some (Cell.pair v l r)
        ∧ (v = z0 ∨ v = h ((absNode hp l).root h) ((absNode hp r).root h)) := by
  rcases (run_fillOld h hnp hp).2 y hy with e | ⟨l, r, v, e0, e1⟩
  · exact .inl e
  · refine .inr ⟨l, r, v, e0, e1, ?_⟩
    by_cases hv : v = z0
    · exact .inl hv
    · have hf := run_frame h hnp hp hw
      have hlr := hw y z0 l r e0
      have := run_memoValid h hnp hp hw hm y v l r e1 hv
      rw [pureRoot_ext h hw hf.2 (by omega), pureRoot_ext h hw hf.2 (by omega)] at this
      exact .inr this

/-- both cases occur: on the unhashed `exHeap` the client's hash request fills the memo of the old
    pair 3; the zero leaf 0 stays as it is -/
example : (run exHash exClient exHeap).2.1[0]? = exHeap[0]?
    ∧ (run exHash exClient exHeap).2.1[3]? ≠ exHeap[3]? := by decide

/-- The Merkle root of every existing node, as observed by a later `MerkleRoot` call, is unchanged:
    it is the root of the node's tree in the heap before the client ran. -/
theorem C05_root_unchanged (h : HashFn) {p : Prog α} {hp : Heap} (hw : WF hp) (hm : MemoValid h hp)
    (hnp : NoPoke p) {x : Nat} (hx : x < hp.size) :
    (run h (Prog.root1 x) (run h p hp).2.1).1 = some ((absNode hp x).root h)
      ∧ (run h (Prog.root1 x) hp).1 = some ((absNode hp x).root h) := by
  have hf := run_frame h hnp hp hw
  have hm' := run_memoValid h hnp hp hw hm
  have hx' : x < (run h p hp).2.1.size := Nat.lt_of_lt_of_le hx hf.2.1
  have e : ∀ {hp0 : Heap}, WF hp0 → MemoValid h hp0 → x < hp0.size →
      (run h (Prog.root1 x) hp0).1 = some ((absNode hp0 x).root h) := by
    intro hp0 w m l
    unfold Prog.root1
    rw [run_root_ok h _ l, (rootH_correct h (x+1) hp0 x w m (by omega)).1]; rfl
  refine ⟨?_, e hw hm hx⟩
  rw [e hf.1 hm' hx', absNode_ext hw hf.2 hx]

example : (run exHash (Prog.root1 0) (run exHash exClient exHeap3).2.1).1 = some z0 := by
  have := (C05_root_unchanged exHash (p := exClient) (wfB_sound (by decide : wfB exHeap3 = true))
    (memoValidB_sound (by decide)) noPoke_exClient (x := 0) (by decide)).1
  rw [this]; decide

/-- A copy is detached in both directions (tree level).  Two clients `p` and `q` start from the
    same heap (the same backing) and build their new nodes in their own regions.  What `p` leaves
    behind in the common part — the old cells, with whatever memos `p` filled — gives `q` exactly
    the results it has when run alone, and vice versa. -/
theorem C05_copy_detached (h : HashFn) {p : Prog α} {q : Prog β} {hp : Heap} (hw : WF hp)
    (hm : MemoValid h hp) (hnp : NoPoke p) (hnq : NoPoke q) :
    (run h q ((run h p hp).2.1.extract 0 hp.size)).1 = (run h q hp).1
      ∧ (run h p ((run h q hp).2.1.extract 0 hp.size)).1 = (run h p hp).1 := by
  have key : ∀ {γ δ : Type} {p : Prog γ} {q : Prog δ}, NoPoke p → NoPoke q →
      (run h q ((run h p hp).2.1.extract 0 hp.size)).1 = (run h q hp).1 := by
    intro γ δ p q hnp hnq
    have hf := run_frame h hnp hp hw
    have hm' := run_memoValid h hnp hp hw hm
    have hs := sameStruct_prefix_of_ext hf.2
    exact ((run_rootEdit h (RootEdit.refl hnq hp.size) hp _ rfl hw (WF_prefix hf.2.1 hf.1) hs hm
      (memoValid_prefix hf.2.1 hf.1 hm')).1).symm
  exact ⟨key hnp hnq, key hnq hnp⟩

example : (run exHash exClient ((run exHash (Prog.root1 4) exHeap).2.1.extract 0 exHeap.size)).1
    = (run exHash exClient exHeap).1 :=
  (C05_copy_detached exHash (p := Prog.root1 4) (wfB_sound (by decide)) (memoValidB_sound (by decide))
    (.root _ _ (fun v => .ret v)) noPoke_exClient).1

/-- The same in ONE address space: `q` runs after `p` in the very heap `p` left behind, which
    contains `p`'s new cells and `p`'s memo fills.  A Go client never sees the numeric value of a
    pointer; `reloc s n q` is `q` expressed in the address space where its own cells come `n` places
    later (see `reloc`).  `q` obtains exactly the results it obtains when run alone on the original
    heap: nothing `p` did — its new nodes, the memos it filled in shared nodes — is observable to
    `q`.  With the roles of `p` and `q` exchanged this is the other direction. -/
theorem C05_copy_detached_flat (h : HashFn) {p : Prog α} {q : Prog β} {hp : Heap} (hw : WF hp)
    (hm : MemoValid h hp) (hnp : NoPoke p) (hnq : NoPoke q) :
    (run h (reloc hp.size ((run h p hp).2.1.size - hp.size) q) (run h p hp).2.1).1 = (run h q hp).1 := by
  have hf := run_frame h hnp hp hw
  exact run_reloc h hnq hp _ (sim_after hw hf.2) hw hf.1 hm (run_memoValid h hnp hp hw hm)

/-- non-vacuity: first a client that mutates and hashes (2 new cells, 3 memo fills in old cells),
    then the same kind of client again, relocated by 2 -/
example : (run exHash (reloc exHeap3.size ((run exHash exClient exHeap3).2.1.size - exHeap3.size) exClient)
      (run exHash exClient exHeap3).2.1).1
    = (run exHash exClient exHeap3).1 :=
  C05_copy_detached_flat exHash (p := exClient) (q := exClient) (wfB_sound (by decide))
    (memoValidB_sound (by decide)) noPoke_exClient noPoke_exClient

example : (run exHash exClient exHeap3).2.1.size - exHeap3.size = 2
    ∧ (run exHash exClient exHeap3).1.isSome := by decide

/-- The `NoPoke` premise is necessary: a client that writes into an existing leaf (here the shared
    zero leaf) changes the tree of existing nodes, i.e. the frame property fails without the
    checked write-site inventory. -/
theorem C05_poke_counterexample :
    ¬ (∀ (p : Prog Unit) (hp : Heap), WF hp →
        ∀ x, x < hp.size → absNode (run exHash p hp).2.1 x = absNode hp x) := by
  intro hall
  have := hall exPoker exHeap (wfB_sound (by decide)) 4 (by decide)
  revert this
  decide

end ZtypV.Props.C05
