import ZtypV.Spec
namespace ZtypV.Props.C05
theorem placeholder : True := trivial
end ZtypV.Props.C05
