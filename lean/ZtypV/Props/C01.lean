import ZtypV.Spec
namespace ZtypV.Props.C01
theorem placeholder : True := trivial
end ZtypV.Props.C01
