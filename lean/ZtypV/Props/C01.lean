/-
C01 — View hash-tree-root equals the SSZ-spec Merkle root.

Proved here, for EVERY pair-hash function `h` (plugged in consistently for hashing and for the
zero-hash tower `zh h`) and with no bound on sizes: the root of the backing built by the
default route (`TypeDef.DefaultNode`, `View.defaultNode`) and by the constructor route
(`FromElements / FromFields / FromBits / FromView / Backing()`, `View.construct`; this
includes zero elements) exists (no error, no panic) and equals the specification's
`htr h t v`.

Side condition `noBoolSeries t` (Proofs/ViewRoot.lean): no `Vector/List` of `boolean` anywhere
in the type.  It is necessary: ztyp builds those unpacked (known finding D3), see
`C01_bool_series_counterexample` below.

The deserialization route and the mutation route are stated as `C01_decode_full` /
`C01_mutation_full`; they are discharged by other contributors in Props/C03.lean (decoding is
sound: every accepted input is `serialize t v` of a typed `v`, and the decoder builds the same
backing shape as the constructors) and Props/C04.lean (every mutation step preserves the
representation relation).  They are NOT proved in this file.
-/
import ZtypV.Proofs.ViewRoot
import ZtypV.Model.Decode
namespace ZtypV.Props.C01
open ZtypV

/-! ### default route -/

/-- the default backing tree of every well-formed type exists and its root is the spec root
    of the type's default value -/
theorem C01_default (h : HashFn) (t : Ty) (hwf : t.wf = true) (hnb : noBoolSeries t = true) :
    ∃ n, View.defaultNode h t = .ok n ∧ n.root h = htr h t (defaultVal t) :=
  defaultNode_root h t hwf hnb

/-- corollary form: whatever `DefaultNode` returned has the spec root -/
theorem C01_default_ok_root (h : HashFn) (t : Ty) (n : Node)
    (hd : View.defaultNode h t = .ok n) (hwf : t.wf = true) (hnb : noBoolSeries t = true) :
    n.root h = htr h t (defaultVal t) := by
  obtain ⟨n', hn', hr⟩ := C01_default h t hwf hnb
  rw [hd] at hn'
  cases hn'
  exact hr

/-- the default route never errs or panics on supported types -/
theorem C01_default_no_error (h : HashFn) (t : Ty) (e : Err)
    (hwf : t.wf = true) (hnb : noBoolSeries t = true) : View.defaultNode h t ≠ .error e := by
  obtain ⟨n, hn, _⟩ := C01_default h t hwf hnb
  rw [hn]; intro hc; cases hc

/-! ### constructor route -/

/-- the element / field / bit constructors succeed on every typed value (including empty
    lists and bitlists) and the view's root is the spec root of that value -/
theorem C01_construct (h : HashFn) (t : Ty) (v : Val) (hwf : t.wf = true)
    (hnb : noBoolSeries t = true) (hty : hasType t v = true) :
    ∃ n, View.construct h t v = .ok n ∧ n.root h = htr h t v :=
  construct_root h t v hwf hnb hty

/-- corollary form -/
theorem C01_construct_ok_root (h : HashFn) (t : Ty) (v : Val) (n : Node)
    (hc : View.construct h t v = .ok n) (hwf : t.wf = true) (hnb : noBoolSeries t = true)
    (hty : hasType t v = true) : n.root h = htr h t v := by
  obtain ⟨n', hn', hr⟩ := C01_construct h t v hwf hnb hty
  rw [hc] at hn'
  cases hn'
  exact hr

/-- the constructor route never errs or panics on typed values -/
theorem C01_construct_no_error (h : HashFn) (t : Ty) (v : Val) (e : Err) (hwf : t.wf = true)
    (hnb : noBoolSeries t = true) (hty : hasType t v = true) :
    View.construct h t v ≠ .error e := by
  obtain ⟨n, hn, _⟩ := C01_construct h t v hwf hnb hty
  rw [hn]; intro hc; cases hc

/-- zero elements: the empty list (any element type, any limit) -/
theorem C01_construct_empty_list (h : HashFn) (e : Ty) (lim : Nat) (hwf : e.wf = true)
    (hb : e.isBool = false) (hnb : noBoolSeries e = true) :
    ∃ n, View.construct h (.list e lim) (.seq []) = .ok n ∧
      n.root h = htr h (.list e lim) (.seq []) :=
  C01_construct h (.list e lim) (.seq []) (by simpa only [Ty.wf] using hwf)
    (by simp only [noBoolSeries, hb, hnb]; rfl) (by simp [hasType, allHaveType])

/-- zero elements: the empty bitlist -/
theorem C01_construct_empty_bitlist (h : HashFn) (lim : Nat) :
    ∃ n, View.construct h (.bitlist lim) (.bits []) = .ok n ∧
      n.root h = htr h (.bitlist lim) (.bits []) :=
  C01_construct h (.bitlist lim) (.bits []) rfl rfl (by simp [hasType])

/-- default route and constructor route agree on the root of the default value -/
theorem C01_default_eq_construct (h : HashFn) (t : Ty) (n m : Node)
    (hwf : t.wf = true) (hnb : noBoolSeries t = true) (hdt : hasType t (defaultVal t) = true)
    (hd : View.defaultNode h t = .ok n) (hc : View.construct h t (defaultVal t) = .ok m) :
    n.root h = m.root h := by
  rw [C01_default_ok_root h t n hd hwf hnb, C01_construct_ok_root h t _ m hc hwf hnb hdt]

/-! ### the side condition is necessary (known finding D3) -/

/-- for EVERY hash function, `Vector[boolean, 2]` of `[true, true]` is built as two chunks hashed
    together, while the specification packs the two booleans into one chunk -/
theorem C01_bool_series_roots (h : HashFn) :
    (∃ n, View.construct h (.vector .bool 2) (.seq [.bool true, .bool true]) = .ok n ∧
      n.root h = h (chunkOf [1]) (chunkOf [1])) ∧
    htr h (.vector .bool 2) (.seq [.bool true, .bool true]) = chunkOf [1, 1] := by
  refine ⟨⟨.pair (.leaf (chunkOf [1])) (.leaf (chunkOf [1])), ?_, rfl⟩, ?_⟩
  · have hd : coverDepth 2 = 1 := by decide
    simp only [View.construct, View.isBasicElem, View.constructList, hd]
    rfl
  · have hd : coverDepth (basicChunkCount 1 2) = 0 := by decide
    have hc : chunks [1, 1] = [chunkOf [1, 1]] := by decide
    simp only [htr, Ty.isBasic, Ty.fixedSize, serList, serialize, if_true, hd,
      List.flatten_cons, List.flatten_nil, List.append_nil, List.cons_append, List.nil_append,
      hc, merk, List.headD]

/-- concrete witness: with the (computable) pair function "left argument", the constructed
    root of a well-formed, well-typed `Vector[boolean, 2]` differs from the spec root -/
theorem C01_bool_series_counterexample :
    ∃ (h : HashFn) (v : Val) (n : Node),
      (Ty.vector .bool 2).wf = true ∧ hasType (.vector .bool 2) v = true ∧
      noBoolSeries (.vector .bool 2) = false ∧
      View.construct h (.vector .bool 2) v = .ok n ∧ n.root h ≠ htr h (.vector .bool 2) v := by
  refine ⟨fun a _ => a, .seq [.bool true, .bool true], ?_⟩
  obtain ⟨⟨n, hn, hr⟩, hs⟩ := C01_bool_series_roots (fun a _ => a)
  refine ⟨n, by decide, by decide, by decide, hn, ?_⟩
  rw [hr, hs]
  decide

/-- the default route shows the same defect: two zero chunks hashed vs one zero chunk -/
theorem C01_bool_series_default_roots (h : HashFn) :
    (∃ n, View.defaultNode h (.vector .bool 2) = .ok n ∧ n.root h = h z0 z0) ∧
    htr h (.vector .bool 2) (defaultVal (.vector .bool 2)) = z0 := by
  refine ⟨⟨.pair (.leaf z0) (.leaf z0), ?_, rfl⟩, ?_⟩
  · have hd : coverDepth 2 = 1 := by decide
    simp only [View.defaultNode, View.isBasicElem, hd]
    rfl
  · have hd : coverDepth (basicChunkCount 1 2) = 0 := by decide
    have hc : chunks [0, 0] = [z0] := by decide
    simp only [defaultVal, htr, Ty.isBasic, Ty.fixedSize, List.replicate, serList, serialize,
      if_true, hd, List.flatten_cons, List.flatten_nil, List.append_nil, List.cons_append,
      List.nil_append, Bool.false_eq_true, if_false, hc, merk, List.headD]

/-! ### routes proved elsewhere (full statements kept visible) -/

/-- deserialization route: whatever the decoder accepts is the encoding of a typed value
    whose spec root is the root of the view.  Discharged in Props/C03.lean (soundness of
    `decode` + the representation lemma), not here. -/
def C01_decode_full : Prop :=
  ∀ (h : HashFn) (t : Ty) (bs : Bytes) (n : Node),
    t.wf = true → noBoolSeries t = true → View.decodeTop h t bs = .ok n →
    ∃ v, hasType t v = true ∧ serialize t v = bs ∧ n.root h = htr h t v

/-- mutation route: every backing reachable from the default / constructor route by a chain of
    typed mutations (`Reach`, Proofs/ViewRoot.lean: set element / field, append, pop, change
    of union option, directly or through nested sub-views) still has the spec root of the
    correspondingly updated plain value.  Discharged in Props/C04.lean (simulation of the view
    machine of Model/Machine.lean by the value machine, which also covers the sub-chunk
    updates of packed elements and bits), not here. -/
def C01_mutation_full : Prop :=
  ∀ (h : HashFn) (t : Ty) (v : Val) (n : Node), Reach h t v n → n.root h = htr h t v

/-! ### non-vacuity -/

/-- the hypotheses of `C01_construct` / `C01_default` hold on a concrete nested type and value -/
example : c01ExTy.wf = true ∧ noBoolSeries c01ExTy = true ∧ hasType c01ExTy c01ExVal = true := by
  decide

example (h : HashFn) :
    ∃ n, View.construct h c01ExTy c01ExVal = .ok n ∧ n.root h = htr h c01ExTy c01ExVal :=
  C01_construct h c01ExTy c01ExVal (by decide) (by decide) (by decide)

example (h : HashFn) :
    ∃ n, View.defaultNode h c01ExTy = .ok n ∧ n.root h = htr h c01ExTy (defaultVal c01ExTy) :=
  C01_default h c01ExTy (by decide) (by decide)

/-- the default value is itself typed, so `C01_default_eq_construct` is not vacuous -/
example : hasType c01ExTy (defaultVal c01ExTy) = true := by decide

/-- empty list of a complex element type with a huge limit (no size bound in the theorems) -/
example (h : HashFn) :
    ∃ n, View.construct h (.list (.bitlist 5) (2 ^ 40)) (.seq []) = .ok n ∧
      n.root h = htr h (.list (.bitlist 5) (2 ^ 40)) (.seq []) :=
  C01_construct_empty_list h (.bitlist 5) (2 ^ 40) rfl rfl rfl

/-- the corollary forms have satisfiable hypotheses: the constructor really returns a node -/
example : ∃ n, View.construct (fun a _ => a) (.list (.uint 2) 3) (.seq [.num 5]) = .ok n :=
  let ⟨n, hn, _⟩ := C01_construct (fun a _ => a) (.list (.uint 2) 3) (.seq [.num 5])
    (by decide) (by decide) (by decide)
  ⟨n, hn⟩

/-- `Reach` is inhabited (the mutation statement is not vacuous) -/
example (h : HashFn) : ∃ n, Reach h (.bitlist 9) (.bits []) n :=
  let ⟨n, hn, _⟩ := C01_construct h (.bitlist 9) (.bits []) rfl rfl (by decide)
  ⟨n, Reach.construct rfl rfl (by decide) hn⟩

end ZtypV.Props.C01
