import ZtypV.Spec
namespace ZtypV.Props.C06
theorem placeholder : True := trivial
end ZtypV.Props.C06
