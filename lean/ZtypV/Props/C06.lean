/-
C06  Cached Merkle roots are never stale.

Model H (`ZtypV/Model/Heap.lean`): a pair cell carries the memo field `Value` of the Go
`PairNode`; `rootH` is `PairNode.MerkleRoot` (memo test, recursion, memo write in place).
A client is an arbitrary program `Prog` over the primitives of package `tree`; the view layer
is one such client (that it uses no other write is the regenerated write-site inventory).
-/
import ZtypV.Proofs.Heap
namespace ZtypV.Props.C06
open ZtypV ZtypV.H

/-- The invariant "every remembered root equals the root recomputed from the node's current
    children" survives every client program, i.e. any interleaving of allocations (mutations
    build new nodes), reads and hash-tree-root requests. -/
theorem C06_inv (h : HashFn) {p : Prog α} {hp : Heap} (hw : WF hp) (hm : MemoValid h hp)
    (hnp : NoPoke p) : MemoValid h (run h p hp).2.1 :=
  run_memoValid h hnp hp hw hm

example : MemoValid exHash (run exHash exClient exHeap3).2.1 :=
  C06_inv exHash (wfB_sound (by decide)) (memoValidB_sound (by decide)) noPoke_exClient

/-- Whatever the memo state (nothing, something or everything below `x` cached), `MerkleRoot`
    returns the root of the memo-free tree. -/
theorem C06_root_correct (h : HashFn) {hp : Heap} (hw : WF hp) (hm : MemoValid h hp) {x : Nat}
    (hx : x < hp.size) : (run h (Prog.root1 x) hp).1 = some ((absNode hp x).root h) := by
  unfold Prog.root1
  rw [run_root_ok h _ hx, (rootH_correct h (x+1) hp x hw hm (by omega)).1]
  rfl

example : (run exHash (Prog.root1 4) exHeap3).1 = some ((absNode exHeap3 4).root exHash) :=
  C06_root_correct exHash (wfB_sound (by decide)) (memoValidB_sound (by decide)) (by decide)

/-- the same root is obtained from the unhashed, the partly hashed and the fully hashed heap -/
example : (run exHash (Prog.root1 4) exHeap).1 = (run exHash (Prog.root1 4) exHeap3).1
    ∧ (run exHash (Prog.root1 4) exHeap3).1 = (run exHash (Prog.root1 4) exHeapAll).1 := by decide

/-- An extra hash-tree-root request in front of an arbitrary client changes none of its results,
    and the final heaps differ in memo fields only (so no later observation differs either). -/
theorem C06_independent_front (h : HashFn) {p : Prog α} {hp : Heap} (hw : WF hp)
    (hm : MemoValid h hp) (hnp : NoPoke p) {x : Nat} (hx : x < hp.size) :
    (run h (.root x (fun _ => p)) hp).1 = (run h p hp).1
      ∧ SameStruct (run h (.root x (fun _ => p)) hp).2.1 (run h p hp).2.1 := by
  have := run_rootEdit h (RootEdit.ins hp.size x p p hx (RootEdit.refl hnp hp.size)) hp hp rfl hw hw
    (SameStruct.refl hp) hm hm
  exact ⟨this.1.symm, this.2.symm⟩

example : (run exHash (.root 2 (fun _ => exClient)) exHeap).1 = (run exHash exClient exHeap).1 :=
  (C06_independent_front exHash (wfB_sound (by decide)) (memoValidB_sound (by decide))
    noPoke_exClient (by decide)).1

/-- Inserting and deleting hash-tree-root requests (on existing nodes, results ignored) anywhere
    in a client — `RootEdit` — and starting from heaps that differ in which roots were requested
    earlier (`SameStruct`, both valid) changes no result of the client; the final heaps again differ
    in memo fields only and are again valid. -/
theorem C06_independent (h : HashFn) {p p' : Prog α} {hp hp' : Heap}
    (he : RootEdit hp.size p p') (hw : WF hp) (hw' : WF hp') (hs : SameStruct hp hp')
    (hm : MemoValid h hp) (hm' : MemoValid h hp') :
    (run h p hp).1 = (run h p' hp').1 ∧ SameStruct (run h p hp).2.1 (run h p' hp').2.1 :=
  run_rootEdit h he hp hp' rfl hw hw' hs hm hm'

/-- non-vacuity: requests inserted in front and in the middle, started from a differently hashed heap -/
example : (run exHash exClient exHeap).1 =
    (run exHash (.root 3 (fun _ => .read 4 (fun c => .root 2 (fun _ => match c with
      | some (.inr (l, _)) => .allocLeaf (chunkOf [9]) (fun a => .allocPair l a (fun b => .root b .ret))
      | _ => .ret z0)))) exHeap3).1 := by
  refine (C06_independent exHash ?_ (wfB_sound (by decide)) (wfB_sound (by decide))
    (rootH_sameStruct exHash 4 exHeap 3) (memoValidB_sound (by decide))
    (memoValidB_sound (by decide))).1
  refine .ins _ _ _ _ (by decide) (.read _ _ _ _ (fun c => .ins _ _ _ _ (by decide) ?_))
  apply RootEdit.refl
  cases c with
  | none => exact .ret _
  | some v =>
    cases v with
    | inl _ => exact .ret _
    | inr lr =>
      exact .allocLeaf _ _ (fun a => .allocPair _ _ _ (fun b => .root _ _ (fun v => .ret v)))

/-- hash-tree-root of a node does not depend on which earlier roots were requested -/
theorem C06_root_memo_independent (h : HashFn) {hp hp' : Heap} (hw : WF hp) (hw' : WF hp')
    (hs : SameStruct hp hp') (hm : MemoValid h hp) (hm' : MemoValid h hp') (x : Nat) :
    (run h (Prog.root1 x) hp).1 = (run h (Prog.root1 x) hp').1 :=
  (run_rootEdit h (RootEdit.refl (.root x _ (fun v => .ret v)) hp.size) hp hp' rfl hw hw' hs hm hm').1

end ZtypV.Props.C06
