/-
C11b — the node / link API of package `tree` driven directly (extension of C11).

C11 states the navigation laws about the one-stage model functions `getNode` / `setNode` /
`summarizeInto`.  The Go API is two-stage: `Setter` returns a `Link` closure that is assembled by
`Link.Wrap` from `RebindLeft/Right` method values (`DeeperSetter`), and clients may call
`RebindLeft/Right`, `Identity`, `Wrap`, `DeeperSetter`, `SummaryInto`, `ZeroNode`, `NewPairNode`
themselves.  `ZtypV.Model.Tree2` transcribes these functions one by one (closures included);
the theorems below are about exactly those executable definitions, for every tree, path,
node, link and pair hash `h`:

* rebinding laws and the accessor laws of both node kinds;
* `Wrap` is Kleisli composition (inner first), `Identity` is neutral, `Wrap` is associative;
* the two-stage setter (either node kind, with or without expansion, also on raw `Gindex64`
  values including 0) followed by the link application IS the one-stage write `setNode`, links
  never fail, construction fails exactly when the write fails — so every law of C11 holds
  for links obtained from `Setter`, however often they are applied;
* `DeeperSetter(link, node, target, e)` = "write below `node` along the target minus its first
  bit, then `link`", panics exactly outside its documented precondition;
* the setter-composition law `parent.Setter(g1).Wrap(child.Setter(g2)) = parent.Setter(g1 ∘ g2)`
  together with the arithmetic of `g1 ∘ g2`;
* `SummaryInto` / `SummarizeInto` (both node kinds) = `summarizeInto`, root preserved;
* `ZeroNode(d)` is the root of the materialised zero tree of depth `d`, defined for `d ≤ 64`;
* any client program over the link API (`LinkExpr`) builds the link given by its reference
  semantics (`LinkExpr.den`: composition of one-stage writes).

"The original is unchanged / off-path nodes are the identical objects" is vacuous on immutable
model values; on the Go side every op checks it by pointer identity and re-dumping
(`new=1 other=1 unchanged=1 shared=1 self=1 kids=1`).
-/
import ZtypV.Proofs.Tree2
namespace ZtypV.Props.C11
open ZtypV ZtypV.TreeNav ZtypV.TreeNav2

/-- a small concrete pair "hash" for the non-vacuity examples -/
private def hx : HashFn := fun a b => a.take 1 ++ b.take 1 ++ [1]
private def d1 : Node := .leaf [1]
private def d2 : Node := .leaf [2]
private def d3 : Node := .leaf [3]
private def d9 : Node := .leaf [9]

/-! ## accessors, `NewPairNode`, rebinding -/

/-- `NewPairNode(a, b)`: not a leaf, children are `a` and `b`, root is `h(a.root, b.root)` -/
theorem C11b_newPairNode (h : HashFn) (a b : Node) :
    (newPairNode a b).isLeaf = false ∧ (newPairNode a b).left = .ok a ∧ (newPairNode a b).right = .ok b ∧
    (newPairNode a b).root h = h (a.root h) (b.root h) :=
  ⟨rfl, rfl, rfl, rfl⟩

/-- every node is a leaf — then `Left/Right/RebindLeft/RebindRight` are navigation errors — or
    it is the pair of its `Left()` and `Right()` -/
theorem C11b_accessors (n : Node) (v : Node) :
    (n.isLeaf = true ∧ n.left = .error .nav ∧ n.right = .error .nav ∧
      n.rebindLeft v = .error .nav ∧ n.rebindRight v = .error .nav) ∨
    (n.isLeaf = false ∧ ∃ l r, n.left = .ok l ∧ n.right = .ok r ∧ n = newPairNode l r) := by
  cases n with
  | leaf x => exact Or.inl ⟨rfl, rfl, rfl, rfl, rfl⟩
  | pair l r => exact Or.inr ⟨rfl, l, r, rfl, rfl, rfl⟩

example : d1.isLeaf = true ∧ (Node.pair d1 d2).isLeaf = false := ⟨rfl, rfl⟩

/-- `Left()` / `Right()` are the getters of the generalized indices 2 and 3 -/
theorem C11b_left_right_get (n : Node) :
    n.left = getNode n [false] ∧ n.right = getNode n [true] ∧ gbits 2 = [false] ∧ gbits 3 = [true] := by
  refine ⟨?_, ?_, by decide, by decide⟩ <;> cases n <;> simp [Node.left, Node.right]

/-- `RebindLeft`: the result's left child is the new node, its right child is the old right
    child, it is not a leaf, and its root is `h(new.root, old right.root)`; it fails (navigation
    error) exactly on a leaf -/
theorem C11b_rebindLeft (h : HashFn) (n v n' : Node) :
    n.rebindLeft v = .ok n' →
    n'.left = .ok v ∧ n'.right = n.right ∧ n'.isLeaf = false ∧
    ∃ r, n.right = .ok r ∧ n'.root h = h (v.root h) (r.root h) := by
  cases n with
  | leaf x => intro hs; cases hs
  | pair l r => intro hs; cases hs; exact ⟨rfl, rfl, rfl, r, rfl, rfl⟩

theorem C11b_rebindRight (h : HashFn) (n v n' : Node) :
    n.rebindRight v = .ok n' →
    n'.right = .ok v ∧ n'.left = n.left ∧ n'.isLeaf = false ∧
    ∃ l, n.left = .ok l ∧ n'.root h = h (l.root h) (v.root h) := by
  cases n with
  | leaf x => intro hs; cases hs
  | pair l r => intro hs; cases hs; exact ⟨rfl, rfl, rfl, l, rfl, rfl⟩

theorem C11b_rebind_ok_iff (n v : Node) :
    ((∃ n', n.rebindLeft v = .ok n') ↔ n.isLeaf = false) ∧
    ((∃ n', n.rebindRight v = .ok n') ↔ n.isLeaf = false) ∧
    (n.isLeaf = true → n.rebindLeft v = .error .nav ∧ n.rebindRight v = .error .nav) := by
  cases n with
  | leaf x => simp [Node.rebindLeft, Node.rebindRight, Node.isLeaf]
  | pair l r => simp [Node.rebindLeft, Node.rebindRight, Node.isLeaf]

/-- rebinding is the write at generalized index 2 / 3 -/
theorem C11b_rebind_is_set (h : HashFn) (n v : Node) (e : Bool) (hn : n.isLeaf = false) :
    n.rebindLeft v = setNode h n [false] e v ∧ n.rebindRight v = setNode h n [true] e v := by
  cases n with
  | leaf x => cases hn
  | pair l r => simp [Node.rebindLeft, Node.rebindRight, newPairNode]

example : (Node.pair d1 d2).rebindLeft d9 = .ok (.pair d9 d2) ∧ (Node.pair d1 d2).rebindRight d9 = .ok (.pair d1 d9)
    ∧ d1.rebindLeft d9 = .error .nav := ⟨rfl, rfl, rfl⟩

/-! ## `Identity`, `Wrap` -/

/-- `outer.Wrap(inner)` applies `inner` first and hands the result to `outer`; an error of
    `inner` is returned unchanged and `outer` is not run -/
theorem C11b_wrap_apply (outer inner : Link) (v : Node) :
    Link.wrap outer inner v = (inner v >>= outer) :=
  wrap_apply outer inner v

theorem C11b_wrap_ok (outer inner : Link) (v w : Node) :
    inner v = .ok w → Link.wrap outer inner v = outer w := by
  intro hi; rw [wrap_apply, hi]; rfl

theorem C11b_wrap_error (outer inner : Link) (v : Node) (er : Err) :
    inner v = .error er → Link.wrap outer inner v = .error er := by
  intro hi; rw [wrap_apply, hi]; rfl

/-- `Identity` is neutral on both sides -/
theorem C11b_identity_neutral (a : Link) :
    Link.wrap identity a = a ∧ Link.wrap a identity = a ∧ ∀ v, identity v = .ok v :=
  ⟨wrap_identity_left a, wrap_identity_right a, fun _ => rfl⟩

/-- `Wrap` is associative -/
theorem C11b_wrap_assoc (a b c : Link) :
    Link.wrap (Link.wrap a b) c = Link.wrap a (Link.wrap b c) :=
  wrap_assoc a b c

/-- … and not commutative: the order of the arguments matters -/
example : Link.wrap (Node.pair d1 d2).rebindLeft (Node.pair d3 d3).rebindRight d9 = .ok (.pair (.pair d3 d9) d2)
    ∧ Link.wrap (Node.pair d3 d3).rebindRight (Node.pair d1 d2).rebindLeft d9 = .ok (.pair d3 (.pair d9 d2)) :=
  ⟨rfl, rfl⟩

/-! ## getters through the interface methods -/

/-- `PairNode.Getter` (root case, close case, bit-iterated `Left()/Right()` descent) and
    `Root.Getter` are the plain descent; in particular index 1 returns the node itself -/
theorem C11b_getter (n : Node) (p : List Bool) :
    n.getter p = getNode n p ∧ n.getter [] = .ok n ∧ getLoop n p = getNode n p :=
  ⟨getter_eq n p, by rw [getter_eq]; simp, getLoop_eq n p⟩

example : (Node.pair d1 (.pair d2 d3)).getter [true, false] = .ok d2 ∧ d1.getter [true] = .error .nav := ⟨rfl, rfl⟩

/-! ## the two-stage setter is the one-stage write -/

/-- `n.Setter(target, e)` followed by applying the link to `v` is `setNode` (value and error) -/
theorem C11b_setter_apply (h : HashFn) (n : Node) (p : List Bool) (e : Bool) (v : Node) :
    (n.setter h p e >>= fun k => k v) = setNode h n p e v :=
  setter_apply h n p e v

/-- a link obtained from `Setter` computes `setNode` for every value, on every application,
    and never fails -/
theorem C11b_setter_link (h : HashFn) (n : Node) (p : List Bool) (e : Bool) (k : Link) :
    n.setter h p e = .ok k →
    (∀ v, k v = setNode h n p e v) ∧ (∀ v, ∃ n', k v = .ok n') := by
  intro hs
  refine ⟨setter_ok h n p e k hs, fun v => ?_⟩
  obtain ⟨s, hs'⟩ := setter_total h n p e k hs v
  exact ⟨s, by rw [setter_ok h n p e k hs v, hs']⟩

/-- the setter fails at construction exactly when the write fails (for any, equivalently
    every, value), with the same error — a navigation error, never a panic -/
theorem C11b_setter_error (h : HashFn) (n : Node) (p : List Bool) (e : Bool) (er : Err) (v : Node) :
    (n.setter h p e = .error er ↔ setNode h n p e v = .error er) ∧
    (n.setter h p e = .error er → er = .nav) :=
  ⟨setter_error_iff h n p e er v,
   fun hs => setNode_error_nav h n p e v er ((setter_error_iff h n p e er v).1 hs)⟩

/-- at the root both node kinds return `Identity` -/
theorem C11b_setter_root (h : HashFn) (n : Node) (e : Bool) : n.setter h [] e = .ok identity := by
  cases n <;> rfl

example : (do let k ← (Node.pair d1 (.pair d2 d3)).setter hx [true, false] false; k d9)
    = .ok (.pair d1 (.pair d9 d3)) := rfl
example : (do let k ← (Node.leaf (zh hx 2)).setter hx [true, false] true; k d9)
    = .ok (.pair (.leaf (zh hx 1)) (.pair d9 (.leaf (zh hx 0)))) := rfl
example : (match d1.setter hx [true] false with | .error e => some e | .ok _ => none) = some .nav := rfl

/-! ## `DeeperSetter` called directly -/

/-- On a target of at least two bits `a :: b :: p`, `DeeperSetter(link, node, target, e)` ignores
    the first bit `a`, fails exactly when the write along `b :: p` below `node` fails, and
    otherwise yields the link "write `v` below `node` along `b :: p`, then `link`". -/
theorem C11b_deeperSetter (h : HashFn) (link : Link) (node : Node) (a b : Bool) (p : List Bool) (e : Bool) :
    (∀ k, deeperSetter h link node (a :: b :: p) e = .ok k →
        ∀ v, k v = (setNode h node (b :: p) e v >>= link)) ∧
    (∀ er, deeperSetter h link node (a :: b :: p) e = .error er →
        ∀ v, setNode h node (b :: p) e v = .error er) ∧
    (∀ k, deeperSetter h link node (a :: b :: p) e = .ok k →
        ∀ v, ∃ s, setNode h node (b :: p) e v = .ok s) := by
  rw [deeperSetter_long]
  exact ⟨fun k hk => deeperLoop_ok h _ _ _ _ k hk, fun er hk => deeperLoop_error h _ _ _ _ er hk,
    fun k hk => deeperLoop_total h _ _ _ _ k hk⟩

/-- it panics exactly outside its documented precondition (target of fewer than two bits, i.e.
    generalized index below 4); inside, its only failure is the navigation error -/
theorem C11b_deeperSetter_panic (h : HashFn) (link : Link) (node : Node) (p : List Bool) (e : Bool) :
    (p.length < 2 → deeperSetter h link node p e = .error .panic) ∧
    (2 ≤ p.length → ∀ er, deeperSetter h link node p e = .error er → er = .nav) := by
  refine ⟨deeperSetter_short h link node p e, fun hp er hs => ?_⟩
  match p, hp with
  | a :: b :: q, _ =>
    rw [deeperSetter_long] at hs
    exact setNode_error_nav h node (b :: q) e node er (deeperLoop_error h _ _ _ _ er hs node)

theorem C11b_deeperSetter_index (g : UInt64) : (gbits g.toNat).length < 2 ↔ g < 4 := by
  rw [gbits_length_lt_two]
  show g.toNat < (4 : UInt64).toNat ↔ g < 4
  exact UInt64.lt_iff_toNat_lt.symm

/-- `PairNode.Setter` for deeper targets is its own `DeeperSetter` call -/
theorem C11b_pairSetter_deeper (h : HashFn) (l r : Node) (b c : Bool) (p : List Bool) (e : Bool) :
    (Node.pair l r).setter h (b :: c :: p) e =
      if b then deeperSetter h (Node.pair l r).rebindRight r (b :: c :: p) e
      else deeperSetter h (Node.pair l r).rebindLeft l (b :: c :: p) e := by
  cases b <;> rfl

example : (do let k ← deeperSetter hx (Node.pair d1 d2).rebindRight (.pair d2 d3) [true, false] false; k d9)
    = .ok (.pair d1 (.pair d9 d3)) := rfl
example : (match deeperSetter hx identity d1 [true] false with | .error e => some e | .ok _ => none) = some .panic := rfl

/-! ## composition of setters -/

/-- a write along `q ++ r`, where position `q` exists and holds `s`: write along `r` inside `s`,
    then write the result back at `q` (with either expansion flag) -/
theorem C11b_set_append (h : HashFn) (n : Node) (q r : List Bool) (e e' : Bool) (v s : Node) :
    getNode n q = .ok s →
    setNode h n (q ++ r) e v = (setNode h s r e v >>= fun s' => setNode h n q e' s') :=
  setNode_append_of_get h n q r e e' v s

/-- `parent.Setter(q, e1).Wrap(child.Setter(r, e))` equals `parent.Setter(q ++ r, e)`, where
    `child` is the node at `q`: the latter exists and both links agree on every value -/
theorem C11b_setter_compose (h : HashFn) (n s : Node) (q r : List Bool) (e1 e : Bool) (k1 k2 : Link) :
    getNode n q = .ok s → n.setter h q e1 = .ok k1 → s.setter h r e = .ok k2 →
    ∃ k12, n.setter h (q ++ r) e = .ok k12 ∧ ∀ v, k12 v = Link.wrap k1 k2 v :=
  setter_compose h n s q r e1 e k1 k2

/-- the premises are exactly what is needed: the outer setter always exists at an existing
    position, and the concatenated setter exists only if the inner one does -/
theorem C11b_setter_compose_exists (h : HashFn) (n s : Node) (q r : List Bool) (e1 e : Bool) :
    getNode n q = .ok s →
    (∃ k1, n.setter h q e1 = .ok k1) ∧
    ((∃ k12, n.setter h (q ++ r) e = .ok k12) ↔ (∃ k2, s.setter h r e = .ok k2)) := by
  intro hg
  obtain ⟨k1, h1⟩ := setter_exists_of_get h n q e1 s hg
  refine ⟨⟨k1, h1⟩, ?_, ?_⟩
  · rintro ⟨k12, h12⟩; exact setter_compose_inner h n s q r e k12 hg h12
  · rintro ⟨k2, h2⟩
    obtain ⟨k12, h12, _⟩ := setter_compose h n s q r e1 e k1 k2 hg h1 h2
    exact ⟨k12, h12⟩

/-- the generalized index of the concatenated path (what the harness computes with shifts):
    `g1 · 2^depth(g2) + (g2 − 2^depth(g2))` -/
theorem C11b_gindex_concat (g1 g2 : Nat) (h1 : 0 < g1) (h2 : 0 < g2) :
    gbits (g1 * 2 ^ Nat.log2 g2 + (g2 - 2 ^ Nat.log2 g2)) = gbits g1 ++ gbits g2 ∧
    gindexOfPath (gbits g1 ++ gbits g2) = g1 * 2 ^ Nat.log2 g2 + (g2 - 2 ^ Nat.log2 g2) := by
  refine ⟨gbits_concat g1 g2 h1 h2, ?_⟩
  rw [gindexOfPath_concat, gindexOfPath_gbits g1 h1, gindexOfPath_gbits g2 h2, gbits_length]

example : getNode (.pair d1 (.pair d2 d3)) [true] = .ok (.pair d2 d3)
    ∧ (do let k1 ← (Node.pair d1 (.pair d2 d3)).setter hx [true] false
          let k2 ← (Node.pair d2 d3).setter hx [false] false
          Link.wrap k1 k2 d9) = .ok (.pair d1 (.pair d9 d3))
    ∧ gbits (3 * 2 ^ Nat.log2 2 + (2 - 2 ^ Nat.log2 2)) = [true, false] := ⟨rfl, rfl, by decide⟩

/-! ## summaries -/

/-- `tree.SummaryInto(n, target, h)` followed by calling the link is `summarizeInto`;
    the method `SummarizeInto` of either node kind agrees with the function -/
theorem C11b_summaryInto (h : HashFn) (n : Node) (p : List Bool) :
    (summaryInto h n p >>= fun sl => sl ()) = summarizeInto h n p ∧
    (n.summarizeInto h p >>= fun sl => sl ()) = summarizeInto h n p :=
  ⟨summaryInto_apply h n p, summarizeInto_method_apply h n p⟩

/-- summarising preserves the Merkle root, puts the root leaf of the old subtree at the
    position, and succeeds exactly at existing positions -/
theorem C11b_summaryInto_root (h : HashFn) (n : Node) (p : List Bool) (sl : SummaryLink) (n' : Node) :
    summaryInto h n p = .ok sl → sl () = .ok n' →
    n'.root h = n.root h ∧ ∃ s, getNode n p = .ok s ∧ getNode n' p = .ok (.leaf (s.root h)) := by
  intro h1 h2
  have hs : summarizeInto h n p = .ok n' := by
    rw [← summaryInto_apply, h1]; exact h2
  obtain ⟨s, hg, hset⟩ := (summarizeInto_eq h n p n').1 hs
  exact ⟨setNode_root_same h n p _ n' s hset hg rfl, s, hg, getNode_setNode h n p false _ n' hset⟩

theorem C11b_summaryInto_ok_iff (h : HashFn) (n : Node) (p : List Bool) :
    (∃ sl, summaryInto h n p = .ok sl) ↔ ∃ s, getNode n p = .ok s := by
  unfold summaryInto
  rw [getter_eq]
  constructor
  · rintro ⟨sl, hs⟩
    cases hk : n.setter h p false with
    | error er => rw [hk] at hs; cases hs
    | ok k =>
      rw [hk] at hs
      cases hg : getNode n p with
      | error er => rw [hg] at hs; cases hs
      | ok s => exact ⟨s, rfl⟩
  · rintro ⟨s, hg⟩
    obtain ⟨k, hk⟩ := setter_exists_of_get h n p false s hg
    exact ⟨_, by rw [hk, hg]⟩

/-- the link produced by `SummaryInto` never fails -/
theorem C11b_summaryInto_total (h : HashFn) (n : Node) (p : List Bool) (sl : SummaryLink) :
    summaryInto h n p = .ok sl → ∃ n', sl () = .ok n' := by
  intro h1
  have := summaryInto_apply h n p
  rw [h1] at this
  obtain ⟨s, hg⟩ := (C11b_summaryInto_ok_iff h n p).1 ⟨sl, h1⟩
  obtain ⟨n', hn'⟩ := (setNode_false_ok_iff_get h n p (.leaf (s.root h))).2 ⟨s, hg⟩
  exact ⟨n', by rw [show sl () = summarizeInto h n p from this]; exact (summarizeInto_eq h n p n').2 ⟨s, hg, hn'⟩⟩

example : (do let sl ← summaryInto hx (.pair d1 (.pair d2 d3)) [true]; sl ()) = .ok (.pair d1 (.leaf [2, 3, 1]))
    ∧ (Node.pair d1 (.pair d2 d3)).root hx = (Node.pair d1 (.leaf [2, 3, 1])).root hx := ⟨rfl, rfl⟩

/-! ## zero nodes -/

/-- `ZeroNode(d)` is defined exactly for `d ≤ 64` (panic beyond the table); it is a leaf whose
    root is the root of the materialised zero tree `SubtreeFillToDepth(&Root{}, d)` -/
theorem C11b_zeroNode (h : HashFn) (d : Nat) :
    (d ≤ 64 → ∃ n, zeroNodeG h d = .ok n ∧ n.isLeaf = true ∧
        n.root h = (fillToDepth (.leaf z0) d).root h ∧ n = zeroNode h d) ∧
    (64 < d → zeroNodeG h d = .error .panic) := by
  constructor
  · intro hd
    refine ⟨zeroNode h d, by simp [zeroNodeG]; omega, rfl, ?_, rfl⟩
    exact (fullZero_root h d).symm
  · intro hd
    simp [zeroNodeG]; omega

example : zeroNodeG hx 2 = .ok (.leaf [0, 0, 1]) ∧ (fillToDepth (.leaf z0) 2).root hx = [0, 0, 1] := ⟨rfl, rfl⟩

/-! ## raw `Gindex64` entry points and client programs -/

/-- on raw indices (0 included) the two-stage functions agree with `setG` / `getG` / `sumG` -/
theorem C11b_entry_points (h : HashFn) (n : Node) (g : UInt64) (e : Bool) (v : Node) :
    (setterG h n g e >>= fun k => k v) = setG h n g e v ∧
    getterG n g = getG n g ∧
    (summaryIntoG h n g >>= fun sl => sl ()) = sumG h n g :=
  ⟨setterG_apply h n g e v, getterG_eq n g, summaryIntoG_apply h n g⟩

theorem C11b_entry_points_path (h : HashFn) (n : Node) (g : UInt64) (e : Bool) (k : Link) (hg : g ≠ 0) :
    setterG h n g e = n.setter h (gbits g.toNat) e ∧ getterG n g = n.getter (gbits g.toNat) ∧
    deeperSetterG h k n g e = deeperSetter h k n (gbits g.toNat) e := by
  simp [setterG, getterG, deeperSetterG, hg]

/-- Every client program over the link API — `Identity`, `RebindLeft/Right` method values,
    `Setter`, `DeeperSetter`, `Wrap`, nested arbitrarily — builds (or fails to build) exactly the
    link given by its reference semantics: Kleisli composition of one-stage writes. -/
theorem C11b_eval_eq_den (h : HashFn) (x : LinkExpr) : x.eval h = x.den h :=
  eval_eq_den h x

example : (match (do let k ← (LinkExpr.wrap (.setter (.pair d1 d2) 3 false) (.deeper .id (.pair d2 d3) 5 false)).eval hx; k d9) with
    | .ok n => decide (n = .pair d1 (.pair d2 d9))
    | .error _ => false) = true := by decide

end ZtypV.Props.C11
