/-
C11 — Tree navigation obeys get/set/expand/summarise laws.

All theorems are about the model functions that the driver executes (`getNode`, `setNode`,
`summarizeInto`, `fillTo*`, `toPath`/`gbits` of `ZtypV.Model.Tree` and the raw-integer entry
points of `ZtypV.Model.TreeG`), for every tree, every path and every pair hash `h`.

"The original tree is unchanged" has no theorem: model trees are immutable values, so the
statement is vacuous there; on the Go side it is checked per operation (structure dump and root
of the original before/after, pointer identity of every off-path node: `unchanged=1 shared=1`).
-/
import ZtypV.Proofs.Tree
namespace ZtypV.Props.C11
open ZtypV ZtypV.TreeNav

/-- a small concrete pair "hash" for the non-vacuity examples -/
private def hx : HashFn := fun a b => a.take 1 ++ b.take 1 ++ [1]
private def d1 : Node := .leaf [1]
private def d2 : Node := .leaf [2]
private def d3 : Node := .leaf [3]
private def d9 : Node := .leaf [9]

/-! ## get / set -/

/-- reading back the position just written returns the written node (with or without expansion) -/
theorem C11_get_set (h : HashFn) (n : Node) (p : List Bool) (e : Bool) (v n' : Node) :
    setNode h n p e v = .ok n' → getNode n' p = .ok v :=
  getNode_setNode h n p e v n'

example : setNode hx (.pair d1 (.pair d2 d3)) [true, false] false d9 = .ok (.pair d1 (.pair d9 d3)) := rfl
example : setNode hx (.leaf (zh hx 2)) [true, false] true d9
    = .ok (.pair (.leaf (zh hx 1)) (.pair d9 (.leaf (zh hx 0)))) := rfl

/-- every position off the written path (neither a prefix of it nor below it) keeps the
    identical node, and a position missing before is still missing (no expansion) -/
theorem C11_off_path (h : HashFn) (n : Node) (p q : List Bool) (v n' : Node)
    (h1 : ¬ p <+: q) (h2 : ¬ q <+: p) :
    setNode h n p false v = .ok n' → getNode n' q = getNode n q := by
  obtain ⟨c, b, p', q', rfl, rfl⟩ := diverge_of_not_prefix p q h1 h2
  exact getNode_setNode_diverge_false h n c b p' q' v n'

example : ¬ [true, false] <+: [false] ∧ ¬ [false] <+: [true, false] := by decide

/-- with expansion: every off-path position that existed keeps the identical node … -/
theorem C11_off_path_expand (h : HashFn) (n : Node) (p q : List Bool) (e : Bool) (v n' x : Node)
    (h1 : ¬ p <+: q) (h2 : ¬ q <+: p) :
    setNode h n p e v = .ok n' → getNode n q = .ok x → getNode n' q = .ok x := by
  obtain ⟨c, b, p', q', rfl, rfl⟩ := diverge_of_not_prefix p q h1 h2
  exact getNode_setNode_diverge h n c b p' q' e v n' x

example : setNode hx (.pair (.pair d1 d2) (.leaf (zh hx 1))) [true, true] true d9
      = .ok (.pair (.pair d1 d2) (.pair (.leaf z0) d9))
    ∧ getNode (.pair (.pair d1 d2) (.leaf (zh hx 1))) [false, true] = .ok d2
    ∧ ¬ [true, true] <+: [false, true] ∧ ¬ [false, true] <+: [true, true] :=
  ⟨rfl, rfl, by decide, by decide⟩

/-- … and, precisely, the sibling of every step of the written path is the original sibling or,
    where the original had no such position (inside an expanded zero summary, only with
    `expand`), the zero node of the remaining height. -/
theorem C11_sibling (h : HashFn) (n : Node) (c : List Bool) (b : Bool) (p' : List Bool) (e : Bool)
    (v n' : Node) :
    setNode h n (c ++ b :: p') e v = .ok n' →
    ∃ s, getNode n' (c ++ [!b]) = .ok s ∧
      (getNode n (c ++ [!b]) = .ok s ∨
        (e = true ∧ getNode n (c ++ [!b]) = .error .nav ∧ s = zeroNode h p'.length)) :=
  setNode_sibling h n c b p' e v n'

example : setNode hx (.pair d1 (.leaf (zh hx 1))) ([true] ++ false :: []) true d9
    = .ok (.pair d1 (.pair d9 (.leaf (zh hx 0)))) := rfl

/-- at a strict prefix `q` of the written path the new tree holds the rebuilt spine node: the
    off-path child is the original child, the on-path child is the rewritten subtree -/
theorem C11_spine (h : HashFn) (n : Node) (q : List Bool) (b : Bool) (r : List Bool) (v n' : Node) :
    setNode h n (q ++ b :: r) false v = .ok n' →
    ∃ l rr c', getNode n q = .ok (.pair l rr) ∧
      setNode h (if b then rr else l) r false v = .ok c' ∧
      getNode n' q = .ok (if b then .pair l c' else .pair c' rr) :=
  setNode_spine h n q b r v n'

example : setNode hx (.pair d1 (.pair d2 d3)) ([true] ++ false :: []) false d9 = .ok (.pair d1 (.pair d9 d3)) := rfl

/-- a write along `q ++ r` is: read at `q`, write at `r` inside, write the result back at `q` -/
theorem C11_set_append (h : HashFn) (n : Node) (q r : List Bool) (v : Node) :
    setNode h n (q ++ r) false v =
      (getNode n q >>= fun s => setNode h s r false v >>= fun s' => setNode h n q false s') :=
  setNode_append h n q r v

/-- Whether, and with which error, `setNode` fails does not depend on the node being bound:
    this justifies modelling Go's two-stage `Setter` + `Link` as one function. -/
theorem C11_error_indep (h : HashFn) (n : Node) (p : List Bool) (e : Bool) (v w : Node) (er : Err) :
    setNode h n p e v = .error er → setNode h n p e w = .error er :=
  setNode_error_indep h n p e v w er

theorem C11_ok_indep (h : HashFn) (n : Node) (p : List Bool) (e : Bool) (v w n' : Node) :
    setNode h n p e v = .ok n' → ∃ n'', setNode h n p e w = .ok n'' :=
  setNode_ok_indep h n p e v w n'

example : setNode hx d1 [true] false d2 = .error .nav := rfl

/-! ## missing positions -/

/-- reading through a leaf is a navigation error -/
theorem C11_missing_get (n : Node) (q : List Bool) (x : Root) (b : Bool) (r : List Bool) :
    getNode n q = .ok (.leaf x) → getNode n (q ++ b :: r) = .error .nav :=
  fun hq => getNode_through_leaf hq b r

/-- writing through a leaf without expansion is a navigation error -/
theorem C11_missing_set (h : HashFn) (n : Node) (q : List Bool) (x : Root) (b : Bool) (r : List Bool) (v : Node) :
    getNode n q = .ok (.leaf x) → setNode h n (q ++ b :: r) false v = .error .nav :=
  fun hq => setNode_through_leaf h hq b r v

example : getNode (.pair d1 d2) [false] = .ok (.leaf [1]) := rfl
example : setNode hx (.pair d1 d2) ([false] ++ true :: [false]) false d9 = .error .nav := rfl

/-- the only failure of navigation is the navigation error — never a panic or another error -/
theorem C11_no_panic (h : HashFn) (n : Node) (p : List Bool) (e : Bool) (v : Node) (er : Err) :
    (getNode n p = .error er → er = .nav) ∧
    (setNode h n p e v = .error er → er = .nav) ∧
    (summarizeInto h n p = .error er → er = .nav) :=
  ⟨getNode_error_nav n p er, setNode_error_nav h n p e v er, summarizeInto_error_nav h n p er⟩

/-- without expansion a write succeeds exactly at the positions that exist -/
theorem C11_set_ok_iff (h : HashFn) (n : Node) (p : List Bool) (v : Node) :
    (∃ n', setNode h n p false v = .ok n') ↔ (∃ s, getNode n p = .ok s) :=
  setNode_false_ok_iff_get h n p v

/-! ## expansion -/

/-- Writing with expansion is *the same tree and the same outcome* as writing without expansion
    into the tree whose zero summaries on the path were materialised level by level. -/
theorem C11_expand_path (h : HashFn) (n : Node) (p : List Bool) (v : Node) :
    setNode h n p true v = setNode h (materialise h n p) p false v :=
  setNode_expand_eq h n p v

/-- Writing with expansion into a zero-subtree summary gives the same Merkle root (and the same
    error, if any) as writing into the fully materialised zero subtree (`materialiseFull` puts
    the complete tree of `2^k` zero chunks in place of the summary — also when the anchor
    itself is the summary). -/
theorem C11_expand (h : HashFn) (n : Node) (p : List Bool) (v : Node) :
    (setNode h n p true v).map (Node.root h)
      = (setNode h (materialiseFull h n p) p false v).map (Node.root h) :=
  (setNode_materialiseFull_root h n p v).symm

/-- materialising does not change the root -/
theorem C11_materialise_root (h : HashFn) (n : Node) (p : List Bool) :
    (materialise h n p).root h = n.root h ∧ (materialiseFull h n p).root h = n.root h :=
  ⟨materialise_root h n p, materialiseFull_root h n p⟩

/-- the expanding write succeeds exactly on zero-shaped paths … -/
theorem C11_expand_ok_iff (h : HashFn) (n : Node) (p : List Bool) (v : Node) :
    ZeroShaped h n p ↔ ∃ n', setNode h n p true v = .ok n' :=
  zeroShaped_iff_expand_ok h n p v

/-- … and then both writes succeed with equal roots (the form of the property text) -/
theorem C11_expand_ok (h : HashFn) (n : Node) (p : List Bool) (v : Node) (hz : ZeroShaped h n p) :
    ∃ n' m', setNode h n p true v = .ok n' ∧ setNode h (materialiseFull h n p) p false v = .ok m' ∧
      n'.root h = m'.root h := by
  obtain ⟨n', hn⟩ := (zeroShaped_iff_expand_ok h n p v).1 hz
  have := C11_expand h n p v
  rw [hn] at this
  cases hm : setNode h (materialiseFull h n p) p false v with
  | error er => rw [hm] at this; cases this
  | ok m' =>
    rw [hm] at this
    exact ⟨n', m', hn, rfl, by simpa [Except.map] using this⟩

example : ZeroShaped hx (.pair d1 (.leaf (zh hx 2))) [true, false, true] := by
  simp [ZeroShaped]
example : materialiseFull hx (.leaf (zh hx 1)) [true] = .pair (.leaf z0) (.leaf z0) := by decide

/-- with expansion a leaf on the path that is not the zero hash of its height is never replaced:
    navigation error -/
theorem C11_expand_only_zero (h : HashFn) (n : Node) (q : List Bool) (x : Root) (b : Bool)
    (r : List Bool) (v : Node) :
    getNode n q = .ok (.leaf x) → x ≠ zh h (r.length + 1) →
    setNode h n (q ++ b :: r) true v = .error .nav :=
  fun hq hx => setNode_expand_nonzero h hq b r hx v

example : getNode (.pair d1 d2) [true] = .ok (.leaf [2]) ∧ ([2] : Root) ≠ zh hx ([false].length + 1) :=
  ⟨rfl, by decide⟩

/-! ## summarising -/

/-- summarising any position preserves the Merkle root -/
theorem C11_summarize (h : HashFn) (n : Node) (p : List Bool) (n' : Node) :
    summarizeInto h n p = .ok n' → n'.root h = n.root h := by
  intro hs
  obtain ⟨s, hg, hset⟩ := (summarizeInto_eq h n p n').1 hs
  exact setNode_root_same h n p _ n' s hset hg rfl

/-- it is the write of the subtree's root at that position (so all `setNode` laws apply to the
    other positions), it succeeds exactly where the position exists, and reads back as a leaf -/
theorem C11_summarize_eq (h : HashFn) (n : Node) (p : List Bool) (n' : Node) :
    summarizeInto h n p = .ok n' ↔
      ∃ s, getNode n p = .ok s ∧ setNode h n p false (.leaf (s.root h)) = .ok n' :=
  summarizeInto_eq h n p n'

theorem C11_summarize_get (h : HashFn) (n : Node) (p : List Bool) (n' : Node) :
    summarizeInto h n p = .ok n' → ∃ s, getNode n p = .ok s ∧ getNode n' p = .ok (.leaf (s.root h)) := by
  intro hs
  obtain ⟨s, hg, hset⟩ := (summarizeInto_eq h n p n').1 hs
  exact ⟨s, hg, getNode_setNode h n p false _ n' hset⟩

example : summarizeInto hx (.pair d1 (.pair d2 d3)) [true] = .ok (.pair d1 (.leaf [2, 3, 1]))
    ∧ getNode (.pair d1 (.pair d2 d3)) [true] = .ok (.pair d2 d3) ∧ (Node.pair d2 d3).root hx = [2, 3, 1] :=
  ⟨rfl, rfl, rfl⟩

theorem C11_summarize_ok_iff (h : HashFn) (n : Node) (p : List Bool) :
    (∃ n', summarizeInto h n p = .ok n') ↔ ∃ s, getNode n p = .ok s := by
  constructor
  · rintro ⟨n', hs⟩
    obtain ⟨s, hg, _⟩ := (summarizeInto_eq h n p n').1 hs
    exact ⟨s, hg⟩
  · rintro ⟨s, hg⟩
    obtain ⟨n', hn⟩ := (setNode_false_ok_iff_get h n p (.leaf (s.root h))).2 ⟨s, hg⟩
    exact ⟨n', (summarizeInto_eq h n p n').2 ⟨s, hg, hn⟩⟩

example : summarizeInto hx (.pair d1 (.pair d2 d3)) [true] = .ok (.pair d1 (.leaf [2, 3, 1])) := rfl

/-! ## subtree filling (proved in `ZtypV.Proofs.Fill`) -/

theorem C11_fill_root (h : HashFn) (d : Nat) (ns : List Node) (n : Node) :
    fillToContents h d ns = .ok n → n.root h = merk h d (ns.map (Node.root h)) :=
  fill_root h d ns n

theorem C11_fillToDepth_root (h : HashFn) (b : Node) (d : Nat) :
    (fillToDepth b d).root h = merk h d (List.replicate (2 ^ d) (b.root h)) :=
  fillToDepth_root h b d

/-- needs `0 < len`: for length 0 and depth ≥ 1 the code builds the length-1 tree
    (`fillToLength_zero_len`), at depth 0 it panics (`fillToLength_zero_panic`) -/
theorem C11_fillToLength_root (h : HashFn) (b : Node) (d len : Nat) (n : Node) (hpos : 0 < len) :
    fillToLength h b d len = .ok n → n.root h = merk h d (List.replicate len (b.root h)) :=
  fillToLength_root h b d len n hpos

example : fillToContents hx 2 [d1, d2, d3] = .ok (.pair (.pair d1 d2) (.pair d3 (.leaf z0))) := rfl
example : fillToLength hx d1 2 3 = .ok (.pair (.pair d1 d1) (.pair d1 (.leaf z0))) := rfl

/-! ## generalized indices as paths -/

/-- `ToGindex64(i, d)` yields a path of length `d` … -/
theorem C11_toPath_length (i d : Nat) (p : List Bool) : toPath i d = .ok p → p.length = d := by
  intro hp
  obtain ⟨_, _, rfl⟩ := toPath_ok hp
  simp

/-- … whose `k`-th step is bit `d-1-k` of `i` (the binary expansion of `i`, most significant first) … -/
theorem C11_toPath_bits (i d : Nat) (p : List Bool) (k : Nat) (hk : k < d) :
    toPath i d = .ok p → p[k]? = some (i.testBit (d - 1 - k)) := by
  intro hp
  obtain ⟨_, _, rfl⟩ := toPath_ok hp
  simp [hk]

/-- … it is defined exactly for `d < 64`, `i < 2^d`, and is the bit path of the generalized index `2^d + i` -/
theorem C11_toPath_gbits (i d : Nat) (p : List Bool) :
    toPath i d = .ok p → d < 64 ∧ i < 2 ^ d ∧ p = gbits (2 ^ d + i) ∧ gindexOfPath p = 2 ^ d + i := by
  intro hp
  obtain ⟨hd, hi, _⟩ := toPath_ok hp
  have hg := toPath_eq_gbits hp
  refine ⟨hd, hi, hg, ?_⟩
  rw [hg, gindexOfPath_gbits]
  have := Nat.two_pow_pos d; omega

theorem C11_toPath_ok (i d : Nat) (hd : d < 64) (hi : i < 2 ^ d) : ∃ p, toPath i d = .ok p := by
  unfold toPath
  rw [if_neg (by omega), if_neg (by omega)]
  exact ⟨_, rfl⟩

/-- `gbits` is the binary expansion after the leading one: root ↦ [], left child appends 0,
    right child appends 1; `gindexOfPath` is its inverse -/
theorem C11_gbits (g : Nat) (hg : 0 < g) (b : Bool) :
    gbits 1 = [] ∧ gbits (2 * g + b.toNat) = gbits g ++ [b] ∧ (gbits g).length = Nat.log2 g ∧
    gindexOfPath (gbits g) = g :=
  ⟨gbits_one, gbits_step g hg b, gbits_length g, gindexOfPath_gbits g hg⟩

theorem C11_gbits_gindexOfPath (p : List Bool) : gbits (gindexOfPath p) = p := gbits_gindexOfPath p

example : toPath 5 3 = .ok [true, false, true] := rfl
example : gbits 13 = [true, false, true] := by decide

/-! ## the raw-integer entry points coincide with the path model on valid generalized indices -/

theorem C11_entry_points (h : HashFn) (n : Node) (g : UInt64) (e : Bool) (v : Node) (hg : g ≠ 0) :
    getG n g = getNode n (gbits g.toNat) ∧
    setG h n g e v = setNode h n (gbits g.toNat) e v ∧
    sumG h n g = summarizeInto h n (gbits g.toNat) := by
  simp [getG, setG, sumG, hg]

theorem C11_fill_entry_points (h : HashFn) (b : Node) (d len : Nat) (ns : List Node) (hd : d < 64) :
    fillcG h d ns = fillToContents h d ns ∧ filllG h b d len = fillToLength h b d len := by
  simp [fillcG, filllG, hd]

end ZtypV.Props.C11
