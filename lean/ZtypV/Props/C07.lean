import ZtypV.Spec
namespace ZtypV.Props.C07
theorem placeholder : True := trivial
end ZtypV.Props.C07
