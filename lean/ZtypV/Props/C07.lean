/-
C07  Hashing is incremental: cached subtrees are not rehashed.

Model H (`ZtypV/Model/Heap.lean`).  The quantity counted is the number of invocations of the
pair hash `h` (`Trace.calls`), the one the property names.  Hypothesis `NoZeroOut h`
(`h a b ≠ z0`): the Go memo uses the all-zero root as "unset" (`c.Value != Root{}`), so a pair whose
hash is the zero root would be rehashed on every request (`C07_zero_hash_counterexample`); for
SHA-256 this is an assumption about the hash function, listed in the trusted base.
-/
import ZtypV.Proofs.HeapCost
import ZtypV.Proofs.HeapExpand
namespace ZtypV.Props.C07
open ZtypV ZtypV.H

/-- A second hash-tree-root request on an unchanged node performs no hash call and no write. -/
theorem C07_second_free (h : HashFn) (hz : NoZeroOut h) {hp : Heap} (hw : WF hp) {x : Nat}
    (hx : x < hp.size) :
    (run h (Prog.root1 x) (run h (Prog.root1 x) hp).2.1).2.2.calls = 0
      ∧ (run h (Prog.root1 x) (run h (Prog.root1 x) hp).2.1).2.2.writes = []
      ∧ (run h (Prog.root1 x) (run h (Prog.root1 x) hp).2.1).2.1 = (run h (Prog.root1 x) hp).2.1 := by
  rw [run_root1 h hx]
  have hx' : x < (rootH h (x+1) hp x).2.1.size := by rw [rootH_size]; exact hx
  rw [run_root1 h hx']
  obtain ⟨e1, e2⟩ := rootH_top h (f := x) (rootH_topMemo_after h hz hw (Nat.lt_succ_self x) hx)
  exact ⟨by rw [e2]; rfl, by rw [e2]; rfl, e1⟩

example : (run exHash (Prog.root1 4) (run exHash (Prog.root1 4) exHeap).2.1).2.2.calls = 0 :=
  (C07_second_free exHash exHash_noZero (wfB_sound (by decide)) (by decide)).1

/-- the first request on `exHeap` does hash (3 distinct pairs: 2, 3, 4 — the shared pair 2 once) -/
example : (run exHash (Prog.root1 4) exHeap).2.2.calls = 3 := by decide

/-- The same with arbitrary work of a client (on this or other views: allocations, reads, other
    hash-tree-root requests) between the two requests: the node is still answered from its memo. -/
theorem C07_second_free_general (h : HashFn) (hz : NoZeroOut h) {p : Prog α} (hnp : NoPoke p)
    {hp : Heap} (hw : WF hp) {x : Nat} (hx : x < hp.size) :
    (run h (Prog.root1 x) (run h p (run h (Prog.root1 x) hp).2.1).2.1).2.2.calls = 0 := by
  rw [run_root1 h hx]
  have ht := run_topMemo h hnp _ (rootH_topMemo_after h hz hw (Nat.lt_succ_self x) hx)
  rw [run_root1 h (topMemo_lt ht), (rootH_top h (f := x) ht).2]; rfl

example : (run exHash (Prog.root1 4) (run exHash exClient (run exHash (Prog.root1 4) exHeap).2.1).2.1).2.2.calls = 0 :=
  C07_second_free_general exHash exHash_noZero noPoke_exClient (wfB_sound (by decide)) (by decide)

/-- Exact cost: the hash calls of a request are in bijection with the cells written, each written
    once, and those are exactly the pairs with unset memo reached from `x` through pairs with unset
    memo (`UReach`); in particular shared subtrees are hashed once and nothing below a cached pair
    is hashed. -/
theorem C07_count (h : HashFn) (hz : NoZeroOut h) {hp : Heap} (hw : WF hp) {x : Nat} (hx : x < hp.size) :
    (run h (Prog.root1 x) hp).2.2.calls = (run h (Prog.root1 x) hp).2.2.writes.length
      ∧ (run h (Prog.root1 x) hp).2.2.writes.Nodup
      ∧ ∀ y, y ∈ (run h (Prog.root1 x) hp).2.2.writes ↔ UReach hp x y := by
  rw [run_root1 h hx]
  have e := rootH_eff h hz (x+1) hp x hw (Nat.lt_succ_self x)
  exact ⟨e.calls, e.nodup, e.mem⟩

/-- Upper bound: at most the number of distinct reachable pair cells with unset memo (`L` is any
    list containing them). -/
theorem C07_count_le (h : HashFn) (hz : NoZeroOut h) {hp : Heap} (hw : WF hp) {x : Nat}
    (hx : x < hp.size) (L : List Nat)
    (hL : ∀ y l r, Reach hp x y → hp[y]? = some (Cell.pair z0 l r) → y ∈ L) :
    (run h (Prog.root1 x) hp).2.2.calls ≤ L.length := by
  obtain ⟨hc, hn, hm⟩ := C07_count h hz hw hx
  rw [hc]
  apply hn.length_le_of_subset
  intro y hy
  have hu := (hm y).mp hy
  obtain ⟨l, r, e⟩ := hu.tgt_unset
  exact hL y l r hu.reach e

/-- in `exHeap3` (pairs 2 and 3 cached) only pair 4 is hashed -/
example : (run exHash (Prog.root1 4) exHeap3).2.2.calls ≤ [4].length := by
  apply C07_count_le exHash exHash_noZero (wfB_sound (by decide)) (by decide)
  intro y l r _ hy
  have hlt := get_lt_size hy
  have : y = 0 ∨ y = 1 ∨ y = 2 ∨ y = 3 ∨ y = 4 := by
    have : y < 5 := hlt
    omega
  rcases this with rfl | rfl | rfl | rfl | rfl
  · have := unset_of_get hy; revert this; decide
  · have := unset_of_get hy; revert this; decide
  · have := unset_of_get hy; revert this; decide
  · have := unset_of_get hy; revert this; decide
  · exact List.mem_singleton.mpr rfl

/-- After a single mutation — the node at `path` below a fully hashed `x` is replaced by an already
    hashed `y`, i.e. the rebinding spine `setPath` of `Setter/DeeperSetter` (one `NewPairNode` per
    level, siblings shared) — building the spine hashes nothing, and recomputing the root of the new
    tree invokes the hash at most once per level of the path, whatever the size of the tree. -/
theorem C07_path (h : HashFn) {hp : Heap} (hw : WF hp) {path : List Bool} {x y x' : Nat}
    (hfx : FullyMemo hp x) (hfy : FullyMemo hp y) (hy : y < hp.size)
    (hrun : (run h (setPath path x y) hp).1 = some (some x')) :
    (run h (setPath path x y) hp).2.2.calls = 0
      ∧ (run h (Prog.root1 x') (run h (setPath path x y) hp).2.1).2.2.calls ≤ path.length := by
  obtain ⟨sp, hc⟩ := run_setPath h path x y hp x' hrun
  obtain ⟨_, hx', _, cost⟩ := spine_cost h sp hw hy (topMemo_of_fullyMemo hfy hy) hfx
  refine ⟨hc, ?_⟩
  rw [run_root1 h hx']
  exact cost _ (x'+1) (PExt.refl _) (Nat.lt_succ_self x')

/-- and the new tree is the one the pure setter gives, the old one is still there unchanged -/
theorem C07_path_tree (h : HashFn) {hp : Heap} (hw : WF hp) {path : List Bool} {x y x' : Nat}
    (hy : y < hp.size) (hrun : (run h (setPath path x y) hp).1 = some (some x')) :
    Node.setAt path (absNode hp x) (absNode hp y)
        = some (absNode (run h (setPath path x y) hp).2.1 x')
      ∧ ∀ z, z < hp.size → (run h (setPath path x y) hp).2.1[z]? = hp[z]? := by
  obtain ⟨sp, _⟩ := run_setPath h path x y hp x' hrun
  obtain ⟨pe, _, _, habs⟩ := spine_abs sp hw hy
  exact ⟨habs, pe.2⟩

/-- non-vacuity: in the fully hashed example heap replace the right child of node 3 (= the left
    child of node 4, path [left, right] from 4) by the hashed pair 2: two new pairs 5, 6 -/
example : (run exHash (setPath [false, true] 4 2) exHeapAll).1 = some (some 6)
    ∧ (run exHash (Prog.root1 6) (run exHash (setPath [false, true] 4 2) exHeapAll).2.1).2.2.calls = 2 := by
  decide

example : (run exHash (Prog.root1 6) (run exHash (setPath [false, true] 4 2) exHeapAll).2.1).2.2.calls
    ≤ [false, true].length := by
  refine (C07_path exHash (wfB_sound (by decide)) (x := 4) (y := 2) (x' := 6) ?_ ?_ (by decide)
    (by decide)).2
  · intro y m l r _ hy; exact allMemoB_sound (by decide : allMemoB exHeapAll = true) y m l r hy
  · intro y m l r _ hy; exact allMemoB_sound (by decide : allMemoB exHeapAll = true) y m l r hy

/-- The same for a mutation that grows into a collapsed zero subtree
    (`DeeperSetter(…, expand = true)`, e.g. list append): a zero-summary leaf on the path is expanded
    with the shared zero leaves `zs d = &ZeroHashes[d]` as siblings; the throw-away pair the code
    allocates on the way is never hashed.  Nothing is hashed while building, no existing cell is
    touched, and the new root costs at most one hash call per level. -/
theorem C07_path_expand (h : HashFn) {hp : Heap} (hw : WF hp) (zs : Nat → Nat)
    (hzs : ∀ d, ∃ r, hp[zs d]? = some (Cell.leaf r)) {path : List Bool} {x y x' : Nat}
    (hfx : FullyMemo hp x) (hfy : FullyMemo hp y) (hy : y < hp.size)
    (hrun : (run h (setPathX zs path x y) hp).1 = some (some x')) :
    (run h (setPathX zs path x y) hp).2.2.calls = 0
      ∧ (∀ z, z < hp.size → (run h (setPathX zs path x y) hp).2.1[z]? = hp[z]?)
      ∧ (run h (Prog.root1 x') (run h (setPathX zs path x y) hp).2.1).2.2.calls ≤ path.length := by
  obtain ⟨pe, hw', sp, hc⟩ :=
    run_setPathX h zs path x y hp x' hw hzs (topMemo_of_fullyMemo hfy hy) hfx hrun
  refine ⟨hc, pe.2, ?_⟩
  rw [run_root1 h (spn_lt sp)]
  exact spn_cost h hw' sp (x'+1) (Nat.lt_succ_self x')

/-- non-vacuity: in `exHeapZ` hashed, set position [right, left] below node 3 — inside the collapsed
    zero summary 1 — to the data leaf 2: cells 4 (throw-away), 5, 6 are allocated, root 6 costs 2 -/
example : (run exHash (setPathX exZs [true, false] 3 2) (run exHash (Prog.root1 3) exHeapZ).2.1).1 = some (some 6)
    ∧ (run exHash (Prog.root1 6) (run exHash (setPathX exZs [true, false] 3 2)
        (run exHash (Prog.root1 3) exHeapZ).2.1).2.1).2.2.calls = 2 := by decide

example : (run exHash (Prog.root1 6) (run exHash (setPathX exZs [true, false] 3 2)
    (run exHash (Prog.root1 3) exHeapZ).2.1).2.1).2.2.calls ≤ [true, false].length := by
  have hc : MemoClosed (run exHash (Prog.root1 3) exHeapZ).2.1 := memoClosedB_sound (by decide)
  exact (C07_path_expand exHash (wfB_sound (by decide)) exZs
    (exZs_leaves _ ⟨z0, by decide⟩ ⟨exHash z0 z0, by decide⟩) (x := 3) (y := 2) (x' := 6)
    (fullyMemo_of_top hc (topMemoB_sound (by decide)))
    (fullyMemo_of_top hc (topMemoB_sound (by decide))) (by decide) (by decide)).2.2

/-- "Already hashed" is what a hash-tree-root request establishes: in a heap built by poke-free
    clients from unhashed nodes (`MemoClosed`: a set memo implies the children answer from their memos
    — preserved by every poke-free client, `run_memoClosed`), after `MerkleRoot` at `x` every pair
    reachable from `x` has its memo set. -/
theorem C07_hashed_fully (h : HashFn) (hz : NoZeroOut h) {hp : Heap} (hw : WF hp) (hc : MemoClosed hp)
    {x : Nat} (hx : x < hp.size) :
    FullyMemo (run h (Prog.root1 x) hp).2.1 x ∧ MemoClosed (run h (Prog.root1 x) hp).2.1 := by
  rw [run_root1 h hx]
  have hc' := rootH_memoClosed h hz hw hc (Nat.lt_succ_self x)
  exact ⟨fullyMemo_of_top hc' (rootH_topMemo_after h hz hw (Nat.lt_succ_self x) hx), hc'⟩

example : FullyMemo (run exHash (Prog.root1 4) exHeap).2.1 4 :=
  (C07_hashed_fully exHash exHash_noZero (wfB_sound (by decide)) (memoClosedB_sound (by decide))
    (by decide)).1

/-- End to end: a client `p` does arbitrary poke-free work in which `x` and `y` get hashed at some
    point (afterwards both answer from their memo); then one mutation replaces the node at `path`
    below `x` by `y`; recomputing the root costs at most one hash call per level of the path. -/
theorem C07_incremental (h : HashFn) (hz : NoZeroOut h) {p : Prog α} (hnp : NoPoke p) {hp : Heap}
    (hw : WF hp) (hc : MemoClosed hp) {path : List Bool} {x y x' : Nat}
    (htx : TopMemo (run h p hp).2.1 x) (hty : TopMemo (run h p hp).2.1 y)
    (hrun : (run h (setPath path x y) (run h p hp).2.1).1 = some (some x')) :
    (run h (Prog.root1 x') (run h (setPath path x y) (run h p hp).2.1).2.1).2.2.calls ≤ path.length := by
  have hw1 := (run_frame h hnp hp hw).1
  have hc1 := run_memoClosed h hz hnp hp hw hc
  exact (C07_path h hw1 (fullyMemo_of_top hc1 htx) (fullyMemo_of_top hc1 hty) (topMemo_lt hty) hrun).2

example : (run exHash (Prog.root1 6) (run exHash (setPath [false, true] 4 2)
    (run exHash (Prog.root1 4) exHeap).2.1).2.1).2.2.calls ≤ 2 :=
  C07_incremental exHash exHash_noZero (p := Prog.root1 4) (.root _ _ (fun v => .ret v))
    (wfB_sound (by decide)) (memoClosedB_sound (by decide)) (path := [false, true]) (x := 4) (y := 2)
    (x' := 6) (topMemoB_sound (by decide)) (topMemoB_sound (by decide)) (by decide)

/-- `NoZeroOut` is necessary: with a hash that returns the zero root the memo never becomes
    "set" and the second request hashes again. -/
theorem C07_zero_hash_counterexample :
    ¬ (∀ (h : HashFn) (hp : Heap) (x : Nat), WF hp → x < hp.size →
        (run h (Prog.root1 x) (run h (Prog.root1 x) hp).2.1).2.2.calls = 0) := by
  intro hall
  have := hall zeroHash exHeap 2 (wfB_sound (by decide)) (by decide)
  revert this
  decide

end ZtypV.Props.C07
