/-
C03 — View decoding is canonical, total and panic-free.

Model: `ZtypV.View.decode` / `decodeTop` (Model/Decode.lean) over the reader model `DR`.
Spec: `hasType`, `serialize`, `Valid` (Spec.lean); constructor route `View.construct`.

Proved here (all for every type `t`, every hash `h`, every byte string, no size bounds):
* `C03_no_panic`   — no panic outcome of the model is reachable for well-formed types;
* `C03_sound`      — an accepted input is the encoding of a well-typed value, and the returned
                     backing is exactly what the constructor route builds for that value;
* `C03_valid`      — hence accepted ⇒ `Valid t bs`; `C03_rejects_invalid` the contrapositive;
* `C03_rejects_*`  — the named malformation classes are rejected (direct statements on `decodeTop`).
`C03_canonical_full` (re-serialization reproduces the input) is kept as a `def`: it is
`C03_sound` composed with the C02 theorem `serializeView t (construct t v) = serialize t v`
(Props/C02.lean, other contributor); `C03_canonical_of_C02` does that composition.
-/
import ZtypV.Proofs.DecodeReject
namespace ZtypV.Props.C03
open ZtypV ZtypV.View ZtypV.DecodeProofs

/-! ### 1. panic freedom and totality -/

/-- none of the model's panic outcomes (vector length 0, empty offsets, division by a zero
    element size, nil backing after an ignored fill error, bad selector index) is reachable -/
theorem C03_no_panic (h : HashFn) (t : Ty) (bs : Bytes) (hw : t.wf = true) :
    decodeTop h t bs ≠ .error .panic :=
  decodeTop_noPanic h t hw bs

/-- the same for a decoder started on an arbitrary reader state (any `i`, `max`, stream) -/
theorem C03_no_panic_reader (h : HashFn) (t : Ty) (dr : DR) (hw : t.wf = true) :
    decode h t dr ≠ .error .panic :=
  decode_noPanic h t hw dr

/-- deserialization either returns a view or a (non-panic) error -/
theorem C03_total (h : HashFn) (t : Ty) (bs : Bytes) (hw : t.wf = true) :
    (∃ n, decodeTop h t bs = .ok n) ∨ (∃ e, decodeTop h t bs = .error e ∧ e ≠ .panic) := by
  cases hd : decodeTop h t bs with
  | ok n => exact Or.inl ⟨n, rfl⟩
  | error e =>
    refine Or.inr ⟨e, rfl, ?_⟩
    intro he; subst he
    exact C03_no_panic h t bs hw hd

example : C03Ex.T.wf = true := by decide

/-! ### 2. soundness: accepted ⇒ valid encoding, backing = constructor route -/

/-- Master statement on an arbitrary reader: a successful decoder consumed exactly its scope
    (`max - i`), these bytes are the encoding of a well-typed value and the backing is the one
    the constructor route builds.  (No well-formedness hypothesis is needed.) -/
theorem C03_decode_construct (h : HashFn) (t : Ty) (dr dr' : DR) (n : Node)
    (hd : decode h t dr = .ok (n, dr'))
    (hleaf : isLeafTy t = true → dr.scope = t.fixedSize) :
    ∃ v, hasType t v = true ∧ serialize t v = dr.avail.take dr.scope ∧
      dr.scope ≤ dr.avail.length ∧ dr'.avail = dr.avail.drop dr.scope ∧
      construct h t v = .ok n :=
  decode_sound h t dr n dr' hd hleaf

/-- Top level, scope = length of the input; single-chunk leaf types (uint, bool, bytesN) are
    handed exactly their fixed size, as in the property text. -/
theorem C03_sound (h : HashFn) (t : Ty) (bs : Bytes) (n : Node)
    (hleaf : isLeafTy t = true → bs.length = t.fixedSize)
    (hd : decodeTop h t bs = .ok n) :
    ∃ v, hasType t v = true ∧ serialize t v = bs ∧ construct h t v = .ok n :=
  decodeTop_sound h t bs n hleaf hd

/-- what really happens for leaf types on a longer input: a plain read of the prefix -/
theorem C03_sound_leaf (h : HashFn) (t : Ty) (bs : Bytes) (n : Node)
    (hleaf : isLeafTy t = true) (hd : decodeTop h t bs = .ok n) :
    ∃ v, hasType t v = true ∧ serialize t v = bs.take t.fixedSize ∧ t.fixedSize ≤ bs.length ∧
      construct h t v = .ok n :=
  decodeTop_leaf_sound h t bs n hleaf hd

/-- why the leaf hypothesis of `C03_sound` is there: a leaf decoder accepts a longer input
    (it is a fixed-size read; the callers always hand exactly the fixed size) -/
example : ∃ n, decodeTop C03Ex.h0 (.uint 1) [1, 2] = .ok n := isOk_ex (by decide +kernel)

/-- a view is returned only for valid SSZ encodings -/
theorem C03_valid (h : HashFn) (t : Ty) (bs : Bytes) (n : Node)
    (hleaf : isLeafTy t = true → bs.length = t.fixedSize)
    (hd : decodeTop h t bs = .ok n) : Valid t bs := by
  obtain ⟨v, hv, hs, _⟩ := C03_sound h t bs n hleaf hd
  exact ⟨v, hv, hs⟩

/-- contrapositive: everything that is not a valid encoding is rejected with an error -/
theorem C03_rejects_invalid (h : HashFn) (t : Ty) (bs : Bytes) (hw : t.wf = true)
    (hleaf : isLeafTy t = true → bs.length = t.fixedSize) (hinv : ¬ Valid t bs) :
    ∃ e, decodeTop h t bs = .error e ∧ e ≠ .panic := by
  rcases C03_total h t bs hw with ⟨n, hn⟩ | he
  · exact absurd (C03_valid h t bs n hleaf hn) hinv
  · exact he

/-- the hypotheses of `C03_sound` are satisfiable on a nested type: the encoding decodes -/
example : ∃ n, decodeTop C03Ex.h0 C03Ex.T C03Ex.enc = .ok n := isOk_ex (by decide +kernel)
example : isLeafTy C03Ex.T = true → C03Ex.enc.length = C03Ex.T.fixedSize := by decide
/-- … and a leaf type with exactly its size -/
example : ∃ n, decodeTop C03Ex.h0 (.uint 4) [1, 2, 3, 4] = .ok n := ⟨_, rfl⟩

/-! ### 3. the named malformation classes are rejected -/

/-- non-0/1 boolean -/
theorem C03_rejects_bool (h : HashFn) (x : UInt8) (hx : x > 1) :
    decodeTop h .bool [x] = .error .other := by
  apply decodeTop_eq_error
  rw [decode, read_new [x] 1 (by simp)]
  simp [bind, Except.bind, hx]

/-- … which is justified: such a byte is not a valid encoding -/
theorem C03_invalid_bool (x : UInt8) (hx : x > 1) : ¬ Valid .bool [x] := by
  rintro ⟨v, hv, hs⟩
  cases v <;> simp [hasType] at hv
  rename_i b
  simp only [serialize, List.cons.injEq, and_true] at hs
  subst hs
  cases b <;> simp at hx

/-- set padding bits in the last byte of a bitvector -/
theorem C03_rejects_bitvector_padding (h : HashFn) (k : Nat) (bs : Bytes) (last : UInt8)
    (hk : k % 8 ≠ 0) (hl : bs.getLast? = some last)
    (hp : last.toNat % 2 ^ (k % 8) ≠ last.toNat) :
    decodeTop h (.bitvector k) bs = .error .other := by
  apply decodeTop_eq_error
  rw [decode]
  simp only [new_scope]
  by_cases hlen : (k + 7) / 8 ≠ bs.length
  · rw [if_pos hlen]
  · rw [if_neg hlen, read_new bs _ (Nat.le_refl _)]
    have hs0 : bs.length ≠ 0 := by omega
    simp [bind, Except.bind, hl, hs0, hk, hp]

/-- missing bitlist delimiter: last byte zero (or no byte at all) -/
theorem C03_rejects_bitlist_no_delimiter (h : HashFn) (lim : Nat) (bs : Bytes)
    (hl : bs = [] ∨ bs.getLast? = some 0) :
    decodeTop h (.bitlist lim) bs = .error .other := by
  apply decodeTop_eq_error
  rw [decode]
  simp only [new_scope]
  by_cases hs0 : bs.length = 0
  · rw [if_pos hs0]
  · rw [if_neg hs0]
    by_cases hs1 : bs.length > (lim + 8) / 8
    · rw [if_pos hs1]
    · rw [if_neg hs1, read_new bs _ (Nat.le_refl _)]
      rcases hl with rfl | hl
      · simp at hs0
      · simp [bind, Except.bind, hl]

/-- out-of-range union selector -/
theorem C03_rejects_union_selector (h : HashFn) (hasNone : Bool) (opts : List Ty) (x : UInt8)
    (rest : Bytes) (hx : x.toNat ≥ opts.length + (if hasNone then 1 else 0)) :
    decodeTop h (.union hasNone opts) (x :: rest) = .error .other := by
  apply decodeTop_eq_error
  rw [decode]
  simp only [new_scope]
  rw [if_neg (by simp), read_new _ 1 (by simp)]
  simp only [bind, Except.bind, List.take_succ_cons, List.take_zero, List.getD_cons_zero]
  rw [if_pos hx]

/-- data behind a None union value -/
theorem C03_rejects_union_none_trailing (h : HashFn) (opts : List Ty) (b : UInt8) (rest : Bytes) :
    decodeTop h (.union true opts) (0 :: b :: rest) = .error .other := by
  apply decodeTop_eq_error
  rw [decode]
  simp only [new_scope]
  rw [if_neg (by simp), read_new _ 1 (by simp)]
  simp [bind, Except.bind]

/-- trailing (or missing) data behind a fixed-size union value -/
theorem C03_rejects_union_fixed_trailing (h : HashFn) (t : Ty) (ts : List Ty) (rest : Bytes)
    (hf : t.isFixed = true) (hlen : t.fixedSize ≠ rest.length) :
    decodeTop h (.union false (t :: ts)) (0 :: rest) = .error .other := by
  apply decodeTop_eq_error
  rw [decode]
  simp only [new_scope]
  rw [if_neg (by simp), read_new _ 1 (by simp)]
  simp [bind, Except.bind, decodeOpt, hf, hlen]

/-- container whose first field is variable-size: first offset ≠ size of the fixed part -/
theorem C03_rejects_container_first_offset (h : HashFn) (t : Ty) (ts : List Ty) (bs : Bytes)
    (hf : t.isFixed = false) (ho : leNat (bs.take 4) ≠ Ty.fixedPart (t :: ts)) :
    decodeTop h (.container (t :: ts)) bs = .error .other := by
  apply decodeTop_eq_error
  rw [decode]
  simp only [new_scope]
  split
  · rfl
  · rw [decodeFixedPart]
    simp only [hf, Bool.false_eq_true, if_false]
    by_cases h4 : 4 ≤ bs.length
    · rw [readOffset_new bs h4]
      simp only [bind, Except.bind]
      by_cases hlt : leNat (bs.take 4) < Ty.fixedPart (t :: ts)
      · rw [if_pos hlt]
      · rw [if_neg hlt, if_pos (by simpa using ho)]
    · rw [readOffset_new_short bs (by omega)]; rfl

/-- list of variable-size elements: first offset not a multiple of 4, zero, or out of range -/
theorem C03_rejects_list_first_offset (h : HashFn) (e : Ty) (lim : Nat) (bs : Bytes)
    (hf : e.isFixed = false) (hne : bs ≠ [])
    (ho : leNat (bs.take 4) % 4 ≠ 0 ∨ leNat (bs.take 4) = 0 ∨ leNat (bs.take 4) > bs.length) :
    decodeTop h (.list e lim) bs = .error .other := by
  apply decodeTop_eq_error
  have hb : isBasicElem e = false := by
    cases e <;> simp [isBasicElem] ; simp [Ty.isFixed] at hf
  have hs0 : bs.length ≠ 0 := by
    intro h0; exact hne (List.eq_nil_of_length_eq_zero h0)
  rw [decode]
  simp only [new_scope, hb, hf, Bool.false_eq_true, if_false]
  rw [if_neg hs0]
  by_cases h4 : 4 ≤ bs.length
  · rw [readOffset_new bs h4]
    simp only [bind, Except.bind]
    by_cases hm : leNat (bs.take 4) % 4 ≠ 0
    · rw [if_pos hm]
    · rw [if_neg hm, if_pos (by
        rcases ho with ho | ho | ho
        · exact absurd ho hm
        · exact Or.inl ho
        · exact Or.inr ho)]
  · rw [readOffset_new_short bs (by omega)]; rfl

/-- trailing or missing bytes of a fixed-size basic vector -/
theorem C03_rejects_vector_length (h : HashFn) (b k : Nat) (bs : Bytes) (hlen : k * b ≠ bs.length) :
    decodeTop h (.vector (.uint b) k) bs = .error .other := by
  apply decodeTop_eq_error
  rw [decode]
  simp only [new_scope, isBasicElem, Ty.fixedSize, if_true]
  rw [if_pos hlen]

/-- over-limit length of a basic list -/
theorem C03_rejects_list_over_limit (h : HashFn) (b lim : Nat) (bs : Bytes)
    (hlen : bs.length / b > lim) :
    decodeTop h (.list (.uint b) lim) bs = .error .other := by
  apply decodeTop_eq_error
  rw [decode]
  simp only [new_scope, isBasicElem, Ty.fixedSize, if_true]
  rw [if_pos hlen]

/-- decreasing or out-of-range offsets, trailing/missing bytes in general: not valid encodings
    are rejected (`C03_rejects_invalid`); a concrete instance with a decreasing offset pair: -/
example : decodeTop C03Ex.h0 (.list (.list (.uint 1) 4) 4) [8, 0, 0, 0, 7, 0, 0, 0, 1] = .error .other :=
  isOther_eq (by decide +kernel)
example : decodeTop C03Ex.h0 .bool [2] = .error .other := C03_rejects_bool _ 2 (by decide)
example : decodeTop C03Ex.h0 (.bitvector 10) [255, 4] = .error .other :=
  C03_rejects_bitvector_padding _ 10 _ 4 (by decide) rfl (by decide)
example : decodeTop C03Ex.h0 (.bitlist 10) [255, 0] = .error .other :=
  C03_rejects_bitlist_no_delimiter _ 10 _ (Or.inr rfl)
example : decodeTop C03Ex.h0 (.union true [.uint 1]) [2, 0] = .error .other :=
  C03_rejects_union_selector _ true _ 2 _ (by decide)
example : decodeTop C03Ex.h0 (.container [.list (.uint 1) 4, .uint 1]) [4, 0, 0, 0, 1] = .error .other :=
  C03_rejects_container_first_offset _ _ _ _ rfl (by decide)

/-! ### 4. canonical re-serialization (needs C02) -/

/-- full canonicity statement: re-serializing the decoded view reproduces the input -/
def C03_canonical_full : Prop :=
  ∀ (h : HashFn) (t : Ty) (bs : Bytes) (n : Node), t.wf = true →
    (isLeafTy t = true → bs.length = t.fixedSize) →
    decodeTop h t bs = .ok n → serializeView t n = .ok bs

/-- the C02 statement it reduces to (proved by another contributor in Props/C02.lean) -/
def C02_roundtrip : Prop :=
  ∀ (h : HashFn) (t : Ty) (v : Val) (n : Node), t.wf = true → hasType t v = true →
    construct h t v = .ok n → serializeView t n = .ok (serialize t v)

theorem C03_canonical_of_C02 (hC02 : C02_roundtrip) : C03_canonical_full := by
  intro h t bs n hw hleaf hd
  obtain ⟨v, hv, hs, hc⟩ := C03_sound h t bs n hleaf hd
  rw [← hs]
  exact hC02 h t v n hw hv hc

end ZtypV.Props.C03
