import ZtypV.Spec
namespace ZtypV.Props.C03
theorem placeholder : True := trivial
end ZtypV.Props.C03
