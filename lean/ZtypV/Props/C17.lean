import ZtypV.Spec
namespace ZtypV.Props.C17
theorem placeholder : True := trivial
end ZtypV.Props.C17
