/-
C17 — Iterators agree with indexed access.

For every list, vector, bitfield and container view, the read-only (stack based) iterator, the
index-based iterator and the indexed getters yield exactly the collection's length many
components, in order and with identical values; each iterator reports its end exactly when the
length is reached, keeps reporting it, and reports an error rather than a wrong component when
data is missing.

Everything here is about ARBITRARY backing trees (no assumption that the tree was built by a
constructor): indexed access is `subtreeGet anchor depth k` (= `SubtreeView.GetNode(k)`, i.e.
`Getter` along the `depth`-bit path of `k`), which may fail with a navigation error on partial
trees; the iterators then fail with the *same* error at exactly that position.

Vocabulary (ZtypV/Proofs/IterNav.lean):
* `runSteps next n s`   the outputs of `n` successive `Next()` calls from state `s`
* `iterSpec get len k n` the required outputs when about to serve component `k`: `item (get k)`,
  `item (get (k+1))`, … while `k < len` and `get` succeeds; `done` for ever from `len` on; a
  failing `get k` is reported as `err e` with the same `e`, for ever (nothing is skipped)
* `StackInv`/`StackFull` the navigation invariant of the ancestor stack
* `indexedOut t n k`    what the index-based `Iter()` shows at `k`: the typed getter `Get(k)`
-/
import ZtypV.Proofs.IterNav
import ZtypV.Proofs.ApiView
namespace ZtypV.Props.C17
open ZtypV ZtypV.View ZtypV.View.Iter

/-! ### 1. navigation -/

/-- The stack navigation step, any tree: under the invariant, moving to bottom node `i`
    (backtrack to the height given by the highest bit of `i xor (i-1)`, go right once, then
    left to the bottom) returns exactly what indexed access along the `depth`-bit path of `i`
    returns and leaves the complete ancestor stack of `i`; if indexed access fails the step
    fails with the same error — never a wrong node, never a panic. -/
theorem C17_nav_step (anchor : Node) (depth : Nat) (stack : Array Node) (i : Nat)
    (hd : depth < 256) (hi : i < 2 ^ depth) (inv : StackInv anchor depth stack i) :
    match getNode anchor (bitsOf i depth) with
    | .ok n => ∃ st', navStep anchor depth stack i = .ok (n, st') ∧ StackFull anchor depth st' i
    | .error e => navStep anchor depth stack i = .error e :=
  navStep_spec anchor depth stack i hd hi inv

/-- the invariant holds initially and is re-established for the next index (and for a retry
    of the same index) by a successful step -/
theorem C17_nav_inv (anchor : Node) (depth : Nat) (stack : Array Node) (i : Nat) (x : Node) :
    StackInv anchor depth (Array.replicate depth x) 0 ∧
    (StackFull anchor depth stack i → StackInv anchor depth stack (i + 1)) ∧
    (StackFull anchor depth stack i → StackInv anchor depth stack i) :=
  ⟨StackInv_new anchor depth x, StackFull.inv_succ, StackFull.inv_same⟩

/-- the arithmetic behind the backtracking height: for `i = 2^t (2m+1)`, `i xor (i-1)` has bit
    length `t+1`, and the `depth`-bit paths of `i-1` and `i` share the path of `m`, after which
    `i` goes right once and then `t` times left -/
theorem C17_backtrack_height (t m a : Nat) :
    bitLen ((2 ^ t * (2 * m + 1)) ^^^ (2 ^ t * (2 * m + 1) - 1)) = t + 1 ∧
    bitsOf (2 ^ t * (2 * m + 1)) (a + (t + 1)) = bitsOf m a ++ true :: List.replicate t false ∧
    ∃ q, q.length = t + 1 ∧ bitsOf (2 ^ t * (2 * m + 1) - 1) (a + (t + 1)) = bitsOf m a ++ q :=
  ⟨bitLen_xor_pred t m, bitsOf_odd_part t m a, bitsOf_pred_odd_part t m a⟩

/-! ### 2. the node iterator (`nodeReadonlyIter`) -/

/-- construction succeeds exactly when there is nothing to iterate or the subtree is deep
    enough (`length ≤ 2^depth`, `depth < 64`) -/
theorem C17_node_constructed (anchor : Node) (length depth : Nat) :
    (NodeIt.new anchor length depth).bad = false ↔
      (length = 0 ∨ (depth < 64 ∧ length ≤ 2 ^ depth)) :=
  ⟨node_new_ok, node_new_not_bad anchor length depth⟩

/-- MAIN (node iterator, any tree, any number of calls): the successfully constructed
    iterator produces exactly the `iterSpec` sequence of indexed access `GetNode(k)`. -/
theorem C17_node_iter (anchor : Node) (length depth : Nat)
    (hb : (NodeIt.new anchor length depth).bad = false) (n : Nat) :
    runSteps NodeIt.next n (NodeIt.new anchor length depth) =
      iterSpec (fun k => subtreeGet anchor depth k) length 0 n :=
  node_run anchor length depth hb n

/-- … in the form asked for: `length ≤ 2^depth`, `depth < 64` -/
theorem C17_node_iter' (anchor : Node) (length depth : Nat) (hd : depth < 64)
    (hl : length ≤ 2 ^ depth) (n : Nat) :
    runSteps NodeIt.next n (NodeIt.new anchor length depth) =
      iterSpec (fun k => subtreeGet anchor depth k) length 0 n :=
  node_run anchor length depth (node_new_not_bad anchor length depth (Or.inr ⟨hd, hl⟩)) n

/-- all `length` indexed accesses succeed: the iterator yields exactly `length` items, in
    order, equal to indexed access, and then `done` for ever -/
theorem C17_node_iter_all_ok (anchor : Node) (length depth : Nat)
    (hb : (NodeIt.new anchor length depth).bad = false) (f : Nat → Node)
    (hok : ∀ k, k < length → subtreeGet anchor depth k = .ok (f k)) (n : Nat) :
    runSteps NodeIt.next n (NodeIt.new anchor length depth) =
      (List.range (min n length)).map (fun k => Step.item (f k)) ++
        List.replicate (n - length) .done := by
  rw [C17_node_iter anchor length depth hb n]
  exact iterSpec_all_ok _ f length hok n

/-- indexed access `j < length` is the first to fail: `j` correct items, then that error (and
    no wrong node, no `done`) for ever -/
theorem C17_node_iter_first_err (anchor : Node) (length depth : Nat)
    (hb : (NodeIt.new anchor length depth).bad = false) (f : Nat → Node) (j : Nat) (e : Err)
    (hj : j < length) (hok : ∀ k, k < j → subtreeGet anchor depth k = .ok (f k))
    (he : subtreeGet anchor depth j = .error e) (n : Nat) :
    runSteps NodeIt.next n (NodeIt.new anchor length depth) =
      (List.range (min n j)).map (fun k => Step.item (f k)) ++ List.replicate (n - j) (.err e) := by
  rw [C17_node_iter anchor length depth hb n]
  exact iterSpec_first_err _ f length j e hj hok he n

/-- the end is sticky: `Next()` on an exhausted iterator answers `done` and changes nothing -/
theorem C17_node_end_sticky (it : NodeIt) (hb : it.bad = false) (hi : it.length ≤ it.i) :
    it.next = (.done, it) := by
  unfold NodeIt.next
  rw [hb]
  simp only [Bool.false_eq_true, if_false]
  rw [if_pos (by simpa using hi)]

/-- a failed construction (`ErrNodeIter`) answers with an error for ever -/
theorem C17_node_bad (it : NodeIt) (hb : it.bad = true) : it.next = (.err .other, it) := by
  unfold NodeIt.next
  rw [hb]
  rfl

/-! ### 3. packed basic elements and bits -/

/-- construction of `basicElemReadonlyIter` succeeds only if there is nothing to iterate or
    the subtree is deep enough for `length` packed elements -/
theorem C17_basic_constructed (anchor : Node) (length depth size : Nat)
    (hb : (BasicIt.new anchor length depth size).bad = false) :
    length = 0 ∨ (depth < 64 ∧ 0 < 32 / size ∧ length ≤ 2 ^ depth * (32 / size)) :=
  basic_new_ok hb

/-- MAIN (packed element iterator, any tree): element `k` is `BasicViewFromBacking` at
    sub-index `k % perNode` of the chunk that indexed access `GetNode(k / perNode)` returns
    (`basicAt`); exactly `length` of them in order, then `done`; same error when the chunk is
    missing or is not a leaf. -/
theorem C17_basic_iter (anchor : Node) (length depth size : Nat)
    (hb : (BasicIt.new anchor length depth size).bad = false) (n : Nat) :
    runSteps BasicIt.next n (BasicIt.new anchor length depth size) =
      iterSpec (basicAt size anchor depth) length 0 n :=
  basic_run anchor length depth size hb n

theorem C17_basic_iter_all_ok (anchor : Node) (length depth size : Nat)
    (hb : (BasicIt.new anchor length depth size).bad = false) (f : Nat → Val)
    (hok : ∀ k, k < length → basicAt size anchor depth k = .ok (f k)) (n : Nat) :
    runSteps BasicIt.next n (BasicIt.new anchor length depth size) =
      (List.range (min n length)).map (fun k => Step.item (f k)) ++
        List.replicate (n - length) .done := by
  rw [C17_basic_iter anchor length depth size hb n]
  exact iterSpec_all_ok _ f length hok n

theorem C17_basic_iter_first_err (anchor : Node) (length depth size : Nat)
    (hb : (BasicIt.new anchor length depth size).bad = false) (f : Nat → Val) (j : Nat) (e : Err)
    (hj : j < length) (hok : ∀ k, k < j → basicAt size anchor depth k = .ok (f k))
    (he : basicAt size anchor depth j = .error e) (n : Nat) :
    runSteps BasicIt.next n (BasicIt.new anchor length depth size) =
      (List.range (min n j)).map (fun k => Step.item (f k)) ++ List.replicate (n - j) (.err e) := by
  rw [C17_basic_iter anchor length depth size hb n]
  exact iterSpec_first_err _ f length j e hj hok he n

theorem C17_basic_end_sticky (it : BasicIt) (hb : it.bad = false) (hi : it.length ≤ it.i) :
    it.next = (.done, it) := by
  unfold BasicIt.next
  rw [hb]
  simp only [Bool.false_eq_true, if_false]
  rw [if_pos (by simpa using hi)]

/-- the indexed side of `C17_basic_iter` is literally what `readBasics` (the getter loop used
    by `viewVal`) reads -/
theorem C17_basicAt_is_indexed (size : Nat) (anchor : Node) (depth len : Nat) :
    readBasics size anchor depth len = (List.range len).mapM (basicAt size anchor depth) := rfl

/-- construction of `bitReadonlyIter` succeeds only if there is nothing to iterate or the
    subtree is deep enough for `length` bits -/
theorem C17_bit_constructed (anchor : Node) (length depth : Nat)
    (hb : (BitIt.new anchor length depth).bad = false) :
    length = 0 ∨ (depth < 64 ∧ length ≤ 2 ^ depth * 256) :=
  bit_new_ok hb

/-- MAIN (bit iterator, any tree): bit `k` is bit `k % 256` of the chunk that indexed access
    `GetNode(k / 256)` returns (`bitAt`); the uint8 counter wraps exactly at 256 bits (the
    invariant `BitInv` pins it to `k % 256`); exactly `length` bits in order, then `done`. -/
theorem C17_bit_iter (anchor : Node) (length depth : Nat)
    (hb : (BitIt.new anchor length depth).bad = false) (n : Nat) :
    runSteps BitIt.next n (BitIt.new anchor length depth) =
      iterSpec (bitAt anchor depth) length 0 n :=
  bit_run anchor length depth hb n

theorem C17_bit_iter_all_ok (anchor : Node) (length depth : Nat)
    (hb : (BitIt.new anchor length depth).bad = false) (f : Nat → Bool)
    (hok : ∀ k, k < length → bitAt anchor depth k = .ok (f k)) (n : Nat) :
    runSteps BitIt.next n (BitIt.new anchor length depth) =
      (List.range (min n length)).map (fun k => Step.item (f k)) ++
        List.replicate (n - length) .done := by
  rw [C17_bit_iter anchor length depth hb n]
  exact iterSpec_all_ok _ f length hok n

theorem C17_bit_iter_first_err (anchor : Node) (length depth : Nat)
    (hb : (BitIt.new anchor length depth).bad = false) (f : Nat → Bool) (j : Nat) (e : Err)
    (hj : j < length) (hok : ∀ k, k < j → bitAt anchor depth k = .ok (f k))
    (he : bitAt anchor depth j = .error e) (n : Nat) :
    runSteps BitIt.next n (BitIt.new anchor length depth) =
      (List.range (min n j)).map (fun k => Step.item (f k)) ++ List.replicate (n - j) (.err e) := by
  rw [C17_bit_iter anchor length depth hb n]
  exact iterSpec_first_err _ f length j e hj hok he n

theorem C17_bit_end_sticky (it : BitIt) (hb : it.bad = false) (hi : it.length ≤ it.i) :
    it.next = (.done, it) := by
  unfold BitIt.next
  rw [hb]
  simp only [Bool.false_eq_true, if_false]
  rw [if_pos (by simpa using hi)]

theorem C17_bitAt_is_indexed (anchor : Node) (depth len : Nat) :
    readBits anchor depth len = (List.range len).mapM (bitAt anchor depth) := rfl

/-! ### 4. the index-based iterator -/

/-- `Iter()`: the typed getter `Get(k)` for `k = 0 … length-1` in order (every call advances,
    also after an error), then `done` for ever -/
theorem C17_indexed_iter (t : Ty) (n : Node) (length m : Nat) :
    runSteps AnyIt.next m (.indexed t n length 0) =
      (List.range (min m length)).map (indexedOut t n) ++ List.replicate (m - length) .done := by
  rw [indexed_run, outSeq_closed, Nat.sub_zero, List.range_eq_range']

theorem C17_indexed_end_sticky (t : Ty) (n : Node) (length i : Nat) (hi : length ≤ i) :
    AnyIt.next (.indexed t n length i) = (.done, .indexed t n length i) := by
  rw [indexed_next, if_neg (by omega)]

/-! ### 5. the client's view: read-only iterator = index-based iterator -/

/-- `elemReadonlyIter` / `fieldReadonlyIter` (node iterator + `ViewFromBacking` of the element
    type at that position), any tree: position `k` shows the element view over the node that
    indexed access returns; a failing access is an error that is repeated -/
theorem C17_ro_nodes (anchor : Node) (length depth : Nat)
    (hb : (NodeIt.new anchor length depth).bad = false) (ety : Nat → Option Ty) (m : Nat) :
    runSteps AnyIt.next m (.nodes (NodeIt.new anchor length depth) ety) =
      nodesSeq (fun j => subtreeGet anchor depth j) ety length 0 m :=
  anyNodes_run anchor length depth hb ety m

/-- packed / bit read-only iterators as the client sees them -/
theorem C17_ro_basics (anchor : Node) (length depth size : Nat) (t : Ty)
    (hb : (BasicIt.new anchor length depth size).bad = false) (m : Nat) :
    runSteps AnyIt.next m (.basics (BasicIt.new anchor length depth size) t) =
      (iterSpec (basicAt size anchor depth) length 0 m).map (stepOut (Out.val t)) := by
  rw [anyBasics_run, basic_run anchor length depth size hb m]

theorem C17_ro_bits (anchor : Node) (length depth : Nat)
    (hb : (BitIt.new anchor length depth).bad = false) (m : Nat) :
    runSteps AnyIt.next m (.bits (BitIt.new anchor length depth)) =
      (iterSpec (bitAt anchor depth) length 0 m).map (stepOut Out.bit) := by
  rw [anyBits_run, bit_run anchor length depth hb m]

/-- vectors of complex elements: whenever every `Get(j)`, `j < k`, succeeds, `ReadonlyIter()`
    and `Iter()` show the same sequence, for any number of calls -/
theorem C17_ro_eq_indexed_vector (e : Ty) (k : Nat) (n : Node) (hnb : isBasicElem e = false)
    (hall : ∀ j, j < k → ∃ x, getElemNode (.vector e k) n j = .ok x) (m : Nat) :
    runSteps AnyIt.next m (start (.vector e k) n true) =
      runSteps AnyIt.next m (start (.vector e k) n false) := by
  have h1 : start (.vector e k) n true =
      .nodes (NodeIt.new n k (coverDepth k)) (fun _ => some e) := by
    unfold start; simp [hnb]
  have h2 : start (.vector e k) n false = .indexed (.vector e k) n k 0 := by
    unfold start; simp
  rw [h1, h2]
  apply ro_eq_indexed_core _ _ _ _ _ _ (fun _ h => by cases h) (fun _ h => by cases h)
  intro j hj
  obtain ⟨x, hx⟩ := hall j hj
  rw [getElemNode_vector_complex e k n j hj hnb] at hx ⊢
  cases hc : subtreeGet n (coverDepth k) j with
  | error err => rw [hc] at hx; cases hx
  | ok c => exact ⟨e, c, rfl, rfl, rfl⟩

/-- containers -/
theorem C17_ro_eq_indexed_container (fs : List Ty) (n : Node)
    (hall : ∀ j, j < fs.length → ∃ x, getElemNode (.container fs) n j = .ok x) (m : Nat) :
    runSteps AnyIt.next m (start (.container fs) n true) =
      runSteps AnyIt.next m (start (.container fs) n false) := by
  have h1 : start (.container fs) n true =
      .nodes (NodeIt.new n fs.length (coverDepth fs.length)) (fun i => fs[i]?) := by
    unfold start; simp
  have h2 : start (.container fs) n false = .indexed (.container fs) n fs.length 0 := by
    unfold start; simp
  rw [h1, h2]
  apply ro_eq_indexed_core _ _ _ _ _ _ (fun _ h => by cases h) (fun _ h => by cases h)
  intro j hj
  obtain ⟨x, hx⟩ := hall j hj
  have hf : fs[j]? = some fs[j] := List.getElem?_eq_getElem hj
  rw [getElemNode_container fs n j _ hf] at hx ⊢
  cases hc : subtreeGet n (coverDepth fs.length) j with
  | error err => rw [hc] at hx; cases hx
  | ok c => exact ⟨fs[j], c, rfl, rfl, hf⟩

/-- lists of complex elements (if `Length()` fails both iterators are the failed iterator) -/
theorem C17_ro_eq_indexed_list (e : Ty) (lim : Nat) (n : Node) (hnb : isBasicElem e = false)
    (hall : ∀ ll, listLength n lim = .ok ll →
      ∀ j, j < ll → ∃ x, getElemNode (.list e lim) n j = .ok x) (m : Nat) :
    runSteps AnyIt.next m (start (.list e lim) n true) =
      runSteps AnyIt.next m (start (.list e lim) n false) := by
  cases hll : listLength n lim with
  | error err =>
    have h1 : ∀ ro, start (.list e lim) n ro = .failed := by
      intro ro; unfold start; simp [hll]
    rw [h1, h1]
  | ok ll =>
    obtain ⟨⟨l, r, rfl⟩, hle⟩ := listLength_ok hll
    have h1 : start (.list e lim) (.pair l r) true =
        .nodes (NodeIt.new l ll (coverDepth lim)) (fun _ => some e) := by
      unfold start; simp [hll, hnb]
    have h2 : start (.list e lim) (.pair l r) false = .indexed (.list e lim) (.pair l r) ll 0 := by
      unfold start; simp [hll]
    rw [h1, h2]
    apply ro_eq_indexed_core _ _ _ _ _ _ (fun _ h => by cases h) (fun _ h => by cases h)
    · intro j hj
      obtain ⟨x, hx⟩ := hall ll hll j hj
      rw [getElemNode_list_complex e lim _ ll j hll hj hnb] at hx ⊢
      cases hc : subtreeGet (.pair l r) (coverDepth lim + 1) j with
      | error err => rw [hc] at hx; cases hx
      | ok c =>
        have hb := subtreeGet_ok_bounds hc
        have hj2 : j < 2 ^ coverDepth lim :=
          Nat.lt_of_lt_of_le (Nat.lt_of_lt_of_le hj hle) (le_two_pow_coverDepth' lim)
        rw [subtreeGet_pair_left l r (coverDepth lim) j hb.1 hj2] at hc
        exact ⟨e, c, rfl, hc, rfl⟩

/-- bitvectors (of at most `2^63` bits, see the remark at `C17_bit_limit_wraps`): whenever every
    `Get(j)` succeeds, `ReadonlyIter()` and `Iter()` show the same bits -/
theorem C17_ro_eq_indexed_bitvector (k : Nat) (n : Node) (hk : k ≤ 2 ^ 63)
    (hall : ∀ j, j < k → ∃ x, getElemNode (.bitvector k) n j = .ok x) (m : Nat) :
    runSteps AnyIt.next m (start (.bitvector k) n true) =
      runSteps AnyIt.next m (start (.bitvector k) n false) := by
  have h1 : start (.bitvector k) n true = .bits (BitIt.new n k (bitDepth k)) := by
    unfold start; simp
  have h2 : start (.bitvector k) n false = .indexed (.bitvector k) n k 0 := by
    unfold start; simp
  have hbd := bitDepth_bounds k k (Nat.le_refl _) hk
  rw [h1, h2]
  apply ro_eq_indexed_bits_core _ _ _ _ _ (Or.inl ⟨k, rfl⟩)
    (bit_new_not_bad n k (bitDepth k) hbd.1 hbd.2)
  intro j hj
  obtain ⟨x, hx⟩ := hall j hj
  rw [getElemNode_bitvector k n j hj] at hx ⊢
  cases hc : subtreeGet n (bitDepth k) (j / 256) with
  | error err => rw [hc] at hx; cases hx
  | ok c =>
    cases c with
    | pair l r => rw [hc] at hx; cases hx
    | leaf r => exact ⟨r, rfl, rfl⟩

/-- bitlists (limit at most `2^63`) -/
theorem C17_ro_eq_indexed_bitlist (lim : Nat) (n : Node) (hlim : lim ≤ 2 ^ 63)
    (hall : ∀ ll, listLength n lim = .ok ll →
      ∀ j, j < ll → ∃ x, getElemNode (.bitlist lim) n j = .ok x) (m : Nat) :
    runSteps AnyIt.next m (start (.bitlist lim) n true) =
      runSteps AnyIt.next m (start (.bitlist lim) n false) := by
  cases hll : listLength n lim with
  | error err =>
    have h1 : ∀ ro, start (.bitlist lim) n ro = .failed := by
      intro ro; unfold start; simp [hll]
    rw [h1, h1]
  | ok ll =>
    obtain ⟨⟨l, r, rfl⟩, hle⟩ := listLength_ok hll
    have h1 : start (.bitlist lim) (.pair l r) true = .bits (BitIt.new l ll (bitDepth lim)) := by
      unfold start; simp [hll]
    have h2 : start (.bitlist lim) (.pair l r) false = .indexed (.bitlist lim) (.pair l r) ll 0 := by
      unfold start; simp [hll]
    have hbd := bitDepth_bounds ll lim hle hlim
    rw [h1, h2]
    apply ro_eq_indexed_bits_core _ _ _ _ _ (Or.inr ⟨lim, rfl⟩)
      (bit_new_not_bad l ll (bitDepth lim) hbd.1 hbd.2)
    intro j hj
    obtain ⟨x, hx⟩ := hall ll hll j hj
    rw [getElemNode_bitlist lim _ ll j hll hj] at hx ⊢
    have hj2 : j / 256 < 2 ^ bitDepth lim := by
      have := hbd.2
      generalize 2 ^ bitDepth lim = X at this
      omega
    rw [subtreeGet_pair_left l r (bitDepth lim) (j / 256) (by omega) hj2] at hx ⊢
    cases hc : subtreeGet l (bitDepth lim) (j / 256) with
    | error err => rw [hc] at hx; cases hx
    | ok c =>
      cases c with
      | pair l' r' => rw [hc] at hx; cases hx
      | leaf r' => exact ⟨r', rfl, rfl⟩

/-- vectors of packed basic elements: whenever every `Get(j)` succeeds, `Iter()` shows (as the
    fresh leaves `BasicView.Backing()` gives) exactly the values `ReadonlyIter()` shows -/
theorem C17_ro_indexed_basic_vector (e : Ty) (k : Nat) (n : Node) (hbe : isBasicElem e = true)
    (hall : ∀ j, j < k → ∃ x, getElemNode (.vector e k) n j = .ok x) (m : Nat) :
    runSteps AnyIt.next m (start (.vector e k) n false) =
      (runSteps AnyIt.next m (start (.vector e k) n true)).map valToNode := by
  have h1 : start (.vector e k) n true =
      .basics (BasicIt.new n k (seriesDepth e k) e.fixedSize) e := by
    unfold start; simp [hbe]
  have h2 : start (.vector e k) n false = .indexed (.vector e k) n k 0 := by
    unfold start; simp
  have hget : ∀ j, j < k → ∃ v, getElemNode (.vector e k) n j =
      .ok (e, .leaf (chunkOf (leBytes e.fixedSize (numOf v)))) ∧
      basicAt e.fixedSize n (seriesDepth e k) j = .ok v := by
    intro j hj
    obtain ⟨x, hx⟩ := hall j hj
    rw [getElemNode_vector_basic e k n j hj hbe] at hx ⊢
    cases hc : basicAt e.fixedSize n (seriesDepth e k) j with
    | error err => rw [hc] at hx; cases hx
    | ok v => exact ⟨v, rfl, rfl⟩
  rw [h1, h2]
  exact ro_indexed_basics_core _ e n n k _ (fun _ h => by cases h) (fun _ h => by cases h)
    (isBasicElem_viewOk e hbe)
    (basic_not_bad_of_last _ n k _ (fun j hj => (hget j hj).imp fun _ h => h.2)) hget m

/-- lists of packed basic elements -/
theorem C17_ro_indexed_basic_list (e : Ty) (lim : Nat) (n : Node) (hbe : isBasicElem e = true)
    (hall : ∀ ll, listLength n lim = .ok ll →
      ∀ j, j < ll → ∃ x, getElemNode (.list e lim) n j = .ok x) (m : Nat) :
    runSteps AnyIt.next m (start (.list e lim) n false) =
      (runSteps AnyIt.next m (start (.list e lim) n true)).map valToNode := by
  cases hll : listLength n lim with
  | error err =>
    have h1 : ∀ ro, start (.list e lim) n ro = .failed := by
      intro ro; unfold start; simp [hll]
    rw [h1, h1, anyFailed_run, List.map_replicate]
    rfl
  | ok ll =>
    obtain ⟨⟨l, r, rfl⟩, hle⟩ := listLength_ok hll
    have h1 : start (.list e lim) (.pair l r) true =
        .basics (BasicIt.new l ll (seriesDepth e lim) e.fixedSize) e := by
      unfold start; simp [hll, hbe]
    have h2 : start (.list e lim) (.pair l r) false = .indexed (.list e lim) (.pair l r) ll 0 := by
      unfold start; simp [hll]
    have hget : ∀ j, j < ll → ∃ v, getElemNode (.list e lim) (.pair l r) j =
        .ok (e, .leaf (chunkOf (leBytes e.fixedSize (numOf v)))) ∧
        basicAt e.fixedSize l (seriesDepth e lim) j = .ok v := by
      intro j hj
      obtain ⟨x, hx⟩ := hall ll hll j hj
      rw [getElemNode_list_basic e lim _ ll j hll hj hbe] at hx ⊢
      cases hc : basicAt e.fixedSize (.pair l r) (seriesDepth e lim + 1) j with
      | error err => rw [hc] at hx; cases hx
      | ok v =>
        obtain ⟨h64, _, hp⟩ := basicAt_ok_bounds hc
        have hsd : seriesDepth e lim = coverDepth (bottomNodes e.fixedSize lim) := by
          unfold seriesDepth; rw [if_pos hbe]
        have hpos := basic_list_pos_bound e.fixedSize lim j hp (by omega)
        rw [← hsd] at hpos
        rw [basicAt_pair_left e.fixedSize l r _ j h64 hpos] at hc
        exact ⟨v, rfl, hc⟩
    rw [h1, h2]
    exact ro_indexed_basics_core _ e _ l ll _ (fun _ h => by cases h) (fun _ h => by cases h)
      (isBasicElem_viewOk e hbe)
      (basic_not_bad_of_last _ l ll _ (fun j hj => (hget j hj).imp fun _ h => h.2)) hget m

/-- Remark (a finding about the Go code, confirmed on the real library): for a bitfield whose
    contents subtree is 56 or more deep (more than `2^63` bits of limit) the construction check
    `(1 << depth) << 8` of `bitReadonlyIter` wraps to 0, so `ReadonlyIter()` of every non-empty
    such bitfield fails although `Get`/`Iter()` work.  In the model: -/
theorem C17_bit_limit_wraps (anchor : Node) (length depth : Nat) (hd : 56 ≤ depth) (hl : 0 < length) :
    (BitIt.new anchor length depth).bad = true := by
  unfold BitIt.new
  simp only [decide_eq_true_eq]
  by_cases h64 : depth ≥ 64
  · rw [if_pos h64]; omega
  · rw [if_neg h64]
    obtain ⟨x, rfl⟩ : ∃ x, depth = 56 + x := ⟨depth - 56, by omega⟩
    have : 2 ^ (56 + x) * 256 = 2 ^ 64 * 2 ^ x := by
      rw [Nat.pow_add, Nat.mul_right_comm]
    rw [this, Nat.mul_mod_right]
    exact hl

/-! ### 6. non-vacuity: concrete small trees (`ZtypV.View.Iter.Ex`) -/

/-! ### 9. hand-written length nodes (a client that assembles list backings itself) -/

/-- a length node holding more than the limit makes `Length()` fail … -/
theorem C17_listLength_over_limit (c : Node) (ov lim : Nat) (hov : ov < 2 ^ 64) (hlt : lim < ov) :
    listLength (.pair c (lengthNode ov)) lim = .error .other := by
  have h8 : (chunkOf (leBytes 8 ov)).take 8 = leBytes 8 ov := by
    have := chunkOf_take_self (leBytes 8 ov) (by simp)
    simpa using this
  have h9 : leNat (leBytes 8 ov) = ov := by
    rw [leNat_leBytes]; apply Nat.mod_eq_of_lt
    have : (256 : Nat) ^ 8 = 2 ^ 64 := by decide
    omega
  simp only [listLength, getNode, lengthNode, if_true, R.bind_ok, asLeaf_leaf, h8, h9]
  rw [if_pos (by omega)]

/-- … and then both iterators of a list or bitlist view over that backing (`ErrElemIter` /
    `ErrBitIter`) report the error at every call, for ever: never a component, never an end -/
theorem C17_tampered_list (e : Ty) (c : Node) (ov lim : Nat) (hov : ov < 2 ^ 64) (hlt : lim < ov)
    (ro : Bool) (m : Nat) :
    runSteps AnyIt.next m (start (.list e lim) (.pair c (lengthNode ov)) ro) = List.replicate m .err := by
  have h1 : start (.list e lim) (.pair c (lengthNode ov)) ro = .failed := by
    unfold start; simp [C17_listLength_over_limit c ov lim hov hlt]
  rw [h1]; exact anyFailed_run m

theorem C17_tampered_bitlist (c : Node) (ov lim : Nat) (hov : ov < 2 ^ 64) (hlt : lim < ov)
    (ro : Bool) (m : Nat) :
    runSteps AnyIt.next m (start (.bitlist lim) (.pair c (lengthNode ov)) ro) = List.replicate m .err := by
  have h1 : start (.bitlist lim) (.pair c (lengthNode ov)) ro = .failed := by
    unfold start; simp [C17_listLength_over_limit c ov lim hov hlt]
  rw [h1]; exact anyFailed_run m

/-- the harness op `tamper` on a list backing is exactly this replacement -/
theorem C17_tamper_is_replacement (l r : Node) (ov : Nat) :
    Api.tamperLength (.pair l r) ov = .ok (.pair l (lengthNode ov)) := rfl

example : runSteps AnyIt.next 3 (start (.list (.uint 8) 4) (.pair (.leaf z0) (lengthNode 5)) true) = [.err, .err, .err] :=
  C17_tampered_list _ _ 5 4 (by decide) (by decide) true 3


section Examples
open Ex

/-- depth 2, 3 of 4 positions: three items in order, then `done` and `done` again -/
example : runSteps NodeIt.next 5 (NodeIt.new full 3 2) =
    [.item a, .item b, .item c, .done, .done] := by rfl

/-- positions 2 and 3 missing (summary leaf): two items, then the navigation error, sticky -/
example : runSteps NodeIt.next 5 (NodeIt.new part 3 2) =
    [.item a, .item b, .err .nav, .err .nav, .err .nav] := by rfl

/-- the hypotheses of `C17_nav_step` are satisfiable; first step on `full` -/
example : ∃ st', navStep full 2 (Array.replicate 2 (.leaf z0)) 0 = .ok (a, st') ∧
    StackFull full 2 st' 0 :=
  C17_nav_step full 2 _ 0 (by decide) (by decide) (StackInv_new _ _ _)

/-- … and a backtracking step: index 2 from the stack left by index 1 -/
example : navStep full 2 #[full, .pair a b] 2 = .ok (c, #[full, .pair c d]) := by rfl

/-- the hypotheses of `C17_node_iter_all_ok` / `_first_err` are satisfiable -/
example (n : Nat) : runSteps NodeIt.next n (NodeIt.new full 3 2) =
    (List.range (min n 3)).map (fun k => Step.item ([a, b, c].getD k a)) ++
      List.replicate (n - 3) .done :=
  C17_node_iter_all_ok full 3 2 rfl (fun k => [a, b, c].getD k a)
    (fun k hk => match k, hk with
      | 0, _ => rfl
      | 1, _ => rfl
      | 2, _ => rfl) n

example (n : Nat) : runSteps NodeIt.next n (NodeIt.new part 3 2) =
    (List.range (min n 2)).map (fun k => Step.item ([a, b].getD k a)) ++
      List.replicate (n - 2) (.err .nav) :=
  C17_node_iter_first_err part 3 2 rfl (fun k => [a, b].getD k a) 2 .nav (by decide)
    (fun k hk => match k, hk with
      | 0, _ => rfl
      | 1, _ => rfl) rfl n

/-- a failed construction: 5 nodes do not fit depth 2 -/
example : (NodeIt.new full 5 2).bad = true ∧
    (NodeIt.new full 5 2).next = (.err .other, NodeIt.new full 5 2) :=
  ⟨rfl, C17_node_bad _ rfl⟩

/-- packed uint64 (4 per chunk), 6 elements over two chunks: ends inside the second chunk -/
example : runSteps BasicIt.next 8 (BasicIt.new two 6 1 8) =
    (List.range 6).map (fun k => Step.item (Val.num
      (leNat (((if k < 4 then ch0 else ch1).drop (8 * (k % 4))).take 8)))) ++ [.done, .done] := by
  rfl

example : runSteps BasicIt.next 3 (BasicIt.new two 6 1 8) =
    [.item (.num 0x0706050403020100), .item (.num 0x0f0e0d0c0b0a0908),
     .item (.num 0x1716151413121110)] := by rfl

/-- the second bottom position is not a chunk: four elements, then an error, sticky -/
example : runSteps BasicIt.next 7 (BasicIt.new twoBad 6 1 8) =
    (List.range 4).map (fun k => Step.item (Val.num (leNat ((ch0.drop (8 * k)).take 8)))) ++
      [.err .other, .err .other, .err .other] := by rfl

set_option maxRecDepth 20000 in
/-- 258 bits over two chunks: bit 255 (last of chunk 0), bit 256 (first of chunk 1: the uint8
    counter wrapped to 0 and a new chunk was fetched), bit 257, then the end, twice -/
example : (runSteps BitIt.next 260 (BitIt.new twoBits 258 1)).drop 254 =
    [.item false, .item true, .item true, .item false, .done, .done] := by rfl

/-- the wrap itself, on the state before bit 255 -/
example : (let it : BitIt := ⟨twoBits, 258, 1, #[twoBits], 255, 255, bits0, 1, false⟩
    (it.next.1, it.next.2.j, it.next.2.next.1, it.next.2.next.2.j, it.next.2.next.2.rootIndex)) =
    (.item true, 0, .item true, 1, 2) := by rfl

/-- a list of three 32-byte roots (limit 4): both iterators, five calls -/
example : runSteps AnyIt.next 5 (start (.list (.bytesN 32) 4) (.pair full (lengthNode 3)) true) =
    [.node (.bytesN 32) a, .node (.bytesN 32) b, .node (.bytesN 32) c, .done, .done] := by rfl

example : runSteps AnyIt.next 5 (start (.list (.bytesN 32) 4) (.pair full (lengthNode 3)) false) =
    [.node (.bytesN 32) a, .node (.bytesN 32) b, .node (.bytesN 32) c, .done, .done] := by rfl

/-- the hypotheses of the three `C17_ro_eq_indexed_*` theorems are satisfiable -/
example (m : Nat) :
    runSteps AnyIt.next m (start (.list (.bytesN 32) 4) (.pair full (lengthNode 3)) true) =
      runSteps AnyIt.next m (start (.list (.bytesN 32) 4) (.pair full (lengthNode 3)) false) :=
  C17_ro_eq_indexed_list (.bytesN 32) 4 _ rfl
    (fun ll hll => by
      have h3 : listLength (.pair full (lengthNode 3)) 4 = .ok 3 := rfl
      rw [h3] at hll
      cases hll
      intro j hj
      match j, hj with
      | 0, _ => exact ⟨_, rfl⟩
      | 1, _ => exact ⟨_, rfl⟩
      | 2, _ => exact ⟨_, rfl⟩) m

example (m : Nat) :
    runSteps AnyIt.next m (start (.vector (.bytesN 32) 3) full true) =
      runSteps AnyIt.next m (start (.vector (.bytesN 32) 3) full false) :=
  C17_ro_eq_indexed_vector (.bytesN 32) 3 full rfl
    (fun j hj => match j, hj with
      | 0, _ => ⟨_, rfl⟩
      | 1, _ => ⟨_, rfl⟩
      | 2, _ => ⟨_, rfl⟩) m

example (m : Nat) :
    runSteps AnyIt.next m (start (.container [.bytesN 32, .uint 8, .bool]) full true) =
      runSteps AnyIt.next m (start (.container [.bytesN 32, .uint 8, .bool]) full false) :=
  C17_ro_eq_indexed_container [.bytesN 32, .uint 8, .bool] full
    (fun j hj => match j, hj with
      | 0, _ => ⟨_, rfl⟩
      | 1, _ => ⟨_, rfl⟩
      | 2, _ => ⟨_, rfl⟩) m

/-- when an access fails the two iterators differ (so the hypothesis of `C17_ro_eq_indexed_*`
    is needed): the read-only iterator repeats the error, the index-based one moves on -/
example : runSteps AnyIt.next 4 (start (.vector (.bytesN 32) 4) part true) =
      [.node (.bytesN 32) a, .node (.bytesN 32) b, .err, .err] ∧
    runSteps AnyIt.next 5 (start (.vector (.bytesN 32) 4) part false) =
      [.node (.bytesN 32) a, .node (.bytesN 32) b, .err, .err, .done] := ⟨rfl, rfl⟩

/-- the index-based iterator in closed form -/
example : runSteps AnyIt.next 5 (.indexed (.vector (.bytesN 32) 3) full 3 0) =
    [.node (.bytesN 32) a, .node (.bytesN 32) b, .node (.bytesN 32) c, .done, .done] := by
  rw [C17_indexed_iter]; rfl

/-- bitfields: hypotheses of `C17_ro_eq_indexed_bitvector` / `_bitlist` are satisfiable
    (258 bits: the length ends just after a 256-bit chunk) -/
example (m : Nat) :
    runSteps AnyIt.next m (start (.bitvector 258) twoBits true) =
      runSteps AnyIt.next m (start (.bitvector 258) twoBits false) :=
  C17_ro_eq_indexed_bitvector 258 twoBits (by decide)
    (fun j hj => by
      rw [getElemNode_bitvector 258 twoBits j hj]
      have h : j / 256 = 0 ∨ j / 256 = 1 := by omega
      rcases h with h | h <;> rw [h] <;> exact ⟨_, rfl⟩) m

example (m : Nat) :
    runSteps AnyIt.next m (start (.bitlist 300) (.pair twoBits (lengthNode 258)) true) =
      runSteps AnyIt.next m (start (.bitlist 300) (.pair twoBits (lengthNode 258)) false) :=
  C17_ro_eq_indexed_bitlist 300 _ (by decide)
    (fun ll hll j hj => by
      rw [getElemNode_bitlist 300 _ ll j hll hj]
      have h3 : listLength (.pair twoBits (lengthNode 258)) 300 = .ok 258 := rfl
      rw [h3] at hll
      cases hll
      have h : j / 256 = 0 ∨ j / 256 = 1 := by omega
      rcases h with h | h <;> rw [h] <;> exact ⟨_, rfl⟩) m

example : runSteps AnyIt.next 3 (start (.bitlist 300) (.pair twoBits (lengthNode 258)) true) =
    [.bit false, .bit false, .bit false] := by rfl

/-- packed basics: hypotheses of `C17_ro_indexed_basic_vector` / `_list` are satisfiable -/
example (m : Nat) :
    runSteps AnyIt.next m (start (.vector (.uint 8) 6) two false) =
      (runSteps AnyIt.next m (start (.vector (.uint 8) 6) two true)).map valToNode :=
  C17_ro_indexed_basic_vector (.uint 8) 6 two rfl
    (fun j hj => match j, hj with
      | 0, _ => ⟨_, rfl⟩
      | 1, _ => ⟨_, rfl⟩
      | 2, _ => ⟨_, rfl⟩
      | 3, _ => ⟨_, rfl⟩
      | 4, _ => ⟨_, rfl⟩
      | 5, _ => ⟨_, rfl⟩) m

example (m : Nat) :
    runSteps AnyIt.next m (start (.list (.uint 8) 8) (.pair two (lengthNode 6)) false) =
      (runSteps AnyIt.next m (start (.list (.uint 8) 8) (.pair two (lengthNode 6)) true)).map
        valToNode :=
  C17_ro_indexed_basic_list (.uint 8) 8 _ rfl
    (fun ll hll => by
      have h3 : listLength (.pair two (lengthNode 6)) 8 = .ok 6 := rfl
      rw [h3] at hll
      cases hll
      intro j hj
      match j, hj with
      | 0, _ => exact ⟨_, rfl⟩
      | 1, _ => exact ⟨_, rfl⟩
      | 2, _ => exact ⟨_, rfl⟩
      | 3, _ => exact ⟨_, rfl⟩
      | 4, _ => exact ⟨_, rfl⟩
      | 5, _ => exact ⟨_, rfl⟩) m

example : runSteps AnyIt.next 2 (start (.list (.uint 8) 8) (.pair two (lengthNode 6)) true) =
    [.val (.uint 8) (.num 0x0706050403020100), .val (.uint 8) (.num 0x0f0e0d0c0b0a0908)] := by rfl

/-- the wrap of the construction check: depth 56, one bit -/
example : (BitIt.new (.leaf z0) 1 56).bad = true := C17_bit_limit_wraps _ 1 56 (by decide) (by decide)

end Examples

end ZtypV.Props.C17
