/-
C13 — Codec I/O is independent of chunking and surfaces faults.

Model: ZtypV/Model/IO.lean (`DecodingReader` over `io.LimitReader` over a scheduled `io.Reader`;
`EncodingWriter` over a failing `io.Writer`).  Helper lemmas: ZtypV/Proofs/IO.lean.

All theorems quantify over every legal delivery schedule (`ReaderState.legal`: any list of chunk
sizes ≥ 1, cycled from any position, any of the three end modes), any byte content, any scope and
any request size; the writer theorems over every failure position, every per-call limit and both
error conventions for short writes.  `Rd.avail` is the byte string that can still arrive through
the limiter stack: for `newDecodingReader (mkReader bs cycle endm k) scope` it is
`(bs.take k).take (int64 scope)`, independent of `cycle` and `endm`.
-/
import ZtypV.Proofs.IO
namespace ZtypV.Props.C13
open ZtypV ZtypV.CodecIO

/-! ## a single `Read` -/

/-- `Read` of `n` bytes within the scope, when at least `n` bytes can still arrive: returns exactly the
    next `n` bytes, advances the stream and the index by `n`, whatever the chunking and the end mode
    (in particular when the last bytes arrive together with EOF). -/
theorem C13_read_ok (dr : DR) (n : Nat) (hl : dr.input.legal)
    (hs : dr.i.toNat + n ≤ dr.max.toNat) (ha : n ≤ dr.input.avail.length) :
    (dr.read n).1 = .ok (dr.input.avail.take n) ∧
    (dr.read n).2.input.avail = dr.input.avail.drop n ∧
    (dr.read n).2.input.legal ∧
    (dr.read n).2.i.toNat = dr.i.toNat + n ∧
    (dr.read n).2.max = dr.max := by
  by_cases h0 : n = 0
  · subst h0
    rw [DR.read_zero]
    exact ⟨by simp, by simp, hl, by simp, rfl⟩
  · obtain ⟨hv1, hv2⟩ := scopeUpdate_ok dr.i dr.max n hs
    obtain ⟨r', e1, e2, _, e4⟩ := DR.read_ok dr n _ h0 hl hv1 ha
    rw [e1]
    exact ⟨rfl, e2, e4, hv2, rfl⟩


/-- non-vacuity: six bytes in chunks 2,3,1 with the last byte arriving together with EOF -/
example :
    (newDecodingReader Ex.rdWith 6).input.legal ∧
    (newDecodingReader Ex.rdWith 6).i.toNat + 6 ≤ (newDecodingReader Ex.rdWith 6).max.toNat ∧
    6 ≤ (newDecodingReader Ex.rdWith 6).input.avail.length ∧
    ((newDecodingReader Ex.rdWith 6).read 6).1 = .ok [1, 2, 3, 4, 5, 6] := by decide

/-- the stream fails or ends before `n` bytes have been delivered: an error, never data -/
theorem C13_read_short (dr : DR) (n : Nat) (hl : dr.input.legal)
    (hs : dr.i.toNat + n ≤ dr.max.toNat) (ha : dr.input.avail.length < n) :
    ∃ e got dr', dr.read n = (.err e got, dr') := by
  obtain ⟨hv1, _⟩ := scopeUpdate_ok dr.i dr.max n hs
  exact DR.read_short dr n _ hl hv1 ha


/-- non-vacuity: the stream fails after 4 of the 5 requested bytes (scope 6) -/
example :
    (newDecodingReader Ex.rdFail 6).input.legal ∧
    (newDecodingReader Ex.rdFail 6).i.toNat + 5 ≤ (newDecodingReader Ex.rdFail 6).max.toNat ∧
    (newDecodingReader Ex.rdFail 6).input.avail.length < 5 ∧
    ((newDecodingReader Ex.rdFail 6).read 5).1 = .err .fault [1, 2, 3, 4] := by decide

/-- a non-empty request beyond the scope is an error and consumes nothing (reader and index
    unchanged); `n < 2^64`: `len(p)` is a Go `int`.  (`Read` of an empty slice always succeeds.) -/
theorem C13_read_scope (dr : DR) (n : Nat) (h0 : n ≠ 0) (hn : n < 2 ^ 64) (hs : dr.max.toNat < dr.i.toNat + n) :
    dr.read n = (.err .scope [], dr) :=
  DR.read_scope_err dr n h0 (scopeUpdate_err dr.i dr.max n hn hs)


/-- non-vacuity: 7 bytes requested in a scope of 6 -/
example :
    (newDecodingReader Ex.rdWith 6).max.toNat < (newDecodingReader Ex.rdWith 6).i.toNat + 7 ∧
    (newDecodingReader Ex.rdWith 6).read 7 = (.err .scope [], newDecodingReader Ex.rdWith 6) :=
  ⟨by decide, C13_read_scope _ 7 (by decide) (by decide) (by decide)⟩

/-- complete description: the outcome of a `Read` is a function of index, bound and the bytes that can
    still arrive — not of the schedule; the loop never spins on a legal reader -/
theorem C13_read (dr : DR) (n : Nat) (hl : dr.input.legal) (hn : n < 2 ^ 64) :
    (dr.read n).1.val? =
      (if n = 0 then some []
       else if dr.i.toNat + n ≤ dr.max.toNat ∧ n ≤ dr.input.avail.length
         then some (dr.input.avail.take n) else none) ∧
    (dr.read n).1 ≠ .spin := by
  obtain ⟨h1, h2⟩ := DR.read_val dr n hl
  refine ⟨?_, h2⟩
  rw [h1]
  by_cases h0 : n = 0
  · simp [h0]
  · simp only [h0, if_false, scopeUpdate_isSome_iff dr.i dr.max n hn]


example : (newDecodingReader Ex.rdWith 6).input.legal ∧
    ((newDecodingReader Ex.rdWith 6).read 4).1.val? = some [1, 2, 3, 4] ∧
    ((newDecodingReader Ex.rdFail 6).read 5).1.val? = none := by decide

/-- same result as reading from the flat byte list through `bytes.Reader`-like delivery -/
theorem C13_read_flat (st : ReaderState) (scope : UInt64) (n : Nat) (hl : st.legal) :
    ((newDecodingReader st scope).read n).1.val? =
      ((newDecodingReader (flatReader st.data) scope).read n).1.val? := by
  have hl1 : (newDecodingReader st scope).input.legal := by simpa [newDecodingReader, Rd.legal] using hl
  have hl2 : (newDecodingReader (flatReader st.data) scope).input.legal := by
    simp [newDecodingReader, Rd.legal, flatReader, ReaderState.legal]
  rw [(DR.read_val _ n hl1).1, (DR.read_val _ n hl2).1]
  rfl


/-- non-vacuity: chunks 2,3 and EOF-with-data versus the flat reader -/
example : Ex.rdWith.legal ∧
    ((newDecodingReader Ex.rdWith 6).read 5).1.val? = some [1, 2, 3, 4, 5] ∧
    ((newDecodingReader (flatReader Ex.rdWith.data) 6).read 5).1.val? = some [1, 2, 3, 4, 5] := by decide

/-! ## sequences of reads — what a decoder does -/

/-- plain `Read`s of sizes `ns`: the results over any legal schedule are the flat-stream answer
    `specReads`: consecutive slices of the available bytes, stopping with an error at the first
    request that leaves the scope or that the stream cannot satisfy -/
theorem C13_reads (dr : DR) (hl : dr.input.legal) (ns : List Nat) (hb : ∀ n ∈ ns, n < 2 ^ 64) :
    ((dr.reads ns).1, (dr.reads ns).2.isSome) = specReads dr.input.avail dr.i.toNat dr.max.toNat ns ∧
    (dr.reads ns).2 ≠ some .spin :=
  DR.reads_spec dr hl ns hb


/-- non-vacuity: three reads, the last one beyond what the failing stream delivers -/
example :
    (newDecodingReader Ex.rdFail 6).input.legal ∧
    ((newDecodingReader Ex.rdFail 6).reads [1, 0, 3, 2]).1 = [[1], [], [2, 3, 4]] ∧
    ((newDecodingReader Ex.rdFail 6).reads [1, 0, 3, 2]).2 = some (.err .fault) ∧
    specReads (newDecodingReader Ex.rdFail 6).input.avail 0 6 [1, 0, 3, 2] = ([[1], [], [2, 3, 4]], true) := by
  decide

/-- the request programs executed by the driver restricted to plain reads are `DR.reads` -/
theorem C13_reads_run (d : Dec) (ns : List Nat) :
    d.run (ns.map Req.read) = ((d.cur.reads ns).1.map Obs.bytes, (d.cur.reads ns).2) :=
  Dec.run_reads d ns

/-- full request language (raw and typed reads, nested sub-scopes, return to the parent with and
    without `UpdateIndexFromScoped`): a decoder run on `NewDecodingReader(scheduled reader, scope)`
    observes exactly what the flat specification `specRun` computes from the deliverable bytes, and
    stops with an error exactly where the specification does -/
theorem C13_prog (st : ReaderState) (scope : UInt64) (hl : st.legal) (qs : List Req) :
    ((Dec.new st scope).run qs).1 = (specRun (specNew st.data scope) qs).1 ∧
    ((Dec.new st scope).run qs).2.isSome = (specRun (specNew st.data scope) qs).2 ∧
    ((Dec.new st scope).run qs).2 ≠ some .spin := by
  have := Dec.run_spec (Dec.new st scope) (Dec.new_wf st scope hl) qs
  rw [Dec.new_abs] at this
  exact this


/-- non-vacuity: a decoder-like program with a sub-scope, complete on the EOF-with-data stream and
    stopped inside the sub-scope on the failing stream -/
example :
    Ex.rdWith.legal ∧ Ex.rdFail.legal ∧
    ((Dec.new Ex.rdWith 6).run Ex.prog) = ([.num 1, .sub, .num 84148994, .up, .num 6, .index 2 6], none) ∧
    ((Dec.new Ex.rdFail 6).run Ex.prog) = ([.num 1, .sub], some (.err .fault)) ∧
    specRun (specNew Ex.rdFail.data 6) Ex.prog = ([.num 1, .sub], true) := by decide

/-- adaptive decoders (every next request computed from the values read so far — offsets, selectors,
    lengths): same observations and same stopping point as on the flat specification -/
theorem C13_adaptive (st : ReaderState) (scope : UInt64) (hl : st.legal)
    (next : List Obs → Option Req) (fuel : Nat) :
    (Dec.runAdaptive next fuel (Dec.new st scope) []).1 = (specRunAdaptive next fuel (specNew st.data scope) []).1 ∧
    (Dec.runAdaptive next fuel (Dec.new st scope) []).2.isSome = (specRunAdaptive next fuel (specNew st.data scope) []).2 ∧
    (Dec.runAdaptive next fuel (Dec.new st scope) []).2 ≠ some .spin := by
  have := Dec.runAdaptive_spec next fuel (Dec.new st scope) (Dec.new_wf st scope hl) []
  rw [Dec.new_abs] at this
  exact this

/-- non-vacuity: length byte 1, then 1 byte -/
example : Ex.rdWith.legal ∧
    Dec.runAdaptive Ex.lenPrefixed 5 (Dec.new Ex.rdWith 6) [] = ([.num 1, .bytes [2]], none) := by decide

/-- the delivered bytes of a scheduled reader do not depend on chunk list and end mode -/
theorem C13_new_avail (bs : Bytes) (cycle : List Nat) (endm : EndMode) (k : Nat) (scope : UInt64) :
    (newDecodingReader (mkReader bs cycle endm k) scope).input.avail = (bs.take k).take (toInt64 scope).toNat ∧
    ((∀ c ∈ cycle, 1 ≤ c) → (mkReader bs cycle endm k).legal) := by
  refine ⟨rfl, fun h => ⟨by simp [mkReader], h⟩⟩

/-- chunking independence: two legal schedules delivering the same bytes give the same observations -/
theorem C13_prog_indep (st1 st2 : ReaderState) (scope : UInt64) (hl1 : st1.legal) (hl2 : st2.legal)
    (hd : st1.data = st2.data) (qs : List Req) :
    ((Dec.new st1 scope).run qs).1 = ((Dec.new st2 scope).run qs).1 ∧
    ((Dec.new st1 scope).run qs).2.isSome = ((Dec.new st2 scope).run qs).2.isSome := by
  obtain ⟨a1, a2, _⟩ := C13_prog st1 scope hl1 qs
  obtain ⟨b1, b2, _⟩ := C13_prog st2 scope hl2 qs
  rw [a1, a2, b1, b2, hd]
  exact ⟨rfl, rfl⟩


example : Ex.rdWith.legal ∧ (flatReader Ex.rdWith.data).legal ∧ Ex.rdWith.data = (flatReader Ex.rdWith.data).data ∧
    Ex.rdWith.cycle ≠ (flatReader Ex.rdWith.data).cycle ∧ Ex.rdWith.endm ≠ (flatReader Ex.rdWith.data).endm := by decide

/-- in particular the same as over the flat in-memory reader -/
theorem C13_prog_flat (st : ReaderState) (scope : UInt64) (hl : st.legal) (qs : List Req) :
    ((Dec.new st scope).run qs).1 = ((Dec.new (flatReader st.data) scope).run qs).1 ∧
    ((Dec.new st scope).run qs).2.isSome = ((Dec.new (flatReader st.data) scope).run qs).2.isSome :=
  C13_prog_indep st (flatReader st.data) scope hl (by simp [flatReader, ReaderState.legal]) rfl qs

/-! ## writing -/

/-- general writer law (any failure position, any per-call limit, with or without error on short
    writes): the accepted bytes are a prefix of the bytes offered, `Written()` is their number, an
    error is returned iff not everything was accepted, and the loop never spins -/
theorem C13_write (w : WriterState) (ps : List Bytes) (h0 : w.acc = []) :
    (ewWrites (newEncodingWriter w) ps).2.w.acc = ps.flatten.take (ewWrites (newEncodingWriter w) ps).2.written ∧
    (ewWrites (newEncodingWriter w) ps).2.written = (ewWrites (newEncodingWriter w) ps).2.w.acc.length ∧
    (ewWrites (newEncodingWriter w) ps).2.written ≤ ps.flatten.length ∧
    ((ewWrites (newEncodingWriter w) ps).1 = none ↔
      (ewWrites (newEncodingWriter w) ps).2.written = ps.flatten.length) ∧
    ((ewWrites (newEncodingWriter w) ps).1 = none ∨ ∃ e, (ewWrites (newEncodingWriter w) ps).1 = some (.err e)) := by
  obtain ⟨m, post⟩ := ewWrites_spec (newEncodingWriter w) ps
  generalize ewWrites (newEncodingWriter w) ps = r at post ⊢
  generalize ps.flatten = total at post ⊢
  have hacc : r.2.w.acc = total.take m := by
    have := post.acc
    simpa only [newEncodingWriter, h0, List.nil_append] using this
  have hcnt : r.2.written = m := by
    have := post.cnt
    simpa only [newEncodingWriter, EW.written, Nat.zero_add] using this
  have hle := post.le
  refine ⟨by rw [hacc, hcnt], by rw [hacc, hcnt, List.length_take]; omega, by omega, ?_, ?_⟩
  · rw [hcnt]
    rcases post.status with ⟨h1, h2⟩ | ⟨e, h1, h2⟩
    · exact ⟨fun _ => h2, fun _ => h1⟩
    · constructor
      · intro h; rw [h] at h1; exact absurd h1 (by simp)
      · intro h; omega
  · rcases post.status with ⟨h1, _⟩ | ⟨e, h1, _⟩
    · exact Or.inl h1
    · exact Or.inr ⟨e, h1⟩


/-- non-vacuity: failure at byte 9 with at most 2 bytes per call: the 4-byte slice is cut short -/
example :
    Ex.wShort.acc = [] ∧
    ewWrites (newEncodingWriter Ex.wShort) Ex.slices =
      (some (.err .short), { w := { Ex.wShort with acc := [1, 2, 3, 4, 5] }, n := 5 }) := by decide

/-- writer failing at byte `k` (no per-call limit, or short writes reported without error): an error
    iff more than `k` bytes are offered; accepted = first `k` bytes of the encoding; `Written() = min k total` -/
theorem C13_write_failAt (w : WriterState) (ps : List Bytes) (k : Nat) (h0 : w.acc = [])
    (hk : w.failAt = some k) (hx : w.cap = 0 ∨ w.lenient = true) :
    ((ewWrites (newEncodingWriter w) ps).1.isSome = true ↔ k < ps.flatten.length) ∧
    (ewWrites (newEncodingWriter w) ps).2.w.acc = ps.flatten.take k ∧
    (ewWrites (newEncodingWriter w) ps).2.written = min k ps.flatten.length := by
  obtain ⟨m, post⟩ := ewWrites_spec (newEncodingWriter w) ps
  have hm : m = min ps.flatten.length k := by
    have := post.exactSome hx k hk
    simpa only [newEncodingWriter, h0, List.length_nil, Nat.sub_zero] using this
  generalize ewWrites (newEncodingWriter w) ps = r at post ⊢
  generalize ps.flatten = total at post hm ⊢
  have hacc : r.2.w.acc = total.take m := by
    have := post.acc
    simpa only [newEncodingWriter, h0, List.nil_append] using this
  have hcnt : r.2.written = m := by
    have := post.cnt
    simpa only [newEncodingWriter, EW.written, Nat.zero_add] using this
  refine ⟨?_, ?_, by rw [hcnt, hm]; omega⟩
  · rcases post.status with ⟨h1, h2⟩ | ⟨e, h1, h2⟩
    · rw [h1]
      constructor
      · intro h; exact absurd h (by simp)
      · intro h; omega
    · rw [h1]
      constructor
      · intro _; omega
      · intro _; rfl
  · rw [hacc, hm]
    by_cases hlt : k < total.length
    · rw [Nat.min_eq_right (by omega)]
    · rw [Nat.min_eq_left (by omega), List.take_of_length_le (Nat.le_refl _), List.take_of_length_le (by omega)]


/-- non-vacuity: 7 bytes offered to a writer failing at byte 5 -/
example :
    Ex.wFail.acc = [] ∧ Ex.wFail.failAt = some 5 ∧ (Ex.wFail.cap = 0 ∨ Ex.wFail.lenient = true) ∧
    ewWrites (newEncodingWriter Ex.wFail) Ex.slices =
      (some (.err .fault), { w := { Ex.wFail with acc := [1, 2, 3, 4, 5] }, n := 5 }) := by decide

/-- a writer that never fails (and reports short writes, if any, without error) accepts everything -/
theorem C13_write_nofail (w : WriterState) (ps : List Bytes) (h0 : w.acc = [])
    (hk : w.failAt = none) (hx : w.cap = 0 ∨ w.lenient = true) :
    (ewWrites (newEncodingWriter w) ps).1 = none ∧
    (ewWrites (newEncodingWriter w) ps).2.w.acc = ps.flatten ∧
    (ewWrites (newEncodingWriter w) ps).2.written = ps.flatten.length := by
  obtain ⟨m, post⟩ := ewWrites_spec (newEncodingWriter w) ps
  have hm : m = ps.flatten.length := post.exactNone hx hk
  generalize ewWrites (newEncodingWriter w) ps = r at post ⊢
  generalize ps.flatten = total at post hm ⊢
  have hacc : r.2.w.acc = total.take m := by
    have := post.acc
    simpa only [newEncodingWriter, h0, List.nil_append] using this
  have hcnt : r.2.written = m := by
    have := post.cnt
    simpa only [newEncodingWriter, EW.written, Nat.zero_add] using this
  refine ⟨?_, by rw [hacc, hm, List.take_of_length_le (Nat.le_refl _)], by rw [hcnt, hm]⟩
  rcases post.status with ⟨h1, _⟩ | ⟨e, _, h2⟩
  · exact h1
  · omega


/-- non-vacuity: one byte per call, reported with a nil error: the loop continues until all is written -/
example :
    Ex.wLenient.acc = [] ∧ Ex.wLenient.failAt = none ∧ (Ex.wLenient.cap = 0 ∨ Ex.wLenient.lenient = true) ∧
    ewWrites (newEncodingWriter Ex.wLenient) Ex.slices =
      (none, { w := { Ex.wLenient with acc := [1, 2, 3, 4, 5, 6, 7] }, n := 7 }) := by decide

/-- the driver's write programs (`WriteByte`, `WriteUintN`, `WriteOffset`, raw `Write`) without a
    panicking `WriteOffset` are `ewWrites` of the little-endian bytes of the ops -/
theorem C13_write_prog (ew : EW) (os : List WOp) (bs : List Bytes) (h : os.map WOp.bytes = bs.map some) :
    ewRun ew os = (stopOutcome (ewWrites ew bs).1, (ewWrites ew bs).2) :=
  ewRun_eq_ewWrites ew os bs h


example :
    [WOp.byte 7, .offset 12 1, .u16 513].map WOp.bytes = [[7], [13, 0, 0, 0], [1, 2]].map some ∧
    ewRun (newEncodingWriter Ex.wFail) [.byte 7, .offset 12 1, .u16 513] =
      (.err, { w := { Ex.wFail with acc := [7, 13, 0, 0, 0] }, n := 5 }) := by decide

end ZtypV.Props.C13
