/-
Property family C02c (C02 / C04 / C15 / C13): public API of `view` and `codec` that the other
families do not drive — the laws of the model functions of Model/Api.lean, each universally
quantified, with non-vacuity examples.  The model is tied to the Go code by the differential
check of the op family `api.*` (harness/ops_api.go, Driver/OpsApi.lean).

Theorems only; helpers live in Proofs/Api.lean, Proofs/ApiView.lean, Proofs/ApiSkip.lean.
-/
import ZtypV.Proofs.Api
import ZtypV.Proofs.ApiView
import ZtypV.Proofs.ApiSkip
import ZtypV.Proofs.ViewRoot
namespace ZtypV.Props.C02
open ZtypV ZtypV.View ZtypV.Api ZtypV.Sim ZtypV.CodecIO

/-! ## 1. type-definition accessors (C15 side) -/

/-- `ElementsPerBottomNode() = 32 / size` for the five uint element sizes -/
theorem C02c_elementsPerBottomNode (s : Nat) (h : uintSize s) :
    elementsPerBottomNode (UInt64.ofNat s) = some (UInt64.ofNat (32 / s)) :=
  elementsPerBottomNode_spec s h

example : elementsPerBottomNode (UInt64.ofNat 8) = some 4 := by decide

/-- `BottomNodeLimit()` / `BottomNodeLength()` = the SSZ chunk count `ceil(limit·size/32)`,
    provided the rounding addition `limit + perNode - 1` does not wrap -/
theorem C02c_bottomNodeLimit (s : Nat) (h : uintSize s) (limit : UInt64)
    (hw : limit.toNat + 32 / s - 1 < 2 ^ 64) :
    ∃ v, bottomNodeLimit limit (UInt64.ofNat s) = some v ∧ v.toNat = basicChunkCount s limit.toNat :=
  bottomNodeLimit_nowrap s h limit hw

example : bottomNodeLimit 33 (UInt64.ofNat 2) = some 3 ∧ basicChunkCount 2 33 = 3 := by decide

/-- what the Go expression computes for EVERY limit (wrap-around included) -/
theorem C02c_bottomNodeLimit_wrapped (s : Nat) (h : uintSize s) (limit : UInt64) :
    ∃ v, bottomNodeLimit limit (UInt64.ofNat s) = some v ∧
      v.toNat = ((limit.toNat + 32 / s - 1) % 2 ^ 64) / (32 / s) :=
  bottomNodeLimit_val s h limit

/-- the statement without the no-wrap hypothesis … -/
def C02c_bottomNodeLimit_full : Prop :=
  ∀ (s : Nat), uintSize s → ∀ limit : UInt64,
    ∃ v, bottomNodeLimit limit (UInt64.ofNat s) = some v ∧ v.toNat = basicChunkCount s limit.toNat

/-- … is false: `List[uint8, 2^64-1]` has 0 bottom nodes in the library, 2^59 in the spec
    (recorded finding; limits of the property text are ≤ 2^40) -/
theorem C02c_bottomNodeLimit_full_false : ¬ C02c_bottomNodeLimit_full := by
  intro hf
  obtain ⟨v, h1, h2⟩ := hf 1 (Or.inl rfl) 18446744073709551615
  have h3 : bottomNodeLimit 18446744073709551615 (UInt64.ofNat 1) = some 0 := by decide
  rw [h3] at h1
  cases h1
  revert h2
  decide

/-- `TranslateIndex(i) = (i / perNode, i % perNode)` for every `uint64` index -/
theorem C02c_translateIndex (s : Nat) (h : uintSize s) (index : UInt64) :
    ∃ a b, translateIndex (UInt64.ofNat s) index = some (a, b) ∧
      a.toNat = index.toNat / (32 / s) ∧ b.toNat = index.toNat % (32 / s) :=
  translateIndex_val s h index

example : translateIndex (UInt64.ofNat 4) 21 = some (2, 5) := by decide

/-- bitfields: `BottomNodeLimit/Length = ceil(n / 256)` when `n + 255` does not wrap -/
theorem C02c_bitBottomNodes (n : UInt64) (hw : n.toNat + 255 < 2 ^ 64) :
    (bitBottomNodes n).toNat = (n.toNat + 255) / 256 :=
  bitBottomNodes_nowrap n hw

theorem C02c_bitBottomNodes_wrapped (n : UInt64) :
    (bitBottomNodes n).toNat = ((n.toNat + 255) % 2 ^ 64) / 256 :=
  bitBottomNodes_val n

example : bitBottomNodes 257 = 2 ∧ bitBottomNodes 18446744073709551615 = 0 := by decide

/-- `ByteBitIndex(v)` = position of the highest set bit (`Nat.log2`, 0 for the byte 0) -/
theorem C02c_byteBitIndex (v : UInt8) : (Api.byteBitIndex v).toNat = Nat.log2 v.toNat :=
  byteBitIndex_eq_log2 v

example : Api.byteBitIndex 0x40 = 6 := by decide

/-- `TypeRepr()` of a container panics exactly when a field's `String()` reaches the nil option
    of a `Union[None, …]` (through series / union nesting, not through nested containers) -/
theorem C02c_typeRepr_container (fs : List Ty) :
    typeRepr (.container fs) = none ↔ anyStrPanics fs = true :=
  typeRepr_container_none_iff fs

/-- `TypeRepr()` (= `String()`) of a union type panics exactly when it has a None option or an
    option whose `String()` panics: EVERY `Union[None, …]` panics (recorded finding) -/
theorem C02c_typeRepr_union (hn : Bool) (opts : List Ty) :
    typeRepr (.union hn opts) = none ↔ (hn = true ∨ anyStrPanics opts = true) :=
  typeRepr_union_none_iff hn opts

example : typeRepr (.union true [.uint 1]) = none := rfl
example : typeRepr (.container [.uint 8, .list (.bitlist 3) 4]) =
    some "C(Container):    f0: uint64\n    f1: List[Bitist[3], 4]\n" := by decide

/-! ## 2. `CheckIndex` (C04 side) -/

/-- on ANY backing: nil error iff `Length()` succeeds and the index is below it -/
theorem C02c_checkIndex (n : Node) (lim i : Nat) :
    checkIndex n lim i = .ok () ↔ ∃ ll, listLength n lim = .ok ll ∧ i < ll :=
  checkIndex_ok_iff n lim i

theorem C02c_checkIndex_no_panic (n : Node) (lim i : Nat) : checkIndex n lim i ≠ .error .panic :=
  checkIndex_ne_panic n lim i

/-- on a backing of the list value `vs` (any construction route, any mutation history):
    nil error iff `i < length` -/
theorem C02c_checkIndex_value (h : HashFn) (e : Ty) (lim : Nat) (vs : List Val) (n : Node) (i : Nat)
    (hd : DepthOk (.list e lim)) (hr : Rep h (.list e lim) (.seq vs) n) :
    checkIndex n lim i = .ok () ↔ i < vs.length :=
  checkIndex_rep_list h e lim vs n i hd hr

/-- a hand-written length node: nil error iff the stored length respects the limit and the
    index is below it -/
theorem C02c_checkIndex_lengthNode (c : Node) (ov lim i : Nat) (hov : ov < 2 ^ 64) (hlim : lim < 2 ^ 64) :
    checkIndex (.pair c (lengthNode ov)) lim i = .ok () ↔ (ov ≤ lim ∧ i < ov) :=
  checkIndex_lengthNode c ov lim i hov hlim

example : checkIndex (.pair (.leaf z0) (lengthNode 3)) 4 2 = .ok () ∧
    checkIndex (.pair (.leaf z0) (lengthNode 3)) 4 3 = .error .other ∧
    checkIndex (.pair (.leaf z0) (lengthNode 5)) 4 0 = .error .other := ⟨rfl, rfl, rfl⟩

/-! ## 3. `ContainerView.FieldValues` (C02 side) -/

/-- on ANY backing whose fields are reachable and openable: exactly the views `Get(j)` returns -/
theorem C02c_fieldValues_eq_gets (fs : List Ty) (n : Node) (hd : coverDepth fs.length < 64)
    (cs : Nat → Node)
    (hget : ∀ j (hj : j < fs.length), subtreeGet n (coverDepth fs.length) j = .ok (cs j) ∧
      viewFromBackingOk fs[j] (cs j) = true) :
    fieldValues fs n = .ok ((List.range fs.length).map fun j => (fs[j]?.getD .bool, cs j)) :=
  fieldValues_eq_gets fs n hd cs hget

/-- on a backing of the container value `vs`: one view per field, each the view `Get(j)`
    returns, each a backing of — and reading back — the field's value -/
theorem C02c_fieldValues (h : HashFn) (fs : List Ty) (vs : List Val) (n : Node)
    (hw : (Ty.container fs).wf = true) (hr : inRange (.container fs) = true)
    (ht : hasType (.container fs) (.seq vs) = true) (hrep : Rep h (.container fs) (.seq vs) n) :
    ∃ views : List (Ty × Node), fieldValues fs n = .ok views ∧ views.length = fs.length ∧
      ∀ j (hj : j < fs.length), ∃ c x, views[j]? = some (fs[j], c) ∧ vs[j]? = some x ∧
        getElemNode (.container fs) n j = .ok (fs[j], c) ∧ Rep h fs[j] x c ∧
        viewVal fs[j] c = .ok x :=
  fieldValues_rep h fs vs n hw hr ht hrep

example : fieldValues [.uint 1, .uint 2] (.pair (.leaf (chunkOf [7])) (.leaf (chunkOf [1, 2]))) =
    .ok [(.uint 1, .leaf (chunkOf [7])), (.uint 2, .leaf (chunkOf [1, 2]))] := rfl

/-! ## 4. the `As*` casts (C02 side) -/

/-- an incoming error is passed through: every cast fails -/
theorem C02c_cast_error (c : Cast) : c.apply .err = none := rfl

/-- a nil view (the None option's `Value()`) fails every cast -/
theorem C02c_cast_nil (c : Cast) : c.apply .nil = none := rfl

/-- on a view: success iff the type assertion accepts its dynamic type; the result is the view -/
theorem C02c_cast_view (c : Cast) (t : Ty) (n : Node) (k : Kind) (hk : kindOf t = some k) :
    c.apply (.view t n) = if c.accepts k then some (t, n) else none :=
  apply_view c t n k hk

/-- exactly the matching casts succeed, for every dynamic view type -/
theorem C02c_accepting_casts (k : Kind) :
    Cast.all.filter (fun c => c.accepts k) =
      match k with
      | .u8 => [.u8, .byte] | .u16 => [.u16] | .u32 => [.u32] | .u64 => [.u64] | .u256 => [.u256]
      | .bool => [.bool] | .root => [.root]
      | .small len =>
        [.small] ++ (if len = 4 then [Cast.b4] else []) ++ (if len = 8 then [Cast.b8] else []) ++
          (if len = 16 then [Cast.b16] else [])
      | .blist => [.blist] | .bvec => [.bvec] | .clist => [.clist] | .cvec => [.cvec]
      | .container => [.container] | .union => [.union] | .bitlist => [.bitlist] | .bitvec => [.bitvec] :=
  accepting_casts k

/-- in SSZ terms: on a view of a well-formed type (boolean series excepted: known finding D3)
    a cast succeeds iff the type is the one the cast is for -/
theorem C02c_cast_type (c : Cast) (t : Ty) (n : Node) (hw : t.wf = true) (hb : boolSeries t = false) :
    c.apply (.view t n) = if c.isFor t then some (t, n) else none :=
  apply_view_wf c t n hw hb

example : Cast.u16.apply (.view (.uint 2) (.leaf z0)) = some (.uint 2, .leaf z0) ∧
    Cast.u8.apply (.view (.uint 2) (.leaf z0)) = none ∧
    Cast.blist.apply (.view (.list .bool 4) (.leaf z0)) = none := ⟨rfl, rfl, rfl⟩

/-- `Get(i)` handed to a cast, on a backing of the value `v : t`: a view of the `i`-th
    component — a backing of that component's value — or an error when there is none -/
theorem C02c_cast_get (h : HashFn) (t : Ty) (v : Val) (n : Node) (i : Nat)
    (hw : t.wf = true) (hr : inRange t = true) (ht : hasType t v = true) (hrep : Rep h t v n) :
    match valElem t v i with
    | some (et, x) => ∃ en, select t n (.get i) = .ok (.view et en) ∧ Rep h et x en ∧
        hasType et x = true ∧ et.wf = true
    | none => select t n (.get i) = .ok .err :=
  select_get_rep h t v n i hw hr ht hrep

/-- `Value()` handed to a cast: a view of the selected option's value, `(nil, nil)` for None -/
theorem C02c_cast_value (h : HashFn) (hasNone : Bool) (opts : List Ty) (sel : Nat) (v : Val)
    (n : Node) (hw : (Ty.union hasNone opts).wf = true)
    (ht : hasType (.union hasNone opts) (.union sel v) = true)
    (hrep : Rep h (.union hasNone opts) (.union sel v) n) :
    match unionOpt hasNone opts sel with
    | some ot => ∃ c, select (.union hasNone opts) n .value = .ok (.view ot c) ∧ Rep h ot v c ∧
        hasType ot v = true ∧ ot.wf = true
    | none => select (.union hasNone opts) n .value = .ok .nil :=
  select_value_rep h hasNone opts sel v n hw ht hrep

/-- the view a successful cast returns encodes to the component's SSZ encoding -/
theorem C02c_cast_encoding (h : HashFn) (c : Cast) (t : Ty) (v : Val) (n : Node)
    (hw : t.wf = true) (hr : inRange t = true) (ht : hasType t v = true) (hs : SizeOk t v)
    (hrep : Rep h t v n) (hb : boolSeries t = false) (hc : c.isFor t = true) :
    ∃ t' n', c.apply (.view t n) = some (t', n') ∧ serializeView t' n' = .ok (serialize t v) := by
  refine ⟨t, n, ?_, (rep_all h hw hr ht hs hrep).2.1⟩
  rw [apply_view_wf c t n hw hb, if_pos hc]

/-! ## 5. `Uint256View.Bytes32` / `SetBytes32` / `MustUint256` (C02 side) -/

open ZtypV.BasicApi in
/-- `Bytes32()` is the little-endian 32 byte image = the SSZ encoding of the number -/
theorem C02c_bytes32 (n : Nat) :
    (U256.ofNat n).bytes32 = leBytes 32 (n % 2 ^ 256) ∧
    (U256.ofNat n).bytes32 = serialize (.uint 32) (.num (n % 2 ^ 256)) := by
  have h : (U256.ofNat n).bytes32 = leBytes 32 (n % 2 ^ 256) := by
    rw [U256.bytes32_eq, U256.toNat_ofNat]
  exact ⟨h, by rw [h]; rfl⟩

open ZtypV.BasicApi in
/-- `SetBytes32(Bytes32())` is the identity, for any prior content of the destination -/
theorem C02c_setBytes32_bytes32 (v : U256) : U256.setBytes32 v.bytes32 = v :=
  U256.setBytes32_bytes32' v

open ZtypV.BasicApi in
/-- `SetBytes32(data)`: the value is the little-endian number, and `Bytes32()` returns `data` -/
theorem C02c_bytes32_setBytes32 (x : Bytes) (h : x.length = 32) :
    (U256.setBytes32 x).toNat = leNat x ∧ (U256.setBytes32 x).bytes32 = x :=
  ⟨U256.toNat_setBytes32 x h, U256.bytes32_setBytes32 x h⟩

open ZtypV.BasicApi in
example : (U256.ofNat 258).bytes32 = [2, 1] ++ List.replicate 30 0 := by decide

/-- `MustUint256(text)` returns `n` iff the text is a (signed) Go integer literal denoting
    `n < 2^256`; in every other case it panics -/
theorem C02c_mustUint256 (s : Conv.Text) (n : Nat) :
    mustUint256 s = some n ↔ (Conv.denotesInt s = some (n : Int) ∧ n < 2 ^ 256) :=
  mustUint256_iff s n

/-- on the decimal rendering of a number: it panics exactly when the number is out of range -/
theorem C02c_mustUint256_decimal (n : Nat) :
    mustUint256 (Conv.decDigits n) = if n < 2 ^ 256 then some n else none :=
  mustUint256_decimal n

/-- "42" and "-1" -/
example : mustUint256 [0x34, 0x32] = some 42 ∧ mustUint256 [0x2d, 0x31] = none := ⟨rfl, rfl⟩

/-! ## 6. codec: `Skip` and the directly called `ReadUint32` (C13 side) -/

/-- `Skip(count)` beyond the scope: an error, nothing is read -/
theorem C02c_skip_scope (dr : CodecIO.DR) (count : UInt64) (h : scopeUpdate dr.i dr.max count = none) :
    ∃ n, skip dr count = (.err .scope n, dr) :=
  skip_scope_err dr count h

/-- `Skip(count)`, `count < 2^63`, when `count` more bytes can arrive — whatever the delivery
    schedule: returns `count`, advances the index, consumes exactly `count` bytes of every
    enclosing scope -/
theorem C02c_skip_ok (dr : CodecIO.DR) (count v : UInt64) (hl : dr.input.legal)
    (h : scopeUpdate dr.i dr.max count = some v) (hc : count.toNat < 2 ^ 63)
    (ha : count.toNat ≤ dr.input.avail.length) :
    ∃ r', skip dr count = (.ok (count.toNat : Int), { input := r', i := v, max := dr.max }) ∧
      r'.avails = dr.input.avails.map (List.drop count.toNat) ∧ r'.legal :=
  skip_ok dr count v hl h hc ha

/-- … and when the stream fails or ends before: an error, never a success -/
theorem C02c_skip_short (dr : CodecIO.DR) (count v : UInt64) (hl : dr.input.legal)
    (h : scopeUpdate dr.i dr.max count = some v) (hc : count.toNat < 2 ^ 63)
    (ha : dr.input.avail.length < count.toNat) :
    ∃ e n dr', skip dr count = (.err e n, dr') :=
  skip_short dr count v hl h hc ha

/-- counts ≥ 2^63 allowed by the scope: success with count 0 although nothing was skipped
    (`int64(count)` is negative; recorded finding, needs a declared scope ≥ 2^63) -/
theorem C02c_skip_huge (dr : CodecIO.DR) (count v : UInt64) (h : scopeUpdate dr.i dr.max count = some v)
    (hc : 2 ^ 63 ≤ count.toNat) :
    skip dr count = (.ok 0, { input := dr.input, i := v, max := dr.max }) :=
  skip_huge dr count v h hc

/-- `ReadUint32()` called directly takes the `ReadOffset()` step (`ReadOffset` returns
    `dr.ReadUint32()`) -/
theorem C02c_readUint32 (d : Dec) : step2 d .u32 = liftBase (d.step (.uintN 4)) := rfl

/-- every request sequence of `api.read` (reads, typed reads, sub-scopes, `Skip` below 2^63) on
    every legal delivery schedule gives the flat byte-list answer, errors included, and never spins -/
theorem C02c_read (st : ReaderState) (scope : UInt64) (hl : st.legal) (qs : List Req2)
    (hq : ∀ q ∈ qs, q.small) :
    (run2 (Dec.new st scope) qs).1 = (specRun2 (specNew st.data scope) qs).1 ∧
    ((run2 (Dec.new st scope) qs).2.isSome = (specRun2 (specNew st.data scope) qs).2) ∧
    (run2 (Dec.new st scope) qs).2 ≠ some (.stop .spin) := by
  have h := run2_spec (Dec.new st scope) (Dec.new_wf st scope hl) qs hq
  rw [Dec.new_abs] at h
  exact h

example :
    (run2 (Dec.new (mkReader [1, 2, 3, 4, 5, 6, 7, 8] [2, 3] .eofWithData 8) 8)
      [.skip 3, .u32, .base .index, .skip 2]).1 =
      [.skipped 3, .base (.num 117835012), .base (.index 7 8)] := by decide

/-! ## 8. the remaining small methods: typed `New()`, `BackedView`, basic `SetBacking`, `tree.Root` as a value -/

/-- `td.New()` of a composite type definition is a view of the type's default value:
    its backing exists and has the spec root of `defaultVal t` -/
theorem C02c_new (h : HashFn) (t : Ty) (hwf : t.wf = true) (hnb : noBoolSeries t = true) :
    ∃ n, newBacking h t = .ok n ∧ n.root h = htr h t (defaultVal t) :=
  defaultNode_root h t hwf hnb

/-- `BackedView.Copy()` / `Default(hook)` of a composite view: never fails, and the result views
    the SAME node (so the same root, bytes and components as the original) -/
theorem C02c_backedCopy (t : Ty) (n : Node)
    (hcomp : match t with | .uint _ | .bool | .bytesN _ => False | _ => True) :
    backedCopy t n = .ok n := by
  cases t with
  | uint _ => exact hcomp.elim
  | bool => exact hcomp.elim
  | bytesN _ => exact hcomp.elim
  | _ => cases n <;> simp [backedCopy, viewFromBackingOk]

/-- whatever it returns is the original's node, for every type -/
theorem C02c_backedCopy_same (t : Ty) (n c : Node) (hc : backedCopy t n = .ok c) : c = n := by
  unfold backedCopy at hc
  split at hc
  · cases hc; rfl
  · cases hc

/-- on a backing of the value `v`: the copy reads back `v`, serializes to `serialize t v` and has
    the spec root -/
theorem C02c_backedCopy_value (h : HashFn) (t : Ty) (v : Val) (n c : Node)
    (hc : backedCopy t n = .ok c) (hr : Rep h t v n) : Rep h t v c := by
  rw [C02c_backedCopy_same t n c hc]; exact hr

/-- `SetBacking` of a basic value view is always refused and leaves the value untouched -/
theorem C02c_basicSetBacking (v : Val) (b : Node) :
    (basicSetBacking v b).1 = some .other ∧ (basicSetBacking v b).2 = v := ⟨rfl, rfl⟩

/-- a `tree.Root` used as a value is the SSZ value `Bytes32`: root, bytes and both lengths -/
theorem C02c_root_value (h : HashFn) (r : Root) (hl : r.length = 32) :
    rootHashTreeRoot h r = htr h (.bytesN 32) (.bytes r) ∧
    rootSerialize r = serialize (.bytesN 32) (.bytes r) ∧
    rootValueByteLength = .ok (serialize (.bytesN 32) (.bytes r)).length ∧
    rootByteLength = Ty.typeByteLength (.bytesN 32) := by
  have hc : chunks r = [r] := by
    rw [ViewRoot.chunks_single r (by omega) (by omega), chunkOf_of_ge r (by omega)]
    rw [List.take_of_length_le (by omega)]
  refine ⟨?_, ?_, ?_, ?_⟩
  · simp only [rootHashTreeRoot, htr]
    have : coverDepth ((32 + 31) / 32) = 0 := by decide
    rw [this, hc]; rfl
  · simp [rootSerialize, serialize]
  · simp [rootValueByteLength, serialize, hl]
  · rfl

example : backedCopy (.list (.uint 1) 4) (.pair (.leaf z0) (lengthNode 0)) = .ok (.pair (.leaf z0) (lengthNode 0)) := rfl
example : (basicSetBacking (.num 5) (.leaf z0)).2 = .num 5 := rfl


end ZtypV.Props.C02
