/-
C16 — Generalized-index and bit-length arithmetic is exact.

All theorems are about the executable model `ZtypV.Bits64.*` (`Model/Bits64.lean`, the
functions the driver runs for the correspondence check against `/repo/tree/bitlen.go` and
`/repo/tree/gindex.go`) and hold for ALL 64-bit inputs; `g`/`n` below is `v.toNat`.
Kernel-checked only (plain tactic proofs: `omega`, `simp`, `decide` on closed terms).
-/
import ZtypV.Proofs.Bits64
namespace ZtypV.Props.C16
open ZtypV ZtypV.Bits64

/-! ## bitlen.go -/

/-- `BitIndex(v) = ⌊log2 v⌋` for `v ≠ 0`, and `0` for `v = 0`. -/
theorem bitIndex_spec (v : UInt64) :
    (bitIndex v).toNat = if v = 0 then 0 else Nat.log2 v.toNat := by
  split
  · rename_i h; subst h; rfl
  · rename_i h; exact bitIndex_toNat h

/-- the same without case split (`Nat.log2 0 = 0`) -/
theorem bitIndex_eq_log2 (v : UInt64) : (bitIndex v).toNat = Nat.log2 v.toNat :=
  bitIndex_toNat' v

/-- `BitIndex` is the position of the highest set bit: `2^i ≤ v < 2^(i+1)`. -/
theorem bitIndex_bounds (v : UInt64) (hv : v ≠ 0) :
    2 ^ (bitIndex v).toNat ≤ v.toNat ∧ v.toNat < 2 ^ ((bitIndex v).toNat + 1) := by
  rw [bitIndex_toNat hv]
  exact ⟨Nat.log2_self_le (toNat_ne_zero hv), Nat.lt_log2_self⟩

/-- `BitLength(v) = ⌊log2 v⌋ + 1` for `v ≠ 0`, and `0` for `v = 0`. -/
theorem bitLength_spec (v : UInt64) :
    (bitLength v).toNat = if v = 0 then 0 else Nat.log2 v.toNat + 1 := by
  split
  · rename_i h; subst h; rfl
  · rename_i h; exact bitLength_toNat h

/-- `BitLength(v)` is the least number of bits that can hold `v`. -/
theorem bitLength_le_iff (v : UInt64) (d : Nat) : (bitLength v).toNat ≤ d ↔ v.toNat < 2 ^ d := by
  by_cases h : v = 0
  · subst h
    have : 0 < 2 ^ d := Nat.two_pow_pos d
    simpa [show bitLength 0 = 0 from rfl] using this
  · rw [bitLength_toNat h, ← Nat.log2_lt (toNat_ne_zero h)]; omega

/-- `CoverDepth(v) = ⌈log2 v⌉`: `0` for `v ≤ 1`, else `⌊log2 (v-1)⌋ + 1`. -/
theorem coverDepth_spec (v : UInt64) :
    (Bits64.coverDepth v).toNat = if v.toNat ≤ 1 then 0 else Nat.log2 (v.toNat - 1) + 1 :=
  coverDepth_toNat v

/-- the machine-integer `CoverDepth` is the `Nat` function used by the other models -/
theorem coverDepth_eq_basic (v : UInt64) : (Bits64.coverDepth v).toNat = ZtypV.coverDepth v.toNat :=
  coverDepth_toNat v

/-- `CoverDepth(v)` is the least `d` with `v ≤ 2^d` (for every `d`, in particular `d ≤ 64`). -/
theorem coverDepth_le_iff (v : UInt64) (d : Nat) : (Bits64.coverDepth v).toNat ≤ d ↔ v.toNat ≤ 2 ^ d := by
  rw [coverDepth_toNat]
  have hp : 0 < 2 ^ d := Nat.two_pow_pos d
  split
  · rename_i h; constructor <;> intro _ <;> omega
  · rename_i h
    have : v.toNat - 1 ≠ 0 := by omega
    have := Nat.log2_lt (k := d) this
    omega

example : (bitIndex 0x8000000000000000).toNat = 63 ∧ (bitLength 0xFFFFFFFFFFFFFFFF).toNat = 64
    ∧ (Bits64.coverDepth 0xFFFFFFFFFFFFFFFF).toNat = 64 ∧ (Bits64.coverDepth 9).toNat = 4 := by decide

/-! ## gindex.go : navigation -/

/-- `Left` is `2g` when the child is representable (`g < 2^63`) … -/
theorem left_spec (v : UInt64) (h : v.toNat < 2 ^ 63) : (left v).toNat = 2 * v.toNat := by
  rw [left_toNat]; exact Nat.mod_eq_of_lt (by omega)

/-- … and in general `2g mod 2^64` (silent wrap-around above `2^63`). -/
theorem left_wrap (v : UInt64) : (left v).toNat = 2 * v.toNat % 2 ^ 64 := left_toNat v

/-- `Right` is `2g+1` when representable. -/
theorem right_spec (v : UInt64) (h : v.toNat < 2 ^ 63) : (right v).toNat = 2 * v.toNat + 1 :=
  right_toNat h

/-- `Parent` is `⌊g/2⌋`. -/
theorem parent_spec (v : UInt64) : (parent v).toNat = v.toNat / 2 := parent_toNat v

/-- children and parent are inverse to each other -/
theorem parent_left_right (v : UInt64) (h : v.toNat < 2 ^ 63) :
    parent (left v) = v ∧ parent (right v) = v := by
  constructor <;> apply UInt64.toNat_inj.mp
  · rw [parent_toNat, left_spec v h]; omega
  · rw [parent_toNat, right_spec v h]; omega

theorem isRoot_spec (v : UInt64) : isRoot v = true ↔ v.toNat = 1 := by
  unfold isRoot
  rw [beq_iff_eq, ← UInt64.toNat_inj]; rfl

/-- `IsClose` is `g ≤ 3`: true for 2 and 3 (the doc comment), but ALSO for the root 1
    (and for the invalid index 0). -/
theorem isClose_spec (v : UInt64) : isClose v = true ↔ v.toNat ≤ 3 := by
  unfold isClose
  rw [decide_eq_true_iff, UInt64.le_iff_toNat_le]; rfl

/-- `Depth = ⌊log2 g⌋`. -/
theorem depth_spec (v : UInt64) : (depth v).toNat = Nat.log2 v.toNat := by
  unfold depth; rw [UInt8.toNat_toUInt32, bitIndex_toNat']

/-- `Anchor = 2^depth`. -/
theorem anchor_spec (v : UInt64) : (anchor v).toNat = 2 ^ Nat.log2 v.toNat := anchor_toNat v

/-- `IsLeft` for `g ≥ 2`: the bit right below the leading one is 0. -/
theorem isLeft_spec (v : UInt64) (h : 2 ≤ v.toNat) :
    isLeft v = true ↔ v.toNat.testBit (Nat.log2 v.toNat - 1) = false := isLeft_iff h

/-- `Subtree` for `g ≥ 2`: the first step below the root is dropped — the anchor moves one
    level down and the remaining path bits are kept. -/
theorem subtree_spec (v : UInt64) (h : 2 ≤ v.toNat) :
    (subtree v).toNat
      = 2 ^ (Nat.log2 v.toNat - 1) + v.toNat % 2 ^ (Nat.log2 v.toNat - 1) := subtree_toNat h

/-- consequently `Subtree` is one level shallower -/
theorem subtree_depth (v : UInt64) (h : 2 ≤ v.toNat) :
    (depth (subtree v)).toNat = (depth v).toNat - 1 := by
  rw [depth_spec, depth_spec, subtree_toNat h]
  have hm : v.toNat % 2 ^ (Nat.log2 v.toNat - 1) < 2 ^ (Nat.log2 v.toNat - 1) :=
    Nat.mod_lt _ (Nat.two_pow_pos _)
  have hp : 0 < 2 ^ (Nat.log2 v.toNat - 1) := Nat.two_pow_pos _
  rw [Nat.log2_eq_iff (by omega), Nat.pow_succ]
  omega

/-- in path terms: the bit path of `Subtree` is the tail of the bit path -/
theorem subtree_path (v : UInt64) (h : 2 ≤ v.toNat) :
    (List.range (Nat.log2 (subtree v).toNat)).reverse.map (subtree v).toNat.testBit
      = ((List.range (Nat.log2 v.toNat)).reverse.map v.toNat.testBit).tail := by
  have hd := subtree_depth v h
  rw [depth_spec, depth_spec] at hd
  have hl : 1 ≤ Nat.log2 v.toNat := (Nat.le_log2 (by omega)).mpr (by omega)
  rw [hd, subtree_toNat h]
  obtain ⟨L, hL⟩ : ∃ L, Nat.log2 v.toNat = L + 1 := ⟨Nat.log2 v.toNat - 1, by omega⟩
  rw [hL, Nat.add_sub_cancel, List.range_succ, List.reverse_append, List.reverse_singleton,
    List.singleton_append, List.map_cons, List.tail_cons]
  apply List.map_congr_left
  intro i hi
  have hi' : i < L := List.mem_range.mp (List.mem_reverse.mp hi)
  rw [Nat.testBit_two_pow_add_gt hi', Nat.testBit_mod_two_pow]
  simp [hi']

example : isLeft 5 = true ∧ subtree 5 = 3 ∧ subtree 6 = 2 ∧ anchor 6 = 4 ∧ depth 6 = 2
    ∧ isClose 1 = true := by decide

/-! ## bit iterator -/

/-- `BitIter()` returns depth `⌊log2 g⌋`. -/
theorem bitIter_depth (v : UInt64) : (bitIter v).2.toNat = Nat.log2 v.toNat := by
  unfold bitIter; simp only []; rw [UInt8.toNat_toUInt32, bitIndex_toNat']

/-- The first `depth` calls of `Next` return, most significant first, exactly the bits of `g`
    after the leading one, each with `ok = true`; every later call returns `ok = false`. -/
theorem bitIter_nexts (v : UInt64) (m : Nat) :
    (bitIter v).1.nexts (Nat.log2 v.toNat + m) =
      ((List.range (Nat.log2 v.toNat)).reverse.map fun i => (v.toNat.testBit i, true))
        ++ List.replicate m (false, false) := by
  have hm : (bitIter v).1.marker.toNat = 2 ^ Nat.log2 v.toNat := anchor_toNat v
  exact (nexts_live _ m (bitIter v).1 (log2_lt_64 v) hm).1

/-- … and the marker is 0 from the first failing call on. -/
theorem bitIter_exhausted (v : UInt64) (m : Nat) (hm : m ≠ 0) :
    ((bitIter v).1.after (Nat.log2 v.toNat + m)).marker = 0 := by
  have h : (bitIter v).1.marker.toNat = 2 ^ Nat.log2 v.toNat := anchor_toNat v
  exact (nexts_live _ m (bitIter v).1 (log2_lt_64 v) h).2 hm

example : (bitIter 0b1011).1.nexts 5
    = [(false, true), (true, true), (true, true), (false, false), (false, false)] := by decide

/-! ## position → index -/

/-- `ToGindex64` rejects exactly the unrepresentable pairs and otherwise returns `2^d + i`;
    it never panics. -/
theorem toGindex64_spec (i : UInt64) (d : UInt8) :
    toGindex64 i d =
      if d.toNat < 64 ∧ i.toNat < 2 ^ d.toNat then .ok (UInt64.ofNat (2 ^ d.toNat + i.toNat))
      else .error .err := toGindex64_eq i d

theorem toGindex64_ok_iff (i : UInt64) (d : UInt8) :
    (∃ g, toGindex64 i d = .ok g) ↔ d.toNat < 64 ∧ i.toNat < 2 ^ d.toNat := by
  rw [toGindex64_eq]
  split
  · rename_i h; exact ⟨fun _ => h, fun _ => ⟨_, rfl⟩⟩
  · rename_i h; exact ⟨fun ⟨g, hg⟩ => (by cases hg), fun h' => absurd h' h⟩

theorem toGindex64_val (i : UInt64) (d : UInt8) (g : UInt64) (h : toGindex64 i d = .ok g) :
    g.toNat = 2 ^ d.toNat + i.toNat ∧ Nat.log2 g.toNat = d.toNat := by
  rw [toGindex64_eq] at h
  split at h
  · rename_i hc
    cases h
    have hlt : 2 ^ d.toNat + i.toNat < 2 ^ 64 := by
      have : 2 ^ (d.toNat + 1) ≤ 2 ^ 64 := Nat.pow_le_pow_right (by omega) (by omega)
      rw [Nat.pow_succ] at this; omega
    have hp : 0 < 2 ^ d.toNat := Nat.two_pow_pos _
    rw [UInt64.toNat_ofNat_of_lt' hlt]
    refine ⟨rfl, ?_⟩
    rw [Nat.log2_eq_iff (by omega), Nat.pow_succ]; omega
  · cases h

example : toGindex64 5 3 = .ok 13 ∧ toGindex64 8 3 = .error .err
    ∧ toGindex64 0 64 = .error .err ∧ toGindex64 0x7FFFFFFFFFFFFFFF 63 = .ok 0xFFFFFFFFFFFFFFFF := by
  refine ⟨?_, ?_, ?_, ?_⟩ <;> rfl

/-! ## byte encodings -/

theorem littleEndian_zero : littleEndian 0 = .ok [] := rfl
theorem bigEndian_zero : bigEndian 0 = .ok [] := rfl
theorem leftAligned_zero : leftAlignedBigEndian 0 = .ok ([], 0) := rfl

/-- `LittleEndian` (v ≠ 0): no panic; the result is the little-endian encoding in exactly
    `⌊log2 v / 8⌋ + 1` bytes. -/
theorem littleEndian_spec (v : UInt64) (hv : v ≠ 0) :
    littleEndian v = .ok (leBytes (Nat.log2 v.toNat / 8 + 1) v.toNat) := littleEndian_eq hv

/-- it decodes back to `v`, and no shorter byte string does (minimality). -/
theorem littleEndian_roundtrip_minimal (v : UInt64) (hv : v ≠ 0) :
    ∃ bs, littleEndian v = .ok bs ∧ bs.length = Nat.log2 v.toNat / 8 + 1 ∧ leNat bs = v.toNat
      ∧ ∀ bs' : Bytes, leNat bs' = v.toNat → bs.length ≤ bs'.length := by
  have hb := byteLen_bounds (toNat_ne_zero hv)
  refine ⟨_, littleEndian_eq hv, leBytes_length _ _, leNat_leBytes_of_lt hb.2, ?_⟩
  intro bs' h'
  rw [leBytes_length]
  have h1 := leNat_lt bs'
  rw [h'] at h1
  have : 256 ^ (Nat.log2 v.toNat / 8) < 256 ^ bs'.length := Nat.lt_of_le_of_lt hb.1 h1
  have := (Nat.pow_lt_pow_iff_right (a := 256) (by omega)).mp this
  omega

/-- `BigEndian` (v ≠ 0): the same bytes in reverse order. -/
theorem bigEndian_spec (v : UInt64) (hv : v ≠ 0) :
    bigEndian v = .ok (leBytes (Nat.log2 v.toNat / 8 + 1) v.toNat).reverse := bigEndian_eq hv

theorem bigEndian_roundtrip_minimal (v : UInt64) (hv : v ≠ 0) :
    ∃ bs, bigEndian v = .ok bs ∧ bs.length = Nat.log2 v.toNat / 8 + 1 ∧ beNat bs = v.toNat
      ∧ ∀ bs' : Bytes, beNat bs' = v.toNat → bs.length ≤ bs'.length := by
  have hb := byteLen_bounds (toNat_ne_zero hv)
  refine ⟨_, bigEndian_eq hv, by rw [List.length_reverse, leBytes_length], ?_, ?_⟩
  · rw [beNat_reverse]; exact leNat_leBytes_of_lt hb.2
  · intro bs' h'
    rw [List.length_reverse, leBytes_length]
    have h1 := leNat_lt bs'.reverse
    rw [← beNat_eq_leNat_reverse, h', List.length_reverse] at h1
    have : 256 ^ (Nat.log2 v.toNat / 8) < 256 ^ bs'.length := Nat.lt_of_le_of_lt hb.1 h1
    have := (Nat.pow_lt_pow_iff_right (a := 256) (by omega)).mp this
    omega

/-- `LeftAlignedBigEndian` (v ≠ 0): `bitLen = ⌊log2 v⌋ + 1`, `⌈bitLen/8⌉` bytes, holding
    (big-endian) `v` shifted left by the padding `8·len − bitLen`. -/
theorem leftAligned_spec (v : UInt64) (hv : v ≠ 0) :
    leftAlignedBigEndian v =
      .ok ((leBytes ((Nat.log2 v.toNat + 8) / 8)
              (v.toNat * 2 ^ (8 * ((Nat.log2 v.toNat + 8) / 8) - (Nat.log2 v.toNat + 1)))).reverse,
           UInt32.ofNat (Nat.log2 v.toNat + 1)) := leftAligned_eq hv

/-- decoded: length `(bitLen+7)/8`, the leading one of `v` is the top bit of the first byte,
    and shifting the padding back out returns `v`. -/
theorem leftAligned_roundtrip (v : UInt64) (hv : v ≠ 0) :
    ∃ bs bl, leftAlignedBigEndian v = .ok (bs, bl) ∧ bl.toNat = Nat.log2 v.toNat + 1
      ∧ bs.length = (bl.toNat + 7) / 8
      ∧ 2 ^ (8 * bs.length - 1) ≤ beNat bs
      ∧ beNat bs / 2 ^ (8 * bs.length - bl.toNat) = v.toNat := by
  have hL := log2_lt_64 v
  have hv0 := toNat_ne_zero hv
  have hbl : (UInt32.ofNat (Nat.log2 v.toNat + 1)).toNat = Nat.log2 v.toNat + 1 := by
    rw [UInt32.toNat_ofNat']; omega
  refine ⟨_, _, leftAligned_eq hv, hbl, ?_, ?_, ?_⟩
  all_goals rw [List.length_reverse, leBytes_length]
  · rw [hbl]
  all_goals
    rw [beNat_reverse]
    generalize hLd : Nat.log2 v.toNat = L at *
    have hlo : 2 ^ L ≤ v.toNat := by rw [← hLd]; exact Nat.log2_self_le hv0
    have hhi : v.toNat < 2 ^ (L + 1) := by rw [← hLd]; exact Nat.lt_log2_self
    have hdec : leNat (leBytes ((L + 8) / 8) (v.toNat * 2 ^ (8 * ((L + 8) / 8) - (L + 1))))
        = v.toNat * 2 ^ (8 * ((L + 8) / 8) - (L + 1)) := by
      apply leNat_leBytes_of_lt
      have e : (256 : Nat) ^ ((L + 8) / 8) = 2 ^ (L + 1) * 2 ^ (8 * ((L + 8) / 8) - (L + 1)) := by
        rw [← Nat.pow_add, show (256 : Nat) = 2 ^ 8 from rfl, ← Nat.pow_mul]; congr 1; omega
      rw [e]
      exact Nat.mul_lt_mul_of_lt_of_le hhi (Nat.le_refl _) (Nat.two_pow_pos _)
    rw [hdec]
  · have e : 2 ^ (8 * ((L + 8) / 8) - 1) = 2 ^ L * 2 ^ (8 * ((L + 8) / 8) - (L + 1)) := by
      rw [← Nat.pow_add]; congr 1; omega
    rw [e]
    exact Nat.mul_le_mul_right _ hlo
  · rw [hbl]
    exact Nat.mul_div_cancel _ (Nat.two_pow_pos _)

example : littleEndian 0x1234 = .ok [0x34, 0x12] ∧ bigEndian 0x1234 = .ok [0x12, 0x34]
    ∧ leftAlignedBigEndian 0x1234 = .ok ([0x91, 0xa0], 13)
    ∧ bigEndian 0xFFFFFFFFFFFFFFFF = .ok [255, 255, 255, 255, 255, 255, 255, 255] := by
  refine ⟨?_, ?_, ?_, ?_⟩ <;> rfl

/-! ## the hypotheses are satisfiable (instances on concrete inputs) -/

example := bitIndex_bounds 0xdeadbeef (by decide)
example := left_spec 0x7FFFFFFFFFFFFFFF (by decide)
example := right_spec 0x7FFFFFFFFFFFFFFF (by decide)
example := parent_left_right 12345 (by decide)
example := isLeft_spec 0xFFFFFFFFFFFFFFFF (by decide)
example := subtree_spec 0xFFFFFFFFFFFFFFFF (by decide)
example := subtree_depth 6 (by decide)
example := subtree_path 6 (by decide)
example := bitIter_exhausted 11 1 (by decide)
example := toGindex64_val 5 3 13 rfl
example := littleEndian_spec 0x1234 (by decide)
example := littleEndian_roundtrip_minimal 0x1234 (by decide)
example := bigEndian_spec 0x1234 (by decide)
example := bigEndian_roundtrip_minimal 0x1234 (by decide)
example := leftAligned_spec 0x1234 (by decide)
example := leftAligned_roundtrip 0x1234 (by decide)

end ZtypV.Props.C16
