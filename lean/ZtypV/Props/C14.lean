/-
C14  Forks of a hashed tree can be used concurrently.

Model H threads (`ZtypV/Model/Heap.lean`, `Sys`): a shared base heap `B` — the structure the forks
have in common — plus one private heap per goroutine.  Goroutine `i` runs an arbitrary client
`p i` of package `tree` (reads, allocations = mutations, hash-tree-root requests) against
`shared ++ priv_i`, with its own hash function `hs i` (the package-level `Hash` or a
per-goroutine `GetHashFn()`).  A `MerkleRoot` step on a shared pair with unset memo WOULD write the
shared heap — `Sys.step` writes the first `B.size` cells of the thread's heap back to `shared`, so
the model can exhibit that race (`C14_unhashed_counterexample`).  The zero nodes and type defaults
are ordinary (leaf) cells of `B`.

"Hashed beforehand" in two strengths:
* `…_reach` theorems: every thread `i` starts from a set `R i` of shared nodes, each fully hashed
  (`FullyMemo B a`: every pair reachable from it has its memo set), and is a `Safe (R i)` client: it
  uses only addresses it legitimately holds (start nodes, own allocations, children revealed by
  reads — a Go client cannot fabricate pointers).  `B` may contain unhashed garbage elsewhere.
* plain theorems: every pair of `B` is hashed (`AllMemo B`), clients are arbitrary poke-free
  programs (they may even name addresses they were never given).

What the model cannot exhibit: the Go memory model, compiler reordering, the race detector's
happens-before sampling.  The theorems are about the accesses as the source performs them, at the
granularity of one primitive of package `tree` per step; since under the premise no thread ever
writes the shared heap and private heaps are only accessed by their owner, each thread's accesses
do not depend on the interleaving at any finer granularity either (`C14_sequential`).
-/
import ZtypV.Proofs.HeapThreads
namespace ZtypV.Props.C14
open ZtypV ZtypV.H

/-! ### premise: the threads' start nodes are fully hashed -/

/-- In every interleaving the shared heap stays exactly the base heap, and no thread ever writes an
    address below `B.size`. -/
theorem C14_no_shared_write_reach (hs : Nat → HashFn) {B : Heap} (hw : WF B) {R : Nat → Nat → Prop}
    (hR : ∀ i a, R i a → a < B.size ∧ FullyMemo B a) {p : Nat → Prog α}
    (hsafe : ∀ i, Safe (R i) (p i)) (sched : List Nat) :
    ((Sys.init B p).exec hs sched).shared = B
      ∧ ∀ i y, y ∈ (((Sys.init B p).exec hs sched).threads i).tr.writes → B.size ≤ y :=
  let c := c14_core hs (fun i => stable_reach (hs i) B) (sysInv_init_reach hw hR hsafe) sched
  ⟨c.1, c.2.1⟩

/-- Race freedom: in every interleaving, a location written by thread `i` is never accessed (read
    or written) by another thread `j`. -/
theorem C14_race_free_reach (hs : Nat → HashFn) {B : Heap} (hw : WF B) {R : Nat → Nat → Prop}
    (hR : ∀ i a, R i a → a < B.size ∧ FullyMemo B a) {p : Nat → Prog α}
    (hsafe : ∀ i, Safe (R i) (p i)) (sched : List Nat) (i j : Nat) (hij : i ≠ j) (l : Loc) (k : Acc)
    (hwi : (l, Acc.write) ∈ (((Sys.init B p).exec hs sched).threads i).locs B.size i) :
    (l, k) ∉ (((Sys.init B p).exec hs sched).threads j).locs B.size j :=
  (c14_core hs (fun i => stable_reach (hs i) B) (sysInv_init_reach hw hR hsafe) sched).2.2.1 i j hij l k hwi

/-- Sequential consistency of each fork: after any schedule, the complete state of thread `i`
    (remaining program or result, private heap, trace of accesses and hash calls) is that of thread `i`
    running alone on `B` for as many primitives as the schedule gave it. -/
theorem C14_sequential_reach (hs : Nat → HashFn) {B : Heap} (hw : WF B) {R : Nat → Nat → Prop}
    (hR : ∀ i a, R i a → a < B.size ∧ FullyMemo B a) {p : Nat → Prog α}
    (hsafe : ∀ i, Safe (R i) (p i)) (sched : List Nat) (i : Nat) :
    ((Sys.init B p).exec hs sched).threads i
      = soloN (hs i) B ((Sys.init B p).threads i) (sched.count i) :=
  (c14_core hs (fun i => stable_reach (hs i) B) (sysInv_init_reach hw hR hsafe) sched).2.2.2.1 i

/-- … and a thread that has finished observed exactly the result of the sequential (big-step) run of
    its program on the base heap, built the same private cells and performed the same accesses. -/
theorem C14_results_reach (hs : Nat → HashFn) {B : Heap} (hw : WF B) {R : Nat → Nat → Prop}
    (hR : ∀ i a, R i a → a < B.size ∧ FullyMemo B a) {p : Nat → Prog α}
    (hsafe : ∀ i, Safe (R i) (p i)) (sched : List Nat) (i : Nat) (a : α)
    (hd : (((Sys.init B p).exec hs sched).threads i).st = .done a) :
    (run (hs i) (p i) B).1 = some a
      ∧ (run (hs i) (p i) B).2.1 = B ++ (((Sys.init B p).exec hs sched).threads i).priv
      ∧ (run (hs i) (p i) B).2.2 = (((Sys.init B p).exec hs sched).threads i).tr :=
  (c14_core hs (fun i => stable_reach (hs i) B) (sysInv_init_reach hw hR hsafe) sched).2.2.2.2 i a hd

/-- non-vacuity on a base heap with unhashed garbage (pair 5): node 4 is fully hashed, thread 0
    mutates and hashes its fork, thread 1 hashes -/
example : ∀ i y, y ∈ (((Sys.init exHeapG exThreads).exec (fun _ => exHash) [0, 1, 0, 0, 1, 0, 0]).threads i).tr.writes
    → exHeapG.size ≤ y := by
  refine (C14_no_shared_write_reach (fun _ => exHash) (wfB_sound (by decide))
    (R := fun _ z => z = 4) ?_ safe_exThreads _).2
  intro i a ha
  subst ha
  exact ⟨by decide, fullyMemo_of_top (memoClosedB_sound (by decide)) (topMemoB_sound (by decide))⟩

example : ¬ AllMemo exHeapG := by
  intro hall
  exact hall 5 z0 0 0 (by decide) rfl

example : (((Sys.init exHeapG exThreads).exec (fun _ => exHash) [0, 1, 0, 0, 1, 0, 0]).threads 0).tr.writes
    = [6, 7, 7] := by decide

/-! ### premise: the whole base heap is hashed, arbitrary poke-free clients -/

theorem C14_no_shared_write (hs : Nat → HashFn) {B : Heap} (hw : WF B) (hB : AllMemo B)
    {p : Nat → Prog α} (hnp : ∀ i, NoPoke (p i)) (sched : List Nat) :
    ((Sys.init B p).exec hs sched).shared = B
      ∧ ∀ i y, y ∈ (((Sys.init B p).exec hs sched).threads i).tr.writes → B.size ≤ y :=
  let c := c14_core hs (fun i => stable_all (hs i) hB) (sysInv_init_all hw hnp) sched
  ⟨c.1, c.2.1⟩

/-- non-vacuity: thread 0 mutates and hashes (writing its private cells 5, 6), thread 1 hashes -/
example : ((Sys.init exHeapAll exThreads).exec (fun _ => exHash) [0, 1, 0, 0, 1, 0, 0]).shared = exHeapAll
    ∧ (((Sys.init exHeapAll exThreads).exec (fun _ => exHash) [0, 1, 0, 0, 1, 0, 0]).threads 0).tr.writes
        = [5, 6, 6] := by decide

example : ∀ i y, y ∈ (((Sys.init exHeapAll exThreads).exec (fun _ => exHash) [0, 1, 0, 0, 1, 0, 0]).threads i).tr.writes
    → exHeapAll.size ≤ y :=
  (C14_no_shared_write (fun _ => exHash) (wfB_sound (by decide)) (allMemoB_sound (by decide))
    noPoke_exThreads _).2

theorem C14_race_free (hs : Nat → HashFn) {B : Heap} (hw : WF B) (hB : AllMemo B)
    {p : Nat → Prog α} (hnp : ∀ i, NoPoke (p i)) (sched : List Nat) (i j : Nat) (hij : i ≠ j)
    (l : Loc) (k : Acc)
    (hwi : (l, Acc.write) ∈ (((Sys.init B p).exec hs sched).threads i).locs B.size i) :
    (l, k) ∉ (((Sys.init B p).exec hs sched).threads j).locs B.size j :=
  (c14_core hs (fun i => stable_all (hs i) hB) (sysInv_init_all hw hnp) sched).2.2.1 i j hij l k hwi

/-- the hypothesis of race freedom is inhabited: thread 0 does write (its private cell 1), thread 1
    does read (the shared node 4) -/
example : (Loc.priv 0 1, Acc.write) ∈
    (((Sys.init exHeapAll exThreads).exec (fun _ => exHash) [0, 1, 0, 0, 1, 0, 0]).threads 0).locs exHeapAll.size 0
    ∧ (Loc.shared 4, Acc.read) ∈
    (((Sys.init exHeapAll exThreads).exec (fun _ => exHash) [0, 1, 0, 0, 1, 0, 0]).threads 1).locs exHeapAll.size 1 := by
  decide

theorem C14_sequential (hs : Nat → HashFn) {B : Heap} (hw : WF B) (hB : AllMemo B)
    {p : Nat → Prog α} (hnp : ∀ i, NoPoke (p i)) (sched : List Nat) (i : Nat) :
    ((Sys.init B p).exec hs sched).threads i
      = soloN (hs i) B ((Sys.init B p).threads i) (sched.count i) :=
  (c14_core hs (fun i => stable_all (hs i) hB) (sysInv_init_all hw hnp) sched).2.2.2.1 i

theorem C14_results (hs : Nat → HashFn) {B : Heap} (hw : WF B) (hB : AllMemo B)
    {p : Nat → Prog α} (hnp : ∀ i, NoPoke (p i)) (sched : List Nat) (i : Nat) (a : α)
    (hd : (((Sys.init B p).exec hs sched).threads i).st = .done a) :
    (run (hs i) (p i) B).1 = some a
      ∧ (run (hs i) (p i) B).2.1 = B ++ (((Sys.init B p).exec hs sched).threads i).priv
      ∧ (run (hs i) (p i) B).2.2 = (((Sys.init B p).exec hs sched).threads i).tr :=
  (c14_core hs (fun i => stable_all (hs i) hB) (sysInv_init_all hw hnp) sched).2.2.2.2 i a hd

/-- thread 0 has finished under this schedule, with the result of its sequential run -/
example : (((Sys.init exHeapAll exThreads).exec (fun _ => exHash) [0, 1, 0, 0, 1, 0, 0]).threads 0).st.result
      = (run exHash exClient exHeapAll).1
    ∧ (((Sys.init exHeapAll exThreads).exec (fun _ => exHash) [0, 1, 0, 0, 1, 0, 0]).threads 0).st.result.isSome := by
  decide

/-- The premise "hashed beforehand" is necessary: on the unhashed base heap the first
    hash-tree-root request of a fork fills memos of shared pairs, i.e. writes the shared heap. -/
theorem C14_unhashed_counterexample :
    ¬ (∀ (B : Heap) (p : Nat → Prog Root) (sched : List Nat), WF B → (∀ i, NoPoke (p i)) →
        ((Sys.init B p).exec (fun _ => exHash) sched).shared = B) := by
  intro hall
  have := hall exHeap exThreads [1, 1] (wfB_sound (by decide)) noPoke_exThreads
  revert this
  decide

end ZtypV.Props.C14
