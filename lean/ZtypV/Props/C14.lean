/-
C14  Forks of a hashed tree can be used concurrently.

Model H threads (`ZtypV/Model/Heap.lean`, `Sys`): a shared base heap `B` — the structure the forks
have in common, hashed beforehand: `AllMemo B` — plus one private heap per goroutine.  Goroutine
`i` runs an arbitrary poke-free client `p i` of package `tree` (reads, allocations = mutations,
hash-tree-root requests) against `shared ++ priv_i`, with its own hash function `hs i` (the
package-level `Hash` or a per-goroutine `GetHashFn()`).  A `MerkleRoot` step on a shared pair with
unset memo WOULD write the shared heap — `Sys.step` writes the first `B.size` cells of the
thread's heap back to `shared`, so the model can exhibit that race
(`C14_unhashed_counterexample`).  The zero nodes and type defaults are ordinary (leaf) cells of `B`.

What the model cannot exhibit: the Go memory model, compiler reordering, the race detector's
happens-before sampling.  The theorems are about the accesses as the source performs them, at the
granularity of one primitive of package `tree` per step; since under the premise no thread ever
writes the shared heap and private heaps are only accessed by their owner, each thread's accesses
do not depend on the interleaving at any finer granularity either (`C14_sequential`).
-/
import ZtypV.Proofs.HeapThreads
namespace ZtypV.Props.C14
open ZtypV ZtypV.H

/-- In every interleaving the shared heap stays exactly the base heap, and no thread ever writes an
    address below `B.size`. -/
theorem C14_no_shared_write (hs : Nat → HashFn) {B : Heap} (hw : WF B) (hB : AllMemo B)
    {p : Nat → Prog α} (hnp : ∀ i, NoPoke (p i)) (sched : List Nat) :
    ((Sys.init B p).exec hs sched).shared = B
      ∧ ∀ i y, y ∈ (((Sys.init B p).exec hs sched).threads i).tr.writes → B.size ≤ y := by
  obtain ⟨inv, _⟩ := sys_exec_inv hs hB sched (sysInv_init hw hnp)
  exact ⟨inv.shared, fun i y hy => (inv.good i).wr y hy⟩

/-- non-vacuity: thread 0 mutates and hashes (writing its private cells 5, 6), thread 1 hashes -/
example : ((Sys.init exHeapAll exThreads).exec (fun _ => exHash) [0, 1, 0, 0, 1, 0, 0]).shared = exHeapAll
    ∧ (((Sys.init exHeapAll exThreads).exec (fun _ => exHash) [0, 1, 0, 0, 1, 0, 0]).threads 0).tr.writes
        = [5, 6, 6] := by decide

example : ∀ i y, y ∈ (((Sys.init exHeapAll exThreads).exec (fun _ => exHash) [0, 1, 0, 0, 1, 0, 0]).threads i).tr.writes
    → exHeapAll.size ≤ y :=
  (C14_no_shared_write (fun _ => exHash) (wfB_sound (by decide)) (allMemoB_sound (by decide))
    noPoke_exThreads _).2

/-- Race freedom: in every interleaving, a location written by thread `i` is never accessed (read
    or written) by another thread `j`. -/
theorem C14_race_free (hs : Nat → HashFn) {B : Heap} (hw : WF B) (hB : AllMemo B)
    {p : Nat → Prog α} (hnp : ∀ i, NoPoke (p i)) (sched : List Nat) (i j : Nat) (hij : i ≠ j)
    (l : Loc) (k : Acc)
    (hwi : (l, Acc.write) ∈ (((Sys.init B p).exec hs sched).threads i).locs B.size i) :
    (l, k) ∉ (((Sys.init B p).exec hs sched).threads j).locs B.size j := by
  obtain ⟨inv, _⟩ := sys_exec_inv hs hB sched (sysInv_init hw hnp)
  obtain ⟨m, rfl⟩ := locs_write_priv (inv.good i) hwi
  intro hj
  exact locs_not_priv_other hij hj m rfl

example : (Loc.priv 0 1, Acc.write) ∈
    (((Sys.init exHeapAll exThreads).exec (fun _ => exHash) [0, 1, 0, 0, 1, 0, 0]).threads 0).locs exHeapAll.size 0
    ∧ (Loc.shared 4, Acc.read) ∈
    (((Sys.init exHeapAll exThreads).exec (fun _ => exHash) [0, 1, 0, 0, 1, 0, 0]).threads 1).locs exHeapAll.size 1 := by
  decide

/-- Sequential consistency of each fork: after any schedule, the complete state of thread `i`
    (remaining program or result, private heap, trace of accesses and hash calls) is that of thread `i`
    running alone on `B` for as many primitives as the schedule gave it. -/
theorem C14_sequential (hs : Nat → HashFn) {B : Heap} (hw : WF B) (hB : AllMemo B)
    {p : Nat → Prog α} (hnp : ∀ i, NoPoke (p i)) (sched : List Nat) (i : Nat) :
    ((Sys.init B p).exec hs sched).threads i
      = soloN (hs i) B ((Sys.init B p).threads i) (sched.count i) :=
  (sys_exec_inv hs hB sched (sysInv_init hw hnp)).2 i

/-- … and a thread that has finished observed exactly the result of the sequential (big-step) run of
    its program on the base heap, built the same private cells and performed the same accesses. -/
theorem C14_results (hs : Nat → HashFn) {B : Heap} (hw : WF B) (hB : AllMemo B)
    {p : Nat → Prog α} (hnp : ∀ i, NoPoke (p i)) (sched : List Nat) (i : Nat) (a : α)
    (hd : (((Sys.init B p).exec hs sched).threads i).st = .done a) :
    (run (hs i) (p i) B).1 = some a
      ∧ (run (hs i) (p i) B).2.1 = B ++ (((Sys.init B p).exec hs sched).threads i).priv
      ∧ (run (hs i) (p i) B).2.2 = (((Sys.init B p).exec hs sched).threads i).tr := by
  rw [C14_sequential hs hw hB hnp sched i] at hd ⊢
  have hg := (sysInv_init hw hnp).good i
  have := solo_run (hs i) hB (sched.count i) hg rfl hd
  simp only [Sys.init, Array.append_empty, Trace.nil_app] at this ⊢
  exact this

example : (((Sys.init exHeapAll exThreads).exec (fun _ => exHash) [0, 1, 0, 0, 1, 0, 0]).threads 0).st.result
      = (run exHash exClient exHeapAll).1
    ∧ (((Sys.init exHeapAll exThreads).exec (fun _ => exHash) [0, 1, 0, 0, 1, 0, 0]).threads 0).st.result.isSome := by
  decide

/-- The premise "hashed beforehand" is necessary: on the unhashed base heap the first
    hash-tree-root request of a fork fills memos of shared pairs, i.e. writes the shared heap. -/
theorem C14_unhashed_counterexample :
    ¬ (∀ (B : Heap) (p : Nat → Prog Root) (sched : List Nat), WF B → (∀ i, NoPoke (p i)) →
        ((Sys.init B p).exec (fun _ => exHash) sched).shared = B) := by
  intro hall
  have := hall exHeap exThreads [1, 1] (wfB_sound (by decide)) noPoke_exThreads
  revert this
  decide

end ZtypV.Props.C14
