/-
C08 — Flat Merkleization helpers equal spec roots.

Model: `ZtypV/Model/Merkleize.lean` (namespace `ZtypV.Mk`; `none` = Go panic), helper lemmas:
`ZtypV/Proofs/Merkleize.lean` (streaming loop) and `ZtypV/Proofs/MerkleizeTyped.lean` (typed helpers).
Every theorem holds for every pair hash `h` and has no size bound other than the `uint64`
range of the Go arguments (`< 2^64`; for the helpers that round a length/limit up to whole
chunks: `+31`, `+3`, `+255` must not wrap, see `C08_byteList_limit_wraps`).
`count > limit` is outside the property; `C08_merkleize_clamp` records what the code does there.
-/
import ZtypV.Proofs.MerkleizeTyped
namespace ZtypV.Props.C08
open ZtypV ZtypV.Mk

/-- `tree.Merkleize` never panics and returns the SSZ `merkleize(chunks, limit)` root, for every
    count ≤ limit < 2^64 (including limit = 0 and 1) and every leaf content. -/
theorem C08_merkleize (h : HashFn) (count limit : Nat) (leaf : Nat → Root)
    (hcl : count ≤ limit) (hlim : limit < 2^64) :
    merkleize h count limit (fun i => some (leaf i)) =
      some (merk h (coverDepth limit) ((List.range count).map leaf)) :=
  merkleize_spec h count limit _ leaf (fun _ _ => rfl) hcl hlim

example (h : HashFn) : merkleize h 5 70 (fun i => some (chunkOf [UInt8.ofNat i])) =
    some (merk h 7 ((List.range 5).map fun i => chunkOf [UInt8.ofNat i])) :=
  C08_merkleize h 5 70 _ (by decide) (by decide)

/-- same, for a leaf closure that may itself panic outside `[0, count)` -/
theorem C08_merkleize_leaf (h : HashFn) (count limit : Nat) (leaf : Nat → Option Root) (L : Nat → Root)
    (hleaf : ∀ i, i < count → leaf i = some (L i)) (hcl : count ≤ limit) (hlim : limit < 2^64) :
    merkleize h count limit leaf = some (merk h (coverDepth limit) ((List.range count).map L)) :=
  merkleize_spec h count limit leaf L hleaf hcl hlim

example : ∀ i, i < 2 → ([z0, z0] : List Root)[i]? = some z0 := by decide

/-- outside the property (`count > limit`): the count is clamped to the limit -/
theorem C08_merkleize_clamp (h : HashFn) (count limit : Nat) (leaf : Nat → Option Root)
    (hgt : count > limit) : merkleize h count limit leaf = merkleize h limit limit leaf := by
  unfold merkleize
  simp [hgt]

example : (7 : Nat) > 3 := by decide

/-- `HashFn.HashTreeRoot(fields...)` (special cases 0, 1, 2 fields and the general one) -/
theorem C08_fields (h : HashFn) (rs : List Root) (hlen : rs.length < 2^64) :
    fieldsHTR h rs = some (merk h (coverDepth rs.length) rs) :=
  fieldsHTR_spec h rs hlen

example (h : HashFn) : fieldsHTR h [z0, zh h 1, z0] = some (merk h (coverDepth 3) [z0, zh h 1, z0]) :=
  C08_fields h [z0, zh h 1, z0] (by simp)

/-- … hence the spec root of a container whose field roots are the spec roots -/
theorem C08_fields_container (h : HashFn) (fs : List Ty) (vs : List Val)
    (hl : fs.length = vs.length) (hlen : fs.length < 2^64) :
    fieldsHTR h (htrFields h fs vs) = some (htr h (.container fs) (.seq vs)) := by
  rw [htr_container, fieldsHTR_spec h _ (by rw [htrFields_length h fs vs hl]; exact hlen),
    htrFields_length h fs vs hl]

example : ([Ty.uint 8, Ty.bool] : List Ty).length = ([Val.num 5, Val.bool true] : List Val).length := rfl

/-- `ComplexVectorHTR` on element roots (a nil element counts as the zero root) -/
theorem C08_complexVector_roots (h : HashFn) (series : Nat → Option Root) (n : Nat) (hn : n < 2^64) :
    complexVectorHTR h series n =
      some (merk h (coverDepth n) ((List.range n).map fun i => (series i).getD z0)) :=
  complexVectorHTR_spec h series n hn

example (h : HashFn) : complexVectorHTR h (fun i => if i = 1 then none else some (zh h 2)) 3 =
    some (merk h (coverDepth 3) [zh h 2, z0, zh h 2]) :=
  C08_complexVector_roots h _ 3 (by decide)

/-- `ComplexVectorHTR` = spec root of `Vector[e, n]` for a composite element type -/
theorem C08_complexVector (h : HashFn) (e : Ty) (vs : List Val) (hb : e.isBasic = false)
    (hn : vs.length < 2^64) :
    complexVectorHTR h (fun i => (vs[i]?).map (htr h e)) vs.length =
      some (htr h (.vector e vs.length) (.seq vs)) := by
  rw [complexVectorHTR_spec h _ _ hn, htr_vector_complex h e _ vs hb, range_map_getElem?_map]

example : (Ty.container [.uint 8]).isBasic = false := rfl

/-- `ComplexListHTR` on element roots -/
theorem C08_complexList_roots (h : HashFn) (series : Nat → Option Root) (n limit : Nat)
    (hnl : n ≤ limit) (hl : limit < 2^64) :
    complexListHTR h series n limit =
      some (mixin h (merk h (coverDepth limit) ((List.range n).map fun i => (series i).getD z0)) n) :=
  complexListHTR_spec h series n limit hnl hl

example (h : HashFn) : complexListHTR h (fun _ => some (zh h 2)) 2 (2^32) =
    some (mixin h (merk h (coverDepth (2^32)) [zh h 2, zh h 2]) 2) :=
  C08_complexList_roots h _ 2 (2^32) (by decide) (by decide)

/-- `ComplexListHTR` = spec root of `List[e, limit]` for a composite element type -/
theorem C08_complexList (h : HashFn) (e : Ty) (vs : List Val) (limit : Nat) (hb : e.isBasic = false)
    (hnl : vs.length ≤ limit) (hl : limit < 2^64) :
    complexListHTR h (fun i => (vs[i]?).map (htr h e)) vs.length limit =
      some (htr h (.list e limit) (.seq vs)) := by
  rw [complexListHTR_spec h _ _ _ hnl hl, htr_list_complex h e _ vs hb, range_map_getElem?_map]

example : ([Val.seq [], Val.seq []] : List Val).length ≤ 2^40 ∧ 2^40 < 2^64 := by decide

/-- `HashFn.Mixin` is the spec's `mix_in_length` -/
theorem C08_mixin (h : HashFn) (v : Root) (n : Nat) : mixinGo h v n = mixin h v n := rfl

/-- `ChunksHTR` -/
theorem C08_chunks (h : HashFn) (count limit : Nat) (leaf : Nat → Root)
    (hcl : count ≤ limit) (hlim : limit < 2^64) :
    chunksHTR h (fun i => some (leaf i)) count limit =
      some (merk h (coverDepth limit) ((List.range count).map leaf)) :=
  merkleize_spec h count limit _ leaf (fun _ _ => rfl) hcl hlim

example : (9 : Nat) ≤ 2^64 - 1 ∧ 2^64 - 1 < 2^64 := by decide

/-- `Uint8VectorHTR` = spec root of `Vector[uint8, n]` -/
theorem C08_uint8Vector (h : HashFn) (bs : Bytes) (hlen : bs.length + 31 < 2^64) :
    uint8VectorHTR h (fun j => bs.getD j 0) bs.length =
      some (htr h (.vector (.uint 1) bs.length) (.seq (bs.map fun b => .num b.toNat))) := by
  rw [uint8VectorHTR_chunks h bs hlen]; exact congrArg some (htr_u8Vector h bs bs.length).symm

example : ([1, 2, 3] : Bytes).length + 31 < 2^64 := by decide

/-- `Uint8ListHTR` = spec root of `List[uint8, limit]` -/
theorem C08_uint8List (h : HashFn) (bs : Bytes) (limit : Nat)
    (hll : bs.length ≤ limit) (hlim : limit + 31 < 2^64) :
    uint8ListHTR h (fun j => bs.getD j 0) bs.length limit =
      some (htr h (.list (.uint 1) limit) (.seq (bs.map fun b => .num b.toNat))) := by
  rw [uint8ListHTR_chunks h bs limit hll hlim]; exact congrArg some (htr_u8List h bs limit).symm

example : ([1, 2, 3] : Bytes).length ≤ 2^40 ∧ 2^40 + 31 < 2^64 := by decide

/-- `Uint64VectorHTR` = spec root of `Vector[uint64, n]` -/
theorem C08_uint64Vector (h : HashFn) (ns : List Nat) (hlen : ns.length + 3 < 2^64) :
    uint64VectorHTR h (fun j => ns.getD j 0) ns.length =
      some (htr h (.vector (.uint 8) ns.length) (.seq (ns.map .num))) := by
  rw [uint64VectorHTR_chunks h ns hlen]; exact congrArg some (htr_u64Vector h ns ns.length).symm

example : ([1, 2^64-1, 3, 4, 5] : List Nat).length + 3 < 2^64 := by decide

/-- `Uint64ListHTR` = spec root of `List[uint64, limit]` -/
theorem C08_uint64List (h : HashFn) (ns : List Nat) (limit : Nat)
    (hll : ns.length ≤ limit) (hlim : limit + 3 < 2^64) :
    uint64ListHTR h (fun j => ns.getD j 0) ns.length limit =
      some (htr h (.list (.uint 8) limit) (.seq (ns.map .num))) := by
  rw [uint64ListHTR_chunks h ns limit hll hlim]; exact congrArg some (htr_u64List h ns limit).symm

example : ([1, 2^64-1, 3, 4, 5] : List Nat).length ≤ 2^32 ∧ 2^32 + 3 < 2^64 := by decide

/-- `ByteVectorHTR` = spec root of a byte vector (`ByteVector[n]`, equally `Vector[uint8, n]`) -/
theorem C08_byteVector (h : HashFn) (bs : Bytes) (hlen : bs.length + 31 < 2^64) :
    byteVectorHTR h bs = some (htr h (.bytesN bs.length) (.bytes bs)) ∧
    byteVectorHTR h bs =
      some (htr h (.vector (.uint 1) bs.length) (.seq (bs.map fun b => .num b.toNat))) := by
  rw [byteVectorHTR_chunks h bs hlen]
  exact ⟨congrArg some (htr_bytesN h bs bs.length).symm, congrArg some (htr_u8Vector h bs bs.length).symm⟩

example : (List.replicate 48 (7 : UInt8)).length + 31 < 2^64 := by decide

/-- `ByteListHTR` = spec root of `List[uint8, limit]` -/
theorem C08_byteList (h : HashFn) (bs : Bytes) (limit : Nat)
    (hll : bs.length ≤ limit) (hlim : limit + 31 < 2^64) :
    byteListHTR h bs limit =
      some (htr h (.list (.uint 1) limit) (.seq (bs.map fun b => .num b.toNat))) := by
  rw [byteListHTR_chunks h bs limit hll hlim]; exact congrArg some (htr_u8List h bs limit).symm

example : (List.replicate 33 (7 : UInt8)).length ≤ 2^20 ∧ 2^20 + 31 < 2^64 := by decide

/-- `BitVectorHTR` on the packed bits = spec root of `Bitvector[n]` -/
theorem C08_bitVector (h : HashFn) (bits : List Bool) (hlen : bits.length + 255 < 2^64) :
    bitVectorHTR h (packBits bits) = some (htr h (.bitvector bits.length) (.bits bits)) := by
  have hl : (packBits bits).length + 31 < 2^64 := by rw [packBits_length]; omega
  have ec : ((packBits bits).length + 31) / 32 = (bits.length + 255) / 256 := by
    rw [packBits_length]; omega
  rw [bitVectorHTR_chunks h _ hl, ec, htr_bitvector]

example : (List.replicate 257 true).length + 255 < 2^64 := by rw [List.length_replicate]; decide

/-- `BitListHTR` on the packed bits with delimiter (the length is recovered by `BitlistLen`, the
    delimiter bit is masked out) = spec root of `Bitlist[limit]` -/
theorem C08_bitList (h : HashFn) (bits : List Bool) (limit : Nat)
    (hll : bits.length ≤ limit) (hlim : limit + 255 < 2^64) :
    bitListHTR h (packBits (bits ++ [true])) limit = some (htr h (.bitlist limit) (.bits bits)) := by
  rw [bitListHTR_chunks h bits limit hll hlim, htr_bitlist]

example : (List.replicate 256 true).length ≤ 513 ∧ 513 + 255 < 2^64 := by
  rw [List.length_replicate]; decide

/-- `bitfields.BitlistLen` recovers the bit length of a well-formed bitlist -/
theorem C08_bitlistLen (bits : List Bool) (hlen : bits.length < 2^64) :
    bitlistLen (packBits (bits ++ [true])) = bits.length :=
  bitlistLen_delimited bits hlen

example : bitlistLen (packBits ([true, false, true, true, false, false, false, false, true] ++ [true])) = 9 := by
  decide

/-- `HashFn.Union` is the spec's `mix_in_selector` -/
theorem C08_union_roots (h : HashFn) (sel : UInt8) (value : Option Root) :
    unionHTR h sel value = mixin h (value.getD z0) sel.toNat :=
  unionHTR_spec h sel value

/-- `HashFn.Union` = spec root of a union value: option with a value -/
theorem C08_union_some (h : HashFn) (hasNone : Bool) (opts : List Ty) (sel : Nat) (t : Ty) (v : Val)
    (hopt : unionOpt hasNone opts sel = some t) (hsel : sel < 256) :
    unionHTR h (UInt8.ofNat sel) (some (htr h t v)) = htr h (.union hasNone opts) (.union sel v) := by
  rw [unionHTR_spec, htr_union, hopt]
  simp [UInt8.toNat_ofNat', Nat.mod_eq_of_lt hsel]

example : unionOpt true [.uint 8, .bool] 2 = some .bool ∧ 2 < 256 := ⟨rfl, by decide⟩

/-- `HashFn.Union` with a nil value = spec root of the `None` option -/
theorem C08_union_none (h : HashFn) (hasNone : Bool) (opts : List Ty) (sel : Nat) (v : Val)
    (hopt : unionOpt hasNone opts sel = none) (hsel : sel < 256) :
    unionHTR h (UInt8.ofNat sel) none = htr h (.union hasNone opts) (.union sel v) := by
  rw [unionHTR_spec, htr_union, hopt]
  simp [UInt8.toNat_ofNat', Nat.mod_eq_of_lt hsel]

example : unionOpt true [.uint 8, .bool] 0 = none ∧ 0 < 256 := ⟨rfl, by decide⟩

/-! ### boundary outside the stated domain (typed limits within 31/3/255 of 2^64)

The typed list helpers round the element limit up to whole chunks in `uint64`
(`(limit+31)/32`, `(limit+3)>>2`, `(bitlimit+0xff)>>8`); for limits in the last few values below
2^64 the addition wraps and the chunk limit collapses (here to 0).  The property's typed
limits stop at 2^40, so this is recorded as exact behaviour, not as a violation. -/

/-- exact behaviour of `ByteListHTR(nil, 2^64-1)`: chunk limit wraps to 0, contents root = zero chunk -/
theorem C08_byteList_limit_wraps (h : HashFn) :
    byteListHTR h [] (2^64 - 1) = some (mixin h z0 0) ∧
    htr h (.list (.uint 1) (2^64 - 1)) (.seq []) = mixin h (zh h 59) 0 := by
  constructor
  · rfl
  · have e : (2^64 - 1 + 31) / 32 = 2^59 := by decide
    have c : coverDepth (2^59) = 59 := by decide
    have := htr_u8List h [] (2^64 - 1)
    simp only [u8Vals, List.map_nil, e, c, List.length_nil] at this
    rw [this]
    have : chunks [] = [] := rfl
    rw [this, merk_nil]

/-- … and the two differ for a concrete pair hash -/
theorem C08_byteList_limit_wraps_witness :
    ∃ h : HashFn, byteListHTR h [] (2^64 - 1) ≠
      some (htr h (.list (.uint 1) (2^64 - 1)) (.seq [])) := by
  refine ⟨fun a _ => [a.headD 0 + 1], ?_⟩
  rw [(C08_byteList_limit_wraps _).1, (C08_byteList_limit_wraps _).2]
  have hz : ∀ d, (zh (fun a _ => [a.headD 0 + 1]) d).headD 0 = UInt8.ofNat d := by
    intro d
    induction d with
    | zero => rfl
    | succ d ih =>
      show ([(zh _ d).headD 0 + 1] : List UInt8).headD 0 = _
      rw [List.headD_cons, ih]
      simp [UInt8.ofNat_add]
  intro heq
  have h1 := congrArg (fun o => (o.getD []).headD 0) heq
  simp only [mixin, Option.getD_some, List.headD_cons, hz 59] at h1
  revert h1
  decide

end ZtypV.Props.C08
