/-
C09b — the BASIC VALUE API of package `view` (view/basic.go, u256.go, root.go, small_byte_vec.go),
audited with C09 (and serving C02: flat values and packed series are built from these methods).

Model: ZtypV/Model/BasicApi.lean — `BasicV` (`Uint8/16/32/64/256View`, `BoolView` as machine
integers / limbs), `BV` (those plus `*RootView`, `SmallByteVecView`), `Meta`
(`UintMeta/BoolMeta/RootMeta/SmallByteVecMeta`), one function per Go method, `uint8` sub-index
arithmetic as written, every variable index into a `[32]byte` checked (explicit panic outcome).
Spec: `hasType`, `serialize`, `htr`, `defaultVal`, `chunks` (Spec.lean).

Proved here for ALL values (no bound on anything):
 1. `Encode / Serialize` = spec bytes; every reported length (`ByteLength`, `FixedLength`,
    `ValueByteLength`, `TypeByteLength/Min/Max`) = the encoded length; `IsFixedByteLength`.
 2. `Decode(Encode v) = v` into a destination holding anything; wrong lengths refused; whatever is
    accepted is the encoding of the stored value (so `Decode` is injective); never panics.
 3. `HashTreeRoot v = root (Backing v) = htr`; `ViewFromBacking (Backing v) = v`; `Backing` is what
    `View.construct` builds; `ViewFromBacking` reads what `View.viewVal` reads.
 4. `BackingFromBase`: complete description (nil exactly for out-of-range sub-indices, never a
    panic, result = base with `size` bytes at `size*i` replaced — every other byte unchanged, the
    base itself is not an output); `BasicViewFromBacking / SubViewFromBacking` read the value back
    at `i` and the old values at every `j ≠ i`; both agree with the abstractions
    `basicIntoChunk / basicFromChunk / bitIntoChunk / bitFromChunk` used by the other models.
 5. `PackViews` = `BytesIntoNodes` of the concatenated little-endian encodings, for every element
    size and every count (what `View.construct` packs for a basic series).
 6. `Meta.Deserialize` = `View.decode` on the leaf types; `(*T).Deserialize` = the flat codec's leaf
    decoders `Flat.decUint / decBool / decRoot`; the two deserializers agree.
 7. `Default / New / DefaultNode` = the spec's default value and its backing; `Copy` = identity.
-/
import ZtypV.Proofs.BasicApi
namespace ZtypV.Props.C09
open ZtypV ZtypV.View ZtypV.BasicApi ZtypV.RepMut

/-! ### 1. encoding and lengths -/

/-- `Encode()` and `Serialize(w)` of a basic value yield exactly the SSZ-spec bytes of its
    (well-typed) spec value -/
theorem C09b_encode_spec (v : BasicV) :
    hasType v.ty v.val = true ∧ v.encode = serialize v.ty v.val ∧ v.serializeW = serialize v.ty v.val :=
  ⟨BasicV.hasType_val v, BasicV.encode_eq v, (BasicV.serializeW_eq v).trans (BasicV.encode_eq v)⟩

/-- all reported lengths are the encoded length -/
theorem C09b_lengths (v : BasicV) :
    v.byteLength = v.encode.length ∧ v.fixedLength = v.encode.length ∧
    v.valueByteLength = .ok v.encode.length ∧ v.type.typeByteLength = v.encode.length ∧
    v.type.minByteLength = v.encode.length ∧ v.type.maxByteLength = v.encode.length ∧
    v.type.isFixedByteLength = true ∧ v.ty.fixedSize = v.encode.length := by
  rw [BasicV.encode_length]
  refine ⟨rfl, BasicV.fixedLength_eq v, BasicV.valueByteLength_eq v, BasicV.typeByteLength_eq v, ?_, ?_, ?_,
    BasicV.fixedSize_eq v⟩ <;> cases v <;> rfl

/-- every view of this API (basic, root, small byte vector): `Serialize` = spec bytes,
    `ValueByteLength` and the type's lengths = their length -/
theorem C09b_view_serialize (v : BV) (hw : v.wf) :
    hasType v.ty v.val = true ∧ v.serializeW = serialize v.ty v.val ∧
    v.valueByteLength = .ok (serialize v.ty v.val).length ∧
    v.type.typeByteLength = (serialize v.ty v.val).length ∧ v.type.minByteLength = (serialize v.ty v.val).length ∧
    v.type.maxByteLength = (serialize v.ty v.val).length ∧ v.type.isFixedByteLength = true :=
  ⟨BV.hasType_val v hw, BV.serializeW_eq v, BV.valueByteLength_eq v hw, BV.typeByteLength_eq v hw⟩

example : (BasicV.u16 0xBEEF).encode = [0xEF, 0xBE] ∧ (BasicV.u16 0xBEEF).val = .num 0xBEEF := ⟨by decide, rfl⟩
example : (BV.small [1, 2, 3]).wf ∧ (BV.root (List.replicate 32 7)).wf := by
  constructor
  · show 3 ≤ 32; omega
  · show (List.replicate 32 (7 : UInt8)).length = 32; simp

/-! ### 2. decoding -/

/-- `Decode(Encode(v)) = v`, whatever the destination (of the same Go type) held before -/
theorem C09b_decode_encode (dst v : BasicV) (ht : dst.type = v.type) : dst.decode v.encode = .ok v :=
  BasicV.decode_encode dst v ht

/-- a byte string of the wrong length is refused (an error, not a panic) -/
theorem C09b_decode_wrong_length (dst : BasicV) (x : Bytes) (h : x.length ≠ dst.byteLength) :
    dst.decode x = .error .other :=
  BasicV.decode_wrong_length dst x h

/-- whatever `Decode` accepts is the encoding of the value it stores, of the destination's type:
    in particular boolean bytes above 1 are refused and `Decode` is injective -/
theorem C09b_decode_sound (dst v : BasicV) (x : Bytes) (h : dst.decode x = .ok v) :
    v.encode = x ∧ v.type = dst.type ∧ serialize v.ty v.val = x := by
  obtain ⟨h1, h2⟩ := BasicV.decode_sound dst v x h
  exact ⟨h1, h2, by rw [← BasicV.encode_eq, h1]⟩

theorem C09b_decode_no_panic (dst : BasicV) (x : Bytes) : dst.decode x ≠ .error .panic :=
  BasicV.decode_ne_panic dst x

example : (BasicV.u32 0xa5a5a5a5).decode [1, 2, 3, 4] = .ok (.u32 0x04030201) := by
  rfl
example : (BasicV.bool true).decode [2] = .error .other := rfl

/-! ### 3. roots and backings -/

/-- `HashTreeRoot(h) = Backing().MerkleRoot(h) = hash_tree_root`, for every pair hash -/
theorem C09b_hash_tree_root (h : HashFn) (v : BV) (hw : v.wf) :
    v.hashTreeRoot = v.backing.root h ∧ v.hashTreeRoot = htr h v.ty v.val ∧
    v.hashTreeRoot = chunkOf (serialize v.ty v.val) := by
  refine ⟨?_, ?_, BV.hashTreeRoot_eq_chunk v hw⟩
  · rw [BV.backing_eq]; rfl
  · rw [htr_any h v hw, BV.hashTreeRoot_eq_chunk v hw]

/-- `ViewFromBacking(Backing(v)) = v` -/
theorem C09b_viewFromBacking_backing (v : BV) (hw : v.wf) : Meta.viewFromBacking v.type v.backing = .ok v :=
  viewFromBacking_backing v hw

/-- `Backing()` is the node the constructor route of Model/View.lean builds for the leaf types -/
theorem C09b_backing_construct (h : HashFn) (v : BV) (hw : v.wf) : construct h v.ty v.val = .ok v.backing :=
  construct_backing h v hw

/-- `ViewFromBacking` on an arbitrary chunk reads what the typed getter model `viewVal` reads
    (booleans: first byte ≠ 0 — not a rejection of bytes above 1) -/
theorem C09b_viewFromBacking_viewVal (m : Meta) (hm : m.supported) (r : Root) (hr : r.length = 32) :
    (Meta.viewFromBacking m (.leaf r)).map BV.val = viewVal m.ty (.leaf r) := by
  apply viewFromBacking_viewVal m _ r hr
  cases m <;> exact hm

/-- a pair node is refused by every `ViewFromBacking` -/
theorem C09b_viewFromBacking_pair (m : Meta) (l r : Node) : Meta.viewFromBacking m (.pair l r) = .error .other := by
  cases m <;> rfl

example : (Meta.uint 8).supported ∧ (Meta.small 20).supported := by
  constructor
  · show uintSize 8; simp [uintSize]
  · show 20 ≤ 32; omega

/-! ### 4. packed positions of a chunk -/

/-- complete description of `BackingFromBase(base, i)`: never a panic; nil exactly when the
    sub-index is outside the chunk; otherwise a NEW root equal to the base with the encoding
    written at `size * i` -/
theorem C09b_backingFromBase (v : BasicV) (base : Root) (hb : base.length = 32) (i : UInt8) :
    v.backingFromBase base i =
      .ok (if i.toNat < 32 / v.byteLength then some (putAt base (v.byteLength * i.toNat) v.encode) else none) :=
  BasicV.backingFromBase_eq v base hb i

/-- for uint views this is the `basicIntoChunk` of Model/Machine.lean (what `Set/Append` use) -/
theorem C09b_backingFromBase_basicIntoChunk (v : BasicV) (td : Nat) (ht : v.type = .uint td)
    (base : Root) (hb : base.length = 32) (i : UInt8) (hi : i.toNat < 32 / td) :
    v.backingFromBase base i = .ok (some (basicIntoChunk td base i.toNat (numOf v.val))) := by
  obtain ⟨hl, hs⟩ := BasicV.byteLength_of_type v td ht
  rw [BasicV.backingFromBase_eq v base hb i, hl, if_pos hi]
  congr 2
  unfold basicIntoChunk putAt
  have he : v.encode = leBytes td (numOf v.val) := by
    rw [BasicV.encode_eq]; unfold BasicV.ty; rw [ht]
    cases v <;> cases ht <;> rfl
  rw [he, leBytes_length]

/-- in range: the result differs from the base only in the `size` bytes at `size * i`; the value
    reads back at `i`; every other sub-position `j ≠ i` still reads what it read in the base -/
theorem C09b_base_readback (v : BasicV) (td : Nat) (ht : v.type = .uint td)
    (base : Root) (hb : base.length = 32) (i : UInt8) (hi : i.toNat < 32 / td) :
    ∃ r', v.backingFromBase base i = .ok (some r') ∧ r'.length = 32 ∧
      Upd base r' (td * i.toNat) v.encode ∧
      Meta.basicViewFromBacking td r' i = .ok v ∧
      ∀ j : UInt8, j ≠ i → Meta.basicViewFromBacking td r' j = Meta.basicViewFromBacking td base j := by
  obtain ⟨hl, hs⟩ := BasicV.byteLength_of_type v td ht
  have hel : v.encode.length = td := by rw [BasicV.encode_length, hl]
  have hfit : td * i.toNat + td ≤ 32 := by
    rcases hs with rfl | rfl | rfl | rfl | rfl <;> omega
  refine ⟨putAt base (td * i.toNat) v.encode, ?_, ?_, ?_, ?_, ?_⟩
  · rw [BasicV.backingFromBase_eq v base hb i, hl, if_pos hi]
  · exact putAt_length _ _ _ hb (by omega)
  · exact upd_splice base _ _ (by omega)
  · rw [basicViewFromBacking_eq td hs, if_pos hi]
    have := putAt_read base (td * i.toNat) v.encode (by omega)
    rw [hel] at this
    rw [this]
    exact congrArg _ (by simpa using BasicV.ofBytes_of_encode v td ht [])
  · intro j hj
    rw [basicViewFromBacking_eq td hs, basicViewFromBacking_eq td hs]
    by_cases hjr : j.toNat < 32 / td
    · rw [if_pos hjr, if_pos hjr]
      have hne : j.toNat ≠ i.toNat := fun h => hj (UInt8.toNat_inj.mp h)
      have hdis : td * j.toNat + td ≤ td * i.toNat ∨ td * i.toNat + v.encode.length ≤ td * j.toNat := by
        rw [hel]
        rcases Nat.lt_or_gt_of_ne hne with h | h
        · left; have := Nat.mul_le_mul_left td (show j.toNat + 1 ≤ i.toNat by omega); rw [Nat.mul_succ] at this; exact this
        · right; have := Nat.mul_le_mul_left td (show i.toNat + 1 ≤ j.toNat by omega); rw [Nat.mul_succ] at this; exact this
      rw [putAt_read_other base _ _ _ _ (by omega) hdis]
    · rw [if_neg hjr, if_neg hjr]

/-- out of range: nil, for every type (uint8 sub-indices up to 255) -/
theorem C09b_base_out_of_range (v : BasicV) (base : Root) (hb : base.length = 32) (i : UInt8)
    (hi : ¬ i.toNat < 32 / v.byteLength) : v.backingFromBase base i = .ok none := by
  rw [BasicV.backingFromBase_eq v base hb i, if_neg hi]

/-- `BasicViewFromBacking`: complete description for the supported sizes (an error exactly
    outside the chunk, never a panic) and agreement with `basicFromChunk` of Model/View.lean -/
theorem C09b_basicViewFromBacking (td : Nat) (htd : uintSize td) (r : Root) (hr : r.length = 32) (i : UInt8) :
    (Meta.basicViewFromBacking td r i).map BasicV.val = basicFromChunk td r i.toNat ∧
    Meta.basicViewFromBacking td r i ≠ .error .panic := by
  rw [basicViewFromBacking_eq td htd]
  unfold basicFromChunk
  by_cases hi : i.toNat < 32 / td
  · rw [if_pos hi, if_neg (by omega)]
    refine ⟨?_, by simp⟩
    have hlen : ((r.drop (td * i.toNat)).take td).length = td := by
      rw [List.length_take, List.length_drop, hr]
      rcases htd with rfl | rfl | rfl | rfl | rfl <;> omega
    simp only [Except.map]
    rw [BasicV.ofBytes_val td htd _ hlen]
  · rw [if_neg hi, if_pos (by omega)]
    exact ⟨rfl, by simp⟩

/-- booleans packed as bytes: `BackingFromBase` then `SubViewFromBacking` reads the value back;
    `SubViewFromBacking` answers nil for a byte above 1 and outside the chunk -/
theorem C09b_bool_base_readback (b : Bool) (base : Root) (hb : base.length = 32) (i : UInt8) (hi : i.toNat < 32) :
    ∃ r', (BasicV.bool b).backingFromBase base i = .ok (some r') ∧ r'.length = 32 ∧
      Upd base r' i.toNat [boolByte b] ∧
      Meta.subViewFromBacking r' i = .ok (some (.bool b)) ∧
      ∀ j : UInt8, j ≠ i → Meta.subViewFromBacking r' j = Meta.subViewFromBacking base j := by
  have hbf := BasicV.backingFromBase_eq (.bool b) base hb i
  simp only [BasicV.byteLength, BasicV.encode, Nat.div_one, if_pos hi, Nat.one_mul] at hbf
  have hu := upd_splice base i.toNat [boolByte b] (by simp; omega)
  refine ⟨_, hbf, putAt_length _ _ _ hb (by simp; omega), hu, ?_, ?_⟩
  · rw [subViewFromBacking_eq, if_pos hi]
    have : (putAt base i.toNat [boolByte b]).getD i.toNat 0 = boolByte b := by
      unfold putAt; rw [hu]; simp
    rw [this]
    cases b <;> rfl
  · intro j hj
    rw [subViewFromBacking_eq, subViewFromBacking_eq]
    have hne : j.toNat ≠ i.toNat := fun h => hj (UInt8.toNat_inj.mp h)
    have : (putAt base i.toNat [boolByte b]).getD j.toNat 0 = base.getD j.toNat 0 := by
      unfold putAt; rw [hu, if_neg (by simp; omega)]
    rw [this]

/-- bit fields: `BackingFromBitfieldBase / BoolViewFromBitfieldBacking` are `bitIntoChunk /
    bitFromChunk` (Model/Machine.lean, Model/View.lean) for every uint8 index; no panic -/
theorem C09b_bitfield (b : Bool) (r : Root) (i : UInt8) :
    BasicV.backingFromBitfieldBase b r i = .ok (bitIntoChunk r i.toNat b) ∧
    Meta.boolViewFromBitfieldBacking r i = .ok (bitFromChunk r i.toNat) :=
  ⟨backingFromBitfieldBase_eq b r i, boolViewFromBitfieldBacking_eq r i⟩

example : ∃ r', (BasicV.u16 0xBEEF).backingFromBase z0 3 = .ok (some r') ∧
    Meta.basicViewFromBacking 2 r' 3 = .ok (.u16 0xBEEF) := by
  obtain ⟨r', h1, _, _, h2, _⟩ := C09b_base_readback (.u16 0xBEEF) 2 rfl z0 (by decide) 3 (by decide)
  exact ⟨r', h1, h2⟩

/-- a chunk of 0xff bytes: position 31 is overwritten and reads back, position 30 still holds a
    byte above 1 and reads nil -/
example : ∃ r', (BasicV.bool true).backingFromBase (List.replicate 32 0xff) 31 = .ok (some r') ∧
    Meta.subViewFromBacking r' 31 = .ok (some (.bool true)) ∧ Meta.subViewFromBacking r' 30 = .ok none := by
  obtain ⟨r', h1, _, _, h2, h3⟩ := C09b_bool_base_readback true (List.replicate 32 0xff) (by simp) 31 (by decide)
  exact ⟨r', h1, h2, by rw [h3 30 (by decide)]; rfl⟩

/-! ### 5. `PackViews` -/

/-- `PackViews` of `k` values of one uint type (every size, every `k` including 0 and counts that
    do not fill the last chunk) = `BytesIntoNodes` of the concatenated spec encodings, i.e. the
    bottom nodes `View.construct` fills a basic vector / list with; their roots are the spec's
    chunks -/
theorem C09b_packViews (h : HashFn) (td : Nat) (htd : uintSize td) (vs : List BasicV) (hall : allOfType td vs) :
    allHaveType (.uint td) (vs.map BasicV.val) = true ∧
    Meta.packViews td vs = .ok (bytesIntoNodes (serList (.uint td) (vs.map BasicV.val)).flatten) ∧
    (bytesIntoNodes (serList (.uint td) (vs.map BasicV.val)).flatten).map (Node.root h)
      = chunks (serList (.uint td) (vs.map BasicV.val)).flatten := by
  refine ⟨allHaveType_vals td vs hall, ?_, ?_⟩
  · rw [packViews_eq td htd vs hall, encs_eq_serList td vs hall]
  · unfold bytesIntoNodes
    rw [List.map_map]
    exact (List.map_congr_left (fun _ _ => rfl)).trans (List.map_id _)

/-- the same over plain numbers: packing the values built from `ns` gives the chunks of the
    concatenated `size`-byte little-endian encodings -/
theorem C09b_packViews_nat (td : Nat) (htd : uintSize td) (ns : List Nat) :
    Meta.packViews td (ns.map (BasicV.ofNatD td)) = .ok (bytesIntoNodes (ns.map (leBytes td)).flatten) := by
  rw [packViews_eq td htd _ (fun v hv => by
    obtain ⟨n, _, rfl⟩ := List.mem_map.mp hv
    exact BasicV.ofNatD_type td n htd), encs_ofNat td htd]

example : uintSize 8 ∧ allOfType 8 [.u64 1, .u64 2, .u64 3, .u64 4, .u64 5] := by
  refine ⟨by simp [uintSize], ?_⟩
  intro v hv
  simp only [List.mem_cons, List.not_mem_nil, or_false] at hv
  rcases hv with rfl | rfl | rfl | rfl | rfl <;> rfl

example : Meta.packViews 8 [.u64 1, .u64 2, .u64 3, .u64 4, .u64 5]
    = .ok [.leaf (leBytes 8 1 ++ leBytes 8 2 ++ leBytes 8 3 ++ leBytes 8 4), .leaf (chunkOf (leBytes 8 5))] := by
  rfl

/-! ### 6. `Deserialize` -/

/-- `TypeDef.Deserialize` of the leaf types is the leaf decoder of Model/Decode.lean
    (`View.decode`): same acceptance, same backing, same reader afterwards -/
theorem C09b_deserialize_eq_decode (h : HashFn) (m : Meta) (hm : m.supported) (dr : DR) :
    (Meta.deserialize m dr).map (fun r => (r.1.backing, r.2)) = View.decode h m.ty dr := by
  apply deserialize_eq_decode h m _ dr
  cases m <;> first | exact hm | trivial

/-- `(*UintNView).Deserialize` is the flat codec model's `decUint` -/
theorem C09b_deserialize_eq_decUint (dst : BasicV) (td : Nat) (ht : dst.type = .uint td) (dr : DR) :
    (dst.deserialize dr).map (fun r => (r.1.val, r.2)) = Flat.decUint td dr :=
  deserialize_eq_decUint dst td ht dr

/-- `(*BoolView).Deserialize` is `decBool`; `RootMeta.Deserialize` reads what `decRoot` reads -/
theorem C09b_deserialize_eq_decBool (b : Bool) (dr : DR) :
    ((BasicV.bool b).deserialize dr).map (fun r => (r.1.val, r.2)) = Flat.decBool dr ∧
    (Meta.deserialize .root dr).map (fun r => (r.1.val, r.2)) = Flat.decRoot dr :=
  ⟨deserialize_eq_decBool b dr, deserialize_eq_decRoot dr⟩

/-- the type's `Deserialize` and the value's `Deserialize` are the same function, whatever the
    destination held: the flat and the view leaf decoders coincide -/
theorem C09b_deserialize_agree (dst : BasicV) (dr : DR) :
    Meta.deserialize dst.type dr = (dst.deserialize dr).map (fun r => (BV.basic r.1, r.2)) :=
  meta_deserialize_eq dst dr

example : ((Meta.uint 2).deserialize (DR.new [0xEF, 0xBE, 7] 3)).map (fun r => r.1) = .ok (.basic (.u16 0xBEEF)) := by
  rfl

example : (Meta.small 0).supported ∧ (Meta.deserialize (.small 0) (DR.new [] 0)).map (fun r => r.1) = .ok (.small []) :=
  ⟨Nat.zero_le _, rfl⟩

/-! ### 7. defaults and copies -/

/-- `Default(hook)` is the spec's default value, `DefaultNode()` is its backing, `New()` is the
    same value -/
theorem C09b_default (m : Meta) (hm : m.supported) :
    ∃ v, m.defaultView = some v ∧ v.type = m ∧ v.wf ∧ v.val = defaultVal m.ty ∧ m.defaultNode = v.backing ∧
      (m ≠ .root → m.new = some v) :=
  Meta.default_spec m hm

/-- `Copy()` returns an equal value (sharing nothing mutable: the model is pure) -/
theorem C09b_copy (v : BV) : v.copy = .ok v := BV.copy_eq v

end ZtypV.Props.C09
