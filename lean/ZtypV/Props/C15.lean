/-
C15 — Type size bounds and fixed-size flags are sound.

Model side: `ZtypV.Sizes.sizeInfo` / `typeSizes` (Model/Sizes.lean) — the Go type constructors
`UintMeta … UnionType` of package `view`, function by function, in wrapping `UInt64` arithmetic;
this is the function the driver op `sizes` executes (Driver/OpsSizes.lean).
Spec side: `Ty.isFixed`, `Ty.typeByteLength`, `Ty.minSize`, `Ty.maxSize`, `hasType`, `serialize`
(Spec.lean).

Result.  The property holds for every well-formed type whose maximum encoded size is below 2^64
PROVIDED every bit length inside leaves room for the constructors' rounding addition
(`Bitvector[N]`: N + 7 < 2^64, `Bitlist[N]`: N + 8 < 2^64; `Sizes.bitLensOk`) — `C15_eq`.
Without that proviso the statement as written (`C15_eq_full`) is FALSE: `C15_eq_full_false`
(witness `Bitlist[2^64-1]`: spec maximum 2^61 bytes, constructor reports min 1 > max 0), with the
exact wrapped values in `C15_bitlist_wrap` / `C15_bitvector_wrap`.  All lengths and limits of the
property's quantifier (≤ 2^40) satisfy the proviso.
-/
import ZtypV.Proofs.Sizes
namespace ZtypV.Props.C15
open ZtypV ZtypV.Sizes

/-- the property exactly as worded (no proviso on bit lengths): constructors = spec for every
    well-formed type with maximum size below 2^64 -/
def C15_eq_full : Prop :=
  ∀ t : Ty, t.wf = true → t.maxSize < 2 ^ 64 →
    typeSizes t = some ⟨t.isFixed, UInt64.ofNat t.typeByteLength, UInt64.ofNat t.minSize,
      UInt64.ofNat t.maxSize⟩

/-- **C15 (model = spec).**  For every well-formed type with maximum encoded size below 2^64 and
    non-wrapping bit-length rounding, constructing the type does not panic and the constructors'
    fixed-size flag, `TypeByteLength`, `MinByteLength`, `MaxByteLength` (read as natural numbers)
    are exactly the spec's. -/
theorem C15_eq (t : Ty) (hwf : t.wf = true) (hmax : t.maxSize < 2 ^ 64) (hbits : bitLensOk t = true) :
    typeSizes t = some (sizeInfo t) ∧
    (sizeInfo t).isFixed = t.isFixed ∧
    (sizeInfo t).size.toNat = t.typeByteLength ∧
    (sizeInfo t).min.toNat = t.minSize ∧
    (sizeInfo t).max.toNat = t.maxSize := by
  have hmin : t.minSize < 2 ^ 64 := Nat.lt_of_le_of_lt (min_le_max t) hmax
  have hsz : t.typeByteLength < 2 ^ 64 := by
    unfold Ty.typeByteLength
    split
    · next hf => rw [← (fixed_min_max t hf).2]; exact hmax
    · exact Nat.pos_of_ne_zero (by decide)
  rw [typeSizes, wf_not_panics t hwf, sizeInfo_eq t hwf hmax hbits]
  exact ⟨rfl, rfl, toNat_ofNat_lt hsz, toNat_ofNat_lt hmin, toNat_ofNat_lt hmax⟩

/-- `exTy` = Container{uint64, List[Bitlist[9], 3], Union[None, Vector[boolean, 3]],
    Vector[List[uint16, 2^40], 2]} (Proofs/Sizes.lean) -/
example : exTy.wf = true ∧ exTy.maxSize < 2 ^ 64 ∧ bitLensOk exTy = true := by decide

/-- the same as an equation between records (the form the driver compares) -/
theorem C15_eq_record (t : Ty) (hwf : t.wf = true) (hmax : t.maxSize < 2 ^ 64) (hbits : bitLensOk t = true) :
    typeSizes t = some ⟨t.isFixed, UInt64.ofNat t.typeByteLength, UInt64.ofNat t.minSize,
      UInt64.ofNat t.maxSize⟩ := by
  rw [typeSizes, wf_not_panics t hwf, sizeInfo_eq t hwf hmax hbits]
  rfl

/-- exact behaviour of `BitListType(limit)` when `limit + 7 + 1` wraps: min 1, max 0 -/
theorem C15_bitlist_wrap (lim : Nat) (h1 : 2 ^ 64 ≤ lim + 8) (h2 : lim < 2 ^ 64) :
    sizeInfo (.bitlist lim) = ⟨false, 0, 1, 0⟩ ∧ (Ty.bitlist lim).maxSize = lim / 8 + 1 := by
  refine ⟨?_, rfl⟩
  have e : (UInt64.ofNat lim + 7 + 1) / 8 = 0 := by
    apply UInt64.toNat.inj
    have h7 : (7 : UInt64).toNat = 7 := rfl
    have h8 : (8 : UInt64).toNat = 8 := rfl
    have h1' : (1 : UInt64).toNat = 1 := rfl
    have h0 : (0 : UInt64).toNat = 0 := rfl
    rw [UInt64.toNat_div, UInt64.toNat_add, UInt64.toNat_add, toNat_ofNat_lt h2, h7, h8, h1', h0]
    omega
  simp only [sizeInfo, bitListType, e]

example : 2 ^ 64 ≤ (2 ^ 64 - 1) + 8 ∧ 2 ^ 64 - 1 < 2 ^ 64 := by decide

/-- exact behaviour of `BitVectorType(length)` when `length + 7` wraps: all lengths 0 -/
theorem C15_bitvector_wrap (n : Nat) (h1 : 2 ^ 64 ≤ n + 7) (h2 : n < 2 ^ 64) :
    sizeInfo (.bitvector n) = ⟨true, 0, 0, 0⟩ ∧ (Ty.bitvector n).maxSize = (n + 7) / 8 := by
  refine ⟨?_, rfl⟩
  have e : (UInt64.ofNat n + 7) / 8 = 0 := by
    apply UInt64.toNat.inj
    have h7 : (7 : UInt64).toNat = 7 := rfl
    have h8 : (8 : UInt64).toNat = 8 := rfl
    have h0 : (0 : UInt64).toNat = 0 := rfl
    rw [UInt64.toNat_div, UInt64.toNat_add, toNat_ofNat_lt h2, h7, h8, h0]
    omega
  simp only [sizeInfo, bitVectorType, e]

example : 2 ^ 64 ≤ (2 ^ 64 - 7) + 7 ∧ 2 ^ 64 - 7 < 2 ^ 64 := by decide

/-- **The property as worded fails at the 64-bit boundary of bit lengths.**  `Bitlist[2^64-1]` is
    well-formed, its maximum encoding has 2^61 < 2^64 bytes, yet `BitListType` reports
    `MaxByteLength = 0 < MinByteLength = 1` (so `checkScope` rejects every encoding). -/
theorem C15_eq_full_false : ¬ C15_eq_full := by
  intro h
  have h1 := h (.bitlist (2 ^ 64 - 1)) rfl (by decide)
  have h2 := (C15_bitlist_wrap (2 ^ 64 - 1) (by decide) (by decide)).1
  rw [typeSizes, wf_not_panics _ rfl, h2] at h1
  revert h1
  decide

/-- **C15 (sound bounds).**  The encoding of every value of the type lies within the spec bounds. -/
theorem C15_sound (t : Ty) (v : Val) (hv : hasType t v = true) :
    t.minSize ≤ (serialize t v).length ∧ (serialize t v).length ≤ t.maxSize :=
  ser_bounds t v hv

example : hasType exTy (.seq [.num 7, .seq [.bits [true, false]], .union 1 (.seq [.bool true, .bool false, .bool true]),
    .seq [.seq [.num 1], .seq []]]) = true := by decide

/-- **C15 (fixed size).**  Every value of a fixed-size type is encoded in exactly `fixedSize` bytes. -/
theorem C15_fixed (t : Ty) (v : Val) (hf : t.isFixed = true) (hv : hasType t v = true) :
    (serialize t v).length = t.fixedSize := by
  have h := ser_bounds t v hv
  have e := fixed_min_max t hf
  omega

example : (Ty.vector (.container [.uint 4, .bitvector 9]) 3).isFixed = true ∧
    hasType (Ty.vector (.container [.uint 4, .bitvector 9]) 3)
      (.seq (List.replicate 3 (.seq [.num 5, .bits (List.replicate 9 true)]))) = true := by decide

/-- **C15 (no valid encoding rejected for its size / encodings within the reported bounds).**
    Within the constructors' reported `[MinByteLength, MaxByteLength]` lies the encoding of every
    value. -/
theorem C15_reported_bounds (t : Ty) (v : Val) (hwf : t.wf = true) (hmax : t.maxSize < 2 ^ 64)
    (hbits : bitLensOk t = true) (hv : hasType t v = true) :
    (sizeInfo t).min.toNat ≤ (serialize t v).length ∧
    (serialize t v).length ≤ (sizeInfo t).max.toNat := by
  obtain ⟨_, _, _, h3, h4⟩ := C15_eq t hwf hmax hbits
  rw [h3, h4]
  exact ser_bounds t v hv

example : exTy.wf = true ∧ exTy.maxSize < 2 ^ 64 ∧ bitLensOk exTy = true ∧
    hasType exTy (.seq [.num 7, .seq [.bits [true, false]], .union 0 .none, .seq [.seq [], .seq [.num 9]]]) = true := by
  decide

/-- **C15 (tight minimum).**  Some value is encoded in exactly `minSize` bytes. -/
theorem C15_tight_min (t : Ty) (hwf : t.wf = true) :
    ∃ v, hasType t v = true ∧ (serialize t v).length = t.minSize :=
  tight_min t hwf

/-- **C15 (tight maximum).**  Some value is encoded in exactly `maxSize` bytes. -/
theorem C15_tight_max (t : Ty) (hwf : t.wf = true) :
    ∃ v, hasType t v = true ∧ (serialize t v).length = t.maxSize :=
  tight_max t hwf

example : exTy.minSize = 29 ∧ exTy.maxSize = 4398046511154 := by decide

/-- sub-results never exceed the bound of the whole type (why `maxSize t < 2^64` suffices) -/
theorem C15_min_le_max (t : Ty) : t.minSize ≤ t.maxSize := min_le_max t

/-- a zero-limit list hides an overflowing element: the constructors still agree with the spec
    although the element's own maximum (2^40 · 2^40 bytes) wraps -/
example : typeSizes (.list (.list (.list (.uint 8) (2 ^ 40)) (2 ^ 40)) 0) = some ⟨false, 0, 0, 0⟩ := by
  decide

end ZtypV.Props.C15
