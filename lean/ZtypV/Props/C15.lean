import ZtypV.Spec
namespace ZtypV.Props.C15
theorem placeholder : True := trivial
end ZtypV.Props.C15
