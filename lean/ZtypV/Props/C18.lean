/-
C18 — Packed-bitfield helpers agree with a bit-sequence model.

Subject: the executable model `ZtypV.Bitfields.*` (Model/Bitfields.lean) of the Go package
`bitfields`, which the differential driver (`Driver/OpsBitfields.lean`, ops `bf.*`) runs
against the real code.  Specification: `ZtypV.packBits` (Spec.lean); a `Bitvector[n]` value
`bits` is encoded as `packBits bits`, a `Bitlist[limit]` value as `packBits (bits ++ [true])`.

All statements are for arbitrary byte strings and arbitrary 64-bit limits / lengths / indices.
Hypotheses that appear:
* `b.length < 2^64` where the Go code converts `len(b)` to `uint64` — true of every Go slice
  (`len < 2^63`); `bits.length < 2^64` where a bit count is returned in a `uint64`.
* `n.toNat + 7 < 2^64` for `BitvectorCheck`: for the seven lengths `n ≥ 2^64-7` the Go
  expression `(bitLength+7)>>3` wraps to 0 and the check is WRONG: it accepts exactly the
  empty byte string (`bitvectorCheck_wrapped`, `bitvectorCheck_wrap_violates_spec`).  Such
  lengths cannot occur with data that fits in memory, but the universal statement
  "for every length" is false there, so it is recorded as a theorem, not hidden.
* `n = 0`: `BitvectorCheck` accepts exactly the empty string, which agrees with the
  (degenerate) spec reading `packBits [] = []`; the `n == 0` branch of
  `BitvectorCheckLastByte` is unreachable from `BitvectorCheck`.  No restriction needed.
-/
import ZtypV.Proofs.Bitfields
namespace ZtypV.Props.C18
open ZtypV ZtypV.Bitfields

/-! ## BitIndex -/

/-- `BitIndex(v)` is the position of the highest set bit (`Nat.log2`, 0 for `v = 0`). -/
theorem bitIndex_eq_log2 (v : UInt8) : (bitIndex v).toNat = Nat.log2 v.toNat :=
  Bitfields.bitIndex_eq_log2 v

example : (bitIndex 0x2c).toNat = 5 := by decide

/-! ## BitlistCheck -/

/-- `BitlistCheck(b, limit)` succeeds exactly on the spec encodings of bitlists with at most
    `limit` bits. -/
theorem bitlistCheck_iff (b : Bytes) (lim : UInt64) (hb : b.length < 2 ^ 64) :
    bitlistCheck b lim = .ok () ↔
      ∃ bits : List Bool, bits.length ≤ lim.toNat ∧ b = packBits (bits ++ [true]) := by
  rw [bitlistCheck_ok_iff b lim hb]
  constructor
  · intro ⟨h0, hz, hle⟩
    exact ⟨unpack b (8 * (b.length - 1) + Nat.log2 (lastByte b).toNat),
      by rw [unpack_length]; exact hle, eq_packBits_delim b h0 hz⟩
  · intro ⟨bits, hle, hb⟩
    subst hb
    obtain ⟨hlen, hz, hlog⟩ := bitlist_shape bits
    refine ⟨by omega, hz, ?_⟩
    rw [hlen, hlog]; omega

/-- … and otherwise returns an error; it never panics. -/
theorem bitlistCheck_total (b : Bytes) (lim : UInt64) (hb : b.length < 2 ^ 64) :
    bitlistCheck b lim = .ok () ∨ bitlistCheck b lim = .error .err := by
  have := bitlistCheck_ne_panic b lim hb
  match h : bitlistCheck b lim with
  | .ok () => exact .inl rfl
  | .error .err => exact .inr rfl
  | .error .panic => exact absurd h this

/-- completeness needs no hypothesis on the byte length -/
theorem bitlistCheck_complete (bits : List Bool) (lim : UInt64) (h : bits.length ≤ lim.toNat) :
    bitlistCheck (packBits (bits ++ [true])) lim = .ok () := by
  have hl := lim.toNat_lt
  refine (bitlistCheck_iff _ lim ?_).mpr ⟨bits, h, rfl⟩
  rw [(bitlist_shape bits).1]; omega

/-- the two exported sub-checks, exactly -/
theorem bitlistCheckByteLen_exact (byteLen lim : UInt64) :
    bitlistCheckByteLen byteLen lim =
      if byteLen.toNat = 0 then .error .err
      else if byteLen.toNat > lim.toNat / 8 + 1 then .error .err else .ok () :=
  bitlistCheckByteLen_eq byteLen lim

theorem bitlistCheckLastByte_exact (last : UInt8) (lim : UInt64) :
    bitlistCheckLastByte last lim =
      if last = 0 then .error .err
      else if Nat.log2 last.toNat > lim.toNat then .error .err else .ok () :=
  bitlistCheckLastByte_eq last lim

example : bitlistCheck [0xff, 0x0d] 11 = .ok () := by rfl
example : bitlistCheck (packBits ([true, false, true] ++ [true])) 3 = .ok () :=
  bitlistCheck_complete [true, false, true] 3 (by decide)
example : bitlistCheck [0xff, 0x0d] 10 = .error .err := by rfl
example : bitlistCheck [0xff, 0x00] 64 = .error .err := by rfl
example : ∃ bits : List Bool, bits.length ≤ 11 ∧ [0xff, 0x0d] = packBits (bits ++ [true]) :=
  ⟨[true, true, true, true, true, true, true, true, true, false, true], by decide, by decide⟩

/-! ## BitvectorCheck -/

/-- `BitvectorCheck(b, n)` succeeds exactly on the spec encodings of `n`-bit bitvectors
    (including the degenerate `n = 0`, where only the empty string is accepted), provided
    `n + 7` does not wrap. -/
theorem bitvectorCheck_iff (b : Bytes) (n : UInt64) (hb : b.length < 2 ^ 64)
    (hn : n.toNat + 7 < 2 ^ 64) :
    bitvectorCheck b n = .ok () ↔
      ∃ bits : List Bool, bits.length = n.toNat ∧ b = packBits bits := by
  rw [bitvectorCheck_ok_iff b n hb hn]
  constructor
  · intro ⟨hl, hz⟩
    refine ⟨unpack b n.toNat, unpack_length _ _, ?_⟩
    rw [eq_packBits_iff, unpack_length]
    refine ⟨hl, fun i => ?_⟩
    rw [unpack_getD]
    by_cases hi : i < n.toNat
    · rw [if_pos hi]
    · rw [if_neg hi]; exact hz i (by omega)
  · intro ⟨bits, hl, hb⟩
    subst hb
    refine ⟨by rw [packBits_length, hl], fun i hi => ?_⟩
    rw [bitAt_packBits, List.getD_eq_getElem?_getD, List.getElem?_eq_none (by omega)]
    rfl

theorem bitvectorCheck_total (b : Bytes) (n : UInt64) (hb : b.length < 2 ^ 64) :
    bitvectorCheck b n = .ok () ∨ bitvectorCheck b n = .error .err := by
  have := bitvectorCheck_ne_panic b n hb
  match h : bitvectorCheck b n with
  | .ok () => exact .inl rfl
  | .error .err => exact .inr rfl
  | .error .panic => exact absurd h this

/-- `n = 0`: exactly the empty byte string is accepted (a non-empty one is an error). -/
theorem bitvectorCheck_zero (b : Bytes) (hb : b.length < 2 ^ 64) :
    bitvectorCheck b 0 = .ok () ↔ b = [] := by
  rw [bitvectorCheck_iff b 0 hb (by decide)]
  constructor
  · intro ⟨bits, hl, hb⟩
    have : bits = [] := List.length_eq_zero_iff.mp hl
    subst this; exact hb
  · intro h; exact ⟨[], rfl, h⟩

/-- Exact behaviour in the wrap-around region `n ≥ 2^64 - 7`: `(n+7)>>3` evaluates to 0, so
    exactly the empty byte string is accepted. -/
theorem bitvectorCheck_wrapped (b : Bytes) (n : UInt64) (hb : b.length < 2 ^ 64)
    (hn : 2 ^ 64 ≤ n.toNat + 7) :
    bitvectorCheck b n = .ok () ↔ b = [] := by
  have hnl := n.toNat_lt
  have h7 : (n + 7).toNat = n.toNat + 7 - 2 ^ 64 := by
    rw [UInt64.toNat_add]
    have : (7 : UInt64).toNat = 7 := rfl
    rw [this]; omega
  have he : ((n + 7) >>> 3).toNat = 0 := by rw [u64_shr3, h7]; omega
  have he' : (n + 7) >>> 3 = 0 := UInt64.toNat_inj.mp he
  unfold bitvectorCheck bitvectorCheckByteLen
  dsimp only
  rw [he']
  by_cases h0 : b.length = 0
  · have : b = [] := List.length_eq_zero_iff.mp h0
    subst this
    simp [bind, Except.bind]
  · have hne : UInt64.ofNat b.length ≠ 0 := by
      intro e
      have := congrArg UInt64.toNat e
      rw [u64_ofNat hb] at this
      exact h0 this
    have hb0 : b ≠ [] := fun e => h0 (by rw [e]; rfl)
    simp [hne, hb0, bind, Except.bind]

/-- DEFECT (outside any realistic input): for `n = 2^64-1` the empty byte string is accepted
    although a `Bitvector[2^64-1]` encoding has `2^61` bytes.  The universal statement
    `bitvectorCheck_iff` without the hypothesis `n + 7 < 2^64` is therefore false. -/
theorem bitvectorCheck_wrap_violates_spec :
    bitvectorCheck [] (UInt64.ofNat (2 ^ 64 - 1)) = .ok () ∧
    ¬ ∃ bits : List Bool, bits.length = (UInt64.ofNat (2 ^ 64 - 1)).toNat ∧ [] = packBits bits := by
  constructor
  · rfl
  · intro ⟨bits, hl, hb⟩
    have := congrArg List.length hb
    rw [packBits_length, hl] at this
    have e : (UInt64.ofNat (2 ^ 64 - 1)).toNat = 2 ^ 64 - 1 := by decide
    rw [e] at this
    simp at this

theorem bitvectorCheckByteLen_exact (byteLen n : UInt64) (hn : n.toNat + 7 < 2 ^ 64) :
    bitvectorCheckByteLen byteLen n =
      if byteLen.toNat = (n.toNat + 7) / 8 then .ok () else .error .err :=
  bitvectorCheckByteLen_eq byteLen n hn

/-- `BitvectorCheckLastByte(last, n)`: error for `n = 0`, otherwise the bits of `last` from
    position `n mod 8` on must be zero when `n` is not a multiple of 8. -/
theorem bitvectorCheckLastByte_exact (last : UInt8) (n : UInt64) :
    bitvectorCheckLastByte last n = .ok () ↔
      n.toNat ≠ 0 ∧ (n.toNat % 8 ≠ 0 → ∀ j, n.toNat % 8 ≤ j → last.toNat.testBit j = false) :=
  bitvectorCheckLastByte_ok_iff last n

example : bitvectorCheck [0xff, 0x05] 11 = .ok () := by rfl
example : bitvectorCheck [0xff, 0x0d] 11 = .error .err := by rfl
example : bitvectorCheck [0xff, 0xfd] 16 = .ok () := by rfl
example : bitvectorCheck [] 0 = .ok () := by rfl
example : bitvectorCheck [0] 0 = .error .err := by rfl
example : ∃ bits : List Bool, bits.length = 11 ∧ [0xff, 0x05] = packBits bits :=
  ⟨[true, true, true, true, true, true, true, true, true, false, true], by decide, by decide⟩

/-! ## BitlistLen -/

/-- `BitlistLen` of a bitlist encoding is the number of bits. -/
theorem bitlistLen_packed (bits : List Bool) (h : bits.length < 2 ^ 64) :
    bitlistLen (packBits (bits ++ [true])) = .ok (UInt64.ofNat bits.length) := by
  obtain ⟨hlen, _, hlog⟩ := bitlist_shape bits
  obtain ⟨r, hr, hv⟩ := bitlistLen_eq (packBits (bits ++ [true])) (by rw [hlen]; omega)
  rw [hr]
  congr 1
  apply UInt64.toNat_inj.mp
  rw [hv, u64_ofNat h, if_neg (by omega), hlen, hlog]
  omega

/-- exact value on every byte string (the documented "sane defaults" for invalid input):
    0 for the empty string, else `8·(len-1) + log2(last byte)` with `log2 0 = 0`. -/
theorem bitlistLen_exact (b : Bytes) (hb : b.length ≤ 2 ^ 61) :
    ∃ r, bitlistLen b = .ok r ∧
      r.toNat = if b.length = 0 then 0
                else 8 * (b.length - 1) + Nat.log2 (b.getD (b.length - 1) 0).toNat :=
  bitlistLen_eq b hb

example : bitlistLen [0xff, 0x0d] = .ok 11 := by rfl
example : bitlistLen (packBits ([true, false, false] ++ [true])) = .ok 3 := by rfl

/-! ## GetBit / SetBit -/

/-- `GetBit` on a packed bit sequence returns the bit. -/
theorem getBit_packed (bits : List Bool) (i : UInt64) (h : i.toNat < bits.length) :
    getBit (packBits bits) i = .ok bits[i.toNat] := by
  rw [getBit_eq, if_pos (by rw [packBits_length]; omega), bitAt_packBits,
    List.getD_eq_getElem?_getD, List.getElem?_eq_getElem h]
  rfl

/-- … in particular on a bitlist encoding, below the delimiter. -/
theorem getBit_bitlist (bits : List Bool) (i : UInt64) (h : i.toNat < bits.length) :
    getBit (packBits (bits ++ [true])) i = .ok bits[i.toNat] := by
  rw [getBit_packed (bits ++ [true]) i (by simp; omega)]
  simp [List.getElem_append_left h]

/-- `GetBit` panics exactly when the byte index `i>>3` is outside the slice. -/
theorem getBit_panic_iff (b : Bytes) (i : UInt64) :
    getBit b i = .error .panic ↔ b.length ≤ i.toNat / 8 := by
  rw [getBit_eq]
  by_cases h : i.toNat / 8 < b.length
  · rw [if_pos h]; constructor
    · intro c; cases c
    · intro c; omega
  · rw [if_neg h]; constructor
    · intro _; omega
    · intro _; rfl

/-- `SetBit` on a packed bit sequence is the list update. -/
theorem setBit_packed (bits : List Bool) (i : UInt64) (v : Bool) (h : i.toNat < bits.length) :
    setBit (packBits bits) i v = .ok (packBits (bits.set i.toNat v)) := by
  obtain ⟨b', hb', hl, hbits⟩ :=
    setBit_spec (packBits bits) i v (by rw [packBits_length]; omega)
  rw [hb']
  congr 1
  apply bytes_ext
  · rw [hl, packBits_length, packBits_length, List.length_set]
  · intro j
    rw [hbits, bitAt_packBits, bitAt_packBits, List.getD_eq_getElem?_getD,
      List.getD_eq_getElem?_getD, List.getElem?_set]
    by_cases hj : j = i.toNat
    · subst hj; rw [if_pos rfl, if_pos rfl, if_pos h]; rfl
    · rw [if_neg hj, if_neg (fun e => hj e.symm)]

/-- … and on a bitlist encoding, below the delimiter, the delimiter stays in place. -/
theorem setBit_bitlist (bits : List Bool) (i : UInt64) (v : Bool) (h : i.toNat < bits.length) :
    setBit (packBits (bits ++ [true])) i v = .ok (packBits (bits.set i.toNat v ++ [true])) := by
  rw [setBit_packed (bits ++ [true]) i v (by simp; omega), List.set_append_left _ _ h]

theorem setBit_panic_iff (b : Bytes) (i : UInt64) (v : Bool) :
    setBit b i v = .error .panic ↔ b.length ≤ i.toNat / 8 := by
  constructor
  · intro h
    by_cases hlt : i.toNat / 8 < b.length
    · obtain ⟨b', hb', _⟩ := setBit_spec b i v hlt
      rw [hb'] at h; cases h
    · omega
  · exact setBit_panic b i v

example : getBit (packBits [true, false, true, true, false, false, false, false, false, true]) 9
    = .ok true := by rfl
example : setBit (packBits ([true, false, true] ++ [true])) 1 true
    = .ok (packBits ([true, true, true] ++ [true])) := by rfl
example : getBit [0xff] 8 = .error .panic := by rfl
example : getBit (packBits ([false, true, false] ++ [true])) 1 = .ok true :=
  getBit_bitlist [false, true, false] 1 (by decide)
example : setBit [0xff] 8 true = .error .panic := (setBit_panic_iff [0xff] 8 true).mpr (by decide)

/-! ## ones counts, zero test -/

/-- `BitvectorOnesCount` of a packed bit sequence is the number of `true` bits. -/
theorem bitvectorOnesCount_packed (bits : List Bool) (h : bits.length < 2 ^ 64) :
    (bitvectorOnesCount (packBits bits)).toNat = bits.count true :=
  Bitfields.bitvectorOnesCount_packed bits h

/-- `BitlistOnesCount` of a bitlist encoding is the number of `true` bits (delimiter excluded). -/
theorem bitlistOnesCount_packed (bits : List Bool) (h : bits.length < 2 ^ 64) :
    (bitlistOnesCount (packBits (bits ++ [true]))).toNat = bits.count true :=
  Bitfields.bitlistOnesCount_packed bits h

/-- `IsZeroBitlist` of a bitlist encoding: all bits are false. -/
theorem isZeroBitlist_packed (bits : List Bool) :
    isZeroBitlist (packBits (bits ++ [true])) = bits.all (fun x => !x) :=
  Bitfields.isZeroBitlist_packed bits

theorem isZeroBitlist_iff (bits : List Bool) :
    isZeroBitlist (packBits (bits ++ [true])) = true ↔ ∀ x ∈ bits, x = false := by
  rw [isZeroBitlist_packed, List.all_eq_true]
  constructor
  · intro h x hx; simpa using h x hx
  · intro h x hx; simpa using h x hx

example : (bitlistOnesCount (packBits ([true, false, true, true, false, false, false, true, true] ++ [true]))).toNat = 5 := by decide
example : (bitvectorOnesCount (packBits [true, false, true, true, false, false, false, true, true])).toNat = 5 := by decide
example : isZeroBitlist (packBits ([false, false, false, false, false, false, false, false, false] ++ [true])) = true := by decide
example : isZeroBitlist (packBits ([false, false, false, false, false, false, false, false, true] ++ [true])) = false := by decide

/-! ## Covers -/

/-- different byte lengths: error -/
theorem covers_length_mismatch (a b : Bytes) (h : a.length ≠ b.length) :
    covers a b = .error .err :=
  covers_err a b h

/-- bitvectors of equal length: `Covers` says whether every set bit of `B` is set in `A`. -/
theorem covers_bitvector (A B : List Bool) (h : A.length = B.length) :
    ∃ r, covers (packBits A) (packBits B) = .ok r ∧
      (r = true ↔ ∀ i (hi : i < B.length), B[i] = true → A[i]'(h ▸ hi) = true) := by
  obtain ⟨r, hr, hiff⟩ := covers_ok (packBits A) (packBits B)
    (by rw [packBits_length, packBits_length, h])
  refine ⟨r, hr, ?_⟩
  rw [hiff]
  constructor
  · intro hall i hi
    have := hall i
    rw [bitAt_packBits, bitAt_packBits, List.getD_eq_getElem?_getD, List.getD_eq_getElem?_getD,
      List.getElem?_eq_getElem hi, List.getElem?_eq_getElem (h ▸ hi)] at this
    exact this
  · intro hall i
    rw [bitAt_packBits, bitAt_packBits]
    by_cases hi : i < B.length
    · rw [List.getD_eq_getElem?_getD, List.getD_eq_getElem?_getD,
        List.getElem?_eq_getElem hi, List.getElem?_eq_getElem (h ▸ hi)]
      exact hall i hi
    · rw [List.getD_eq_getElem?_getD, List.getElem?_eq_none (by omega)]
      intro c; cases c

/-- bitlists of equal length: same, the delimiter bits do not change the outcome. -/
theorem covers_bitlist (A B : List Bool) (h : A.length = B.length) :
    ∃ r, covers (packBits (A ++ [true])) (packBits (B ++ [true])) = .ok r ∧
      (r = true ↔ ∀ i (hi : i < B.length), B[i] = true → A[i]'(h ▸ hi) = true) := by
  obtain ⟨r, hr, hiff⟩ := covers_bitvector (A ++ [true]) (B ++ [true]) (by simp [h])
  refine ⟨r, hr, ?_⟩
  rw [hiff]
  constructor
  · intro hall i hi
    have := hall i (by simp; omega)
    rw [List.getElem_append_left hi, List.getElem_append_left (h ▸ hi)] at this
    exact this
  · intro hall i hi
    by_cases hlt : i < B.length
    · rw [List.getElem_append_left hlt, List.getElem_append_left (h ▸ hlt)]
      exact hall i hlt
    · have hi' : i < B.length + 1 := by simpa using hi
      have e : i = B.length := by omega
      subst e
      intro _
      simp [h]

example : covers (packBits [true, true, false]) (packBits [true, false, false]) = .ok true := by rfl
example : covers (packBits [true, false, false]) (packBits [true, true, false]) = .ok false := by rfl
example : covers [1, 2] [1] = .error .err := by rfl
example : covers (packBits ([true, true, false] ++ [true])) (packBits ([false, true, false] ++ [true]))
    = .ok true := by rfl
example : ∃ r, covers (packBits ([true, false] ++ [true])) (packBits ([true, true] ++ [true])) = .ok r ∧
    (r = true ↔ ∀ i (hi : i < 2), [true, true][i] = true → [true, false][i] = true) :=
  covers_bitlist [true, false] [true, true] rfl

end ZtypV.Props.C18
