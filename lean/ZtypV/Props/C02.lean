import ZtypV.Spec
namespace ZtypV.Props.C02
theorem placeholder : True := trivial
end ZtypV.Props.C02
