/-
C02 — View serialization is spec-exact and round-trips.

"For every supported type and value, serializing the view yields exactly the SSZ-spec encoding
and the reported value byte length equals the length of that encoding.  Deserializing that
encoding yields a view with the same encoding, the same hash-tree-root and, through the typed
getters (element, field, bit, selector, length), the same component values."

Model: `View.construct` (FromElements / FromFields / FromBits / FromView), `View.serializeView`
(`Serialize`), `View.valueByteLength` (`ValueByteLength`), `View.viewVal` (the typed getters
`Get`, `Length`, `Selector`, `Value`, bit and packed-element reads composed into a value).

Side conditions carried by the theorems (all decidable):
* `t.wf`, `hasType t v` — a legal SSZ type and a value of it;
* `View.inRange t` — every tree depth the view navigates is `< 64` (list and bitlist views
  navigate one level above their contents) and list limits fit `uint64`.  This is NOT
  vacuous caution: `tree.ToGindex64` rejects depth ≥ 64, so e.g. `List[Bytes32, 2^62+1]` with one
  element answers `Get(0)` with an error in the Go code and in the model.  It holds for all
  types whose limits / lengths are ≤ 2^62 (`C02_inRange_of_small`).
* `(serialize t v).length < 2^32` for `C02_ser` — `EncodingWriter.WriteOffset` panics on offsets
  that do not fit `uint32`.  Not needed for `C02_len`, `C02_getters`.

All theorems hold for `Vector/List` of `boolean` as well (finding D3 changes the root only).
-/
import ZtypV.Proofs.ViewSerMain
import ZtypV.Proofs.ViewLenMain
import ZtypV.Proofs.ViewGetMain
import ZtypV.Proofs.ViewConstruct
import ZtypV.Proofs.ViewRange
import ZtypV.Proofs.SerInj
import ZtypV.Proofs.ViewRoot
import ZtypV.Proofs.DecodeSound
namespace ZtypV.Props.C02
open ZtypV ZtypV.View

/-- `Serialize` of the view built from `v : t` writes exactly the SSZ-spec encoding. -/
theorem C02_ser (h : HashFn) (t : Ty) (v : Val) (n : Node) (hwf : t.wf = true)
    (hrange : inRange t = true) (hty : hasType t v = true)
    (hsize : (serialize t v).length < 2 ^ 32) (hc : construct h t v = .ok n) :
    serializeView t n = .ok (serialize t v) :=
  ser_ok h v t n hwf hrange hty (Or.inr hsize) hc

/-- Variant without the size bound for types whose encoding contains no offsets
    (`View.offsetFree`: no series of variable-size elements, no container with a variable-size
    field, anywhere inside): `WriteOffset` is never called. -/
theorem C02_ser_offsetFree (h : HashFn) (t : Ty) (v : Val) (n : Node) (hwf : t.wf = true)
    (hrange : inRange t = true) (hty : hasType t v = true)
    (hfree : offsetFree t = true) (hc : construct h t v = .ok n) :
    serializeView t n = .ok (serialize t v) :=
  ser_ok h v t n hwf hrange hty (Or.inl hfree) hc

/-- `ValueByteLength` of the view is the length of the SSZ-spec encoding (no size bound needed). -/
theorem C02_len (h : HashFn) (t : Ty) (v : Val) (n : Node) (hwf : t.wf = true)
    (hrange : inRange t = true) (hty : hasType t v = true) (hc : construct h t v = .ok n) :
    valueByteLength t n = .ok (serialize t v).length :=
  len_ok h v t n hwf hrange hty hc

/-- Reading the view back through the typed getters only (`Get(i)` of vectors / lists /
    containers / bitfields, `Length()`, `Selector()`, `Value()`, packed-element and bit reads)
    returns exactly the components of `v`. -/
theorem C02_getters (h : HashFn) (t : Ty) (v : Val) (n : Node) (hwf : t.wf = true)
    (hrange : inRange t = true) (hty : hasType t v = true) (hc : construct h t v = .ok n) :
    viewVal t n = .ok v :=
  get_ok h v t n hwf hrange hty hc

/-- The reported length is the length of what `Serialize` writes. -/
theorem C02_len_eq_ser (h : HashFn) (t : Ty) (v : Val) (n : Node) (hwf : t.wf = true)
    (hrange : inRange t = true) (hty : hasType t v = true)
    (hsize : (serialize t v).length < 2 ^ 32) (hc : construct h t v = .ok n) :
    ∃ bs, serializeView t n = .ok bs ∧ valueByteLength t n = .ok bs.length :=
  ⟨_, C02_ser h t v n hwf hrange hty hsize hc, C02_len h t v n hwf hrange hty hc⟩

/-- The constructors accept every typed value of a well-formed type (so the hypothesis
    `construct h t v = .ok n` of the theorems above is always satisfiable). -/
theorem C02_construct_total (h : HashFn) (t : Ty) (v : Val) (hwf : t.wf = true)
    (hty : hasType t v = true) : ∃ n, construct h t v = .ok n :=
  construct_total h v t hwf hty

/-- C02, first half, in one statement: for every supported type and value the view exists, its
    `Serialize` output is the spec encoding, `ValueByteLength` is that encoding's length and the
    typed getters return the components. -/
theorem C02_view (h : HashFn) (t : Ty) (v : Val) (hwf : t.wf = true)
    (hrange : inRange t = true) (hty : hasType t v = true)
    (hsize : offsetFree t = true ∨ (serialize t v).length < 2 ^ 32) :
    ∃ n, construct h t v = .ok n ∧
      serializeView t n = .ok (serialize t v) ∧
      valueByteLength t n = .ok (serialize t v).length ∧
      viewVal t n = .ok v := by
  obtain ⟨n, hc⟩ := construct_total h v t hwf hty
  exact ⟨n, hc, ser_ok h v t n hwf hrange hty hsize hc, len_ok h v t n hwf hrange hty hc,
    get_ok h v t n hwf hrange hty hc⟩

/-- `inRange` holds for every well-formed type whose vector / bitvector lengths, list / bitlist
    limits and field counts are at most `2^62`. -/
theorem C02_inRange_of_small (t : Ty) (hwf : t.wf = true) (hsmall : limitsLe (2 ^ 62) t = true) :
    inRange t = true :=
  inRange_of_small t hwf hsmall

/-! ### round trip

Decode soundness is C03's theorem `DecodeProofs.decodeTop_sound` (an accepted input is the
encoding of a typed value and the decoded backing is the one the constructors build); it is
used here.  That the decoder *accepts* every spec encoding (completeness) is not proved in the
project; it is the explicit hypothesis `DecodeComplete` of the full statement and is exercised
by the dynamic round-trip check. -/

/-- `serialize` is injective on typed values of a well-formed type.  The size bound is
    necessary: offsets are `uint32` and wrap, so two different splits of one payload of ≥ 2^32
    bytes into variable-size parts have the same encoding. -/
theorem C02_serialize_injective (t : Ty) (v w : Val) (hwf : t.wf = true)
    (hv : hasType t v = true) (hw : hasType t w = true)
    (hsize : (serialize t v).length < 2 ^ 32) (h : serialize t v = serialize t w) : v = w :=
  serialize_injective t v w hwf hv hw hsize h

/-- Round trip: whenever the decoder accepts the spec encoding of `v`, the decoded view is the
    constructed view of `v` itself; hence it has the same encoding, the same reported length,
    the same components through the getters and (by C01, outside finding D3) the spec root. -/
theorem C02_roundtrip (h : HashFn) (t : Ty) (v : Val) (n : Node) (hwf : t.wf = true)
    (hrange : inRange t = true) (hty : hasType t v = true)
    (hsize : (serialize t v).length < 2 ^ 32)
    (hd : decodeTop h t (serialize t v) = .ok n) :
    construct h t v = .ok n ∧
    serializeView t n = .ok (serialize t v) ∧
    valueByteLength t n = .ok (serialize t v).length ∧
    viewVal t n = .ok v ∧ (noBoolSeries t = true → n.root h = htr h t v) := by
  have hleaf : DecodeProofs.isLeafTy t = true → (serialize t v).length = t.fixedSize := by
    intro hl
    apply serialize_fixed_length v t _ hty
    cases t <;> simp [DecodeProofs.isLeafTy, Ty.isFixed] at hl ⊢
  obtain ⟨v', hty', hser, hc⟩ := DecodeProofs.decodeTop_sound h t _ n hleaf hd
  have hv : v = v' := serialize_injective t v v' hwf hty hty' hsize hser.symm
  subst hv
  exact ⟨hc, C02_ser h t v n hwf hrange hty hsize hc, C02_len h t v n hwf hrange hty hc,
    C02_getters h t v n hwf hrange hty hc,
    fun hnb => construct_root_of_ok h t v n hwf hnb hty hc⟩
where
  construct_root_of_ok (h : HashFn) (t : Ty) (v : Val) (n : Node) (hwf : t.wf = true)
      (hnb : noBoolSeries t = true) (hty : hasType t v = true) (hc : construct h t v = .ok n) :
      n.root h = htr h t v := by
    obtain ⟨n', hn', hr⟩ := construct_root h t v hwf hnb hty
    rw [hc] at hn'; cases hn'; exact hr

/-- the decoder accepts every spec encoding (decoder completeness; not proved in the project) -/
def DecodeComplete : Prop :=
  ∀ (h : HashFn) (t : Ty) (v : Val), t.wf = true → hasType t v = true →
    (serialize t v).length < 2 ^ 32 → ∃ n, decodeTop h t (serialize t v) = .ok n

/-- Full round-trip statement of C02: decoding the spec encoding of `v` succeeds and yields a
    view with the same encoding, the same reported length, the spec hash-tree-root (outside
    finding D3) and the same components through the getters. -/
def C02_roundtrip_full : Prop :=
  ∀ (h : HashFn) (t : Ty) (v : Val), t.wf = true → inRange t = true → hasType t v = true →
    (serialize t v).length < 2 ^ 32 →
    ∃ n, decodeTop h t (serialize t v) = .ok n ∧
      serializeView t n = .ok (serialize t v) ∧
      valueByteLength t n = .ok (serialize t v).length ∧
      viewVal t n = .ok v ∧
      (noBoolSeries t = true → n.root h = htr h t v)

/-- The full statement follows from decoder completeness alone. -/
theorem C02_roundtrip_full_of (hcomplete : DecodeComplete) : C02_roundtrip_full := by
  intro h t v hwf hrange hty hsize
  obtain ⟨n, hd⟩ := hcomplete h t v hwf hty hsize
  exact ⟨n, hd, (C02_roundtrip h t v n hwf hrange hty hsize hd).2⟩

/-! ### non-vacuity: a nested type with every kind of component -/

/-- Container{ uint16, List[uint64,5], Bitlist[10], Vector[List[uint8,3],2] (variable-size
    elements, offsets), Union[None, boolean, Bytes4], Vector[boolean,3] (D3), Bitvector[9] } -/
def exT : Ty := .container [.uint 2, .list (.uint 8) 5, .bitlist 10,
  .vector (.list (.uint 1) 3) 2, .union true [.bool, .bytesN 4], .vector .bool 3, .bitvector 9]
def exV : Val := .seq [.num 513, .seq [.num 1, .num 2, .num 3], .bits [true, false, true],
  .seq [.seq [.num 7], .seq []], .union 2 (.bytes [1, 2, 3, 4]),
  .seq [.bool true, .bool false, .bool true], .bits [true, true, false, false, false, false, false, false, true]]
def exH : HashFn := fun a b => (a ++ b).take 32

example : exT.wf = true := by decide
example : inRange exT = true := by decide
example : hasType exT exV = true := by decide
example : (serialize exT exV).length < 2 ^ 32 := by decide
example : ∃ n, construct exH exT exV = .ok n := ⟨_, rfl⟩
example : limitsLe (2 ^ 62) exT = true := by decide
example : offsetFree exT = false := by decide
example : offsetFree (.list (.vector (.uint 8) 4) 100) = true := by decide
example : (serialize exT exV).length = 62 := by decide

/-- the hypotheses of `C02_ser`, `C02_len`, `C02_getters` are jointly satisfiable and the
    conclusions are the concrete expected results -/
example : ∃ n, construct exH exT exV = .ok n ∧
    serializeView exT n = .ok (serialize exT exV) ∧
    valueByteLength exT n = .ok (serialize exT exV).length ∧ viewVal exT n = .ok exV := by
  refine ⟨_, rfl, ?_, ?_, ?_⟩
  · exact C02_ser exH exT exV _ (by decide) (by decide) (by decide) (by decide) rfl
  · exact C02_len exH exT exV _ (by decide) (by decide) (by decide) rfl
  · exact C02_getters exH exT exV _ (by decide) (by decide) (by decide) rfl

/-- the `inRange` hypothesis is necessary: a list view whose limit needs depth 63 cannot be read -/
example : inRange (.list (.bytesN 32) (2 ^ 62 + 1)) = false := by decide +kernel
set_option maxRecDepth 8000 in
example : ∃ n, construct exH (.list (.bytesN 1) (2 ^ 62 + 1)) (.seq [.bytes [5]]) = .ok n ∧
    viewVal (.list (.bytesN 1) (2 ^ 62 + 1)) n = .error .other := ⟨_, rfl, rfl⟩

/-- the round trip on a concrete example (kept small: the decoder is evaluated by `rfl`): the
    decoder accepts the encoding, and the decoded view is the constructed one, so all
    conclusions of `C02_roundtrip` apply to it -/
def exT2 : Ty := .container [.uint 2, .list (.uint 1) 3, .bitlist 5]
def exV2 : Val := .seq [.num 513, .seq [.num 7, .num 9], .bits [true, false, true]]

example : ∃ n, decodeTop exH exT2 (serialize exT2 exV2) = .ok n ∧
    construct exH exT2 exV2 = .ok n ∧ serializeView exT2 n = .ok (serialize exT2 exV2) ∧
    viewVal exT2 n = .ok exV2 := by
  refine ⟨_, rfl, ?_⟩
  have := C02_roundtrip exH exT2 exV2 _ (by decide) (by decide) (by decide) (by decide) rfl
  exact ⟨this.1, this.2.1, this.2.2.2.1⟩

end ZtypV.Props.C02
