/-
C04 — Typed mutations behave like a plain value model.

"For every sequence of typed mutations (set element/field, append, pop, set bit, change union
option), applied directly or through nested sub-views obtained from a parent view, the root view
stays observationally identical to a plain in-memory value subjected to the same operations:
same hash-tree-root, same serialization, same lengths and same element reads.  Out-of-range
indices, appends beyond the limit and pops of an empty collection are reported as errors and
leave the value unchanged."

Model side: `ZtypV.Sim.stepM` (Model/Sim.lean) — the object machine of Model P: view objects
(type, backing tree, optional hook = (parent object, slot)), the Go mutators `Set / Append / Pop /
Change` (Model/Machine.lean `Mut.*`) and `SetBacking` with hook propagation (`setBacking`).
Spec side: `ZtypV.Sim.stepV` — the plain value machine (a value per handle, write-back into the
parent's slot).  The correspondence driver (Driver/OpsHist.lean) executes exactly these two
functions next to the real library on every run.

Result.  For EVERY hash function `h`, from `Sim`-related stores (Proofs/RepSimBase.lean: every
object's backing tree represents, `Rep`, its own typed value; hooks point to earlier complex
series / containers whose slot type is the object's type; all types `TyGood`) every operation
whose arguments are well-formed (`OpOk`: the new element has the slot's type; `Change` gets a
`uint8` selector and a nil value exactly for the `None` option) yields the SAME OUTPUT on both
machines and `Sim`-related stores again — `C04_step`, for every constructor of `Op`; hence equal
output lists for every finite history — `C04_run`.  The outputs of `obs` are (hash-tree-root,
serialization, value read through the typed getters), of `len` / `rd` / `blen` the length, the
element read and `ValueByteLength`; errors are outputs too (`err`), never panics.

`TyGood t` = `t.wf ∧ View.inRange t ∧ noBoolSeries t` (inherited by element / field / option types):
  * `noBoolSeries` — known finding D3 (`Vector/List` of `boolean` are built as complex series,
    so their `hash_tree_root` differs from the spec): without it `obs` differs;
  * `inRange` — depth < 64 / limits < 2^64 (the `uint64` generalized indices).
`OpOk` for `obs`: `Serialize` panics on offsets ≥ 2^32 (C02 side condition), so the observed
object must satisfy `ObsOk`: its type writes no offsets, or `TySmall` (`t.maxSize < 2^32`, then
every encoding is short by `C15_sound`), or the byte length the view reports is < 2^32.  (The
size bound is deliberately not part of `TyGood`: the harness uses list limits up to 2^40.)
`OpOk` for `Change`: Go's `UnionView.Change` does not check that a nil value is passed exactly
for the `None` option (known findings `RepMut.change_none_slot_accepts_value`,
`RepMut.change_typed_slot_accepts_nil`); the harness never generates such calls.
`opOkB` (Proofs/RepSim.lean) is an executable, sound check of `OpOk`.

No mismatch between the two machines was found under these hypotheses.
-/
import ZtypV.Proofs.RepSim
import ZtypV.Proofs.SerInj
namespace ZtypV.Props.C04
open ZtypV ZtypV.View ZtypV.Sim

/-! ### one step -/

/-- **C04 (one operation).**  From related stores, every operation with well-formed arguments
    gives the same output on the object machine and on the value machine, and related stores. -/
theorem C04_step (h : HashFn) {ms : Store} {vs : VStore} (op : Op) (hs : ZtypV.Sim h ms vs)
    (hok : OpOk ms op) :
    (stepM h ms op).2 = (stepV h vs op).2 ∧ ZtypV.Sim h (stepM h ms op).1 (stepV h vs op).1 := by
  cases op with
  | get p i => exact step_get h hs p i
  | val p => exact step_val h hs p
  | copy s => exact step_copy h hs s
  | set id i x => exact step_set h hs id i x hok
  | setv id i s => exact step_setv h hs id i s hok
  | app id x => exact step_app h hs id x hok
  | pop id => exact step_pop h hs id
  | chg id sel x => exact step_chg h hs id sel x hok
  | obs id => exact step_obs h hs id hok
  | len id => exact step_len h hs id
  | rd id i => exact step_rd h hs id i
  | blen id => exact step_blen h hs id
  | appd id => exact step_appd h hs id
  | setd id i => exact step_setd h hs id i
  | appv id s => exact step_appv h hs id s hok

/-- the propagation lemma behind every mutation: `SetBacking` through the hook chain against the
    recursive write-back, with agreeing success / (non-panic) failure -/
theorem C04_propagation (h : HashFn) (ms : Store) (vs : VStore) (id : Nat) (o : VObj) (vo : VObjV)
    (b : Node) (nv : Val) (hs : ZtypV.Sim h ms vs) (hm : ms[id]? = some o) (hv : vs[id]? = some vo)
    (hr : Rep h o.ty nv b) (ht : hasType o.ty nv = true) :
    ZtypV.Sim h (setBacking h (ms.size + 1) ms id b).1
        (writeBack (vs.size + 1) (vs.set! id { vo with val := nv }) id).1 ∧
      PropOut (setBacking h (ms.size + 1) ms id b).2
        (writeBack (vs.size + 1) (vs.set! id { vo with val := nv }) id).2 := by
  rw [← hs.1]
  exact propagate h (ms.size + 1) ms vs id o vo b nv hs hm hv (by have := lookup_lt hm; omega) hr ht

/-- **C04 (observational identity, spelled out).**  In related stores every view object — root
    or retained sub-view — shows exactly its plain value: same hash-tree-root, same
    serialization, same value through the typed getters, same byte length. -/
theorem C04_observation (h : HashFn) {ms : Store} {vs : VStore} (hs : ZtypV.Sim h ms vs) {id : Nat}
    {o : VObj} {vo : VObjV} (hm : ms[id]? = some o) (hv : vs[id]? = some vo) :
    o.ty = vo.ty ∧ o.node.root h = htr h vo.ty vo.val ∧ viewVal o.ty o.node = .ok vo.val ∧
    valueByteLength o.ty o.node = .ok (serialize vo.ty vo.val).length ∧
    (ObsOk o → serializeView o.ty o.node = .ok (serialize vo.ty vo.val)) := by
  obtain ⟨vo', hv', hrel, _⟩ := hs.lookup hm
  rw [hv] at hv'; cases hv'
  have hg := hrel.good
  rw [hrel.ty_eq]
  refine ⟨rfl, rep_root h hg.wf hg.noBool hrel.typed hrel.rep,
    rep_getters h hg.wf hg.inRange hrel.typed hrel.rep,
    rep_len h hg.wf hg.inRange hrel.typed hrel.rep, fun hok => ?_⟩
  refine rep_ser_sizeOk h hg.wf hg.inRange hrel.typed ?_ hrel.rep
  rcases hok with h1 | h1 | ⟨n, hn, hlt⟩
  · exact Or.inl h1
  · exact Or.inr (h1.serLt hrel.typed)
  · rw [rep_len h hg.wf hg.inRange hrel.typed hrel.rep] at hn
    cases hn
    exact Or.inr hlt

/-! ### whole histories -/

/-- **C04 (every finite history).**  Mutations interleaved with reads and root requests: the list
    of outputs of the object machine is the list of outputs of the value machine, and the final
    stores are related. -/
theorem C04_run (h : HashFn) : ∀ (ops : List Op) {ms : Store} {vs : VStore},
    ZtypV.Sim h ms vs → OpsOk h ms ops →
    runM h ms ops = runV h vs ops ∧ ZtypV.Sim h (finalM h ms ops) (finalV h vs ops)
  | [], _, _, hs, _ => ⟨rfl, hs⟩
  | op :: ops, ms, vs, hs, hok => by
    obtain ⟨hout, hs'⟩ := C04_step h op hs hok.1
    obtain ⟨hrest, hfin⟩ := C04_run h ops hs' hok.2
    simp only [runM, runV, finalM, finalV]
    exact ⟨by rw [hout, hrest], hfin⟩

/-! ### initial states (and creation of further roots in the middle of a history) -/

/-- the empty stores are related -/
theorem C04_init_empty (h : HashFn) : ZtypV.Sim h #[] #[] :=
  ⟨rfl, fun id o hm => by simp at hm⟩

/-- a new detached root whose backing represents its value extends related stores -/
theorem C04_mk_rep (h : HashFn) {ms : Store} {vs : VStore} (hs : ZtypV.Sim h ms vs) {t : Ty} {v : Val}
    {n : Node} (hg : TyGood t) (hv : hasType t v = true) (hr : Rep h t v n) :
    ZtypV.Sim h (ms.push { ty := t, node := n, hook := none })
      (vs.push { ty := t, val := v, parent := none }) :=
  hs.push ⟨rfl, rfl, hg, hv, hr⟩ (fun _ _ hp => by cases hp)

/-- constructor route -/
theorem C04_mk_construct (h : HashFn) {ms : Store} {vs : VStore} (hs : ZtypV.Sim h ms vs) {t : Ty}
    {v : Val} {n : Node} (hg : TyGood t) (hv : hasType t v = true)
    (hc : construct h t v = .ok n) :
    ZtypV.Sim h (ms.push { ty := t, node := n, hook := none })
      (vs.push { ty := t, val := v, parent := none }) :=
  C04_mk_rep h hs hg hv (construct_rep h hg.wf hv hc)

/-- default route -/
theorem C04_mk_default (h : HashFn) {ms : Store} {vs : VStore} (hs : ZtypV.Sim h ms vs) {t : Ty}
    {n : Node} (hg : TyGood t) (hd : defaultNode h t = .ok n) :
    ZtypV.Sim h (ms.push { ty := t, node := n, hook := none })
      (vs.push { ty := t, val := defaultVal t, parent := none }) :=
  C04_mk_rep h hs hg (defaultVal_hasType t hg.wf) (default_rep h hg.wf hd)

/-- deserialization route: decoding the encoding of `v` (shorter than 2^32 bytes) -/
theorem C04_mk_decode (h : HashFn) {ms : Store} {vs : VStore} (hs : ZtypV.Sim h ms vs) {t : Ty}
    {v : Val} {n : Node} (hg : TyGood t) (hv : hasType t v = true)
    (hlen : (serialize t v).length < 2 ^ 32)
    (hd : decodeTop h t (serialize t v) = .ok n) :
    ZtypV.Sim h (ms.push { ty := t, node := n, hook := none })
      (vs.push { ty := t, val := v, parent := none }) := by
  obtain ⟨w, hw, hser, hc⟩ := DecodeProofs.decodeTop_sound h t (serialize t v) n (by
    intro hl
    have hf : t.isFixed = true := by cases t <;> first | rfl | simp [DecodeProofs.isLeafTy] at hl
    have := Sizes.ser_bounds t v hv
    have := Sizes.fixed_min_max t hf
    omega) hd
  have : w = v := (serialize_injective t v w hg.wf hv hw hlen hser.symm).symm
  subst this
  exact C04_mk_construct h hs hg hv hc

/-- **initial state, constructor route**: one root built by the constructors -/
theorem C04_init_construct (h : HashFn) {t : Ty} {v : Val} {n : Node} (hg : TyGood t)
    (hv : hasType t v = true) (hc : construct h t v = .ok n) :
    ZtypV.Sim h #[{ ty := t, node := n, hook := none }] #[{ ty := t, val := v, parent := none }] :=
  C04_mk_construct h (C04_init_empty h) hg hv hc

/-- **initial state, default route** -/
theorem C04_init_default (h : HashFn) {t : Ty} {n : Node} (hg : TyGood t)
    (hd : defaultNode h t = .ok n) :
    ZtypV.Sim h #[{ ty := t, node := n, hook := none }]
      #[{ ty := t, val := defaultVal t, parent := none }] :=
  C04_mk_default h (C04_init_empty h) hg hd

/-- **initial state, deserialization route** -/
theorem C04_init_decode (h : HashFn) {t : Ty} {v : Val} {n : Node} (hg : TyGood t)
    (hv : hasType t v = true) (hlen : (serialize t v).length < 2 ^ 32)
    (hd : decodeTop h t (serialize t v) = .ok n) :
    ZtypV.Sim h #[{ ty := t, node := n, hook := none }] #[{ ty := t, val := v, parent := none }] :=
  C04_mk_decode h (C04_init_empty h) hg hv hlen hd

/-- all three routes exist for every typed value of a good type -/
theorem C04_init_exists (h : HashFn) {t : Ty} {v : Val} (hg : TyGood t) (hv : hasType t v = true) :
    (∃ n, construct h t v = .ok n) ∧ (∃ n, defaultNode h t = .ok n) :=
  ⟨construct_total h v t hg.wf hv,
    (defaultNode_root h t hg.wf hg.noBool).imp fun _ hn => hn.1⟩

/-! ### sub-types of good types are good -/

theorem C04_good_elem_vector {e : Ty} {k : Nat} (hg : TyGood (.vector e k)) : TyGood e :=
  hg.vector_elem
theorem C04_good_elem_list {e : Ty} {lim : Nat} (hg : TyGood (.list e lim)) : TyGood e :=
  hg.list_elem
theorem C04_good_field {fs : List Ty} {i : Nat} {ft : Ty} (hg : TyGood (.container fs))
    (hi : fs[i]? = some ft) : TyGood ft := hg.field hi
theorem C04_good_option {hasNone : Bool} {opts : List Ty} {sel : Nat} {ot : Ty}
    (hg : TyGood (.union hasNone opts)) (ho : unionOpt hasNone opts sel = some ot) : TyGood ot :=
  hg.opt ho
/-- the slot type of a hooked sub-view's parent, i.e. the type of every element the value model
    can read (what `Get` opens a sub-view of) -/
theorem C04_good_valElem {t : Ty} {v : Val} {i : Nat} {et : Ty} {x : Val} (hg : TyGood t)
    (he : valElem t v i = some (et, x)) : TyGood et :=
  hg.valElem he

/-- a type all of whose encodings are shorter than 2^32 bytes can always be observed; so can
    the sub-views opened on its elements / fields / options (`TySmall` is inherited, except by
    the element type of a list with limit 0, which has no elements) -/
theorem C04_small_obsOk {o : VObj} (hsm : TySmall o.ty) : ObsOk o := Or.inr (Or.inl hsm)
theorem C04_small_elem_vector {e : Ty} {k : Nat} (hs : TySmall (.vector e k)) (hk : 0 < k) :
    TySmall e := hs.vector_elem hk
theorem C04_small_elem_list {e : Ty} {lim : Nat} (hs : TySmall (.list e lim)) (hl : 0 < lim) :
    TySmall e := hs.list_elem hl
theorem C04_small_field {fs : List Ty} {i : Nat} {ft : Ty} (hs : TySmall (.container fs))
    (hi : fs[i]? = some ft) : TySmall ft := hs.field hi
theorem C04_small_option {hasNone : Bool} {opts : List Ty} {sel : Nat} {ot : Ty}
    (hs : TySmall (.union hasNone opts)) (ho : unionOpt hasNone opts sel = some ot) : TySmall ot :=
  hs.opt ho

/-! ### errors leave the value unchanged -/

/-- **C04 (errors, value machine).**  A mutation of a ROOT handle (no parent) that is answered
    with an error leaves the whole value store unchanged.  (For a sub-view handle an error can
    also come from the write-back into a slot that no longer exists: then the handle keeps its
    own new value and only the ancestors are unchanged — see `C04_propagation`.) -/
theorem C04_errors_leave_value_unchanged (h : HashFn) (vs : VStore) (op : Op) (id : Nat) (vo : VObjV)
    (ht : op.target = some id) (hv : vs[id]? = some vo) (hroot : vo.parent = none)
    (herr : (stepV h vs op).2 = .err) : (stepV h vs op).1 = vs := by
  rcases stepV_shape h vs op id ht with ⟨out, hout⟩ | ⟨f, hf⟩
  · rw [hout]
  · rw [hf] at herr ⊢
    exact mutateV_root hv hroot f herr

/-- **C04 (errors, view side).**  The same for the object machine: the erring mutation of a root
    view leaves every view object — type, backing tree, hook — exactly as it was. -/
theorem C04_errors_leave_view_unchanged (h : HashFn) (ms : Store) (op : Op) (id : Nat) (o : VObj)
    (ht : op.target = some id) (hm : ms[id]? = some o) (hroot : o.hook = none)
    (herr : (stepM h ms op).2 = .err) : (stepM h ms op).1 = ms := by
  rcases stepM_shape h ms op id ht with ⟨out, hout⟩ | ⟨r, hr⟩
  · rw [hout]
  · rw [hr] at herr ⊢
    exact mutateM_root h hm hroot r herr

/-- … and the view errs exactly when the value model does (out-of-range index, append beyond the
    limit, pop of an empty collection — whatever `valSet / valAppend / valPop / valChange`
    refuse), in which case both stores are unchanged and still related. -/
theorem C04_errors_agree (h : HashFn) {ms : Store} {vs : VStore} (op : Op) (id : Nat) (o : VObj)
    (hs : ZtypV.Sim h ms vs) (hok : OpOk ms op) (ht : op.target = some id) (hm : ms[id]? = some o)
    (hroot : o.hook = none) :
    ((stepM h ms op).2 = .err ↔ (stepV h vs op).2 = .err) ∧
    ((stepV h vs op).2 = .err → (stepM h ms op).1 = ms ∧ (stepV h vs op).1 = vs) := by
  obtain ⟨hout, _⟩ := C04_step h op hs hok
  obtain ⟨vo, hv, hrel, _⟩ := hs.lookup hm
  refine ⟨by rw [hout], fun herr => ⟨?_, ?_⟩⟩
  · exact C04_errors_leave_view_unchanged h ms op id o ht hm hroot (by rw [hout]; exact herr)
  · exact C04_errors_leave_value_unchanged h vs op id vo ht hv (by rw [hrel.hook_eq]; exact hroot) herr

/-! ### non-vacuity: concrete stores, concrete histories (hash `rvExH`, Proofs/RepView.lean) -/

section Examples
open ZtypV.C04Ex

/-- `List[List[uint64,4],3]` holding `[[1,2]]`, built by the constructors, is a related pair -/
theorem exSim : ZtypV.Sim rvExH exMs exVs := C04_init_construct rvExH exT_good exV_typed exN_eq

/-- the 8-operation history with a retained, then stale, nested sub-view: `C04_run` applies -/
example : runM rvExH exMs exOps = runV rvExH exVs exOps :=
  (C04_run rvExH exOps exSim (opsOkB_sound rvExH exOps exMs exOps_ok)).1

/-- what that history answers: the append through the stale sub-view and the out-of-range `Set`
    are errors (on both machines, by the previous example) -/
example : (runV rvExH exVs exOps).map (fun o => o == Out.err) =
    [false, false, false, false, false, true, false, true] := by decide
example : (runM rvExH exMs exOps).map (fun o => o == Out.err) =
    [false, false, false, false, false, true, false, true] := by decide
/-- … `len 0` answered 1 (the root held `[[1,2,3]]`), `rd 1 3` read the 4 the stale sub-view
    kept; at the end the root is empty and the sub-view has four elements -/
example : (runV rvExH exVs exOps).map (fun o => match o with
      | .num n => some n | .val (.num n) => some n | _ => none) =
    [none, none, none, some 1, none, none, some 4, none] := by decide
example : (finalV rvExH exVs exOps).toList.map (fun o => match o.val with
      | .seq vs => vs.length | _ => 99) = [0, 4] := by decide

example := C04_observation rvExH exSim (id := 0) rfl rfl

/-- one step, a nested mutation: `Append` through the sub-view created by `get 0 0` -/
example : ZtypV.Sim rvExH (stepM rvExH exMs (.get 0 0)).1 (stepV rvExH exVs (.get 0 0)).1 :=
  (C04_step rvExH (.get 0 0) exSim trivial).2
example : (stepM rvExH (stepM rvExH exMs (.get 0 0)).1 (.app 1 (.num 3))).2 =
    (stepV rvExH (stepV rvExH exVs (.get 0 0)).1 (.app 1 (.num 3))).2 :=
  (C04_step rvExH (.app 1 (.num 3)) (C04_step rvExH (.get 0 0) exSim trivial).2
    (opOkB_sound _ _ (by decide))).1

/-- `List[uint64,4]` holding `[1,2]`: direct mutations of a root view with packed elements -/
theorem exSim1 : ZtypV.Sim rvExH exMs1 exVs1 :=
  C04_init_construct rvExH (by decide) (by decide) exN1_eq
example : runM rvExH exMs1 exOps1 = runV rvExH exVs1 exOps1 :=
  (C04_run rvExH exOps1 exSim1 (opsOkB_sound rvExH exOps1 exMs1 exOps1_ok)).1
example : (runV rvExH exVs1 exOps1).map (fun o => o == Out.err) =
    [false, false, false, false, true, false] := by decide

/-- the erring mutation `set 0 7 …` of the root handle: hypotheses of the error
    theorems are satisfiable, the stores are unchanged -/
example : (stepV rvExH exVs (.set 0 7 (.seq []))).1 = exVs :=
  C04_errors_leave_value_unchanged rvExH exVs (.set 0 7 (.seq [])) 0 _ rfl rfl rfl (by rfl)
example : (stepM rvExH exMs (.set 0 7 (.seq []))).1 = exMs :=
  (C04_errors_agree rvExH (.set 0 7 (.seq [])) 0 _ exSim (opOkB_sound _ _ (by decide)) rfl rfl rfl).2
    (by rfl) |>.1

/-- default and deserialization routes -/
example : ∃ n, defaultNode rvExH exT = .ok n ∧
    ZtypV.Sim rvExH #[{ ty := exT, node := n, hook := none }]
      #[{ ty := exT, val := defaultVal exT, parent := none }] := by
  obtain ⟨n, hn⟩ := (C04_init_exists rvExH exT_good exV_typed).2
  exact ⟨n, hn, C04_init_default rvExH exT_good hn⟩
example : ∃ n, decodeTop rvExH exT (serialize exT exV) = .ok n ∧
    ZtypV.Sim rvExH #[{ ty := exT, node := n, hook := none }]
      #[{ ty := exT, val := exV, parent := none }] :=
  ⟨_, rfl, C04_init_decode rvExH exT_good exV_typed (by decide) rfl⟩

/-- sub-types -/
example : TyGood (.list (.uint 8) 4) := C04_good_elem_list exT_good
example : TySmall (.list (.uint 8) 4) := C04_small_elem_list (e := .list (.uint 8) 4) (lim := 3) (by decide) (by decide)

end Examples

end ZtypV.Props.C04

#print axioms ZtypV.Props.C04.C04_step
#print axioms ZtypV.Props.C04.C04_propagation
#print axioms ZtypV.Props.C04.C04_observation
#print axioms ZtypV.Props.C04.C04_run
#print axioms ZtypV.Props.C04.C04_init_construct
#print axioms ZtypV.Props.C04.C04_init_default
#print axioms ZtypV.Props.C04.C04_init_decode
#print axioms ZtypV.Props.C04.C04_mk_construct
#print axioms ZtypV.Props.C04.C04_mk_default
#print axioms ZtypV.Props.C04.C04_mk_decode
#print axioms ZtypV.Props.C04.C04_errors_leave_value_unchanged
#print axioms ZtypV.Props.C04.C04_errors_leave_view_unchanged
#print axioms ZtypV.Props.C04.C04_errors_agree
#print axioms ZtypV.Props.C04.C04_good_valElem
#print axioms ZtypV.opsOkB_sound
