import ZtypV.Spec
namespace ZtypV.Props.C04
theorem placeholder : True := trivial
end ZtypV.Props.C04
