/-
C12 — Partial (summarised) backings are handled safely.

For every view whose backing has had arbitrary subtrees replaced by their summary roots, the
hash-tree-root is unchanged and every read or mutation either reports an error or produces
exactly the result it would have produced on the full tree; it never panics and never
silently yields different data.

Vocabulary
* `Summ h n n'` (Proofs/Summ.lean): `n'` is `n` with any set of subtrees replaced by the leaf
  holding their Merkle root — what any sequence of `tree.SummarizeInto` calls produces
  (`C12_summarizeInto`, `C12_summarizeInto_again`).
* `Rep h t v n` (Proofs/Rep.lean): `n` is a (full) backing of the value `v : t`.
* `ZeroFaithful h k n` (Proofs/Summ.lean): no non-zero subtree of `n`, met at height `j` by a
  path of length ≤ `k`, hashes to the zero hash `zh h j`.  Needed exactly where Go's setter is
  called with `expand = true` (`Append`, `Pop`): the setter expands a leaf that EQUALS the zero
  hash of its height, and for an arbitrary pair hash a summarised non-zero subtree may collide
  with it (`C12_unfaithful_counterexample`).  For SHA-256 this is a collision-resistance
  assumption (a second preimage of a zero hash).

All theorems are for every pair hash `h` and without bounds on sizes beyond `View.inRange`
(Go's `uint64` / depth-64 limits).  Reads: section 3; single mutations: section 4; iterators:
section 5.  "Error" below is always `Err.nav` or `Err.other`, never `Err.panic`.
-/
import ZtypV.Proofs.SummEx
import ZtypV.Proofs.SummStart
namespace ZtypV.Props.C12
open ZtypV ZtypV.View ZtypV.View.Iter ZtypV.Sim ZtypV.Partial

/-! ### 1. the summary relation, the root -/

/-- the hash-tree-root of a partial tree is the root of the full tree -/
theorem C12_root {h : HashFn} {n n' : Node} (hs : Summ h n n') : n'.root h = n.root h := hs.root

theorem C12_summ_refl (h : HashFn) (n : Node) : Summ h n n := Summ.refl n

theorem C12_summ_trans {h : HashFn} {a b c : Node} (h1 : Summ h a b) (h2 : Summ h b c) :
    Summ h a c := h1.trans h2

/-- Go's `SummarizeInto(target)` produces a summary … -/
theorem C12_summarizeInto {h : HashFn} {n n' : Node} {p : List Bool}
    (hs : summarizeInto h n p = .ok n') : Summ h n n' := Summ.of_summarizeInto hs

/-- … also when applied to an already partial tree (any sequence of summarisations) -/
theorem C12_summarizeInto_again {h : HashFn} {n n' n'' : Node} {p : List Bool}
    (h1 : Summ h n n') (hs : summarizeInto h n' p = .ok n'') : Summ h n n'' :=
  Summ.of_summarizeInto_partial h1 hs

/-! ### 2. navigation and the setters on a partial tree -/

/-- `Getter`: a read that succeeds on the partial tree is the summary of the full-tree read;
    a read that succeeds on the full tree succeeds with its summary or fails with a
    navigation error on the partial tree; never a panic -/
theorem C12_getNode {h : HashFn} {n n' : Node} (hs : Summ h n n') (p : List Bool) :
    (∀ x', getNode n' p = .ok x' → ∃ x, getNode n p = .ok x ∧ Summ h x x') ∧
    (∀ x, getNode n p = .ok x →
      (∃ x', getNode n' p = .ok x' ∧ Summ h x x') ∨ getNode n' p = .error .nav) ∧
    getNode n' p ≠ .error .panic :=
  ⟨fun x' hx' => Summ.getNode_back p n n' x' hs hx', fun x hx => Summ.getNode_fwd p n n' x hs hx,
    Summ.getNode_no_panic n' p⟩

/-- `Setter(target, expand = false)` then binding a (possibly partial) node -/
theorem C12_setNode_noexpand {h : HashFn} {n n' v v' m' : Node} {p : List Bool}
    (hs : Summ h n n') (hv : Summ h v v') (hm : setNode h n' p false v' = .ok m') :
    ∃ m, setNode h n p false v = .ok m ∧ Summ h m m' :=
  Summ.setNode_back_false hs hv hm

/-- `Setter(target, expand = true)`: under faithfulness of the hash on the full tree.  The
    partial result may keep a summary `leaf (zh h k)` where the full result has a materialised
    zero subtree. -/
theorem C12_setNode_expand {h : HashFn} {n n' v v' m' : Node} {p : List Bool}
    (hs : Summ h n n') (hv : Summ h v v') (hz : ZeroFaithful h p.length n)
    (hm : setNode h n' p true v' = .ok m') :
    ∃ m, setNode h n p true v = .ok m ∧ Summ h m m' :=
  Summ.setNode_back_expand hs hv hz hm

theorem C12_setNode_no_panic (h : HashFn) (n' : Node) (p : List Bool) (e : Bool) (v : Node) :
    setNode h n' p e v ≠ .error .panic := Summ.setNode_no_panic h n' p e v

/-- `ZeroFaithful` spelled out with navigation -/
theorem C12_zeroFaithful_iff (h : HashFn) (k : Nat) (n : Node) :
    ZeroFaithful h k n ↔
      ∀ (p : List Bool) (s : Node), p.length ≤ k → getNode n p = .ok s →
        s.root h = zh h (k - p.length) → ZeroTree h (k - p.length) s :=
  ⟨fun hz p s hl hg hr => ZeroFaithful.at_path p k n s hz hl hg hr, ZeroFaithful.of_paths k n⟩

/-- the hypothesis is needed: with a constant hash a non-zero subtree is summarised by the
    "zero hash", the setter expands it as zeros, and the write succeeds on the partial tree with
    a result that is NOT a summary of the full-tree result (position `[true]` now reads `z0`
    instead of the data) — while both results have the same root, so nothing can notice -/
theorem C12_unfaithful_counterexample :
    ∃ (n n' v m m' : Node) (p : List Bool), Summ Ex.constH n n' ∧
      setNode Ex.constH n' p true v = .ok m' ∧ setNode Ex.constH n p true v = .ok m ∧
      ¬ Summ Ex.constH m m' ∧ m'.root Ex.constH = m.root Ex.constH ∧
      getNode m [true] = .ok (Ex.el 2) ∧ getNode m' [true] = .ok (.leaf z0) := by
  refine ⟨.pair (Ex.el 1) (Ex.el 2), .leaf z0, Ex.el 3, .pair (Ex.el 3) (Ex.el 2),
    .pair (Ex.el 3) (.leaf z0), [false], Summ.collapse _, rfl, rfl, ?_, rfl, rfl, rfl⟩
  intro hs
  obtain ⟨l, r, he, _, hr⟩ := Summ.pair_right hs
  cases he
  have := hr.leaf_left
  revert this
  decide

/-! ### 3. typed reads on a partial backing -/

/-- the root of a partial view is the spec's `hash_tree_root` of the value -/
theorem C12_root_typed (h : HashFn) {t : Ty} {v : Val} {n n' : Node} (hwf : t.wf = true)
    (hnb : noBoolSeries t = true) (hty : hasType t v = true) (hrep : Rep h t v n)
    (hs : Summ h n n') : n'.root h = htr h t v := by
  rw [hs.root]; exact rep_root h hwf hnb hty hrep

/-- MAIN (getters): reading a partial view through the typed getters yields the full value or
    a navigation error -/
theorem C12_getters_or (h : HashFn) {t : Ty} {v : Val} {n n' : Node} (hwf : t.wf = true)
    (hr : inRange t = true) (hty : hasType t v = true) (hrep : Rep h t v n) (hs : Summ h n n') :
    viewVal t n' = .ok v ∨ viewVal t n' = .error .nav :=
  (viewVal_fwd hs t).eq_or_nav (rep_getters h hwf hr hty hrep)

theorem C12_getters (h : HashFn) {t : Ty} {v v' : Val} {n n' : Node} (hwf : t.wf = true)
    (hr : inRange t = true) (hty : hasType t v = true) (hrep : Rep h t v n) (hs : Summ h n n')
    (hv : viewVal t n' = .ok v') : v' = v := by
  rcases C12_getters_or h hwf hr hty hrep hs with h1 | h1 <;> rw [h1] at hv <;> cases hv
  rfl

theorem C12_getters_no_panic (h : HashFn) {t : Ty} {v : Val} {n n' : Node} (hwf : t.wf = true)
    (hr : inRange t = true) (hty : hasType t v = true) (hrep : Rep h t v n) (hs : Summ h n n') :
    viewVal t n' ≠ .error .panic := by
  rcases C12_getters_or h hwf hr hty hrep hs with h1 | h1 <;> rw [h1] <;> intro hc <;> cases hc

/-- `Serialize` of a partial view: the spec encoding or a navigation error -/
theorem C12_ser_or (h : HashFn) {t : Ty} {v : Val} {n n' : Node} (hwf : t.wf = true)
    (hr : inRange t = true) (hty : hasType t v = true) (hlen : (serialize t v).length < 2 ^ 32)
    (hrep : Rep h t v n) (hs : Summ h n n') :
    serializeView t n' = .ok (serialize t v) ∨ serializeView t n' = .error .nav :=
  (serializeView_fwd hs t).eq_or_nav (rep_ser h hwf hr hty hlen hrep)

theorem C12_ser (h : HashFn) {t : Ty} {v : Val} {n n' : Node} {bs : Bytes} (hwf : t.wf = true)
    (hr : inRange t = true) (hty : hasType t v = true) (hlen : (serialize t v).length < 2 ^ 32)
    (hrep : Rep h t v n) (hs : Summ h n n') (hb : serializeView t n' = .ok bs) :
    bs = serialize t v ∧ serializeView t n' ≠ .error .panic := by
  rcases C12_ser_or h hwf hr hty hlen hrep hs with h1 | h1
  · rw [h1] at hb; cases hb; exact ⟨rfl, by rw [h1]; intro hc; cases hc⟩
  · rw [h1] at hb; cases hb

theorem C12_ser_no_panic (h : HashFn) {t : Ty} {v : Val} {n n' : Node} (hwf : t.wf = true)
    (hr : inRange t = true) (hty : hasType t v = true) (hlen : (serialize t v).length < 2 ^ 32)
    (hrep : Rep h t v n) (hs : Summ h n n') : serializeView t n' ≠ .error .panic := by
  rcases C12_ser_or h hwf hr hty hlen hrep hs with h1 | h1 <;> rw [h1] <;> intro hc <;> cases hc

/-- `ValueByteLength` of a partial view: the length of the spec encoding or a navigation error -/
theorem C12_len (h : HashFn) {t : Ty} {v : Val} {n n' : Node} (hwf : t.wf = true)
    (hr : inRange t = true) (hty : hasType t v = true) (hrep : Rep h t v n) (hs : Summ h n n') :
    valueByteLength t n' = .ok (serialize t v).length ∨ valueByteLength t n' = .error .nav :=
  (valueByteLength_fwd hs t).eq_or_nav (rep_len h hwf hr hty hrep)

/-- `Length()` of a partial list view -/
theorem C12_length_list (h : HashFn) {e : Ty} {lim : Nat} {vs : List Val} {n n' : Node}
    (hr : inRange (.list e lim) = true) (hrep : Rep h (.list e lim) (.seq vs) n)
    (hs : Summ h n n') :
    listLength n' lim = .ok vs.length ∨ listLength n' lim = .error .nav := by
  simp only [inRange, Bool.and_eq_true, decide_eq_true_eq] at hr
  apply (listLength_fwd hs lim).eq_or_nav
  simp only [Rep] at hrep
  obtain ⟨hle, hsh⟩ := hrep
  split at hsh
  · exact listShape_length h hsh hle (by omega)
  · obtain ⟨xs, _, hsh⟩ := hsh
    exact listShape_length h hsh hle (by omega)

/-- `Length()` of a partial bitlist view -/
theorem C12_length_bitlist (h : HashFn) {lim : Nat} {bs : List Bool} {n n' : Node}
    (hr : inRange (.bitlist lim) = true) (hrep : Rep h (.bitlist lim) (.bits bs) n)
    (hs : Summ h n n') :
    listLength n' lim = .ok bs.length ∨ listLength n' lim = .error .nav := by
  simp only [inRange, Bool.and_eq_true, decide_eq_true_eq] at hr
  apply (listLength_fwd hs lim).eq_or_nav
  simp only [Rep] at hrep
  exact listShape_length h hrep.2 hrep.1 (by omega)

/-- the typed getter `Get(i)` on a partial view: if it succeeds, it succeeds on the full view
    with the same element type and the element backing it returns is the summary of the full
    one (for packed elements and bits: the identical fresh leaf) — and then that element is the
    one the value model reads, backed by a `Rep` tree, so everything in this file applies to
    the element view again; it never panics -/
theorem C12_getElem (h : HashFn) {t : Ty} {v : Val} {n n' : Node} (i : Nat) (hwf : t.wf = true)
    (hr : inRange t = true) (hty : hasType t v = true) (hrep : Rep h t v n) (hs : Summ h n n') :
    (∀ et en', getElemNode t n' i = .ok (et, en') →
      ∃ en x, getElemNode t n i = .ok (et, en) ∧ Summ h en en' ∧
        valElem t v i = some (et, x) ∧ Rep h et x en ∧ hasType et x = true) ∧
    getElemNode t n' i ≠ .error .panic := by
  refine ⟨fun et en' hg => ?_, getElem_noPanic t n' i⟩
  obtain ⟨en, x, h1, h2, h3, h4, h5, _⟩ :=
    getElem_partial h i hwf (depthOk_of_inRange t hr) hty hrep hs hg
  exact ⟨en, x, h1, h2, h3, h4, h5⟩

/-! ### 4. typed single mutations on a partial backing

`en'` / `b'` / `content'` — the backing of the new element — may itself be partial. -/

/-- `Set(i, x)` on a partial view -/
theorem C12_set (h : HashFn) {t : Ty} {v : Val} {n n' en en' : Node} (i : Nat) (x : Val)
    (hrep : Rep h t v n) (hs : Summ h n n') (he : Summ h en en') :
    (∀ m', Mut.set h t n' i x en' = .ok m' → ∃ m, Mut.set h t n i x en = .ok m ∧ Summ h m m') ∧
    Mut.set h t n' i x en' ≠ .error .panic :=
  ⟨set_back t i x hs he (rep_readLeaves h hrep), set_noPanic h t n' i x en'⟩

/-- the parent-side write-back of `SetBacking` propagation on a partial parent -/
theorem C12_hookSet (h : HashFn) {t : Ty} {v : Val} {n n' b b' : Node} (i : Nat)
    (hrep : Rep h t v n) (hs : Summ h n n') (hb : Summ h b b') :
    (∀ m', hookSet h t n' i b' = .ok m' → ∃ m, hookSet h t n i b = .ok m ∧ Summ h m m') ∧
    hookSet h t n' i b' ≠ .error .panic :=
  ⟨hookSet_back t i hs hb (rep_readLeaves h hrep), hookSet_noPanic h t n' i b'⟩

/-- `Append(x)` on a partial list / bitlist view (setter with expansion) -/
theorem C12_append (h : HashFn) {t : Ty} {v : Val} {n n' en en' : Node} (x : Val)
    (hrep : Rep h t v n) (hs : Summ h n n') (he : Summ h en en')
    (hz : ZeroFaithful h (viewDepth t) n) :
    (∀ m', Mut.append h t n' x en' = .ok m' →
      ∃ m, Mut.append h t n x en = .ok m ∧ Summ h m m') ∧
    Mut.append h t n' x en' ≠ .error .panic :=
  ⟨append_back t x hs he (rep_readLeaves h hrep) hz, append_noPanic h t n' x en'⟩

/-- `Pop()` on a partial list / bitlist view (setter with expansion) -/
theorem C12_pop (h : HashFn) {t : Ty} {v : Val} {n n' : Node}
    (hrep : Rep h t v n) (hs : Summ h n n') (hz : ZeroFaithful h (viewDepth t) n) :
    (∀ m', Mut.pop h t n' = .ok m' → ∃ m, Mut.pop h t n = .ok m ∧ Summ h m m') ∧
    Mut.pop h t n' ≠ .error .panic :=
  ⟨pop_back t hs (rep_readLeaves h hrep) hz, pop_noPanic h t n'⟩

/-- `Change(sel, value)` of a union view does not look at the old backing at all: with a
    (possibly partial) new content it yields the summary of the full result -/
theorem C12_change (h : HashFn) (t : Ty) (sel : Nat) {content content' : Option Node}
    (hc : OptSumm h content content') :
    (∀ m', Mut.change t sel content' = .ok m' →
      ∃ m, Mut.change t sel content = .ok m ∧ Summ h m m') ∧
    Mut.change t sel content' ≠ .error .panic :=
  ⟨change_back t sel hc, change_noPanic t sel content'⟩

/-- `Set` then read: the mutated partial view is a summary of a `Rep` backing of the mutated
    value, so sections 1–5 apply to it again (root, getters shown here) -/
theorem C12_set_then_read (h : HashFn) {t : Ty} {v : Val} {n n' en m' : Node} (i : Nat) (x : Val)
    (hwf : t.wf = true) (hr : inRange t = true) (hty : hasType t v = true) (hrep : Rep h t v n)
    (hs : Summ h n n') (hx : hasType (slotTy t i) x = true)
    (hen : packedSlot t = false → Rep h (slotTy t i) x en)
    (hm : Mut.set h t n' i x en = .ok m') :
    ∃ v' m, valSet t v i x = some v' ∧ Mut.set h t n i x en = .ok m ∧ Rep h t v' m ∧
      hasType t v' = true ∧ Summ h m m' ∧
      (viewVal t m' = .ok v' ∨ viewVal t m' = .error .nav) ∧
      (noBoolSeries t = true → m'.root h = htr h t v') := by
  obtain ⟨m, hfull, hsum⟩ := (C12_set h i x hrep hs (Summ.refl en)).1 m' hm
  have hspec := set_rep h t v n i x en hwf (depthOk_of_inRange t hr) hty hrep hx hen
  cases hvs : valSet t v i x with
  | none => rw [hvs] at hspec; obtain ⟨e, he, _⟩ := hspec; rw [he] at hfull; cases hfull
  | some v' =>
    rw [hvs] at hspec
    obtain ⟨m1, h1, hrep', hty'⟩ := hspec
    rw [h1] at hfull; cases hfull
    exact ⟨v', m, rfl, h1, hrep', hty', hsum, C12_getters_or h hwf hr hty' hrep' hsum,
      fun hnb => C12_root_typed h hwf hnb hty' hrep' hsum⟩

/-- `Append` then read -/
theorem C12_append_then_read (h : HashFn) {t : Ty} {v : Val} {n n' en m' : Node} (x : Val)
    (hwf : t.wf = true) (hr : inRange t = true) (hty : hasType t v = true) (hrep : Rep h t v n)
    (hs : Summ h n n') (hz : ZeroFaithful h (viewDepth t) n)
    (hx : hasType (slotTy t 0) x = true)
    (hen : packedSlot t = false → Rep h (slotTy t 0) x en)
    (hm : Mut.append h t n' x en = .ok m') :
    ∃ v' m, valAppend t v x = some v' ∧ Mut.append h t n x en = .ok m ∧ Rep h t v' m ∧
      hasType t v' = true ∧ Summ h m m' ∧
      (viewVal t m' = .ok v' ∨ viewVal t m' = .error .nav) ∧
      (noBoolSeries t = true → m'.root h = htr h t v') := by
  obtain ⟨m, hfull, hsum⟩ := (C12_append h x hrep hs (Summ.refl en) hz).1 m' hm
  have hspec := append_rep h t v n x en hwf (depthOk_of_inRange t hr) hty hrep hx hen
  cases hvs : valAppend t v x with
  | none => rw [hvs] at hspec; obtain ⟨e, he, _⟩ := hspec; rw [he] at hfull; cases hfull
  | some v' =>
    rw [hvs] at hspec
    obtain ⟨m1, h1, hrep', hty'⟩ := hspec
    rw [h1] at hfull; cases hfull
    exact ⟨v', m, rfl, h1, hrep', hty', hsum, C12_getters_or h hwf hr hty' hrep' hsum,
      fun hnb => C12_root_typed h hwf hnb hty' hrep' hsum⟩

/-- `Pop` then read -/
theorem C12_pop_then_read (h : HashFn) {t : Ty} {v : Val} {n n' m' : Node}
    (hwf : t.wf = true) (hr : inRange t = true) (hty : hasType t v = true) (hrep : Rep h t v n)
    (hs : Summ h n n') (hz : ZeroFaithful h (viewDepth t) n)
    (hm : Mut.pop h t n' = .ok m') :
    ∃ v' m, valPop t v = some v' ∧ Mut.pop h t n = .ok m ∧ Rep h t v' m ∧
      hasType t v' = true ∧ Summ h m m' ∧
      (viewVal t m' = .ok v' ∨ viewVal t m' = .error .nav) ∧
      (noBoolSeries t = true → m'.root h = htr h t v') := by
  obtain ⟨m, hfull, hsum⟩ := (C12_pop h hrep hs hz).1 m' hm
  have hspec := pop_rep h t v n hwf (depthOk_of_inRange t hr) hty hrep
  cases hvs : valPop t v with
  | none => rw [hvs] at hspec; obtain ⟨e, he, _⟩ := hspec; rw [he] at hfull; cases hfull
  | some v' =>
    rw [hvs] at hspec
    obtain ⟨m1, h1, hrep', hty'⟩ := hspec
    rw [h1] at hfull; cases hfull
    exact ⟨v', m, rfl, h1, hrep', hty', hsum, C12_getters_or h hwf hr hty' hrep' hsum,
      fun hnb => C12_root_typed h hwf hnb hty' hrep' hsum⟩

/-- the hook write-back then read (`SetBacking` propagation into a partial parent, the child
    backing `b'` itself partial) -/
theorem C12_hookSet_then_read (h : HashFn) {t : Ty} {v : Val} {n n' b b' m' : Node} (i : Nat)
    (x : Val) (hwf : t.wf = true) (hr : inRange t = true) (hty : hasType t v = true)
    (hrep : Rep h t v n) (hs : Summ h n n') (hc : packedSlot t = false)
    (hx : hasType (slotTy t i) x = true) (hb : Rep h (slotTy t i) x b) (hbs : Summ h b b')
    (hm : hookSet h t n' i b' = .ok m') :
    ∃ v' m, valSet t v i x = some v' ∧ hookSet h t n i b = .ok m ∧ Rep h t v' m ∧
      hasType t v' = true ∧ Summ h m m' ∧
      (viewVal t m' = .ok v' ∨ viewVal t m' = .error .nav) := by
  obtain ⟨m, hfull, hsum⟩ := (C12_hookSet h i hrep hs hbs).1 m' hm
  have hspec := hookSet_rep h t v n i x b hwf (depthOk_of_inRange t hr) hty hrep hc hx hb
  cases hvs : valSet t v i x with
  | none => rw [hvs] at hspec; obtain ⟨e, he, _⟩ := hspec; rw [he] at hfull; cases hfull
  | some v' =>
    rw [hvs] at hspec
    obtain ⟨m1, h1, hrep', hty'⟩ := hspec
    rw [h1] at hfull; cases hfull
    exact ⟨v', m, rfl, h1, hrep', hty', hsum, C12_getters_or h hwf hr hty' hrep' hsum⟩

/-! ### 5. iterators on a partial backing (corollaries of C17) -/

/-- node iterator (`ReadonlyIter()` of complex series — `anchor` the contents subtree — and of
    containers): call by call (`StepSumm`), the iterator over the partial tree shows the summary
    of the node the full-tree iterator shows, the same end, or a non-panic error (which it
    then repeats: nothing is skipped, `C17_node_iter`) -/
theorem C12_iter {h : HashFn} {anchor anchor' : Node} (hs : Summ h anchor anchor')
    (length depth : Nat) (hb : (NodeIt.new anchor length depth).bad = false) (n : Nat) :
    StepsSumm (Summ h)
      (runSteps NodeIt.next n (NodeIt.new anchor length depth))
      (runSteps NodeIt.next n (NodeIt.new anchor' length depth)) :=
  nodeIter_summ hs length depth hb n

/-- the contents anchor of a partial list-like view: if the iterator can be started at all
    (`n'` is a pair), its anchor is a summary of the full view's anchor -/
theorem C12_iter_anchor {h : HashFn} {n l' r' : Node} (hs : Summ h n (.pair l' r')) :
    ∃ l r, n = .pair l r ∧ Summ h l l' ∧ Summ h r r' := Summ.pair_right hs

/-- packed element iterator over a partial tree: the same values, the same end, or an error
    (`hl`: the bottom layer of the full tree consists of leaves — true for every `Rep`
    backing, `C12_rep_bottom_leaves`) -/
theorem C12_iter_basic {h : HashFn} {anchor anchor' : Node} (hs : Summ h anchor anchor')
    (length depth size : Nat) (hl : BottomLeaves anchor depth)
    (hb : (BasicIt.new anchor length depth size).bad = false) (n : Nat) :
    StepsSumm Eq
      (runSteps BasicIt.next n (BasicIt.new anchor length depth size))
      (runSteps BasicIt.next n (BasicIt.new anchor' length depth size)) :=
  basicIter_summ hs length depth size hl hb n

/-- bit iterator over a partial tree -/
theorem C12_iter_bit {h : HashFn} {anchor anchor' : Node} (hs : Summ h anchor anchor')
    (length depth : Nat) (hl : BottomLeaves anchor depth)
    (hb : (BitIt.new anchor length depth).bad = false) (n : Nat) :
    StepsSumm Eq
      (runSteps BitIt.next n (BitIt.new anchor length depth))
      (runSteps BitIt.next n (BitIt.new anchor' length depth)) :=
  bitIter_summ hs length depth hl hb n

/-- what the CLIENT of `ReadonlyIter()` over complex series / containers sees (`AnyIt.nodes`:
    node iterator + `ViewFromBacking` of the element type): call by call (`OutSumm`) an element
    view of the same type over the summary of the full iterator's element backing, the same
    end, or an error.  `hview`: on the full tree every element node opens as a view of its
    type (true for `Rep` backings by `rep_viewOk`). -/
theorem C12_iter_ro_nodes {h : HashFn} {anchor anchor' : Node} (hs : Summ h anchor anchor')
    (length depth : Nat) (ety : Nat → Option Ty)
    (hb : (NodeIt.new anchor length depth).bad = false)
    (hview : ∀ k c t, k < length → subtreeGet anchor depth k = .ok c → ety k = some t →
      elemViewOk t c = true) (m : Nat) :
    OutsSumm h (runSteps AnyIt.next m (.nodes (NodeIt.new anchor length depth) ety))
      (runSteps AnyIt.next m (.nodes (NodeIt.new anchor' length depth) ety)) :=
  anyNodes_summ hs length depth ety hb hview m

/-- … of packed uint series: the same values, the same end, or an error -/
theorem C12_iter_ro_basics {h : HashFn} {anchor anchor' : Node} (hs : Summ h anchor anchor')
    (length depth size : Nat) (t : Ty) (hl : BottomLeaves anchor depth)
    (hb : (BasicIt.new anchor length depth size).bad = false) (m : Nat) :
    OutsSumm h (runSteps AnyIt.next m (.basics (BasicIt.new anchor length depth size) t))
      (runSteps AnyIt.next m (.basics (BasicIt.new anchor' length depth size) t)) :=
  anyBasics_summ hs length depth size t hl hb m

/-- … of bitfields: the same bits, the same end, or an error -/
theorem C12_iter_ro_bits {h : HashFn} {anchor anchor' : Node} (hs : Summ h anchor anchor')
    (length depth : Nat) (hl : BottomLeaves anchor depth)
    (hb : (BitIt.new anchor length depth).bad = false) (m : Nat) :
    OutsSumm h (runSteps AnyIt.next m (.bits (BitIt.new anchor length depth)))
      (runSteps AnyIt.next m (.bits (BitIt.new anchor' length depth))) :=
  anyBits_summ hs length depth hl hb m

/-- the index-based `Iter()` (every view kind) on a partial `Rep`-backed view: position by
    position the typed getter's answer — the element view over the summary of the full
    element backing / the same bit — or an error; every call advances also after an error -/
theorem C12_iter_indexed (h : HashFn) {t : Ty} {v : Val} {n n' : Node} (length : Nat)
    (hwf : t.wf = true) (hr : inRange t = true) (hty : hasType t v = true) (hrep : Rep h t v n)
    (hs : Summ h n n') (m : Nat) :
    OutsSumm h (runSteps AnyIt.next m (.indexed t n length 0))
      (runSteps AnyIt.next m (.indexed t n' length 0)) :=
  anyIndexed_summ h length hwf (depthOk_of_inRange t hr) hty hrep hs m

/-- MAIN (iterators of the view API): `ReadonlyIter()` (`ro = true`) and `Iter()` (`ro = false`)
    of ANY partial `Rep`-backed view, as the client sees them, against the same iterator of the
    full view: call by call an element view of the same type over the summary of the full
    element backing / the same packed value / the same bit, the same end, or an error.
    (If the partial view cannot start the iterator — `Length()` fails — it is the failed
    iterator: an error for ever; likewise when the construction-time limit check fails, which
    depends on length and depth only and so fails for the full view too.) -/
theorem C12_iter_view (h : HashFn) {t : Ty} {v : Val} {n n' : Node} (ro : Bool) (hwf : t.wf = true)
    (hr : inRange t = true) (hty : hasType t v = true) (hrep : Rep h t v n) (hs : Summ h n n')
    (m : Nat) :
    OutsSumm h (runSteps AnyIt.next m (start t n ro)) (runSteps AnyIt.next m (start t n' ro)) :=
  start_summ h ro hwf hr hty hrep hs m

/-- `StepsSumm` / `OutsSumm` read position by position -/
theorem C12_iter_pointwise {h : HashFn} {xs ys : List Iter.Out} (hs : OutsSumm h xs ys) :
    xs.length = ys.length ∧ ∀ j (h1 : j < xs.length) (h2 : j < ys.length), OutSumm h xs[j] ys[j] :=
  hs.get

/-- THE observation behind sections 3–5, full-tree side: in every `Rep` backing the positions
    the typed code reads as leaves (length node; packed chunks incl. materialised padding) are
    leaves; on the partial side `Summ h (.leaf r) x'` forces `x' = .leaf r` -/
theorem C12_rep_read_leaves (h : HashFn) {t : Ty} {v : Val} {n : Node} (hrep : Rep h t v n) :
    ReadLeaves t n := rep_readLeaves h hrep

/-- … and for the packed kinds the iterator anchor (the view root for vectors / bitvectors, the
    contents subtree for lists / bitlists) has a bottom layer of leaves, as `C12_iter_basic` /
    `C12_iter_bit` require -/
theorem C12_rep_bottom_leaves (h : HashFn) {t : Ty} {v : Val} {n : Node} (hrep : Rep h t v n)
    (hp : packedSlot t = true) :
    match t with
    | .list _ _ | .bitlist _ => ∀ l r, n = .pair l r → BottomLeaves l (viewDepth t - 1)
    | _ => BottomLeaves n (viewDepth t) := by
  have hl := rep_readLeaves h hrep
  cases t with
  | uint _ => cases hp
  | bool => cases hp
  | bytesN _ => cases hp
  | container _ => cases hp
  | union _ _ => cases hp
  | bitvector k => exact hl
  | vector e k => exact hl hp
  | bitlist lim =>
    intro l r hn
    subst hn
    simp only [viewDepth, Nat.add_sub_cancel]
    exact hl.2.left
  | list e lim =>
    intro l r hn
    subst hn
    simp only [viewDepth, Nat.add_sub_cancel]
    exact (hl.2 hp).left

theorem C12_leaf_kept {h : HashFn} {r : Root} {x' : Node} (hs : Summ h (.leaf r) x') :
    x' = .leaf r := hs.leaf_left

/-! ### 6. non-vacuity: `List[uint256, 8]`, the toy hash `Ex.exH` -/

section examples
open ZtypV.Partial.Ex

example : exT.wf = true ∧ inRange exT = true ∧ noBoolSeries exT = true ∧
    hasType exT exV3 = true ∧ hasType exT exV4 = true := by decide

-- one position summarised by the Go operation: the partial tree, a summary, same root
example : summarizeInto exH exN3 [false, false, true] = .ok exP3 := rfl
example : exP3.root exH = htr exH exT exV3 :=
  C12_root_typed exH (by decide) (by decide) (by decide) (exRep3 exH)
    (C12_summarizeInto (p := [false, false, true]) rfl)
example : exP3 ≠ exN3 := by decide

-- reading the element under the summary errs, reading another element returns it
example : getElemNode exT exP3 2 = .error .nav := rfl
example : getElemNode exT exP3 0 = .ok (.uint 32, el 1) := rfl
example : viewVal exT exP3 = .error .nav := rfl
example : viewVal exT exN3 = .ok exV3 := rfl
example := C12_getters_or exH (t := exT) (by decide) (by decide) (by decide) (exRep3 exH) exSumm3
example := C12_getElem exH (t := exT) 0 (by decide) (by decide) (by decide) (exRep3 exH) exSumm3
example := C12_ser_or exH (t := exT) (by decide) (by decide) (by decide) (by decide) (exRep3 exH) exSumm3
example := C12_len exH (t := exT) (by decide) (by decide) (by decide) (exRep3 exH) exSumm3
example := C12_length_list exH (by decide) (exRep3 exH) exSumm3
-- the length and the byte length are still readable
example : listLength exP3 8 = .ok 3 ∧ valueByteLength exT exP3 = .ok 96 := ⟨rfl, rfl⟩

-- `Append` through the summarised NON-zero subtree errs (full tree: succeeds)
example : Mut.append exH exT exP3 (.num 9) (.leaf z0) = .error .nav := rfl
example : ∃ m, Mut.append exH exT exN3 (.num 9) (.leaf z0) = .ok m := ⟨_, rfl⟩
-- `Set` of the element under the summary errs, `Set` of another one works and is related
example : Mut.set exH exT exP3 2 (.num 9) (.leaf z0) = .error .nav := rfl
example : ∃ m', Mut.set exH exT exP3 0 (.num 9) (.leaf z0) = .ok m' := ⟨_, rfl⟩
example := C12_set exH (t := exT) 0 (.num 9) (exRep3 exH) exSumm3 (Summ.refl (.leaf z0))
example := C12_set_then_read exH (t := exT) (en := .leaf z0) 0 (.num 9) (by decide) (by decide) (by decide)
  (exRep3 exH) exSumm3 (by decide) (fun hc => absurd hc (by decide)) rfl

-- `Append` through a summarised ZERO subtree succeeds (expansion), and the result is the
-- summary of the full-tree result: the right half of the expanded subtree stays a summary
-- `leaf (zh 1)` where the full tree has the materialised pair of zero leaves
example : summarizeInto exH exN4 [false, true] = .ok exP4 := rfl
example : Mut.append exH exT exP4 (.num 9) (.leaf z0) =
    .ok (.pair (.pair (.pair (.pair (el 1) (el 2)) (.pair (el 3) (el 4)))
      (.pair (.pair (el 9) (.leaf z0)) (.leaf (zh exH 1)))) (lengthNode 5)) := rfl
example : Mut.append exH exT exN4 (.num 9) (.leaf z0) =
    .ok (.pair (.pair (.pair (.pair (el 1) (el 2)) (.pair (el 3) (el 4)))
      (.pair (.pair (el 9) (.leaf z0)) (.pair (.leaf z0) (.leaf z0)))) (lengthNode 5)) := rfl
example := C12_append exH (t := exT) (.num 9) (exRep4 exH) exSumm4 (Summ.refl (.leaf z0)) exFaithful4
example : ∃ m', Mut.append exH exT exP4 (.num 9) (.leaf z0) = .ok m' ∧
    ∃ v' m, valAppend exT exV4 (.num 9) = some v' ∧ Mut.append exH exT exN4 (.num 9) (.leaf z0) = .ok m ∧
      Rep exH exT v' m ∧ Summ exH m m' ∧ (viewVal exT m' = .ok v' ∨ viewVal exT m' = .error .nav) := by
  refine ⟨_, rfl, ?_⟩
  obtain ⟨v', m, h1, h2, h3, _, h5, h6, _⟩ := C12_append_then_read exH (t := exT) (en := .leaf z0) (.num 9)
    (by decide) (by decide) (by decide) (exRep4 exH) exSumm4 exFaithful4 (by decide)
    (fun hc => absurd hc (by decide)) rfl
  exact ⟨v', m, h1, h2, h3, h5, h6⟩
example := C12_pop exH (t := exT) (exRep4 exH) exSumm4 exFaithful4
example : ∃ m', Mut.pop exH exT exP4 = .ok m' := ⟨_, rfl⟩

-- navigation and the raw setters
example : getNode exN3 [false, false, true, false] = .ok (el 3) ∧
    getNode exP3 [false, false, true, false] = .error .nav ∧
    getNode exP3 [false, false, false, true] = .ok (el 2) := ⟨rfl, rfl, rfl⟩
example := C12_getNode exSumm3 [false, false, true, false]
example : ∃ m' m, setNode exH exP3 [false, false, false, true] false (el 9) = .ok m' ∧
    setNode exH exN3 [false, false, false, true] false (el 9) = .ok m ∧ Summ exH m m' := by
  obtain ⟨m, h1, h2⟩ := C12_setNode_noexpand (p := [false, false, false, true]) exSumm3
    (Summ.refl (el 9)) rfl
  exact ⟨_, m, rfl, h1, h2⟩
example : ∃ m' m, setNode exH exP4 [false, true, false, false] true (el 9) = .ok m' ∧
    setNode exH exN4 [false, true, false, false] true (el 9) = .ok m ∧ Summ exH m m' := by
  obtain ⟨m, h1, h2⟩ := C12_setNode_expand (p := [false, true, false, false]) exSumm4
    (Summ.refl (el 9)) exFaithful4' rfl
  exact ⟨_, m, rfl, h1, h2⟩
example := (C12_zeroFaithful_iff exH 4 exN4).mp exFaithful4'

-- `SetBacking` propagation: a `Set` on the partial list inside `Container{uint64, List}`,
-- written back into the partial container through the hook
example : exTC.wf = true ∧ inRange exTC = true ∧ hasType exTC exVC = true := by decide
example := C12_hookSet exH (t := exTC) 1 (exRepC exH) exSummC exSumm3
example : ∃ b' m', Mut.set exH exT exP3 0 (.num 9) (.leaf z0) = .ok b' ∧
    hookSet exH exTC exPC 1 b' = .ok m' := ⟨_, _, rfl, rfl⟩
example := C12_getters_or exH (t := exTC) (by decide) (by decide) (by decide) (exRepC exH) exSummC
-- `Change` of a union to the (partial) list as new content
example := C12_change exH (.union true [exT]) 1 (OptSumm.some exSumm3)
example : ∃ m', Mut.change (.union true [exT]) 1 (some exP3) = .ok m' := ⟨_, rfl⟩

-- iterators: the packed-element iterator over the contents of the partial list shows
-- 1, 2 and then errs (for ever) where the full one shows 1, 2, 3, done
example := C12_iter_basic (h := exH) exSummC3 3 3 32 exLeavesC3 (by decide) 5
example := C12_rep_bottom_leaves exH (exRep3 exH) (by decide)
example : (runSteps BasicIt.next 4 (BasicIt.new exCP3 3 3 32)).length = 4 := rfl
example := C12_iter_view exH (t := exT) true (by decide) (by decide) (by decide) (exRep3 exH) exSumm3 5
example := C12_iter_view exH (t := exTC) true (by decide) (by decide) (by decide) (exRepC exH) exSummC 4
example : runSteps AnyIt.next 5 (start exT exP3 true) =
    [.val (.uint 32) (.num 1), .val (.uint 32) (.num 2), .err, .err, .err] := rfl
example : runSteps AnyIt.next 5 (start exT exN3 true) =
    [.val (.uint 32) (.num 1), .val (.uint 32) (.num 2), .val (.uint 32) (.num 3), .done, .done] := rfl
example := C12_iter_ro_basics (h := exH) exSummC3 3 3 32 (.uint 32) exLeavesC3 (by decide) 5
example := C12_iter_indexed exH (t := exT) 3 (by decide) (by decide) (by decide) (exRep3 exH) exSumm3 5
example : runSteps AnyIt.next 4 (.indexed exT exP3 3 0) =
    [.node (.uint 32) (el 1), .node (.uint 32) (el 2), .err, .done] := rfl
example : runSteps AnyIt.next 4 (.indexed exT exN3 3 0) =
    [.node (.uint 32) (el 1), .node (.uint 32) (el 2), .node (.uint 32) (el 3), .done] := rfl
example := C12_iter_ro_nodes (h := exH) exSummC 2 1 (fun i => [Ty.uint 8, exT][i]?) (by decide)
  (fun k c t hk hc ht => by
    have hk' : k = 0 ∨ k = 1 := by omega
    rcases hk' with rfl | rfl
    · cases hc; cases ht; rfl
    · cases hc; cases ht; rfl) 4
-- the node iterator over the contents of the partial trees
example := C12_iter (h := exH) (anchor := exN3) (anchor' := exP3) exSumm3 2 1 (by decide) 5
example : ZeroFaithful exH (viewDepth exT) exN3 := exFaithful3

end examples

end ZtypV.Props.C12

#print axioms ZtypV.Props.C12.C12_root
#print axioms ZtypV.Props.C12.C12_summ_trans
#print axioms ZtypV.Props.C12.C12_summarizeInto
#print axioms ZtypV.Props.C12.C12_summarizeInto_again
#print axioms ZtypV.Props.C12.C12_getNode
#print axioms ZtypV.Props.C12.C12_setNode_noexpand
#print axioms ZtypV.Props.C12.C12_setNode_expand
#print axioms ZtypV.Props.C12.C12_setNode_no_panic
#print axioms ZtypV.Props.C12.C12_zeroFaithful_iff
#print axioms ZtypV.Props.C12.C12_unfaithful_counterexample
#print axioms ZtypV.Props.C12.C12_root_typed
#print axioms ZtypV.Props.C12.C12_getters_or
#print axioms ZtypV.Props.C12.C12_getters
#print axioms ZtypV.Props.C12.C12_getters_no_panic
#print axioms ZtypV.Props.C12.C12_ser_or
#print axioms ZtypV.Props.C12.C12_ser
#print axioms ZtypV.Props.C12.C12_ser_no_panic
#print axioms ZtypV.Props.C12.C12_len
#print axioms ZtypV.Props.C12.C12_length_list
#print axioms ZtypV.Props.C12.C12_length_bitlist
#print axioms ZtypV.Props.C12.C12_getElem
#print axioms ZtypV.Props.C12.C12_set
#print axioms ZtypV.Props.C12.C12_hookSet
#print axioms ZtypV.Props.C12.C12_append
#print axioms ZtypV.Props.C12.C12_pop
#print axioms ZtypV.Props.C12.C12_change
#print axioms ZtypV.Props.C12.C12_set_then_read
#print axioms ZtypV.Props.C12.C12_append_then_read
#print axioms ZtypV.Props.C12.C12_pop_then_read
#print axioms ZtypV.Props.C12.C12_hookSet_then_read
#print axioms ZtypV.Props.C12.C12_iter
#print axioms ZtypV.Props.C12.C12_iter_basic
#print axioms ZtypV.Props.C12.C12_iter_bit
#print axioms ZtypV.Props.C12.C12_iter_ro_nodes
#print axioms ZtypV.Props.C12.C12_iter_ro_basics
#print axioms ZtypV.Props.C12.C12_iter_ro_bits
#print axioms ZtypV.Props.C12.C12_iter_indexed
#print axioms ZtypV.Props.C12.C12_iter_view
#print axioms ZtypV.Props.C12.C12_rep_read_leaves
#print axioms ZtypV.Props.C12.C12_rep_bottom_leaves
