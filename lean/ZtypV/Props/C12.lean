import ZtypV.Spec
namespace ZtypV.Props.C12
theorem placeholder : True := trivial
end ZtypV.Props.C12
