/-
C02, second half — "Deserializing that encoding yields a view with the same encoding, the same
hash-tree-root and, through the typed getters, the same component values": the round trip with
decoder COMPLETENESS discharged (Props/C02.lean carries it as the hypothesis `DecodeComplete`).

Model: `View.decode` / `View.decodeTop` (`TypeDef.Deserialize` over a `DecodingReader`).
Proofs: Proofs/DecodeComplete*.lean (`decode_complete`, `decodeTop_complete`).

Side conditions (all decidable), exactly those of Props/C02.lean:
* `t.wf`, `hasType t v`;
* `(serialize t v).length < 2^32` — offsets are `uint32` words: an encoding of 2^32 bytes or
  more that contains an offset table is not decodable (the written offsets wrapped);
* `View.inRange t` for the statements that read the decoded view back (`Serialize`, getters);
* `View.noBoolSeries t` for the hash-tree-root (finding D3).
-/
import ZtypV.Props.C02
import ZtypV.Proofs.DecodeComplete
namespace ZtypV.Props.C02
open ZtypV ZtypV.View

/-- **Decoder completeness, any reader.**  For a well-formed type, a typed value and ANY reader
    whose stream starts with the value's encoding and whose scope is exactly the encoding's
    length, `Deserialize` succeeds, consumes exactly the encoding (the rest of the stream is
    left for the caller) and returns the backing the constructors build for the value. -/
theorem C02_decode_complete_reader (h : HashFn) (t : Ty) (v : Val) (dr : DR) (rest : Bytes)
    (hwf : t.wf = true) (hty : hasType t v = true) (hsize : (serialize t v).length < 2 ^ 32)
    (hscope : dr.scope = (serialize t v).length) (hi : dr.i ≤ dr.max)
    (hav : dr.avail = serialize t v ++ rest) :
    ∃ n dr', decode h t dr = .ok (n, dr') ∧ dr'.avail = rest ∧ construct h t v = .ok n :=
  DecodeProofs.decode_complete h t v dr rest hwf hty hsize hscope hi hav

/-- Leaf types (uint, boolean, small byte vectors) need only `scope ≥ fixedSize`. -/
theorem C02_decode_complete_leaf (h : HashFn) (t : Ty) (v : Val) (dr : DR) (rest : Bytes)
    (hleaf : DecodeProofs.isLeafTy t = true) (hty : hasType t v = true)
    (hscope : dr.i + t.fixedSize ≤ dr.max) (hav : dr.avail = serialize t v ++ rest) :
    ∃ n dr', decode h t dr = .ok (n, dr') ∧ dr'.avail = rest :=
  DecodeProofs.decode_leaf_complete h t v dr rest hleaf hty hscope hav

/-- **`DecodeComplete` holds** (exactly the statement `def DecodeComplete` of Props/C02.lean):
    the decoder accepts every spec encoding shorter than 2^32 bytes. -/
theorem C02_decode_complete : DecodeComplete := by
  intro h t v hwf hty hsize
  obtain ⟨n, hd, _⟩ := DecodeProofs.decodeTop_complete h t v hwf hty hsize
  exact ⟨n, hd⟩

/-- The decoded backing is the constructed one. -/
theorem C02_decode_eq_construct (h : HashFn) (t : Ty) (v : Val) (hwf : t.wf = true)
    (hty : hasType t v = true) (hsize : (serialize t v).length < 2 ^ 32) :
    ∃ n, decodeTop h t (serialize t v) = .ok n ∧ construct h t v = .ok n :=
  DecodeProofs.decodeTop_complete h t v hwf hty hsize

/-- **C02, round trip, fully discharged** (`C02_roundtrip_full` of Props/C02.lean, no hypothesis
    left): value → spec bytes → `Deserialize` succeeds, and the decoded view serializes to the
    same bytes, reports their length, has the spec hash-tree-root (outside finding D3) and
    returns the same components through the typed getters. -/
theorem C02_roundtrip_full_holds : C02_roundtrip_full :=
  C02_roundtrip_full_of C02_decode_complete

/-- The same, spelled out (named `C02_roundtrip_total` because `C02_roundtrip` is the conditional
    form in Props/C02.lean), together with: the decoded view IS the constructed view. -/
theorem C02_roundtrip_total (h : HashFn) (t : Ty) (v : Val) (hwf : t.wf = true)
    (hrange : inRange t = true) (hty : hasType t v = true)
    (hsize : (serialize t v).length < 2 ^ 32) :
    ∃ n, decodeTop h t (serialize t v) = .ok n ∧
      construct h t v = .ok n ∧
      serializeView t n = .ok (serialize t v) ∧
      valueByteLength t n = .ok (serialize t v).length ∧
      viewVal t n = .ok v ∧
      (noBoolSeries t = true → n.root h = htr h t v) := by
  obtain ⟨n, hd, _⟩ := DecodeProofs.decodeTop_complete h t v hwf hty hsize
  exact ⟨n, hd, C02_roundtrip h t v n hwf hrange hty hsize hd⟩

/-- Decoding is the inverse of serializing on bytes as well: re-encoding what was decoded from
    `serialize t v` gives `serialize t v` (a one-line corollary kept for the audit trail). -/
theorem C02_decode_then_serialize (h : HashFn) (t : Ty) (v : Val) (hwf : t.wf = true)
    (hrange : inRange t = true) (hty : hasType t v = true)
    (hsize : (serialize t v).length < 2 ^ 32) :
    (decodeTop h t (serialize t v) >>= fun n => serializeView t n) = .ok (serialize t v) := by
  obtain ⟨n, hd, _, hs, _⟩ := C02_roundtrip_total h t v hwf hrange hty hsize
  rw [hd]; exact hs

/-! ### non-vacuity -/

/-- the hypotheses of `C02_roundtrip_total` hold on the nested example of Props/C02.lean (every
    kind of component: offsets in a container and in a vector of lists, a union, bitfields), and
    the theorem yields the decoded view -/
example : ∃ n, decodeTop exH exT (serialize exT exV) = .ok n ∧ construct exH exT exV = .ok n ∧
    serializeView exT n = .ok (serialize exT exV) ∧ viewVal exT n = .ok exV :=
  let ⟨n, h1, h2, h3, _, h5, _⟩ :=
    C02_roundtrip_total exH exT exV (by decide) (by decide) (by decide) (by decide)
  ⟨n, h1, h2, h3, h5⟩

/-- the reader form on a concrete reader that is NOT at the start of its scope and whose stream
    continues after the encoding: scope 10 − 4 = 6 = encoding length, 2 trailing bytes are left -/
example : ∃ n dr', decode exH (.list (.uint 2) 4)
      { i := 4, max := 10, avail := [1, 0, 2, 0, 3, 0, 0xAA, 0xBB] } = .ok (n, dr') ∧
    dr'.avail = [0xAA, 0xBB] ∧
    construct exH (.list (.uint 2) 4) (.seq [.num 1, .num 2, .num 3]) = .ok n :=
  C02_decode_complete_reader exH (.list (.uint 2) 4) (.seq [.num 1, .num 2, .num 3])
    { i := 4, max := 10, avail := [1, 0, 2, 0, 3, 0, 0xAA, 0xBB] } [0xAA, 0xBB]
    (by decide) (by decide) (by decide) (by decide) (by decide) (by decide)

/-- the exact-scope precondition is necessary for non-leaf types: the same list handed a scope
    one byte too long is rejected by the decoder (7 is not a multiple of the element size) -/
example : decode exH (.list (.uint 2) 4)
    { i := 3, max := 10, avail := [1, 0, 2, 0, 3, 0, 0xAA, 0xBB] } = .error .other := rfl

/-- … while a leaf type accepts any larger scope -/
example : ∃ n dr', decode exH (.uint 2) { i := 3, max := 10, avail := [1, 2, 0xAA] } = .ok (n, dr') ∧
    dr'.avail = [0xAA] :=
  C02_decode_complete_leaf exH (.uint 2) (.num 513) { i := 3, max := 10, avail := [1, 2, 0xAA] } [0xAA]
    rfl (by decide) (by decide) (by decide)

/-- boundary cases of the decoder all accepted: the empty bitlist `[0x01]`, the `None` option
    (scope 1), an empty list of variable-size elements (scope 0), a full bitlist -/
example : ∃ n, decodeTop exH (.bitlist 8) (serialize (.bitlist 8) (.bits [])) = .ok n :=
  C02_decode_complete exH (.bitlist 8) (.bits []) (by decide) (by decide) (by decide)
example : ∃ n, decodeTop exH (.union true [.uint 1]) (serialize (.union true [.uint 1]) (.union 0 .none)) = .ok n :=
  C02_decode_complete exH _ _ (by decide) (by decide) (by decide)
example : ∃ n, decodeTop exH (.list (.bitlist 3) 2) (serialize (.list (.bitlist 3) 2) (.seq [])) = .ok n :=
  C02_decode_complete exH _ _ (by decide) (by decide) (by decide)
example : ∃ n, decodeTop exH (.bitlist 8) (serialize (.bitlist 8) (.bits (List.replicate 8 true))) = .ok n :=
  C02_decode_complete exH _ _ (by decide) (by decide) (by decide)

end ZtypV.Props.C02
