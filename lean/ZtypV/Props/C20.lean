import ZtypV.Spec
namespace ZtypV.Props.C20
theorem placeholder : True := trivial
end ZtypV.Props.C20
