/-
C20 — Decoding memory is bounded by input size.

Model: `ZtypV.View.decodeC` (Model/DecodeCost.lean), the allocation-instrumented twin of the
view decoder `ZtypV.View.decode` (Model/Decode.lean, validated against /repo/view `Deserialize`):
next to the result it returns the allocation units the Go code requests on that run, runs that
end in an error included.  `C20_twin_is_decoder` proves the result component IS `decode`.

Quantities (Model/DecodeCost.lean, structural recursion, no limit and no offset value):
`footprint t` — fields and vector slots of the type's fixed structure; `maxDepth t` — depth of
the deepest basic leaf in the type's whole backing tree plus one per nesting level; `nest t` —
nesting depth of the type expression; `eraseLims t` — `t` with every list/bitlist limit erased.

The flat decoder: `ZtypV.Flat.flatDecodeC` (Model/FlatCost.lean) is the instrumented twin of
`ZtypV.Flat.flatDecode` (Model/Flat.lean, validated against /repo/codec/decoder.go, tree.ReadRoots…);
its theorems are at the end of this file (full statement `ZtypV.FlatCostProofs.C20_flat_full`,
proved).  There the caller-side callbacks (`add()`, `selectFn`) are charged a type constant per
call, so the type constant `flatFootprint t` multiplies the length term.
-/
import ZtypV.Proofs.DecodeCostTop
import ZtypV.Proofs.FlatCost
namespace ZtypV.Props.C20
open ZtypV ZtypV.View ZtypV.DecodeProofs ZtypV.CostProofs

/-- the instrumented twin computes exactly the validated decoder -/
theorem C20_twin_is_decoder (h : HashFn) (t : Ty) (dr : DR) : (decodeC h t dr).1 = decode h t dr :=
  decodeC_fst h t dr

/-- C20, view decoder: for EVERY well-formed type (limits arbitrary naturals) and EVERY byte
    string — accepted or rejected — the units allocated by one decode call are at most
    `K · (len + footprint t) · (1 + maxDepth t) + C` with `K = 2048`, `C = 0`. -/
theorem C20_view (h : HashFn) (t : Ty) (bs : Bytes) (hw : t.wf = true) :
    (decodeC h t (DR.new bs bs.length)).2 ≤ 2048 * (bs.length + footprint t) * (1 + maxDepth t) + 0 :=
  decodeM_top h t hw bs

/-- the same, with the named bound the driver evaluates -/
theorem C20_view_costBound (h : HashFn) (t : Ty) (bs : Bytes) (hw : t.wf = true) :
    (decodeC h t (DR.new bs bs.length)).2 ≤ costBound t bs.length :=
  decodeM_top h t hw bs

/-- accepted inputs of composite types: no footprint term at all -/
theorem C20_view_accepted (h : HashFn) (t : Ty) (bs : Bytes) (hw : t.wf = true)
    (hc : isLeafTy t = false) (n : Node) (dr' : DR)
    (hr : decode h t (DR.new bs bs.length) = .ok (n, dr')) :
    (decodeC h t (DR.new bs bs.length)).2 ≤ 1024 * (1 + maxDepth t) * bs.length + 192 :=
  decodeM_top_ok h t hw hc bs n dr' (by rw [decodeM_res]; exact hr)

/-- limits enter `maxDepth` only through subtree depths: at most 66 per nesting level when all
    limits / lengths fit a `uint64` (`2^40` included) -/
theorem C20_maxDepth_le (t : Ty) (hl : lims64 t = true) : maxDepth t ≤ 66 * nest t :=
  maxDepth_le t hl

/-- `footprint` and `nest` do not see any list / bitlist limit -/
theorem C20_footprint_nest_limit_free (t : Ty) :
    footprint (eraseLims t) = footprint t ∧ nest (eraseLims t) = nest t :=
  ⟨footprint_eraseLims t, nest_eraseLims t⟩

/-- C20, limit-free form: the bound is a function of the input length and of the type WITH ITS
    LIMITS ERASED only. -/
theorem C20_no_limit_dependence (h : HashFn) (t : Ty) (bs : Bytes) (hw : t.wf = true)
    (hl : lims64 t = true) :
    (decodeC h t (DR.new bs bs.length)).2 ≤
      2048 * (bs.length + footprint (eraseLims t)) * (1 + 66 * nest (eraseLims t)) := by
  rw [footprint_eraseLims, nest_eraseLims]
  refine Nat.le_trans (decodeM_top h t hw bs) ?_
  exact Nat.mul_le_mul_left _ (by have := maxDepth_le t hl; omega)

/-- in particular: two lists of the same element type get the same bound whatever their limits
    (`2^40`, `2^64 - 1`, …): a few hostile bytes cannot buy memory proportional to a limit -/
theorem C20_list_limits (h : HashFn) (e : Ty) (lim lim' : Nat) (bs : Bytes) (hw : e.wf = true)
    (hle : lims64 e = true) (hl : lim < 2 ^ 64) (hl' : lim' < 2 ^ 64) :
    (decodeC h (.list e lim) (DR.new bs bs.length)).2 ≤
        2048 * (bs.length + (1 + footprint e)) * (1 + 66 * (1 + nest e)) ∧
    (decodeC h (.list e lim') (DR.new bs bs.length)).2 ≤
        2048 * (bs.length + (1 + footprint e)) * (1 + 66 * (1 + nest e)) := by
  have key : ∀ l, l < 2 ^ 64 → (decodeC h (.list e l) (DR.new bs bs.length)).2 ≤
      2048 * (bs.length + (1 + footprint e)) * (1 + 66 * (1 + nest e)) := by
    intro l hl
    have := C20_no_limit_dependence h (.list e l) bs (by simpa [Ty.wf] using hw)
      (by simp [lims64, hl, hle])
    rw [footprint_eraseLims, nest_eraseLims] at this
    simpa [footprint, nest] using this
  exact ⟨key lim hl, key lim' hl'⟩

/-- the theorem has content: the ORIGINAL upstream complex-list decoder (no `firstOffset ≤ scope`
    check before `make([]uint32, firstOffset/4)`) requests ≥ 2^28 units for FOUR input bytes
    when the limit is 2^40 … -/
theorem C20_counterexample_unrepaired :
    (listVarCostUnrepaired (2 ^ 40) (DR.new [0xfc, 0xff, 0xff, 0xff] 4)).cost ≥ 2 ^ 28 := by
  decide

/-! ### non-vacuity -/

def h0 : HashFn := fun a b => (a ++ b).take 32
def T : Ty := .list (.list (.uint 1) (2 ^ 40)) (2 ^ 40)

/-- … while the repaired decoder rejects the same four bytes without allocating -/
example : (decodeC h0 T (DR.new [0xfc, 0xff, 0xff, 0xff] 4)).1.toBool = false ∧
    (decodeC h0 T (DR.new [0xfc, 0xff, 0xff, 0xff] 4)).2 = 0 := by decide

example : T.wf = true ∧ lims64 T = true ∧ isLeafTy T = false := by decide
/-- an accepted input (two inner lists `[1]`, `[2,3]`): 8075 units, bound 2293760 -/
example : (decodeC h0 T (DR.new [8, 0, 0, 0, 9, 0, 0, 0, 1, 2, 3] 11)).1.toBool = true ∧
    (decodeC h0 T (DR.new [8, 0, 0, 0, 9, 0, 0, 0, 1, 2, 3] 11)).2 = 8075 ∧
    costBound T 11 = 2293760 := by decide
/-- a rejected input that allocated before failing (second offset beyond the scope) -/
example : (decodeC h0 T (DR.new [8, 0, 0, 0, 200, 0, 0, 0, 1, 2, 3] 11)).1.toBool = false ∧
    0 < (decodeC h0 T (DR.new [8, 0, 0, 0, 200, 0, 0, 0, 1, 2, 3] 11)).2 := by decide
example : footprint T = 3 ∧ maxDepth T = 79 ∧ nest T = 2 := by decide

/-- why `maxDepth` counts one per nesting level on top of the subtree depths: every subtree of
    `Vector[Vector[Vector[uint8,1],1],1]` has depth 0, yet its single input byte pays a reader, a
    view and two slice slots at each complex level: 256 more units per level of nesting -/
example : (decodeC h0 (.vector (.vector (.vector (.uint 1) 1) 1) 1) (DR.new [7] 1)).2 = 689 ∧
    (decodeC h0 (.vector (.vector (.vector (.vector (.uint 1) 1) 1) 1) 1) (DR.new [7] 1)).2 = 945 ∧
    seriesDepth (.vector (.vector (.uint 1) 1) 1) 1 = 0 ∧ seriesDepth (.vector (.uint 1) 1) 1 = 0 ∧
    seriesDepth (.uint 1) 1 = 0 ∧ maxDepth (.vector (.vector (.vector (.uint 1) 1) 1) 1) = 3 := by
  decide
example : eraseLims T = .list (.list (.uint 1) 0) 0 := by simp [T, eraseLims]


/-! ### the flat decoder -/

/-- the instrumented flat twin computes exactly the validated flat decoder -/
theorem C20_flat_twin_is_decoder (t : Ty) (prior : Val) (dr : DR) :
    (Flat.flatDecodeC t prior dr).1 = Flat.flatDecode t prior dr :=
  FlatCostProofs.flatDecodeC_fst t prior dr

/-- C20, flat decoder (`ZtypV.FlatCostProofs.C20_flat_full`): for every well-formed type, every
    prior content of the destination and every byte string — accepted or rejected — the units
    allocated by one `Deserialize` call are at most `512 · (len + 1) · flatFootprint t · (1 + nest t)`:
    no list limit, no offset value. -/
theorem C20_flat (t : Ty) (prior : Val) (bs : Bytes) (hw : t.wf = true) :
    (Flat.flatDecodeC t prior (DR.new bs bs.length)).2 ≤
      512 * (bs.length + 1) * Flat.flatFootprint t * (1 + nest t) :=
  FlatCostProofs.C20_flat t prior bs hw

/-- accepted inputs: the structural rate times the length, nothing else -/
theorem C20_flat_accepted (t : Ty) (prior : Val) (bs : Bytes) (hw : t.wf = true) (v : Val) (dr' : DR)
    (hr : (Flat.flatDecodeC t prior (DR.new bs bs.length)).1 = .ok (v, dr')) :
    (Flat.flatDecodeC t prior (DR.new bs bs.length)).2 ≤ Flat.flatRate t * bs.length :=
  FlatCostProofs.C20_flat_ok t prior bs hw v dr' hr

/-- a caller may declare a scope larger than the input (`NewDecodingReader(input, scope)`): the
    allocation then follows the DECLARED scope (`ByteList`/`BitList`/`List` size by `dr.Scope()`) -/
theorem C20_flat_declared_scope (t : Ty) (prior : Val) (bs : Bytes) (scope : Nat) (hw : t.wf = true) :
    (Flat.flatDecodeC t prior (DR.new bs scope)).2 ≤
      Flat.flatRate t * min scope bs.length + Flat.flatRate t * scope + 128 * Flat.flatFootprint t :=
  FlatCostProofs.C20_flat_declared_scope t prior bs scope hw

/-- the structural rate in closed form: limits do not occur -/
theorem C20_flat_rate_closed (t : Ty) : Flat.flatRate t ≤ (168 + 64 * footprint t) * (1 + nest t) :=
  FlatCostProofs.rate_closed t

/-- the ORIGINAL upstream `DecodingReader.List` (no `firstOffset ≤ scope` check before
    `make([]uint64, 0, firstOffset/4)`): ≥ 2^28 units for four input bytes -/
theorem C20_flat_counterexample_unrepaired :
    2 ^ 28 ≤ (Flat.listOffsetsCostUnrepaired (2 ^ 30) (DR.new [0xfc, 0xff, 0xff, 0xff] 4)).cost :=
  FlatCostProofs.listOffsets_unrepaired_cost

/-- … the repaired one rejects them without allocating; an accepted and a rejected run of
    `Container{uint16, List[uint16,4]}` -/
example : (Flat.flatDecodeC (.list (.list (.uint 8) 4) (2 ^ 30)) Val.none
    (DR.new [0xfc, 0xff, 0xff, 0xff] 4)).2 = 0 := FlatCostProofs.list_repaired_cost
example : (Ty.container [.uint 2, .list (.uint 2) 4]).wf = true := by decide
example : (Flat.flatDecodeC (.container [.uint 2, .list (.uint 2) 4]) Val.none
      (DR.new [1, 0, 6, 0, 0, 0, 2, 0, 3, 0] 10)).1.toBool = true ∧
    0 < (Flat.flatDecodeC (.container [.uint 2, .list (.uint 2) 4]) Val.none
      (DR.new [1, 0, 6, 0, 0, 0, 2, 0, 3, 0] 10)).2 := by decide
example : (Flat.flatDecodeC (.container [.uint 2, .list (.uint 2) 4]) Val.none
      (DR.new [1, 0, 7, 0, 0, 0, 2, 0, 3, 0] 10)).1.toBool = false := by decide

end ZtypV.Props.C20
