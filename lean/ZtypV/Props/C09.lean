/-
C09 — Flat codec encodes spec bytes and round-trips.

Model (Model/Flat.lean): `flatEncode`, `flatByteLength`, `flatFixedLength`, `flatDecode`: the
composition, by the recipe of harness/flat.go (zrnt-style hand-written flat types), of the models of
`EncodingWriter.List/Vector/BitList/BitVector/FixedLenContainer/Container/Union/WriteOffset`,
`codec.Sum/ContainerLength`, `DecodingReader.Vector/List/BitVector/BitList/ByteVector/ByteList/
FixedLenContainer/Container/Union`, `tree.ReadRoots/ReadRootsLimited/WriteRoots`,
`Root.Deserialize/Serialize` and the basic values' `Serialize/Deserialize/ByteLength/FixedLength`.
Spec: `hasType`, `serialize` (Spec.lean).

Proved here, at full strength (every well-formed type, every well-typed value):
* `C09_enc`  — encoding yields exactly the SSZ-spec bytes and `ByteLength()` is their length;
* `C09_fixedLength` — `FixedLength()` is the encoded length for fixed-size types and 0 otherwise;
* `C09_dec`  — decoding the spec bytes into a destination that held ANY prior content (no
  hypothesis on it: shorter, longer, ill-shaped …) reproduces exactly the value, every element
  in its own position; `C09_roundtrip` composes the two; `C09_accepts_valid` is the converse of
  `C10_sound`.
The only side condition is `(serialize t v).length < 2^32`: offsets are 32-bit words
(`WriteOffset` panics beyond, `ReadOffset` reads `o % 2^32`).
-/
import ZtypV.Proofs.FlatEnc
import ZtypV.Proofs.FlatDec
namespace ZtypV.Props.C09
open ZtypV ZtypV.View ZtypV.Flat ZtypV.FlatProofs

/-! ### 1. encoding -/

/-- encoding yields exactly the SSZ-spec bytes; the reported byte length is the encoded length -/
theorem C09_enc (t : Ty) (v : Val) (hw : t.wf = true) (hv : hasType t v = true)
    (hlen : (serialize t v).length < 2 ^ 32) :
    flatEncode t v = .ok (serialize t v) ∧ flatByteLength t v = (serialize t v).length :=
  flatEncode_correct t v hw hv hlen

/-- `FixedLength()`: the type's size for fixed-size types (non-zero), 0 exactly for the others -/
theorem C09_fixedLength (t : Ty) (hw : t.wf = true) :
    flatFixedLength t = t.typeByteLength ∧ (flatFixedLength t ≠ 0 ↔ t.isFixed = true) :=
  ⟨flatFixedLength_eq_typeByteLength hw, flatFixedLength_ne_zero_iff hw⟩

/-- for fixed-size types every value has the encoded length `FixedLength()` -/
theorem C09_fixedLength_is_length (t : Ty) (v : Val) (hw : t.wf = true) (hv : hasType t v = true)
    (hf : t.isFixed = true) : (serialize t v).length = flatFixedLength t := by
  rw [flatFixedLength_fixed hw hf]
  exact serialize_fixed_length v t hf hv

example : Ex.T.wf = true ∧ hasType Ex.T Ex.V = true ∧ (serialize Ex.T Ex.V).length < 2 ^ 32 := by
  decide +kernel
example : Ex.okBytes (flatEncode Ex.T Ex.V) Ex.enc = true ∧ serialize Ex.T Ex.V = Ex.enc := by
  decide +kernel

/-! ### 2. decoding -/

/-- decoding the encoding of `v` into a destination with ANY prior content yields `v` -/
theorem C09_dec (t : Ty) (v : Val) (hw : t.wf = true) (hv : hasType t v = true)
    (hlen : (serialize t v).length < 2 ^ 32) (prior : Val) :
    ∃ dr', flatDecode t prior (DR.new (serialize t v) (serialize t v).length) = .ok (v, dr') :=
  flatDecode_complete t v hw hv hlen prior

/-- encode, then decode into any destination: the value comes back -/
theorem C09_roundtrip (t : Ty) (v : Val) (hw : t.wf = true) (hv : hasType t v = true)
    (hlen : (serialize t v).length < 2 ^ 32) (prior : Val) :
    ∃ bs dr', flatEncode t v = .ok bs ∧ flatByteLength t v = bs.length ∧
      flatDecode t prior (DR.new bs bs.length) = .ok (v, dr') := by
  obtain ⟨he, hl⟩ := C09_enc t v hw hv hlen
  obtain ⟨dr', hd⟩ := C09_dec t v hw hv hlen prior
  exact ⟨_, dr', he, hl, hd⟩

/-- every valid encoding (below 2^32 bytes) is accepted, whatever the destination held -/
theorem C09_accepts_valid (t : Ty) (hw : t.wf = true) (bs : Bytes) (hval : Valid t bs)
    (hlen : bs.length < 2 ^ 32) (prior : Val) :
    ∃ r, flatDecode t prior (DR.new bs bs.length) = .ok r := by
  obtain ⟨v, hv, hs⟩ := hval
  subst hs
  obtain ⟨dr', hd⟩ := C09_dec t v hw hv hlen prior
  exact ⟨_, hd⟩

/-- the hypotheses are satisfiable on a nested type; a destination that held longer lists, another
    union option and a longer bitlist before ends up holding exactly the value -/
example : ∃ dr', flatDecode Ex.T Ex.prior (DR.new Ex.enc Ex.enc.length) = .ok (Ex.V, dr') := by
  have h : serialize Ex.T Ex.V = Ex.enc := by decide +kernel
  have := C09_dec Ex.T Ex.V (by decide +kernel) (by decide +kernel) (by decide +kernel) Ex.prior
  rw [h] at this
  exact this
/-- … and directly by evaluation of the model -/
example : ∃ r, flatDecode Ex.T Ex.prior (DR.new Ex.enc Ex.enc.length) = .ok r :=
  Ex.isOk_ex (by decide +kernel)

end ZtypV.Props.C09
