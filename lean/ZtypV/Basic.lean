/-
Basic vocabulary shared by Spec, models and proofs.

`Root` is a plain byte list (32 bytes by construction everywhere it is produced by
the model; no theorem needs that as a hypothesis because all statements are
equalities between terms built from the same constructors).
The pair hash `h` is a parameter of every definition that hashes.
-/
namespace ZtypV

abbrev Bytes := List UInt8
abbrev Root := List UInt8
abbrev HashFn := Root → Root → Root

/-- the all-zero 32 byte root (`tree.Root{}`) -/
def z0 : Root := List.replicate 32 0

/-- right-pad with zeros / cut to exactly 32 bytes (Go: `copy(root[:], bs)` into a zeroed root) -/
def chunkOf (bs : Bytes) : Root := (bs ++ List.replicate 32 0).take 32

/-- little-endian encoding of `n` in `k` bytes (wraps like Go's PutUintNN on a narrowed value) -/
def leBytes : Nat → Nat → Bytes
  | 0, _ => []
  | k+1, n => UInt8.ofNat (n % 256) :: leBytes k (n / 256)

/-- little-endian decoding -/
def leNat : Bytes → Nat
  | [] => 0
  | b :: bs => b.toNat + 256 * leNat bs

@[simp] theorem leBytes_length (k n : Nat) : (leBytes k n).length = k := by
  induction k generalizing n with
  | zero => rfl
  | succ k ih => simp [leBytes, ih]

theorem leNat_leBytes (k n : Nat) : leNat (leBytes k n) = n % 256 ^ k := by
  induction k generalizing n with
  | zero => simp [leBytes, leNat, Nat.mod_one]
  | succ k ih =>
    simp only [leBytes, leNat, ih]
    have h1 : (UInt8.ofNat (n % 256)).toNat = n % 256 := by
      simp [UInt8.toNat_ofNat']
    rw [h1, Nat.pow_succ, Nat.mul_comm (256 ^ k) 256, Nat.mod_mul]

/-- zero-hash tower: `tree.ZeroHashes[d]` after `InitZeroHashes(h, _)` -/
def zh (h : HashFn) : Nat → Root
  | 0 => z0
  | d+1 => h (zh h d) (zh h d)

/-- immutable binary Merkle tree (`tree.Node`: `*Root` leaf or `*PairNode`), memo erased -/
inductive Node where
  | leaf (r : Root)
  | pair (l r : Node)
  deriving Repr, BEq, DecidableEq, Inhabited

/-- `Node.MerkleRoot` without memoisation -/
def Node.root (h : HashFn) : Node → Root
  | .leaf r => r
  | .pair l r => h (l.root h) (r.root h)

/-- SSZ-spec `merkleize` over the virtual `2^d`-padded chunk array (naive, exponential in `d`). -/
def merk (h : HashFn) : Nat → List Root → Root
  | 0, cs => cs.headD z0
  | d+1, cs => h (merk h d (cs.take (2^d))) (merk h d (cs.drop (2^d)))

theorem merk_nil (h : HashFn) (d : Nat) : merk h d [] = zh h d := by
  induction d with
  | zero => simp [merk, zh]
  | succ d ih => simp [merk, zh, ih]

/-- executable version: empty sub-arrays are short-cut to the zero hash. -/
def merkFast (h : HashFn) : Nat → List Root → Root
  | 0, cs => cs.headD z0
  | d+1, cs =>
    if cs.isEmpty then zh h (d+1)
    else h (merkFast h d (cs.take (2^d))) (merkFast h d (cs.drop (2^d)))

theorem merkFast_eq (h : HashFn) (d : Nat) (cs : List Root) : merkFast h d cs = merk h d cs := by
  induction d generalizing cs with
  | zero => rfl
  | succ d ih =>
    unfold merkFast
    split
    · rename_i he
      have : cs = [] := by simpa using he
      subst this; rw [merk_nil]
    · simp [merk, ih]

/-- compiled code uses the short-cut version (proved equal above); no axiom involved -/
@[csimp] theorem merk_eq_merkFast : @merk = @merkFast := by
  funext h d cs; exact (merkFast_eq h d cs).symm

/-- Go `tree.CoverDepth` on naturals -/
def coverDepth (v : Nat) : Nat := if v ≤ 1 then 0 else Nat.log2 (v - 1) + 1

/-- mix_in_length / mix_in_selector: hash with a little-endian number chunk -/
def mixin (h : HashFn) (r : Root) (n : Nat) : Root := h r (chunkOf (leBytes 8 n))

end ZtypV
