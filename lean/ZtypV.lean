import ZtypV.Basic
import ZtypV.Sha256
import ZtypV.Spec
import ZtypV.FactsExpected
import ZtypV.Props.C01
import ZtypV.Props.C02
import ZtypV.Props.C03
import ZtypV.Props.C15
