/-
Ops of property C15 (type size bounds and fixed-size flags).

  sizes <T…>      -> ok <fixed 0|1> <TypeByteLength> <MinByteLength> <MaxByteLength> | panic
     model: `ZtypV.Sizes.typeSizes` (the Go constructors in wrapping UInt64 arithmetic)
     verdict: the implementation's four numbers equal the Spec's
              (`Ty.isFixed`, `Ty.typeByteLength`, `Ty.minSize`, `Ty.maxSize`);
              types with `maxSize ≥ 2^64` are outside the property.
  sizes.wit <T…>  -> ok <len of the library's encoding of the minimal witness> <… maximal witness | ->
     (harness/ops_sizes.go builds the witnesses, encodes them with the library and decodes the
      bytes back; `err` if the library rejects its own encoding)
     model: the reported bounds themselves (`sizeInfo t).min/max`: the model predicts that the
            witnesses are encoded to exactly the bounds and accepted
     verdict: lengths equal `Ty.minSize` / `Ty.maxSize` (C15_tight_min / C15_tight_max).
  A witness is skipped (`-`) when its spec size exceeds `witMaxBytes`.

This handler must come BEFORE `OpsSpec.handle` in `families` (OpsSpec also answers `sizes`, with
model observation `-`).
-/
import Driver.Proto
import ZtypV.Model.Sizes
namespace Driver.OpsSizes
open ZtypV Driver ZtypV.Sizes

def verdictEq (what : String) (impl spec : String) : String :=
  if impl == spec then "ok" else s!"FAIL:{what}:impl={impl}:spec={spec}"

/-- largest maximal witness the harness materialises (bytes); same constant in ops_sizes.go -/
def witMaxBytes : Nat := 4096

def showInfo (s : SizeInfo) : String :=
  s!"ok {if s.isFixed then 1 else 0} {s.size.toNat} {s.min.toNat} {s.max.toNat}"

/-- every numeric parameter is a Go `uint64` (otherwise the line is malformed) -/
partial def representable : Ty → Bool
  | .uint b => b < 2^64
  | .bool => true
  | .bytesN n => n < 2^64
  | .bitvector n => n < 2^64
  | .bitlist n => n < 2^64
  | .vector e n => n < 2^64 && representable e
  | .list e n => n < 2^64 && representable e
  | .container fs => fs.all representable
  | .union _ fs => fs.all representable

def parseTy (args : List String) : Except String Ty := do
  let (t, _) ← runP ty args
  if !representable t then throw "type parameter does not fit uint64"
  return t

def modelSizes (args : List String) : Except String String := do
  let t ← parseTy args
  match typeSizes t with
  | none => return "panic"
  | some s => return showInfo s

def propSizes (args impl : List String) : Except String String := do
  let t ← parseTy args
  if t.maxSize ≥ 2^64 then return "ok"     -- outside the property (C15 quantifier)
  if impl == ["panic"] then return (if t.wf then "FAIL:panic-on-well-formed-type" else "ok")
  let spec := s!"ok {if t.isFixed then 1 else 0} {t.typeByteLength} {t.minSize} {t.maxSize}"
  return verdictEq "sizes" (" ".intercalate impl) spec

def modelWit (args : List String) : Except String String := do
  let t ← parseTy args
  match typeSizes t with
  | none => return "panic"
  | some s =>
    let mn := if t.minSize > witMaxBytes then "-" else toString s.min.toNat
    let mx := if t.maxSize > witMaxBytes then "-" else toString s.max.toNat
    return s!"ok {mn} {mx}"

def propWit (args impl : List String) : Except String String := do
  let t ← parseTy args
  if t.maxSize ≥ 2^64 then return "ok"
  if !t.wf then return "ok"                -- witnesses exist for well-formed types only
  let mn := if t.minSize > witMaxBytes then "-" else toString t.minSize
  let mx := if t.maxSize > witMaxBytes then "-" else toString t.maxSize
  let spec := s!"ok {mn} {mx}"
  return verdictEq "witness" (" ".intercalate impl) spec

def handle (name : String) (args impl : List String) : Option (Except String (String × String)) :=
  let both (m p : Except String String) : Option (Except String (String × String)) :=
    some (do let mv ← m; let pv ← p; pure (mv, pv))
  match name with
  | "sizes" => both (modelSizes args) (propSizes args impl)
  | "sizes.wit" => both (modelWit args) (propWit args impl)
  | _ => none

end Driver.OpsSizes
