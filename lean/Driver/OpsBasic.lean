/-
Op family `bv.*` (properties C02 / C09, audited as "C09b"): the basic value API of package
`view` called directly.  Mirror of harness/ops_basic.go (see there for the line formats).

Model observation: the functions of ZtypV/Model/BasicApi.lean.
PROP verdicts: the answer computed from Spec.lean only (`serialize`, `htr`, `defaultVal`, sizes,
`chunks`, `leNat`, list surgery on the base chunk), compared with the implementation's line.
`B 32` stands for both `RootType` and `SmallByteVecMeta(32)` (two observations, one line).
-/
import Driver.Proto
import ZtypV.Model.BasicApi
namespace Driver.OpsBasic
open ZtypV ZtypV.View ZtypV.BasicApi Driver

/-! ### parsing / printing -/

/-- the library types behind a type token -/
def variants : Ty → Except String (List Meta)
  | .uint b => pure [.uint b]
  | .bool => pure [.bool]
  | .bytesN n => pure (if n = 32 then [.root, .small 32] else [.small n])
  | _ => throw "not a basic value type"

def isBasicMeta : Meta → Bool
  | .uint _ | .bool => true
  | _ => false

/-- harness `bvMake` -/
def mkBV (m : Meta) (v : Val) : Except String BV :=
  match m, v with
  | .uint td, .num n =>
    match BasicV.ofNat td n with
    | some b => pure (.basic b)
    | none => throw "bad uint size"
  | .bool, .bool b => pure (.basic (.bool b))
  | .root, .bytes bs => pure (.root (goCopy (List.replicate 32 0) bs))
  | .small _, .bytes bs => pure (.small bs)
  | _, _ => throw "value does not fit the type"

def mkBasic (m : Meta) (v : Val) : Except String BasicV := do
  match (← mkBV m v) with
  | .basic b => pure b
  | _ => throw "not a BasicView"

def showBV : BV → String
  | .basic b => showVal b.val
  | .root r => xhex r
  | .small bs => xhex bs

def showMeta : Meta → String
  | .uint td => s!"U{td}"
  | .bool => "bool"
  | .root => "root"
  | .small td => s!"S{td}"

/-- a component of an observation: a panic anywhere makes the whole line `panic` -/
def cls {α} (r : R α) (f : α → String) : Except Unit String :=
  match r with
  | .ok a => pure (f a)
  | .error .panic => throw ()
  | .error _ => pure "err"

def line (r : Except Unit (List String)) : String :=
  match r with
  | .ok toks => "ok " ++ " ".intercalate toks
  | .error () => "panic"

def hsha : HashFn := Sha.sha256Pair

def chunk32 (bs : Bytes) : Except String Root :=
  if bs.length = 32 then pure bs else throw "chunk must be 32 bytes"

def flipFirst (bs : Bytes) : Bytes :=
  match bs with
  | [] => []
  | b :: rest => (b ^^^ 0xff) :: rest

def flipLast (bs : Bytes) : Bytes :=
  match bs.getLast? with
  | some l => bs.dropLast ++ [l ^^^ 0x0f]
  | none => []

/-- harness `bvMutate` -/
def mutate (first : Bool) : BV → BV
  | .basic b => .basic b
  | .root r => .root (if first then flipFirst r else flipLast r)
  | .small bs => .small (if first then flipFirst bs else flipLast bs)

/-! ### model observations -/

def modelEnc (args : List String) : Except String String := do
  let (t, rest) ← runP ty args
  let (v, _) ← runP val rest
  let ms ← variants t
  let mut out : Except Unit (List String) := .ok []
  for m in ms do
    let x ← mkBV m v
    let part : Except Unit (List String) := do
      let vbl ← cls x.valueByteLength toString
      let (enc, blen, flen) := match x with
        | .basic b => (xhex b.encode, toString b.byteLength, toString b.fixedLength)
        | _ => ("-", "-", "-")
      pure [enc, xhex x.serializeW, blen, flen, vbl, xhex x.hashTreeRoot, xhex (x.backing.root hsha), showMeta x.type]
    out := do let a ← out; let b ← part; pure (a ++ b)
  return line out

def modelMeta (args : List String) : Except String String := do
  let (t, _) ← runP ty args
  let ms ← variants t
  let mut toks : List String := []
  for m in ms do
    let d := match m.defaultView with | some x => showBV x | none => "nil"
    let n := match m with
      | .root => "-"
      | _ => match m.new with | some x => showBV x | none => "nil"
    toks := toks ++ [d, n, xhex ((m.defaultNode).root hsha), toString m.typeByteLength, toString m.minByteLength,
      toString m.maxByteLength, if m.isFixedByteLength then "1" else "0"]
  return "ok " ++ " ".intercalate toks

/-- a destination of the type (its content never matters in the model) -/
def priorOf (m : Meta) : Option BasicV :=
  match m with
  | .uint td => BasicV.ofNat td 0xa5
  | .bool => some (.bool true)
  | _ => none

def modelDec (args : List String) : Except String String := do
  let (t, rest) ← runP ty args
  let (scope, rest) ← runP num rest
  let (x, _) ← runP hexTok rest
  let ms ← variants t
  let mut out : Except Unit (List String) := .ok []
  for m in ms do
    let part : Except Unit (List String) := do
      let (dec, des) ← match priorOf m with
        | some p => do
          let a ← cls (p.decode x) (fun v => showVal v.val)
          let b ← cls (p.deserialize (DR.new x scope)) (fun r => showVal r.1.val)
          pure (a, b)
        | none => pure ("-", "-")
      let md ← cls (m.deserialize (DR.new x scope)) (fun r => s!"{showBV r.1} {r.2.scope}")
      pure [dec, des, md]
    out := do let a ← out; let b ← part; pure (a ++ b)
  return line out

def readAt (m : Meta) (r : Root) (j : Nat) : Except Unit String :=
  match m with
  | .uint td => cls (Meta.basicViewFromBacking td r (UInt8.ofNat j)) (fun v => showVal v.val)
  | _ => cls (Meta.subViewFromBacking r (UInt8.ofNat j)) (fun o => match o with | some v => showVal v.val | none => "nil")

def modelBase (args : List String) : Except String String := do
  let (t, rest) ← runP ty args
  let (bb, rest) ← runP hexTok rest
  let base ← chunk32 bb
  let (i, rest) ← runP num rest
  let (v, _) ← runP val rest
  let m ← match t with
    | .uint b => pure (Meta.uint b)
    | .bool => pure Meta.bool
    | _ => throw "bv.base needs a basic type"
  let x ← mkBasic m v
  let i8 := UInt8.ofNat i
  let out : Except Unit (List String) := do
    let res ← match x.backingFromBase base i8 with
      | .ok r => pure r
      | .error .panic => throw ()
      | .error _ => throw ()
    let resTok := match res with | some r => xhex r | none => "nil"
    let rd ← readAt m base i
    let src := res.getD base
    let k := 32 / m.typeByteLength
    let reads ← (List.range k).mapM (fun j => readAt m src j)
    let extra ← match x with
      | .bool b => do
        let r2 ← cls (BasicV.backingFromBitfieldBase b base i8) xhex
        let bit ← cls (Meta.boolViewFromBitfieldBacking base i8) (fun b => if b then "t" else "f")
        pure [r2, bit, xhex base]
      | _ => pure []
    pure ([resTok, "0", xhex base, rd, toString k] ++ reads ++ extra)
  return line out

def parseVals (k : Nat) (toks : List String) : Except String (List Val) := do
  let mut rest := toks
  let mut vs : Array Val := #[]
  for _ in [0:k] do
    let (v, r) ← runP val rest
    vs := vs.push v
    rest := r
  return vs.toList

def modelPack (args : List String) : Except String String := do
  let (t, rest) ← runP ty args
  let (k, rest) ← runP num rest
  let vals ← parseVals k rest
  let td ← match t with
    | .uint b => pure b
    | _ => throw "bv.pack needs a uint type"
  let views ← vals.mapM (mkBasic (.uint td))
  match Meta.packViews td views with
  | .error .panic => return "panic"
  | .error _ => return "err"
  | .ok ns => return ns.foldl (fun acc n => acc ++ " " ++ xhex (n.root hsha)) s!"ok {ns.length}"

def nodeOfTok (tok : String) : Except String Node :=
  if tok == "P" then pure (.pair (.leaf (chunkOf [1])) (.leaf (chunkOf [2])))
  else match parseHex tok with
    | some b => do let r ← chunk32 b; pure (.leaf r)
    | none => throw "bad chunk"

def modelFromBacking (args : List String) : Except String String := do
  let (t, rest) ← runP ty args
  let tok ← match rest with | [x] => pure x | _ => throw "bad bv.frombacking args"
  let node ← nodeOfTok tok
  let ms ← variants t
  let mut out : Except Unit (List String) := .ok []
  for m in ms do
    let part : Except Unit (List String) := do
      let v ← cls (m.viewFromBacking node) showBV
      -- the view is a copy: mutating it afterwards does not reach the node
      pure [v, xhex (node.root hsha)]
    out := do let a ← out; let b ← part; pure (a ++ b)
  return line out

def modelCopy (args : List String) : Except String String := do
  let (t, rest) ← runP ty args
  let (v, _) ← runP val rest
  let ms ← variants t
  let mut out : Except Unit (List String) := .ok []
  for m in ms do
    let orig ← mkBV m v
    let part : Except Unit (List String) := do
      let c ← match orig.copy with
        | .ok c => pure c
        | .error _ => throw ()
      let c1 := mutate true c
      let b := orig.backing
      let hr := orig.hashTreeRoot
      let orig2 := mutate false orig
      pure [showBV orig, showBV c, showBV orig, showBV c1, xhex (b.root hsha), xhex hr,
            showBV orig2, showBV c1, xhex (b.root hsha)]
    out := do let a ← out; let b ← part; pure (a ++ b)
  return line out

/-! ### PROP: the specification's answer -/

def specTy : Meta → Ty
  | .uint td => .uint td
  | .bool => .bool
  | .root => .bytesN 32
  | .small td => .bytesN td

/-- the value a token denotes for the type (uints are reduced to the width, as the Go conversion does) -/
def specVal (t : Ty) (v : Val) : Val :=
  match t, v with
  | .uint b, .num n => .num (n % 256 ^ b)
  | _, v => v

def verdict (what got spec : String) : String :=
  if got == spec then "ok" else s!"FAIL:{what}:impl={got}:spec={spec}"

def propEnc (args impl : List String) : Except String String := do
  let (t, rest) ← runP ty args
  let (v0, _) ← runP val rest
  let v := specVal t v0
  if !(hasType t v) then return "FAIL:generator-produced-ill-typed-value"
  let ms ← variants t
  let bs := serialize t v
  let root := htr hsha t v
  let toks := ms.foldl (fun acc m =>
    let b := isBasicMeta m
    acc ++ [if b then xhex bs else "-", xhex bs, if b then toString bs.length else "-",
            if b then toString bs.length else "-", toString bs.length, xhex root, xhex root, showMeta m]) []
  return verdict "encoding" (" ".intercalate impl) ("ok " ++ " ".intercalate toks)

def propMeta (args impl : List String) : Except String String := do
  let (t, _) ← runP ty args
  let ms ← variants t
  let legal := t.wf || t == .bytesN 0
  let d := defaultVal t
  let toks := ms.foldl (fun acc m =>
    acc ++ [showVal d, if m == .root then "-" else showVal d,
            if legal then xhex (htr hsha t d) else xhex z0,
            toString t.typeByteLength, toString t.minSize, toString t.maxSize, if t.isFixed then "1" else "0"]) []
  return verdict "meta" (" ".intercalate impl) ("ok " ++ " ".intercalate toks)

/-- the value of an exact-size encoding, if it is one -/
def specDecode (t : Ty) (x : Bytes) : Option Val :=
  match t with
  | .uint b => if x.length = b then some (.num (leNat x)) else none
  | .bool => match x with
    | [0] => some (.bool false)
    | [1] => some (.bool true)
    | _ => none
  | .bytesN n => if x.length = n then some (.bytes x) else none
  | _ => none

def optTok (o : Option Val) : String := match o with | some v => showVal v | none => "err"

def propDec (args impl : List String) : Except String String := do
  let (t, rest) ← runP ty args
  let (scope, rest) ← runP num rest
  let (x, _) ← runP hexTok rest
  let ms ← variants t
  let size := t.fixedSize
  -- what a reader limited to `scope` bytes over exactly `x` can deliver
  let avail := x.take scope
  let viaReader : Option Val := if avail.length < size then none else specDecode t (avail.take size)
  let toks := ms.foldl (fun acc m =>
    let b := isBasicMeta m
    acc ++ [if b then optTok (specDecode t x) else "-", if b then optTok viaReader else "-"]
        ++ (match viaReader with
            | some v => [showVal v, toString (scope - size)]
            | none => ["err"])) []
  return verdict "decoding" (" ".intercalate impl) ("ok " ++ " ".intercalate toks)

/-- read sub-position `j` of a chunk according to the spec's packing -/
def specRead (t : Ty) (r : Root) (j : Nat) : String :=
  let size := t.fixedSize
  if j ≥ 32 / size then (if t == .bool then "nil" else "err")
  else
    let piece := (r.drop (size * j)).take size
    match t with
    | .bool => (match piece with | [0] => "f" | [1] => "t" | _ => "nil")
    | _ => showVal (.num (leNat piece))

def propBase (args impl : List String) : Except String String := do
  let (t, rest) ← runP ty args
  let (bb, rest) ← runP hexTok rest
  let base ← chunk32 bb
  let (i, rest) ← runP num rest
  let (v0, _) ← runP val rest
  let v := specVal t v0
  if !(hasType t v) then return "FAIL:generator-produced-ill-typed-value"
  let size := t.fixedSize
  let k := 32 / size
  let res : Option Root :=
    if i < k then some (base.take (size * i) ++ serialize t v ++ base.drop (size * i + size)) else none
  let src := res.getD base
  let reads := (List.range k).map (specRead t src)
  let extra : List String := match v with
    | .bool b =>
      let j := i % 256
      let byte := (base.getD (j / 8) 0).toNat
      let set := byte.testBit (j % 8)
      let nb := if b then (if set then byte else byte + 2 ^ (j % 8)) else (if set then byte - 2 ^ (j % 8) else byte)
      [xhex (base.take (j / 8) ++ [UInt8.ofNat nb] ++ base.drop (j / 8 + 1)), if set then "t" else "f", xhex base]
    | _ => []
  let toks := [match res with | some r => xhex r | none => "nil", "0", xhex base, specRead t base i, toString k] ++ reads ++ extra
  return verdict "base" (" ".intercalate impl) ("ok " ++ " ".intercalate toks)

def propPack (args impl : List String) : Except String String := do
  let (t, rest) ← runP ty args
  let (k, rest) ← runP num rest
  let vals0 ← parseVals k rest
  let vals := vals0.map (specVal t)
  if !(allHaveType t vals) then return "FAIL:generator-produced-ill-typed-value"
  let cs := chunks (serList t vals).flatten
  let spec := cs.foldl (fun acc c => acc ++ " " ++ xhex c) s!"ok {cs.length}"
  return verdict "pack" (" ".intercalate impl) spec

def propFromBacking (args impl : List String) : Except String String := do
  let (t, rest) ← runP ty args
  let tok ← match rest with | [x] => pure x | _ => throw "bad bv.frombacking args"
  let node ← nodeOfTok tok
  let ms ← variants t
  let after := xhex (node.root hsha)
  -- acceptable value tokens per variant
  let expect : List String := match node with
    | .pair _ _ => ["err"]
    | .leaf r =>
      match t with
      | .uint b => [showVal (.num (leNat (r.take b)))]
      | .bool => (match r.take 1 with
          | [0] => ["f"]
          | [1] => ["t"]
          | _ => ["t", "err"])         -- a first byte above 1 is not a boolean: unspecified
      | .bytesN n => if n ≤ 32 then [xhex (r.take n)] else ["err"]
      | _ => []
  let rec check (ms : List Meta) (toks : List String) : Bool :=
    match ms, toks with
    | [], [] => true
    | _ :: ms', v :: a :: rest => expect.contains v && a == after && check ms' rest
    | _, _ => false
  match impl with
  | "ok" :: toks =>
    return if check ms toks then "ok" else s!"FAIL:frombacking:impl={" ".intercalate impl}:spec={expect}-{after}"
  | _ => return s!"FAIL:frombacking:impl={" ".intercalate impl}"

def propCopy (args impl : List String) : Except String String := do
  let (t, rest) ← runP ty args
  let (v0, _) ← runP val rest
  let v := specVal t v0
  if !(hasType t v) then return "FAIL:generator-produced-ill-typed-value"
  let ms ← variants t
  let root := xhex (htr hsha t v)
  let (c1, o2) := match v with
    | .bytes bs => (Val.bytes (flipFirst bs), Val.bytes (flipLast bs))
    | _ => (v, v)
  let toks := ms.foldl (fun acc _ =>
    acc ++ [showVal v, showVal v, showVal v, showVal c1, root, root, showVal o2, showVal c1, root]) []
  return verdict "copy" (" ".intercalate impl) ("ok " ++ " ".intercalate toks)

def handle (name : String) (args impl : List String) : Option (Except String (String × String)) :=
  let both (m p : Except String String) : Option (Except String (String × String)) :=
    some (do let mv ← m; let pv ← p; pure (mv, pv))
  match name with
  | "bv.enc" => both (modelEnc args) (propEnc args impl)
  | "bv.meta" => both (modelMeta args) (propMeta args impl)
  | "bv.dec" => both (modelDec args) (propDec args impl)
  | "bv.base" => both (modelBase args) (propBase args impl)
  | "bv.pack" => both (modelPack args) (propPack args impl)
  | "bv.frombacking" => both (modelFromBacking args) (propFromBacking args impl)
  | "bv.copy" => both (modelCopy args) (propCopy args impl)
  | _ => none

end Driver.OpsBasic
