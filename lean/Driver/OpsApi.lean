/-
Op family `api.*` (property family C02c; C02 / C04 / C15 / C13): public API of /repo/view and
/repo/codec that no other op calls directly.  Mirror of harness/ops_api.go (line formats there).

Model observation: the functions of ZtypV/Model/Api.lean (plus Model/Sizes, Model/View,
Model/Iter, Model/BasicApi, Model/Conv, Model/IO which they build on).
PROP verdicts, computed from Spec.lean and plain integer arithmetic only:
  api.td    Limit/Length = the type's parameter; ElementsPerBottomNode = 32 / size;
            BottomNodeLimit/Length = ceil(n·size / 32) (`basicChunkCount`), bitfields ceil(n / 256);
            ElementType() is the element type (identity and its four spec size facts, unless the
            element's maximum size is ≥ 2^64: outside C15); TypeRepr() does not panic
  api.tr    (i / perNode, i % perNode)
  api.bbi   index of the highest set bit (0 for the byte 0)
  api.chk   nil error iff i < length of the value (tampered length node ov: iff ov ≤ limit ∧ i < ov)
  api.fv    the fields of the value, each identical to Get(i)
  api.as    a cast succeeds iff the selected component exists and its SSZ type is the cast's
            kind (basic series = series of basic elements in the SSZ sense), result = the
            component's spec encoding; an incoming error / nil view fails every cast
  api.b32   Bytes32 = Serialize = leBytes 32 N, SetBytes32 round trip
  api.sb32  value = leNat data, Bytes32 = data
  api.must  ok N iff the text is a (signed) Go integer literal (`Conv.denotesInt`, the documented
            input language of big.Int.UnmarshalText) denoting N with 0 ≤ N < 2^256, else panic
  api.read  the flat byte-list answer (`specRun2`): Skip(n) succeeds with n iff the scope allows n
            more bytes and n more bytes can arrive
-/
import Driver.Proto
import Driver.OpsIO
import ZtypV.Model.Api
namespace Driver.OpsApi
open ZtypV ZtypV.View ZtypV.Api Driver

def verdictEq (what : String) (impl spec : String) : String :=
  if impl == spec then "ok" else s!"FAIL:{what}:impl={impl}:spec={spec}"

/-- token-wise comparison; a spec token `*` matches anything -/
def matchToks : List String → List String → Bool
  | [], [] => true
  | s :: ss, i :: is => (s == "*" || s == i) && matchToks ss is
  | _, _ => false

def verdictToks (what : String) (impl spec : List String) : String :=
  if matchToks spec impl then "ok"
  else s!"FAIL:{what}:impl={" ".intercalate impl}:spec={" ".intercalate spec}"

/-- every numeric parameter is a Go `uint64` -/
partial def representable : Ty → Bool
  | .uint b => b < 2^64
  | .bool => true
  | .bytesN n => n < 2^64
  | .bitvector n => n < 2^64
  | .bitlist n => n < 2^64
  | .vector e n => n < 2^64 && representable e
  | .list e n => n < 2^64 && representable e
  | .container fs => fs.all representable
  | .union _ fs => fs.all representable

def parseTy : P Ty := do
  let t ← ty
  if !representable t then throw "type parameter does not fit uint64"
  return t

def u64Tok : P Nat := do
  let n ← num
  if n ≥ 2^64 then throw "number does not fit uint64"
  return n

def b01 (b : Bool) : String := if b then "1" else "0"

def strHex (s : String) : String := xhex s.toUTF8.toList

/-! ### api.td -/

def showFacts (s : Sizes.SizeInfo) : List String :=
  [b01 s.isFixed, toString s.size.toNat, toString s.min.toNat, toString s.max.toNat]

/-- spec side of the element facts (`*` when the element is outside C15's quantifier) -/
def specFacts (e : Ty) : List String :=
  if e.maxSize ≥ 2^64 then ["*", "*", "*", "*"]
  else [b01 e.isFixed, toString e.typeByteLength, toString e.minSize, toString e.maxSize]

def optNum (o : Option UInt64) : Except Unit String :=
  match o with
  | some v => pure (toString v.toNat)
  | none => throw ()

def modelTd (t : Ty) : Except String String := do
  if Sizes.panics t then return "panic"
  let line (r : Except Unit (List String)) : String :=
    match r with
    | .ok toks => " ".intercalate ("ok" :: toks)
    | .error () => "panic"
  match t with
  | .list e lim =>
    let facts := showFacts (Sizes.sizeInfo e)
    if isBasicElem e then
      let sz := (Sizes.sizeInfo e).size
      return line (do
        let per ← optNum (elementsPerBottomNode sz)
        let bn ← optNum (bottomNodeLimit (UInt64.ofNat lim) sz)
        pure (["blist", "1"] ++ facts ++ [toString lim, per, bn]))
    else return line (pure (["clist", "1"] ++ facts ++ [toString lim]))
  | .vector e k =>
    let facts := showFacts (Sizes.sizeInfo e)
    if isBasicElem e then
      let sz := (Sizes.sizeInfo e).size
      return line (do
        let per ← optNum (elementsPerBottomNode sz)
        let bn ← optNum (bottomNodeLimit (UInt64.ofNat k) sz)
        pure (["bvec", "1"] ++ facts ++ [toString k, per, bn]))
    else return line (pure (["cvec", "1"] ++ facts ++ [toString k]))
  | .bitlist lim => return s!"ok bitlist {lim} {(bitBottomNodes (UInt64.ofNat lim)).toNat}"
  | .bitvector k => return s!"ok bitvec {k} {(bitBottomNodes (UInt64.ofNat k)).toNat}"
  | .container _ =>
    match typeRepr t with
    | some s => return s!"ok container {strHex s}"
    | none => return "panic"
  | .union _ _ =>
    match typeRepr t, typeString t with
    | some s, some s' => return s!"ok union {strHex s} {b01 (s == s')}"
    | _, _ => return "panic"
  | _ => throw "api.td: type has no accessors"

def propTd (t : Ty) (impl : List String) : Except String String := do
  if Sizes.panics t then return "ok"          -- ill-formed type definition: nothing claimed
  match t with
  | .list e lim =>
    if e.isBasic && isBasicElem e then
      let sz := e.fixedSize
      return verdictToks "accessors" impl
        (["ok", "blist", "1"] ++ specFacts e ++ [toString lim, toString (32 / sz), toString (basicChunkCount sz lim)])
    else if e.isBasic then
      return s!"FAIL:basic-element-series-is-complex(D3):impl={" ".intercalate impl}"
    else return verdictToks "accessors" impl (["ok", "clist", "1"] ++ specFacts e ++ [toString lim])
  | .vector e k =>
    if e.isBasic && isBasicElem e then
      let sz := e.fixedSize
      return verdictToks "accessors" impl
        (["ok", "bvec", "1"] ++ specFacts e ++ [toString k, toString (32 / sz), toString (basicChunkCount sz k)])
    else if e.isBasic then
      return s!"FAIL:basic-element-series-is-complex(D3):impl={" ".intercalate impl}"
    else return verdictToks "accessors" impl (["ok", "cvec", "1"] ++ specFacts e ++ [toString k])
  | .bitlist lim => return verdictToks "accessors" impl ["ok", "bitlist", toString lim, toString ((lim + 255) / 256)]
  | .bitvector k => return verdictToks "accessors" impl ["ok", "bitvec", toString k, toString ((k + 255) / 256)]
  | .container _ =>
    match impl with
    | ["ok", "container", _] => return "ok"
    | ["panic"] => return "FAIL:TypeRepr-panics"
    | _ => return s!"FAIL:unexpected-observation:{" ".intercalate impl}"
  | .union _ _ =>
    match impl with
    | ["ok", "union", _, "1"] => return "ok"
    | ["panic"] => return "FAIL:TypeRepr-panics"
    | _ => return s!"FAIL:unexpected-observation:{" ".intercalate impl}"
  | _ => throw "api.td: type has no accessors"

def opTd (args impl : List String) : Except String (String × String) := do
  let (t, _) ← runP parseTy args
  return (← modelTd t, ← propTd t impl)

/-! ### api.tr / api.bbi -/

def basicSeriesElem : Ty → Except String Ty
  | .list e _ => if isBasicElem e then pure e else throw "api.tr: not a basic series type"
  | .vector e _ => if isBasicElem e then pure e else throw "api.tr: not a basic series type"
  | _ => throw "api.tr: not a basic series type"

def opTr (args impl : List String) : Except String (String × String) := do
  let ((t, i), _) ← runP (do let t ← parseTy; let i ← u64Tok; pure (t, i)) args
  if Sizes.panics t then return ("panic", "ok")
  let e ← basicSeriesElem t
  let model :=
    match translateIndex (Sizes.sizeInfo e).size (UInt64.ofNat i) with
    | some (a, b) => s!"ok {a.toNat} {b.toNat}"
    | none => "panic"
  let per := 32 / e.fixedSize
  let spec := s!"ok {i / per} {i % per}"
  return (model, verdictEq "translate" (" ".intercalate impl) spec)

def opBbi (args impl : List String) : Except String (String × String) := do
  let (b, _) ← runP num args
  if b > 255 then throw "api.bbi: not a byte"
  let model := s!"ok {(Api.byteBitIndex (UInt8.ofNat b)).toNat}"
  let spec := s!"ok {if b = 0 then 0 else Nat.log2 b}"
  return (model, verdictEq "bit-index" (" ".intercalate impl) spec)

/-! ### views -/

def hsha : HashFn := Sha.sha256Pair

def viewByRoute (route : String) (t : Ty) (v : Val) : Except String (R Node) :=
  match route with
  | "new" => pure (construct hsha t v)
  | "dec" => pure (decodeTop hsha t (serialize t v))
  | _ => throw s!"bad route {route}"

/-- the harness maps a constructor error to the line `err`; a panic is the line `panic` -/
def lineOf (r : R String) : String :=
  match r with
  | .ok s => s
  | .error .panic => "panic"
  | .error _ => "err"

def optTok : P (Option Nat) := do
  let t ← next
  if t == "-" then return none
  match t.toNat? with
  | some n => if n ≥ 2^64 then throw "number does not fit uint64" else return some n
  | none => throw s!"bad number {t}"

def listLimit : Ty → Except String Nat
  | .list _ lim => pure lim
  | .bitlist lim => pure lim
  | _ => throw "api.chk: not a list type"

def valLength : Val → Nat
  | .seq vs => vs.length
  | .bits bs => bs.length
  | _ => 0

def opChk (args impl : List String) : Except String (String × String) := do
  match args with
  | route :: rest =>
    let ((t, v, ov, i), _) ← runP (do
      let t ← parseTy; let v ← val; let ov ← optTok; let i ← u64Tok; pure (t, v, ov, i)) rest
    let lim ← listLimit t
    let r ← viewByRoute route t v
    let model := lineOf (do
      let n ← r
      let n ← match ov with
        | none => pure n
        | some o => tamperLength n o
      checkIndex n lim i
      pure "ok")
    if !(hasType t v) then return (model, "FAIL:generator-produced-ill-typed-value")
    let expectOk :=
      match ov with
      | none => decide (i < valLength v)
      | some o => decide (o ≤ lim ∧ i < o)
    let spec := if expectOk then "ok" else "err"
    return (model, verdictEq "check-index" (" ".intercalate impl) spec)
  | _ => throw "bad api.chk args"

/-- the value of an element view through the typed getters (harness `extract`) -/
def extractTok (t : Ty) (n : Node) : R String :=
  match viewVal t n with
  | .ok v => .ok (showVal v)
  | .error .panic => .error .panic
  | .error _ => .ok "extract-err"

def sameView (fs : List Ty) (root : Node) (i : Nat) (t : Ty) (n : Node) : R Bool :=
  match getElemNode (.container fs) root i with
  | .error .panic => .error .panic
  | .error _ => .ok false
  | .ok (t', n') =>
    match serializeView t n, serializeView t' n' with
    | .ok a, .ok b => .ok (a == b && (n == n' || n.root hsha == n'.root hsha) && t == t')
    | .error .panic, _ => .error .panic
    | _, .error .panic => .error .panic
    | _, _ => .ok false

def fvTokens (fs : List Ty) (root : Node) : List (Ty × Node) → Nat → R (List String × Bool)
  | [], _ => .ok ([], true)
  | (t, n) :: rest, i => do
    let tok ← extractTok t n
    let same ← sameView fs root i t n
    let (toks, eq) ← fvTokens fs root rest (i + 1)
    .ok (tok :: toks, same && eq)

def opFv (args impl : List String) : Except String (String × String) := do
  match args with
  | route :: rest =>
    let ((t, v), _) ← runP (do let t ← parseTy; let v ← val; pure (t, v)) rest
    match t with
    | .container fs =>
      let r ← viewByRoute route t v
      let model := lineOf (do
        let n ← r
        let vals ← fieldValues fs n
        let (toks, eq) ← fvTokens fs n vals 0
        pure (" ".intercalate (["ok", toString vals.length] ++ toks ++ [b01 (eq && vals.length == fs.length)])))
      if !(hasType t v) then return (model, "FAIL:generator-produced-ill-typed-value")
      let spec :=
        match v with
        | .seq vs => " ".intercalate (["ok", toString vs.length] ++ vs.map showVal ++ ["1"])
        | _ => "err"
      return (model, verdictEq "field-values" (" ".intercalate impl) spec)
    | _ => throw "api.fv: not a container"
  | _ => throw "bad api.fv args"

def parseSel (t : Ty) (s : String) : Except String Sel :=
  match s.toList with
  | ['-'] => pure .self
  | ['e'] => pure .errIn
  | ['v'] =>
    match t with
    | .union _ _ => pure .value
    | _ => throw "api.as: v on a non-union view"
  | 'g' :: rest =>
    match (String.ofList rest).toNat? with
    | some i =>
      if i ≥ 2^64 then throw "index does not fit uint64" else
      match t with
      | .container _ | .list _ _ | .vector _ _ | .bitlist _ | .bitvector _ => pure (.get i)
      | _ => throw "api.as: g on a view without Get"
    | none => throw s!"bad selector {s}"
  | _ => throw s!"bad selector {s}"

def castTok (c : Cast) (inc : Incoming) : R String :=
  match c.apply inc with
  | none => .ok "-"
  | some (t, n) =>
    match serializeView t n with
    | .ok bs => .ok (xhex bs)
    | .error .panic => .error .panic
    | .error _ => .ok "E"

def incTok : Incoming → String
  | .err => "err"
  | .nil => "nil"
  | .view _ _ => "ok"

/-- spec side: the selected component of the value (`none` = no such component / error,
    `some none` = the None option) -/
def specSelect (t : Ty) (v : Val) : Sel → Option (Option (Ty × Val))
  | .self => some (some (t, v))
  | .errIn => none
  | .get i =>
    match t, v with
    | .container fs, .seq vs =>
      match fs[i]?, vs[i]? with
      | some ft, some fv => some (some (ft, fv))
      | _, _ => none
    | .list e _, .seq vs => (vs[i]?).map fun x => some (e, x)
    | .vector e _, .seq vs => (vs[i]?).map fun x => some (e, x)
    | .bitlist _, .bits bs => (bs[i]?).map fun b => some (.bool, .bool b)
    | .bitvector _, .bits bs => (bs[i]?).map fun b => some (.bool, .bool b)
    | _, _ => none
  | .value =>
    match t, v with
    | .union hasNone opts, .union sel x =>
      match unionOpt hasNone opts sel with
      | some ot => some (some (ot, x))
      | none => some none
    | _, _ => none

def opAs (args impl : List String) : Except String (String × String) := do
  match args with
  | route :: rest =>
    let ((t, v, selTok), _) ← runP (do let t ← parseTy; let v ← val; let s ← next; pure (t, v, s)) rest
    let sel ← parseSel t selTok
    let r ← viewByRoute route t v
    let model := lineOf (do
      let n ← r
      let inc ← select t n sel
      let toks ← Cast.all.mapM fun c => castTok c inc
      pure (" ".intercalate (["ok", incTok inc] ++ toks)))
    if !(hasType t v) then return (model, "FAIL:generator-produced-ill-typed-value")
    let spec : List String :=
      match specSelect t v sel with
      | none => ["ok", "err"] ++ Cast.all.map fun _ => "-"
      | some none => ["ok", "nil"] ++ Cast.all.map fun _ => "-"
      | some (some (ct, cv)) =>
        ["ok", "ok"] ++ Cast.all.map fun c => if c.isFor ct then xhex (serialize ct cv) else "-"
    return (model, verdictToks "casts" impl spec)
  | _ => throw "bad api.as args"

/-! ### Uint256View -/

def numTok : P Nat := do
  let t ← next
  match t.toList with
  | 'n' :: rest =>
    match (String.ofList rest).toNat? with
    | some n => return n
    | none => throw s!"bad number {t}"
  | _ => throw "expected n<decimal>"

open ZtypV.BasicApi in
def opB32 (args impl : List String) : Except String (String × String) := do
  let (n, _) ← runP numTok args
  let u := U256.ofNat n
  let b := u.bytes32
  let model := s!"ok {xhex b} {xhex (BasicV.u256 u).serializeW} {(U256.setBytes32 b).toNat}"
  let m := n % 2 ^ 256
  let spec := s!"ok {xhex (leBytes 32 m)} {xhex (serialize (.uint 32) (.num m))} {m}"
  return (model, verdictEq "bytes32" (" ".intercalate impl) spec)

open ZtypV.BasicApi in
def opSb32 (args impl : List String) : Except String (String × String) := do
  let (data, _) ← runP hexTok args
  if data.length ≠ 32 then throw "api.sb32 needs 32 bytes"
  let u := U256.setBytes32 data
  let model := s!"ok {u.toNat} {xhex u.bytes32}"
  let spec := s!"ok {leNat data} {xhex data}"
  return (model, verdictEq "set-bytes32" (" ".intercalate impl) spec)

def opMust (args impl : List String) : Except String (String × String) := do
  let (text, _) ← runP hexTok args
  let model :=
    match mustUint256 text with
    | some v => s!"ok {v}"
    | none => "panic"
  -- specification: the text is a (signed) Go integer literal denoting a number in [0, 2^256)
  let spec :=
    match Conv.denotesInt text with
    | some z => if 0 ≤ z ∧ z < 2 ^ 256 then s!"ok {z.toNat}" else "panic"
    | none => "panic"
  return (model, verdictEq "must-uint256" (" ".intercalate impl) spec)

/-! ### api.read -/

open ZtypV.CodecIO

def parseReq2 (s : String) : Except String Req2 :=
  match s.toList with
  | ['W'] => pure .u32
  | 'k' :: rest => do
    let n ← OpsIO.natTok (String.ofList rest)
    if n ≥ 2 ^ 64 then throw "skip count out of range"
    pure (.skip (UInt64.ofNat n))
  | _ => do pure (.base (← OpsIO.parseReq s))

def showObs2 : Obs2 → String
  | .base o => OpsIO.showObs o
  | .skipped n => s!"k{n}"

def showRun2 (os : List Obs2) (tail : List String) : String :=
  " ".intercalate ("ok" :: os.map showObs2 ++ tail)

def opRead (args impl : List String) : Except String (String × String) := do
  match args with
  | xd :: scope :: sched :: endm :: k :: reqs =>
    let data ← match parseHex xd with | some b => pure b | none => throw s!"bad hex {xd}"
    let scopeN ← OpsIO.natTok scope
    if scopeN ≥ 2 ^ 64 then throw "scope out of range"
    let cyc ← OpsIO.parseSched sched data.length
    let em ← OpsIO.parseEnd endm
    let kN ← OpsIO.natTok k
    let rs ← reqs.mapM parseReq2
    let st := mkReader data cyc em kN
    let m := run2 (Dec.new st (UInt64.ofNat scopeN)) rs
    let model :=
      match m.2 with
      | none => showRun2 m.1 []
      | some (.stop .spin) => showRun2 m.1 ["spin"]
      | some (.stop (.err _)) => showRun2 m.1 ["err"]
      | some (.skipErr _ n) => showRun2 m.1 [s!"err:{n}"]
    let sp := specRun2 (specNew (data.take kN) (UInt64.ofNat scopeN)) rs
    let spec := showRun2 sp.1 (if sp.2 then ["err"] else [])
    -- the count returned next to a Skip error is not part of the property
    let implN := impl.map fun t => if t.startsWith "err:" then "err" else t
    let got := " ".intercalate implN
    let verdict := if got == spec then "ok" else s!"FAIL:read-differs-from-flat-stream:spec={spec}"
    return (model, verdict)
  | _ => throw "bad api.read args"


/-! ### api.new / api.bv / api.setbk / api.root -/

partial def boolSeries : Ty → Bool
  | .vector e _ | .list e _ => e == .bool || boolSeries e
  | .container fs => fs.any boolSeries
  | .union _ fs => fs.any boolSeries
  | _ => false

def obsView (t : Ty) (n : Node) : R String :=
  match serializeView t n with
  | .ok bs => .ok s!"{hex (n.root hsha)} {xhex bs}"
  | .error .panic => .error .panic
  | .error _ => .ok s!"{hex (n.root hsha)} ser-err"

def specObs (t : Ty) (v : Val) : String := s!"{hex (htr hsha t v)} {xhex (serialize t v)}"

def opNew (args impl : List String) : Except String (String × String) := do
  let (t, _) ← runP parseTy args
  let model := lineOf (do
    let n ← newBacking hsha t
    let o ← obsView t n
    pure s!"ok {o} 1")
  if boolSeries t then return (model, "ok")
  let spec := s!"ok {specObs t (defaultVal t)} 1"
  return (model, verdictEq "new-is-not-the-default-value" (" ".intercalate impl) spec)

def opBv (args impl : List String) : Except String (String × String) := do
  match args with
  | route :: rest =>
    let ((t, v), _) ← runP (do let t ← parseTy; let v ← val; pure (t, v)) rest
    let r ← viewByRoute route t v
    let isBasicList := match t with | .list e _ => isBasicElem e | _ => false
    let model := lineOf (do
      let n ← r
      let c ← backedCopy t n
      let oc ← obsView t c
      pure (s!"ok {oc} {oc} {hex (n.root hsha)} 1" ++ (if isBasicList then s!" {hex (n.root hsha)}" else "")))
    if !(hasType t v) then return (model, "FAIL:generator-produced-ill-typed-value")
    if boolSeries t then return (model, "ok")
    let o := specObs t v
    let rt := hex (htr hsha t v)
    let spec := s!"ok {o} {o} {rt} 1" ++ (if isBasicList then s!" {rt}" else "")
    return (model, verdictEq "backed-view-copy" (" ".intercalate impl) spec)
  | _ => throw "bad api.bv args"

def opSetbk (args impl : List String) : Except String (String × String) := do
  let ((t, v), _) ← runP (do let t ← parseTy; let v ← val; pure (t, v)) args
  let (e, v') := basicSetBacking v (.leaf z0)
  let model := (if e.isSome then "err" else "ok") ++ " " ++ showVal v'
  if !(hasType t v) then return (model, "FAIL:generator-produced-ill-typed-value")
  -- a basic value view has no backing to replace: refused, value unchanged
  return (model, verdictEq "basic-set-backing" (" ".intercalate impl) s!"err {showVal v}")

def opRoot (args impl : List String) : Except String (String × String) := do
  let (r, _) ← runP hexTok args
  if r.length ≠ 32 then throw "api.root needs 32 bytes"
  let model := lineOf (do
    let n ← rootValueByteLength
    pure s!"ok {rootByteLength} {n} {hex (rootHashTreeRoot hsha r)} {xhex (rootSerialize r)} {strHex "Root"}")
  let spec := ["ok", "32", "32", hex (htr hsha (.bytesN 32) (.bytes r)), xhex (serialize (.bytesN 32) (.bytes r)), "*"]
  return (model, verdictToks "root-as-value" impl spec)

def handle (name : String) (args impl : List String) : Option (Except String (String × String)) :=
  match name with
  | "api.td" => some (opTd args impl)
  | "api.tr" => some (opTr args impl)
  | "api.bbi" => some (opBbi args impl)
  | "api.chk" => some (opChk args impl)
  | "api.fv" => some (opFv args impl)
  | "api.as" => some (opAs args impl)
  | "api.b32" => some (opB32 args impl)
  | "api.sb32" => some (opSb32 args impl)
  | "api.must" => some (opMust args impl)
  | "api.read" => some (opRead args impl)
  | "api.new" => some (opNew args impl)
  | "api.bv" => some (opBv args impl)
  | "api.setbk" => some (opSetbk args impl)
  | "api.root" => some (opRoot args impl)
  | _ => none

end Driver.OpsApi
