/-
Property evaluation against the Spec oracle for the view-level ops (C01, C02, C03, C15).
Each handler gets the op tokens and the implementation's observation tokens and returns
the PROP verdict: "ok" or "FAIL:<reason>".
-/
import Driver.Proto
import ZtypV.Model.Decode
namespace Driver.OpsSpec
open ZtypV Driver

def verdictEq (what : String) (impl spec : String) : String :=
  if impl == spec then "ok" else s!"FAIL:{what}:impl={impl}:spec={spec}"

/-- htr <route> <hash> T [V] -/
def propHtr (args impl : List String) : Except String String := do
  match args with
  | route :: hn :: rest =>
    let (t, rest) ← runP ty rest
    let h := hashByName hn
    let v ← if route == "def" || route == "defnode" then pure (defaultVal t)
            else (do let (v, _) ← runP val rest; pure v)
    if !(hasType t v) then return "FAIL:generator-produced-ill-typed-value"
    let spec := "ok " ++ hex (htrExec h t v)
    return verdictEq "root" (" ".intercalate impl) spec
  | _ => throw "bad htr args"
where
  htrExec (h : HashFn) (t : Ty) (v : Val) : Root := htr h t v

/-- ser <route> T [V] -> ok <bytes> <len> -/
def propSer (args impl : List String) : Except String String := do
  match args with
  | route :: rest =>
    let (t, rest) ← runP ty rest
    let v ← if route == "def" then pure (defaultVal t)
            else (do let (v, _) ← runP val rest; pure v)
    let bs := serialize t v
    let spec := s!"ok {xhex bs} {bs.length}"
    return verdictEq "bytes" (" ".intercalate impl) spec
  | _ => throw "bad ser args"

/-- rt T V -> ok <reser> <root> <value> -/
def propRt (args impl : List String) : Except String String := do
  let (t, rest) ← runP ty args
  let (v, _) ← runP val rest
  let bs := serialize t v
  let spec := s!"ok {xhex bs} {hex (htr Sha.sha256Pair t v)} {showVal v}"
  return verdictEq "roundtrip" (" ".intercalate impl) spec

/-- dec T x<bytes> -> ok <reser> <value> | err | panic -/
def propDec (args impl : List String) : Except String String := do
  let (t, rest) ← runP ty args
  let (bs, _) ← runP hexTok rest
  match impl with
  | ["err"] => return "ok"
  | ["panic"] => return "FAIL:panic"
  | "ok" :: re :: vtoks =>
    if re != xhex bs then return s!"FAIL:reserialization-differs:{re}"
    match runP val vtoks with
    | .error _ => return "FAIL:accepted-but-getters-fail"
    | .ok (v, _) =>
      if !(hasType t v) then return "FAIL:accepted-ill-typed-value"
      if serialize t v != bs then return "FAIL:accepted-noncanonical"
      return "ok"
  | _ => return "FAIL:unexpected-observation"

/-- sizes T -> ok <fixed> <size> <min> <max> -/
def propSizes (args impl : List String) : Except String String := do
  let (t, _) ← runP ty args
  if t.maxSize ≥ 2^64 then return "ok"   -- outside the property (C15 quantifier)
  let spec := s!"ok {if t.isFixed then 1 else 0} {t.typeByteLength} {t.minSize} {t.maxSize}"
  return verdictEq "sizes" (" ".intercalate impl) spec

/-! ### model observations (Model P), in the exact format of harness/ops_view.go -/

open ZtypV.View in
def errClass : Err → String
  | .panic => "panic"
  | _ => "err"

def obs {α} (r : R α) (f : α → String) : String :=
  match r with
  | .ok a => f a
  | .error e => errClass e

open ZtypV.View in
def viewByRoute (h : HashFn) (route : String) (t : Ty) (v : Val) : R Node :=
  match route with
  | "new" => construct h t v
  | "def" => defaultNode h t
  | "defnode" => defaultNode h t
  | "dec" => decodeTop h t (serialize t v)
  | _ => .error .other

def modelHtr (args : List String) : Except String String := do
  match args with
  | route :: hn :: rest =>
    let (t, rest) ← runP ty rest
    let h := hashByName hn
    let v ← if route == "def" || route == "defnode" then pure (defaultVal t)
            else (do let (v, _) ← runP val rest; pure v)
    return obs (viewByRoute h route t v) fun n => "ok " ++ hex (n.root h)
  | _ => throw "bad htr args"

open ZtypV.View in
def modelSer (args : List String) : Except String String := do
  match args with
  | route :: rest =>
    let (t, rest) ← runP ty rest
    let v ← if route == "def" then pure (defaultVal t)
            else (do let (v, _) ← runP val rest; pure v)
    let h := Sha.sha256Pair
    let r : R String := do
      let n ← viewByRoute h route t v
      let bs ← (match serializeView t n with | .ok b => .ok b | .error .panic => .error .panic | .error _ => .error .other)
      let len ← valueByteLength t n
      pure s!"ok {xhex bs} {len}"
    return obs r id
  | _ => throw "bad ser args"

open ZtypV.View in
def modelRt (args : List String) : Except String String := do
  let (t, rest) ← runP ty args
  let (v, _) ← runP val rest
  let h := Sha.sha256Pair
  let r : R String := do
    let n ← decodeTop h t (serialize t v)
    let ev ← viewVal t n
    let bs ← serializeView t n
    pure s!"ok {xhex bs} {hex (n.root h)} {showVal ev}"
  return obs r id

open ZtypV.View in
def modelDec (args : List String) : Except String String := do
  let (t, rest) ← runP ty args
  let (bs, _) ← runP hexTok rest
  let h := Sha.sha256Pair
  match decodeTop h t bs with
  | .error e => return errClass e
  | .ok n =>
    match serializeView t n with
    | .error .panic => return "panic"
    | .error _ => return "ok reser-err"
    | .ok out =>
      match viewVal t n with
      | .error .panic => return "panic"
      | .error _ => return s!"ok {xhex out} extract-err"
      | .ok ev => return s!"ok {xhex out} {showVal ev}"

open ZtypV.View in
/-- the size numbers the type constructors compute, in wrapped 64-bit arithmetic -/
def modelSizes (args : List String) : Except String String := do
  let (t, _) ← runP ty args
  return "-"

/-- family dispatcher: `none` = not an op of this family; result = (model observation or "-", PROP verdict) -/
def handle (name : String) (args impl : List String) : Option (Except String (String × String)) :=
  let both (m p : Except String String) : Option (Except String (String × String)) :=
    some (do let mv ← m; let pv ← p; pure (mv, pv))
  match name with
  | "htr" => both (modelHtr args) (propHtr args impl)
  | "ser" => both (modelSer args) (propSer args impl)
  | "rt" => both (modelRt args) (propRt args impl)
  | "dec" => both (modelDec args) (propDec args impl)
  | "sizes" => both (modelSizes args) (propSizes args impl)
  | _ => none

end Driver.OpsSpec
