/-
Property evaluation against the Spec oracle for the view-level ops (C01, C02, C03, C15).
Each handler gets the op tokens and the implementation's observation tokens and returns
the PROP verdict: "ok" or "FAIL:<reason>".
-/
import Driver.Proto
namespace Driver.OpsSpec
open ZtypV Driver

def verdictEq (what : String) (impl spec : String) : String :=
  if impl == spec then "ok" else s!"FAIL:{what}:impl={impl}:spec={spec}"

/-- htr <route> <hash> T [V] -/
def propHtr (args impl : List String) : Except String String := do
  match args with
  | route :: hn :: rest =>
    let (t, rest) ← runP ty rest
    let h := hashByName hn
    let v ← if route == "def" || route == "defnode" then pure (defaultVal t)
            else (do let (v, _) ← runP val rest; pure v)
    if !(hasType t v) then return "FAIL:generator-produced-ill-typed-value"
    let spec := "ok " ++ hex (htrExec h t v)
    return verdictEq "root" (" ".intercalate impl) spec
  | _ => throw "bad htr args"
where
  htrExec (h : HashFn) (t : Ty) (v : Val) : Root := htr h t v

/-- ser <route> T [V] -> ok <bytes> <len> -/
def propSer (args impl : List String) : Except String String := do
  match args with
  | route :: rest =>
    let (t, rest) ← runP ty rest
    let v ← if route == "def" then pure (defaultVal t)
            else (do let (v, _) ← runP val rest; pure v)
    let bs := serialize t v
    let spec := s!"ok {xhex bs} {bs.length}"
    return verdictEq "bytes" (" ".intercalate impl) spec
  | _ => throw "bad ser args"

/-- rt T V -> ok <reser> <root> <value> -/
def propRt (args impl : List String) : Except String String := do
  let (t, rest) ← runP ty args
  let (v, _) ← runP val rest
  let bs := serialize t v
  let spec := s!"ok {xhex bs} {hex (htr Sha.sha256Pair t v)} {showVal v}"
  return verdictEq "roundtrip" (" ".intercalate impl) spec

/-- dec T x<bytes> -> ok <reser> <value> | err | panic -/
def propDec (args impl : List String) : Except String String := do
  let (t, rest) ← runP ty args
  let (bs, _) ← runP hexTok rest
  match impl with
  | ["err"] => return "ok"
  | ["panic"] => return "FAIL:panic"
  | "ok" :: re :: vtoks =>
    if re != xhex bs then return s!"FAIL:reserialization-differs:{re}"
    match runP val vtoks with
    | .error _ => return "FAIL:accepted-but-getters-fail"
    | .ok (v, _) =>
      if !(hasType t v) then return "FAIL:accepted-ill-typed-value"
      if serialize t v != bs then return "FAIL:accepted-noncanonical"
      return "ok"
  | _ => return "FAIL:unexpected-observation"

/-- sizes T -> ok <fixed> <size> <min> <max> -/
def propSizes (args impl : List String) : Except String String := do
  let (t, _) ← runP ty args
  if t.maxSize ≥ 2^64 then return "ok"   -- outside the property (C15 quantifier)
  let spec := s!"ok {if t.isFixed then 1 else 0} {t.typeByteLength} {t.minSize} {t.maxSize}"
  return verdictEq "sizes" (" ".intercalate impl) spec

/-- family dispatcher: `none` = not an op of this family; result = (model observation or "-", PROP verdict) -/
def handle (name : String) (args impl : List String) : Option (Except String (String × String)) :=
  let wrap (r : Except String String) : Option (Except String (String × String)) := some (r.map fun v => ("-", v))
  match name with
  | "htr" => wrap (propHtr args impl)
  | "ser" => wrap (propSer args impl)
  | "rt" => wrap (propRt args impl)
  | "dec" => wrap (propDec args impl)
  | "sizes" => wrap (propSizes args impl)
  | _ => none

end Driver.OpsSpec
