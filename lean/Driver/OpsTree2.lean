/-
Ops of family C11b (prefix `tr2.`): the node / link API of package `tree` driven directly
(see harness/ops_tree2.go for the op formats and the link-expression notation).

Model observation = what `ZtypV.Model.Tree2` computes (interface-method descent, links built
from closures with `Link.wrap`, `deeperSetter` loop), printed like the Go side.
Verdict = the laws of C11b evaluated on the implementation's observation: expected results are
computed with the reference semantics (`LinkExpr.den`, `setNode`, plain constructors), never with
the closure model, and the equational laws (`eq` groups of `tr2.link`, `A = B` of `tr2.comp`)
are checked between the implementation's own results.
-/
import Driver.Proto
import Driver.OpsTree
import ZtypV.Model.Tree2
namespace Driver.OpsTree2
open ZtypV Driver Driver.OpsTree

/-! ### parsing -/

partial def linkP (h : HashFn) : P LinkExpr := do
  let t ← next
  match t with
  | "I" => pure .id
  | "RL" => do let n ← tree h; pure (.rebL n)
  | "RR" => do let n ← tree h; pure (.rebR n)
  | "S" => do
    let g ← num; let e ← num; let n ← tree h
    pure (.setter n (UInt64.ofNat g) (e == 1))
  | "DS" => do
    let g ← num; let e ← num; let k ← linkP h; let n ← tree h
    pure (.deeper k n (UInt64.ofNat g) (e == 1))
  | "W" => do let a ← linkP h; let b ← linkP h; pure (.wrap a b)
  | _ => throw s!"bad link token {t}"

def links (h : HashFn) : Nat → P (List LinkExpr)
  | 0 => pure []
  | k + 1 => do let x ← linkP h; let xs ← links h k; pure (x :: xs)

def cls : Err → String
  | .nav => "nav"
  | .other => "other"
  | .panic => "panic"

def isOkNode (r : R Node) (x : Node) : Bool :=
  match r with
  | .ok y => y == x
  | .error _ => false

def isNav (r : R Node) : Bool :=
  match r with
  | .error .nav => true
  | _ => false

/-- split a token list at the separator `|` -/
def splitBar (toks : List String) : List (List String) :=
  let rec go : List String → List String → List (List String) → List (List String)
    | [], cur, acc => (cur.reverse :: acc).reverse
    | t :: ts, cur, acc => if t == "|" then go ts [] (cur.reverse :: acc) else go ts (t :: cur) acc
  go toks [] []

def unwords (ts : List String) : String := " ".intercalate ts

/-! ### tr2.walk -/

/-- the dump through the model's interface methods only -/
partial def walkAcc (h : HashFn) (n : Node) (acc : List String) : List String :=
  if n.isLeaf then "D" :: xhex (n.root h) :: acc
  else
    match n.left, n.right with
    | .ok l, .ok r => "P" :: walkAcc h l (walkAcc h r acc)
    | _, _ => "broken-pair" :: acc

def applyLink (k : R Link) (v : Node) : R Node :=
  match k with
  | .error e => .error e
  | .ok f => f v

/-- the per-node checks of the Go walk, on the model -/
partial def walkFlags (h : HashFn) (probe : Node) (n : Node) : Bool × Bool :=
  let self := isOkNode (getterG n 1) n
    && isOkNode (applyLink (setterG h n 1 false) probe) probe
    && isOkNode (applyLink (setterG h n 1 true) probe) probe
  if n.isLeaf then
    let kids := isNav n.left && isNav n.right && isNav (n.rebindLeft probe) && isNav (n.rebindRight probe)
      && isNav (getterG n 2) && isNav (getterG n 3)
    (self, kids)
  else
    match n.left, n.right with
    | .ok l, .ok r =>
      let kids := isOkNode (getterG n 2) l && isOkNode (getterG n 3) r
      let (s1, k1) := walkFlags h probe l
      let (s2, k2) := walkFlags h probe r
      (self && s1 && s2, kids && k1 && k2)
    | _, _ => (self, false)

def b01 (b : Bool) : String := if b then "1" else "0"

def opWalk (args impl : List String) : Except String (String × String) := do
  match args with
  | hn :: rest =>
    let h := hashByName hn
    let (n, _) ← runP (tree h) rest
    let probe : Node := .leaf (chunkOf [0xaa, 0x55])
    let (self, kids) := walkFlags h probe n
    let m := s!"ok {unwords (walkAcc h n [])} {hex (n.root h)} self={b01 self} kids={b01 kids}"
    let spec := s!"ok {dump n} {hex (n.root h)} self=1 kids=1"
    pure (m, if unwords impl == spec then "ok" else "FAIL:accessors-do-not-reproduce-the-tree")
  | _ => throw "bad tr2.walk args"

/-! ### tr2.rebind / tr2.pair / tr2.zero -/

def opRebind (args impl : List String) : Except String (String × String) := do
  match args with
  | hn :: rest =>
    let h := hashByName hn
    let (side, rest) ← runP num rest
    let (n, rest) ← runP (tree h) rest
    let (v, _) ← runP (tree h) rest
    let r := if side == 0 then n.rebindLeft v else n.rebindRight v
    let m := showR (fun r => s!"{withRoot h r} new=1 other=1 unchanged=1") r
    let verdict :=
      match n with
      | .leaf _ => if impl == ["err", "nav"] then "ok" else "FAIL:rebind-on-a-leaf-must-be-a-navigation-error"
      | .pair l rr =>
        let want : Node := if side == 0 then .pair v rr else .pair l v
        let wantRoot := if side == 0 then h (v.root h) (rr.root h) else h (l.root h) (v.root h)
        if unwords impl == s!"ok {dump want} {hex wantRoot} new=1 other=1 unchanged=1" then "ok"
        else "FAIL:rebind-law"
    pure (m, verdict)
  | _ => throw "bad tr2.rebind args"

def opPair (args impl : List String) : Except String (String × String) := do
  match args with
  | hn :: rest =>
    let h := hashByName hn
    let (a, rest) ← runP (tree h) rest
    let (b, _) ← runP (tree h) rest
    let n := newPairNode a b
    let kids := isOkNode n.left a && isOkNode n.right b && !n.isLeaf
    let m := s!"ok {withRoot h n} fresh=1 kids={b01 kids}"
    let spec := s!"ok P {dump a} {dump b} {hex (h (a.root h) (b.root h))} fresh=1 kids=1"
    pure (m, if unwords impl == spec then "ok" else "FAIL:new-pair-law")
  | _ => throw "bad tr2.pair args"

def opZero (args impl : List String) : Except String (String × String) := do
  match args with
  | hn :: rest =>
    let h := hashByName hn
    let (d, _) ← runP num rest
    -- `mat`: root of `SubtreeFillToDepth(&Root{}, d)`; the model tree `fillToDepth (.leaf z0) d`
    -- has 2^d leaves, its root is `zh h d` (`ZtypV.Props.C11b.C11b_zeroNode`, `fullZero_root`)
    let m := showR (fun n => s!"{dump n} leaf={b01 n.isLeaf} table=1 mat={hex (n.root h)}") (zeroNodeG h d)
    let verdict :=
      if d ≥ 65 then "ok"      -- beyond the table: documented panic, CORR only
      else
        let z := (growZ h #[] d)[d]!
        if unwords impl == s!"ok D {xhex z} leaf=1 table=1 mat={hex z}" then "ok"
        else "FAIL:zero-node-is-not-the-root-of-the-materialised-zero-tree"
    pure (m, verdict)
  | _ => throw "bad tr2.zero args"

/-! ### tr2.link -/

/-- one segment of the observation; `none` = panic -/
def runLink (h : HashFn) (k : R (Node → R Node)) (v1 v2 : Node) : Option String :=
  match k with
  | .error .panic => none
  | .error er => some s!"err {cls er}"
  | .ok f =>
    match f v1 with
    | .error .panic => none
    | .error er => some s!"errl {cls er}"
    | .ok r1 =>
      match f v2 with
      | .error .panic => none
      | .error er => some s!"errl {cls er}"
      | .ok r2 => some s!"ok {withRoot h r1} {withRoot h r2}"

def joinSegs (segs : List (Option String)) : String :=
  if segs.any Option.isNone then "panic"
  else "ok " ++ " | ".intercalate (segs.filterMap id)

def allSame : List (List String) → Bool
  | [] => true
  | s :: ss => ss.all (· == s)

def opLink (args impl : List String) : Except String (String × String) := do
  match args with
  | hn :: rest =>
    let h := hashByName hn
    let (eq, rest) ← runP num rest
    let (k, rest) ← runP num rest
    let (xs, rest) ← runP (links h k) rest
    let (v1, rest) ← runP (tree h) rest
    let (v2, _) ← runP (tree h) rest
    let m := joinSegs (xs.map fun x => runLink h (x.eval h) v1 v2)
    let spec := joinSegs (xs.map fun x => runLink h (x.den h) v1 v2)
    let verdict :=
      if spec == "panic" then "ok"    -- a DeeperSetter call outside its documented precondition: no law, CORR only
      else if unwords impl != spec then "FAIL:link-differs-from-composition-of-writes"
      else if eq == 1 && !(match impl with
          | "ok" :: segs => allSame (splitBar segs)
          | _ => true) then "FAIL:link-law-violated"
      else "ok"
    pure (m, verdict)
  | _ => throw "bad tr2.link args"

/-! ### tr2.comp -/

def finishSeg (h : HashFn) (r : R Node) : Option String :=
  match r with
  | .error .panic => none
  | .error er => some s!"errl {cls er}"
  | .ok n => some s!"ok {withRoot h n} shared=1"

def errSeg (er : Err) : Option String :=
  match er with
  | .panic => none
  | _ => some s!"err {cls er}"

def opComp (args impl : List String) : Except String (String × String) := do
  match args with
  | hn :: rest =>
    let h := hashByName hn
    let (g1, rest) ← runP num rest
    let (g2, rest) ← runP num rest
    let (e1, rest) ← runP num rest
    let (e, rest) ← runP num rest
    let (n, rest) ← runP (tree h) rest
    let (v, _) ← runP (tree h) rest
    if g1 == 0 || g2 == 0 then throw "tr2.comp needs generalized indices >= 1"
    let p1 := gbits g1
    let p2 := gbits g2
    let g12 := gindexOfPath (p1 ++ p2)
    if g12 ≥ 2 ^ 64 then throw "tr2.comp: concatenated index does not fit"
    let a : Option String :=
      match setterG h n (UInt64.ofNat g1) (e1 == 1) with
      | .error er => errSeg er
      | .ok l1 =>
        match getterG n (UInt64.ofNat g1) with
        | .error er => errSeg er
        | .ok child =>
          match setterG h child (UInt64.ofNat g2) (e == 1) with
          | .error er => errSeg er
          | .ok l2 => finishSeg h (Link.wrap l1 l2 v)
    let b : Option String :=
      match setterG h n (UInt64.ofNat g12) (e == 1) with
      | .error er => errSeg er
      | .ok l => finishSeg h (l v)
    let m := joinSegs [a, b]
    -- the law, on the implementation's own two results; B against the one-stage write
    let wantB : String :=
      match setNode h n (p1 ++ p2) (e == 1) v with
      | .ok r => s!"ok {withRoot h r} shared=1"
      | .error er => s!"err {cls er}"
    let verdict :=
      match impl with
      | "ok" :: segs =>
        match splitBar segs with
        | [ia, ib] =>
          if unwords ib != wantB then "FAIL:direct-setter-differs-from-write"
          else match nodeAt n p1 with
            | some _ => if ia == ib then "ok" else "FAIL:composed-link-differs-from-setter-of-concatenated-index"
            | none => if ia == ["err", "nav"] then "ok" else "FAIL:composition-through-missing-position"
        | _ => "FAIL:unexpected-observation"
      | _ => "FAIL:unexpected-observation"
    pure (m, verdict)
  | _ => throw "bad tr2.comp args"

/-! ### tr2.sum -/

def opSum (args impl : List String) : Except String (String × String) := do
  match args with
  | hn :: rest =>
    let h := hashByName hn
    let (g, rest) ← runP num rest
    let (n, _) ← runP (tree h) rest
    let g64 := UInt64.ofNat g
    let run (sl : R SummaryLink) : R Node :=
      match sl with
      | .error er => .error er
      | .ok f => f ()
    let direct := run (summaryIntoG h n g64)
    let method := run (summarizeIntoG h n g64)
    let same : Bool :=
      match direct, method with
      | .ok a, .ok b => a == b
      | .error x, .error y => x == y
      | _, _ => false
    let m := showR (withFlags h) direct ++ s!" method={b01 same}"
    let verdict :=
      match impl.reverse with
      | "method=1" :: revRest => verdictSum h n g64 revRest.reverse
      | _ => "FAIL:method-and-function-disagree"
    pure (m, verdict)
  | _ => throw "bad tr2.sum args"

def handle (name : String) (args impl : List String) : Option (Except String (String × String)) :=
  match name with
  | "tr2.walk" => some (opWalk args impl)
  | "tr2.rebind" => some (opRebind args impl)
  | "tr2.pair" => some (opPair args impl)
  | "tr2.zero" => some (opZero args impl)
  | "tr2.link" => some (opLink args impl)
  | "tr2.comp" => some (opComp args impl)
  | "tr2.sum" => some (opSum args impl)
  | _ => none

end Driver.OpsTree2
