/-
Ops of family C13 (prefix `io.`): codec I/O over scheduled readers and failing writers.

  io.read <xdata> <scope> <sched> <endmode> <k> <req>…   -> ok <result>… [err]
      sched   : <n> (every call delivers at most n bytes) | half | all | c:<n>,<n>,…  (cycled chunk sizes)
      endmode : sep (EOF on a separate call) | with (EOF together with the last data) | fail (non-EOF error)
      k       : end / failure position (the reader delivers xdata[:k])
      req     : r<n> Read of n bytes -> x<hex> | b ReadByte | h ReadUint16 | w ReadUint32 | q ReadUint64 -> decimal
                s<n> SubScope(n), continue inside -> s | u back to the parent -> u
                U back to the parent after UpdateIndexFromScoped -> u | i -> i<Index>/<Max>
  io.write <failpos|-> <short> <wop>…                    -> ok|err|panic written=<n> accepted=<xhex>
      short   : 0 (no per-call limit) | <c> (≤ c bytes per call, short write with error) | l<c> (same, nil error)
      wop     : x<hex> Write | b<n> WriteByte | h<n> WriteUint16 | w<n> WriteUint32 | q<n> WriteUint64 | o<prev>,<len> WriteOffset
  io.dec <sched> <endmode> <k> <T…> <xbytes>             -> <res> flat=<res>,  res = ok x<reserialized> | err | panic
  io.enc <failpos|-> <T…> <V…>                           -> ok|err written=<n> accepted=<xhex>

Model observation: `io.read` = `Dec.run` on the scheduled reader, `io.write` = `ewRun`; `io.dec`/`io.enc`
have no model (`-`), PROP only.  Verdicts: `io.read` against `specRun` (the flat byte-list answer),
`io.write` against the prefix / counter / error-iff-incomplete law, `io.enc` against `ZtypV.serialize`,
`io.dec` against the flat result printed by the Go side: complete stream => identical result; stream
shorter than the scope => `err`, or the flat result when that is a value whose re-encoding is NOT the
whole input (the decoder never asked for the missing bytes); a value that re-encodes to the whole
input from a stream that did not deliver all of it is a violation.
-/
import Driver.Proto
import ZtypV.Model.IO
namespace Driver.OpsIO
open ZtypV ZtypV.CodecIO Driver

def splitComma (s : String) : List String := (s.splitOn ",").filter (· ≠ "")

def natTok (s : String) : Except String Nat :=
  match s.toNat? with
  | some n => .ok n
  | none => .error s!"bad number {s}"

/-- the chunk list of a schedule token; `len` = length of the whole data (for `half`) -/
def parseSched (s : String) (len : Nat) : Except String (List Nat) := do
  if s == "all" then return []
  if s == "half" then return [max 1 (len / 2)]
  let cs ← if s.startsWith "c:" then (splitComma (s.drop 2).toString).mapM natTok else (do pure [← natTok s])
  if cs.isEmpty then throw "empty chunk list"
  if cs.any (· == 0) then throw "illegal schedule: chunk size 0 (a (0, nil) call)"
  return cs

def parseEnd (s : String) : Except String EndMode :=
  match s with
  | "sep" => .ok .eofSeparate
  | "with" => .ok .eofWithData
  | "fail" => .ok .fail
  | _ => .error s!"bad end mode {s}"

def parseReq (s : String) : Except String Req :=
  match s.toList with
  | ['b'] => .ok (.uintN 1)
  | ['h'] => .ok (.uintN 2)
  | ['w'] => .ok (.uintN 4)
  | ['q'] => .ok (.uintN 8)
  | ['u'] => .ok .up
  | ['U'] => .ok .upUpdate
  | ['i'] => .ok .index
  | 'r' :: rest => do let n ← natTok (String.ofList rest); pure (.read n)
  | 's' :: rest => do
    let n ← natTok (String.ofList rest)
    if n ≥ 2 ^ 64 then throw "sub-scope count out of range"
    pure (.sub (UInt64.ofNat n))
  | _ => .error s!"bad request {s}"

def showObs : Obs → String
  | .bytes bs => xhex bs
  | .num n => toString n
  | .sub => "s"
  | .up => "u"
  | .index i m => s!"i{i.toNat}/{m.toNat}"

def showRun (os : List Obs) (stopped : Bool) : String :=
  " ".intercalate ("ok" :: os.map showObs ++ (if stopped then ["err"] else []))

def showStop : Option Stop → List Obs → String
  | some .spin, os => showRun os false ++ " spin"
  | some (.err _), os => showRun os true
  | none, os => showRun os false

/-- io.read -/
def opRead (args impl : List String) : Except String (String × String) := do
  match args with
  | xd :: scope :: sched :: endm :: k :: reqs =>
    let data ← match parseHex xd with | some b => pure b | none => throw s!"bad hex {xd}"
    let scopeN ← natTok scope
    if scopeN ≥ 2 ^ 64 then throw "scope out of range"
    let cyc ← parseSched sched data.length
    let em ← parseEnd endm
    let kN ← natTok k
    let rs ← reqs.mapM parseReq
    let st := mkReader data cyc em kN
    let m := Dec.run (Dec.new st (UInt64.ofNat scopeN)) rs
    let model := showStop m.2 m.1
    let sp := specRun (specNew (data.take kN) (UInt64.ofNat scopeN)) rs
    let spec := showRun sp.1 sp.2
    let got := " ".intercalate impl
    let verdict := if got == spec then "ok" else s!"FAIL:read-differs-from-flat-stream:spec={spec}"
    return (model, verdict)
  | _ => throw "bad io.read args"

def parseWOp (s : String) : Except String WOp :=
  match s.toList with
  | 'x' :: rest =>
    match parseHexChars rest with
    | some b => .ok (.raw b)
    | none => .error s!"bad hex {s}"
  | 'b' :: rest => do let n ← natTok (String.ofList rest); pure (.byte (UInt8.ofNat n))
  | 'h' :: rest => do let n ← natTok (String.ofList rest); pure (.u16 (UInt16.ofNat n))
  | 'w' :: rest => do let n ← natTok (String.ofList rest); pure (.u32 (UInt32.ofNat n))
  | 'q' :: rest => do let n ← natTok (String.ofList rest); pure (.u64 (UInt64.ofNat n))
  | 'o' :: rest =>
    match splitComma (String.ofList rest) with
    | [a, b] => do
      let a ← natTok a
      let b ← natTok b
      pure (.offset (UInt64.ofNat a) (UInt64.ofNat b))
    | _ => .error s!"bad offset op {s}"
  | _ => .error s!"bad write op {s}"

def parseFailPos (s : String) : Except String (Option Nat) :=
  if s == "-" then .ok none else (natTok s).map some

def parseShort (s : String) : Except String (Nat × Bool) :=
  match s.toList with
  | 'l' :: rest => do
    let c ← natTok (String.ofList rest)
    if c == 0 then throw "lenient short writes need a positive per-call limit"
    pure (c, true)
  | _ => do let c ← natTok s; pure (c, false)

def showW (status : String) (written : Nat) (acc : Bytes) : String :=
  s!"{status} written={written} accepted={xhex acc}"

/-- bytes of the ops before the first panicking one, and whether one panics -/
def totalBytes : List WOp → Bytes × Bool
  | [] => ([], false)
  | o :: os =>
    match o.bytes with
    | none => ([], true)
    | some b => let r := totalBytes os; (b ++ r.1, r.2)

/-- parse `<status> written=<n> accepted=<xhex>` -/
def parseWObs (impl : List String) : Option (String × Nat × Bytes) :=
  match impl with
  | [st, w, a] =>
    if !(w.startsWith "written=") || !(a.startsWith "accepted=") then none else
    match (w.drop 8).toString.toNat?, parseHex (a.drop 9).toString with
    | some n, some b => some (st, n, b)
    | _, _ => none
  | _ => none

/-- the writer law of C13 on an observation -/
def writeVerdict (impl : List String) (total : Bytes) (panics : Bool) (failAt : Option Nat) (exact : Bool) : String :=
  match parseWObs impl with
  | none => "FAIL:unexpected-observation"
  | some (st, written, acc) =>
    if written != acc.length then s!"FAIL:written-counter-differs-from-accepted:{written}:{acc.length}"
    else if acc != total.take acc.length then "FAIL:accepted-not-a-prefix-of-the-encoding"
    else
      let want := if written < total.length then "err" else if panics then "panic" else "ok"
      if st != want then s!"FAIL:status:{st}:expected:{want}"
      else
        match failAt, exact with
        | some k, true =>
          if written != min k total.length then s!"FAIL:written:{written}:expected:{min k total.length}" else "ok"
        | none, true => if written != total.length then "FAIL:incomplete-without-failure" else "ok"
        | _, _ => "ok"

/-- the harness runs every writer op twice: against a plain failing `io.Writer` and against one
    that also implements `io.ByteWriter`; it appends `bytewriter:<obs>` only when the two differ -/
def writeVerdict2 (impl : List String) (total : Bytes) (panics : Bool) (failAt : Option Nat) (exact : Bool) : String :=
  let (a, b) := impl.span (fun t => !(t.startsWith "bytewriter:"))
  match b with
  | [] => writeVerdict a total panics failAt exact
  | f :: more =>
    let va := writeVerdict a total panics failAt exact
    let vb := writeVerdict ((f.drop 11).toString :: more) total panics failAt exact
    if va != "ok" then va
    else if vb != "ok" then vb ++ ":through-io.ByteWriter"
    else "FAIL:observation-depends-on-io.ByteWriter"

/-- io.write -/
def opWrite (args impl : List String) : Except String (String × String) := do
  match args with
  | fp :: sh :: ops =>
    let failAt ← parseFailPos fp
    let (cap, lenient) ← parseShort sh
    let wops ← ops.mapM parseWOp
    let w : WriterState := { acc := [], failAt := failAt, cap := cap, lenient := lenient }
    let r := ewRun (newEncodingWriter w) wops
    let status := match r.1 with | .ok => "ok" | .err => "err" | .spin => "spin" | .panic => "panic"
    let model := showW status r.2.written r.2.w.acc
    let (total, panics) := totalBytes wops
    return (model, writeVerdict2 impl total panics failAt (cap == 0 || lenient))
  | _ => throw "bad io.write args"

/-- io.dec: PROP only -/
def opDec (args impl : List String) : Except String (String × String) := do
  match args with
  | sched :: endm :: k :: rest =>
    let (_, rest) ← runP ty rest
    let (bs, _) ← runP hexTok rest
    let _ ← parseSched sched bs.length
    let _ ← parseEnd endm
    let kN ← natTok k
    let (a, b) := impl.span (fun t => !(t.startsWith "flat="))
    let flat := match b with
      | f :: more => (f.drop 5).toString :: more
      | [] => []
    if flat.isEmpty then return ("-", "FAIL:unexpected-observation")
    let verdict :=
      if a == ["panic"] then "FAIL:panic"
      else if kN ≥ bs.length then
        (if a == flat then "ok" else s!"FAIL:differs-from-flat-reader:flat={" ".intercalate flat}")
      else if a == ["err"] then "ok"
      else if a != flat then s!"FAIL:short-stream-result-differs-from-flat:flat={" ".intercalate flat}"
      -- the value re-encodes to the whole input, yet the stream ended before delivering all of it
      else if flat == ["ok", xhex bs] then "FAIL:value-from-a-stream-shorter-than-its-encoding"
      -- the decoder never asked for the missing bytes (input with bytes the type does not use: C03's subject)
      else "ok"
    return ("-", verdict)
  | _ => throw "bad io.dec args"

/-- io.enc: PROP only -/
def opEnc (args impl : List String) : Except String (String × String) := do
  match args with
  | fp :: rest =>
    let failAt ← parseFailPos fp
    let (t, rest) ← runP ty rest
    let (v, _) ← runP val rest
    if !(hasType t v) then return ("-", "FAIL:generator-produced-ill-typed-value")
    return ("-", writeVerdict2 impl (serialize t v) false failAt true)
  | _ => throw "bad io.enc args"

def handle (name : String) (args impl : List String) : Option (Except String (String × String)) :=
  match name with
  | "io.read" => some (opRead args impl)
  | "io.write" => some (opWrite args impl)
  | "io.dec" => some (opDec args impl)
  | "io.enc" => some (opEnc args impl)
  | _ => none

end Driver.OpsIO
