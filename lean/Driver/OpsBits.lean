/-
Driver ops of family C16 (prefix `g64.`): `tree/bitlen.go` and `tree/gindex.go`.

For every op the handler returns
* the observation of the MODEL (`ZtypV.Bits64.*`, the functions the C16 theorems are about),
  printed exactly like `harness/ops_bits.go` prints the observation of the real code, and
* the PROP verdict: the implementation's observation compared with the mathematical
  definition, computed here on `Nat` without using the model functions.

  g64.bits <v>          -> ok <bitIndex> <bitLength> <coverDepth>
  g64.nav  <v>          -> ok <left> <right> <parent> <isLeft> <isRoot> <isClose> <depth> <anchor> <subtree>
  g64.iter <v>          -> ok <depth> <r><k> … (depth+2 calls of Next, each printed as two 0/1 digits right,ok)
  g64.enc  <v>          -> ok <LE> <BE> <leftAligned> <bitLen>     (byte strings: `nil` or x<hex>)
  g64.to   <index> <d>  -> ok <gindex> | err
-/
import Driver.Proto
import ZtypV.Model.Bits64
namespace Driver.OpsBits
open ZtypV ZtypV.Bits64 Driver

def b01 (b : Bool) : String := if b then "1" else "0"

def u64Tok (t : String) : Except String UInt64 :=
  match t.toNat? with
  | some n => if n < 2 ^ 64 then pure (UInt64.ofNat n) else throw s!"number out of range {t}"
  | none => throw s!"bad number {t}"

def bytesTok (bs : Bytes) : String := if bs.isEmpty then "nil" else xhex bs

/-! ### model observations -/

def modelBits (v : UInt64) : String :=
  s!"ok {(bitIndex v).toNat} {(bitLength v).toNat} {(Bits64.coverDepth v).toNat}"

def modelNav (v : UInt64) : String :=
  s!"ok {(left v).toNat} {(right v).toNat} {(parent v).toNat} {b01 (isLeft v)} {b01 (isRoot v)} " ++
  s!"{b01 (isClose v)} {(depth v).toNat} {(anchor v).toNat} {(subtree v).toNat}"

def modelIter (v : UInt64) : String :=
  let (it, d) := bitIter v
  let rs := it.nexts (d.toNat + 2)
  rs.foldl (fun acc r => acc ++ " " ++ b01 r.1 ++ b01 r.2) s!"ok {d.toNat}"

def modelEnc (v : UInt64) : String :=
  match littleEndian v, bigEndian v, leftAlignedBigEndian v with
  | .ok le, .ok be, .ok (la, bl) => s!"ok {bytesTok le} {bytesTok be} {bytesTok la} {bl.toNat}"
  | _, _, _ => "panic"

def modelTo (i : UInt64) (d : UInt8) : String :=
  match toGindex64 i d with
  | .ok g => s!"ok {g.toNat}"
  | .error .err => "err"
  | .error .panic => "panic"

/-! ### mathematical definitions on `Nat` (independent of the model) -/

/-- least `d` with `n ≤ 2^d` -/
def ceilLog2 (n : Nat) : Nat := ((List.range 65).find? fun d => n ≤ 2 ^ d).getD 65

/-- path of a generalized index: bits after the leading one, most significant first -/
def pathOf (g : Nat) : List Bool := (List.range (Nat.log2 g)).reverse.map g.testBit

/-- generalized index of a path -/
def ofPath (p : List Bool) : Nat := p.foldl (fun a b => 2 * a + (if b then 1 else 0)) 1

/-- minimal little-endian bytes of `n` (empty for 0) -/
def minLE (n : Nat) : Bytes := go 9 n
where
  go : Nat → Nat → Bytes
    | 0, _ => []
    | fuel+1, n => if n == 0 then [] else UInt8.ofNat (n % 256) :: go fuel (n / 256)

/-- big-endian encoding in exactly `k` bytes -/
def beK (k n : Nat) : Bytes := (leBytes k n).reverse

/-- compare token lists; `*` in the expectation = not constrained by the property -/
def cmpToks (what : String) (impl spec : List String) : String :=
  if impl.length != spec.length then s!"FAIL:{what}:shape:impl={" ".intercalate impl}" else
  let bad := (impl.zip spec).zipIdx.filter fun ((a, b), _) => b != "*" && a != b
  match bad with
  | [] => "ok"
  | ((a, b), k) :: _ => s!"FAIL:{what}:field{k}:impl={a}:spec={b}"

def propBits (n : Nat) (impl : List String) : String :=
  let bi := if n == 0 then 0 else Nat.log2 n
  let bl := if n == 0 then 0 else Nat.log2 n + 1
  cmpToks "bits" impl ["ok", toString bi, toString bl, toString (ceilLog2 n)]

def propNav (g : Nat) (impl : List String) : String :=
  if g == 0 then (if impl.head? == some "ok" then "ok" else "FAIL:nav:not-ok-on-0") else
  let d := Nat.log2 g
  let child (c : Nat) : String := if c < 2 ^ 64 then toString c else "*"
  let p := pathOf g
  cmpToks "nav" impl
    ["ok", child (2 * g), child (2 * g + 1), toString (g / 2),
     (if g ≥ 2 then b01 (p.head? == some false) else "*"),
     b01 (g == 1), b01 (g ≤ 3), toString d, toString (2 ^ d),
     (if g ≥ 2 then toString (ofPath p.tail) else "*")]

def propIter (g : Nat) (impl : List String) : String :=
  if g == 0 then (if impl.head? == some "ok" then "ok" else "FAIL:iter:not-ok-on-0") else
  let p := pathOf g
  -- after the path: ok must be false, `right` is unspecified
  match impl with
  | "ok" :: d :: calls =>
    if d != toString p.length then s!"FAIL:iter:depth:impl={d}:spec={p.length}" else
    if calls.length != p.length + 2 then "FAIL:iter:shape" else
    let live := calls.take p.length
    let dead := calls.drop p.length
    if live != p.map (fun b => b01 b ++ "1") then s!"FAIL:iter:bits:impl={" ".intercalate live}" else
    if dead.any (fun c => !(c == "00" || c == "10")) then s!"FAIL:iter:ok-after-end:{" ".intercalate dead}" else
    "ok"
  | _ => s!"FAIL:iter:impl={" ".intercalate impl}"

def propEnc (g : Nat) (impl : List String) : String :=
  if g == 0 then cmpToks "enc" impl ["ok", "nil", "nil", "nil", "0"] else
  let le := minLE g
  let bl := Nat.log2 g + 1
  let k := (bl + 7) / 8
  cmpToks "enc" impl ["ok", xhex le, xhex le.reverse, xhex (beK k (g * 2 ^ (8 * k - bl))), toString bl]

def propTo (i d : Nat) (impl : List String) : String :=
  let spec := if d < 64 ∧ i < 2 ^ d then ["ok", toString (2 ^ d + i)] else ["err"]
  cmpToks "to" impl spec

def handle (name : String) (args impl : List String) : Option (Except String (String × String)) :=
  let one (f : UInt64 → String) (p : Nat → List String → String) : Option (Except String (String × String)) :=
    some (match args with
      | [t] => do let v ← u64Tok t; pure (f v, p v.toNat impl)
      | _ => throw s!"{name}: expected one argument")
  match name with
  | "g64.bits" => one modelBits propBits
  | "g64.nav" => one modelNav propNav
  | "g64.iter" => one modelIter propIter
  | "g64.enc" => one modelEnc propEnc
  | "g64.to" =>
    some (match args with
      | [ti, td] => do
        let i ← u64Tok ti
        match td.toNat? with
        | some d =>
          if d < 256 then pure (modelTo i (UInt8.ofNat d), propTo i.toNat d impl)
          else throw s!"g64.to: depth out of range {td}"
        | none => throw s!"bad number {td}"
      | _ => throw "g64.to: expected two arguments")
  | _ => none

end Driver.OpsBits
