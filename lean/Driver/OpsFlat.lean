/-
Op family `fl.*` (properties C09, C10): the flat codec.  Mirror of harness/ops_flat.go.

  fl.enc T V          -> ok <xbytes> <ByteLength> <FixedLength> | err | panic
  fl.dec <prior> T V  -> ok <value read back> | err | panic        prior = fresh | short | long
  fl.raw T <xbytes>   -> ok <xre-encoded> <value> | err | panic

Model observation: `ZtypV.Flat.flatEncode / flatByteLength / flatFixedLength / flatDecode`
(Model/Flat.lean).  PROP verdicts against Spec.lean:
  fl.enc: bytes = `serialize T V`, ByteLength = their length, FixedLength = that length for
          fixed-size types and 0 otherwise;
  fl.dec: the value read back is V, whatever the destination held before;
  fl.raw: never `panic`; `ok` ⇒ the value is well-typed, `serialize T value` = input and the
          re-encoding = input.
-/
import Driver.Proto
import ZtypV.Model.Flat
namespace Driver.OpsFlat
open ZtypV ZtypV.View ZtypV.Flat Driver

/-! ### the deterministic prior values (mirror of flatChg / flatShort / flatLong in ops_flat.go) -/

def flatChg : Ty → Val → Val
  | .uint b, .num n => .num ((n + 1) % 256 ^ b)
  | .bool, .bool b => .bool (!b)
  | .bytesN _, .bytes bs => .bytes (bs.map (· + 1))
  | .bitvector _, .bits bs => .bits (bs.map (!·))
  | _, v => v

def flatLongTail : List Bool := [true, false, true, true, false, false, true, false, true]

partial def flatShort : Ty → Val → Val
  | .bitlist _, _ => .bits []
  | .vector e _, .seq vs => .seq (vs.map (flatShort e))
  | .list _ _, _ => .seq []
  | .container fs, .seq vs => .seq ((fs.zip vs).map fun (t, v) => flatShort t v)
  | .union hn opts, _ => defaultVal (.union hn opts)
  | t, v => flatChg t v

partial def flatLong : Ty → Val → Val
  | .bitlist lim, .bits bs => .bits ((bs.map (!·) ++ bs ++ flatLongTail).take lim)
  | .vector e _, .seq vs => .seq (vs.map (flatLong e))
  | .list e lim, .seq vs =>
    let vs' := vs.map (flatLong e)
    .seq ((vs' ++ vs' ++ [flatLong e (defaultVal e)]).take lim)
  | .container fs, .seq vs => .seq ((fs.zip vs).map fun (t, v) => flatLong t v)
  | .union hn opts, .union sel v =>
    match v with
    | .none => .union sel .none
    | _ =>
      match unionOpt hn opts sel with
      | some t => .union sel (flatLong t v)
      | Option.none => .union sel v
  | t, v => flatChg t v

/-! ### model observations -/

def errClass : Err → String
  | .panic => "panic"
  | _ => "err"

def modelEnc (args : List String) : Except String String := do
  let (t, rest) ← runP ty args
  let (v, _) ← runP val rest
  match flatEncode t v with
  | .error e => return errClass e
  | .ok bs => return s!"ok {xhex bs} {flatByteLength t v} {flatFixedLength t}"

/-- the destination state before the decode of V, as the model sees it: the value it holds -/
def priorOf (prior : String) (t : Ty) (v : Val) : Except String (R Val) := do
  match prior with
  | "fresh" => return .ok Val.none
  | "short" => let p := flatShort t v; return flatDecodeTop t Val.none (serialize t p)
  | "long" => let p := flatLong t v; return flatDecodeTop t Val.none (serialize t p)
  | _ => throw s!"bad prior {prior}"

def modelDec (args : List String) : Except String String := do
  match args with
  | prior :: rest =>
    let (t, rest) ← runP ty rest
    let (v, _) ← runP val rest
    match (← priorOf prior t v) with
    | .error e => return errClass e
    | .ok p =>
      match flatDecodeTop t p (serialize t v) with
      | .error e => return errClass e
      | .ok out => return s!"ok {showVal out}"
  | _ => throw "bad fl.dec args"

def modelRaw (args : List String) : Except String String := do
  let (t, rest) ← runP ty args
  let (bs, _) ← runP hexTok rest
  match flatDecodeTop t Val.none bs with
  | .error e => return errClass e
  | .ok v =>
    match flatEncode t v with
    | .error .panic => return "panic"
    | .error _ => return "ok reser-err"
    | .ok out => return s!"ok {xhex out} {showVal v}"

/-! ### PROP verdicts -/

def propEnc (args impl : List String) : Except String String := do
  let (t, rest) ← runP ty args
  let (v, _) ← runP val rest
  if !(hasType t v) then return "FAIL:generator-produced-ill-typed-value"
  let bs := serialize t v
  let fix := if t.isFixed then bs.length else 0
  let spec := s!"ok {xhex bs} {bs.length} {fix}"
  let got := " ".intercalate impl
  return if got == spec then "ok" else s!"FAIL:encoding:impl={got}:spec={spec}"

def propDec (args impl : List String) : Except String String := do
  match args with
  | _ :: rest =>
    let (t, rest) ← runP ty rest
    let (v, _) ← runP val rest
    if !(hasType t v) then return "FAIL:generator-produced-ill-typed-value"
    let spec := s!"ok {showVal v}"
    let got := " ".intercalate impl
    return if got == spec then "ok" else s!"FAIL:roundtrip:impl={got}"
  | _ => throw "bad fl.dec args"

def propRaw (args impl : List String) : Except String String := do
  let (t, rest) ← runP ty args
  let (bs, _) ← runP hexTok rest
  -- the harness decodes into a fresh and into a recycled destination and appends the second
  -- observation only if it differs
  if impl.any (fun t => t.startsWith "recycled:") then
    return "FAIL:decoding-depends-on-what-the-destination-held"
  match impl with
  | ["err"] => return "ok"
  | ["panic"] => return "FAIL:panic"
  | "ok" :: re :: vtoks =>
    if re != xhex bs then return s!"FAIL:reencoding-differs:{re}"
    match runP val vtoks with
    | .error _ => return "FAIL:accepted-but-value-unreadable"
    | .ok (v, _) =>
      if !(hasType t v) then return "FAIL:accepted-ill-typed-value"
      if serialize t v != bs then return "FAIL:accepted-noncanonical"
      return "ok"
  | _ => return "FAIL:unexpected-observation"

def handle (name : String) (args impl : List String) : Option (Except String (String × String)) :=
  let both (m p : Except String String) : Option (Except String (String × String)) :=
    some (do let mv ← m; let pv ← p; pure (mv, pv))
  match name with
  | "fl.enc" => both (modelEnc args) (propEnc args impl)
  | "fl.dec" => both (modelDec args) (propDec args impl)
  | "fl.raw" => both (modelRaw args) (propRaw args impl)
  | _ => none

end Driver.OpsFlat
