/-
Op family `cv.*` (property C19): text/JSON number and hex conversions.

For every op the handler returns
* the model observation: what the Lean model of the Go code (ZtypV.Model.Conv, parts A+B)
  computes, printed in the same canonical form as the Go harness, and
* the PROP verdict: the implementation's observation judged against the specification
  vocabulary (part C of the model file: `denotes`, `denotesInt`, `unquote`, `unprefix`,
  `hexDenotes`), which is written from the Go literal grammar and not from the parsers.
-/
import Driver.Proto
import ZtypV.Model.Conv
namespace Driver.OpsConv
open ZtypV ZtypV.Conv Driver

def textTok (t : String) : Except String Text :=
  match t.toList with
  | 'x' :: rest =>
    match parseHexChars rest with
    | some b => pure b
    | none => throw s!"bad text token {t}"
  | _ => throw s!"bad text token {t}"

def numTok (t : String) : Except String Nat :=
  match t.toNat? with
  | some n => pure n
  | none => throw s!"bad number {t}"

def widthTok (t : String) : Except String Nat := do
  let w ← numTok t
  if w = 8 ∨ w = 16 ∨ w = 32 ∨ w = 64 ∨ w = 256 then pure w else throw s!"bad width {t}"

def showNum : Res Nat → String
  | .ok n => s!"ok {n}"
  | .err => "err"
  | .panic => "panic"

def showBytes : Res Bytes → String
  | .ok b => "ok " ++ xhex b
  | .err => "err"
  | .panic => "panic"

def verdictEq (what : String) (impl spec : String) : String :=
  if impl == spec then "ok" else s!"FAIL:{what}:impl={impl}:spec={spec}"

/-- what the property demands of unmarshalling `text` into `w` bits:
the denoted number if there is one and it fits, otherwise failure -/
def specUnmarshal (w : Nat) (json : Bool) (text : Text) : String :=
  let inner : Option Text := if json then unquote text else some text
  match inner with
  | none => "err"
  | some s =>
    if w = 256 then
      match denotesInt s with
      | some v => if 0 ≤ v ∧ v < 2^256 then s!"ok {v.toNat}" else "err"
      | none => "err"
    else
      match denotes s with
      | some n => if n < 2^w then s!"ok {n}" else "err"
      | none => "err"

/-- marshalled text must denote the number (after removing the optional quotes of the JSON form) -/
def specMarshalOK (json : Bool) (n : Nat) (implText : Text) : Bool :=
  let inner : Option Text := if json then unquote implText else some implText
  match inner with
  | none => false
  | some s => denotes s == some n

def opUnmarshal (json : Bool) (args impl : List String) : Except String (String × String) := do
  match args with
  | [wt, tt] =>
    let w ← widthTok wt
    let text ← textTok tt
    let model := showNum (if json then uintUnmarshalJSON w text else uintUnmarshalText w text)
    let spec := specUnmarshal w json text
    return (model, verdictEq "unmarshal" (" ".intercalate impl) spec)
  | _ => throw "bad args"

def opMarshal (json : Bool) (args impl : List String) : Except String (String × String) := do
  match args with
  | [wt, nt] =>
    let w ← widthTok wt
    let n ← numTok nt
    if n ≥ 2^w then throw "number does not fit"
    let t := if json then uintMarshalJSON w n else uintMarshalText w n
    let model := "ok " ++ xhex t
    let verdict :=
      match impl with
      | ["ok", it] =>
        match textTok it with
        | .ok itext => if specMarshalOK json n itext then "ok" else s!"FAIL:marshalled-text-does-not-denote-{n}"
        | .error _ => "FAIL:unreadable-observation"
      | _ => "FAIL:marshal-failed"
    return (model, verdict)
  | _ => throw "bad args"

def opRt (args impl : List String) : Except String (String × String) := do
  match args with
  | [wt, nt] =>
    let w ← widthTok wt
    let n ← numTok nt
    if n ≥ 2^w then throw "number does not fit"
    let rj := uintUnmarshalJSON w (uintMarshalJSON w n)
    let rt := uintUnmarshalText w (uintMarshalText w n)
    let model := match rj, rt with
      | .ok a, .ok b => s!"ok {a} {b}"
      | .panic, _ => "panic"
      | _, .panic => "panic"
      | _, _ => "err"
    return (model, verdictEq "roundtrip" (" ".intercalate impl) s!"ok {n} {n}")
  | _ => throw "bad args"

/-- fixed-size hex: accepted iff the unprefixed text has exactly 2·len characters, all hex -/
def specFixhex (dstLen : Nat) (text : Text) : String :=
  let t := unprefix text
  if t.length = 2 * dstLen then
    match hexDenotes t with
    | some bs => "ok " ++ xhex bs
    | none => "err"
  else "err"

def specDynhex (text : Text) : String :=
  match hexDenotes (unprefix text) with
  | some bs => "ok " ++ xhex bs
  | none => "err"

def opFixhex (args impl : List String) : Except String (String × String) := do
  match args with
  | [lt, tt] =>
    let n ← numTok lt
    let text ← textTok tt
    return (showBytes (fixedBytesUnmarshalText n text), verdictEq "fixhex" (" ".intercalate impl) (specFixhex n text))
  | _ => throw "bad args"

def opDynhex (args impl : List String) : Except String (String × String) := do
  match args with
  | [tt] =>
    let text ← textTok tt
    return (showBytes (dynamicBytesUnmarshalText text), verdictEq "dynhex" (" ".intercalate impl) (specDynhex text))
  | _ => throw "bad args"

def showText : Res Text → String := showBytes

def opBytesm (args impl : List String) : Except String (String × String) := do
  match args with
  | [bt] =>
    let bs ← textTok bt
    let model := showText (bytesMarshalText bs)
    let verdict :=
      match impl with
      | ["ok", it] =>
        match textTok it with
        | .ok itext =>
          -- "0x" followed by exactly the text denoting the bytes
          if itext.take 2 == [0x30, 0x78] && hexDenotes (itext.drop 2) == some bs then "ok"
          else "FAIL:marshalled-hex-does-not-denote-the-bytes"
        | .error _ => "FAIL:unreadable-observation"
      | _ => "FAIL:marshal-failed"
    return (model, verdict)
  | _ => throw "bad args"

def opHexrt (args impl : List String) : Except String (String × String) := do
  match args with
  | [bt] =>
    let bs ← textTok bt
    let model := match bytesMarshalText bs with
      | .ok t => showBytes (fixedBytesUnmarshalText bs.length t)
      | .err => "err"
      | .panic => "panic"
    return (model, verdictEq "hex-roundtrip" (" ".intercalate impl) ("ok " ++ xhex bs))
  | _ => throw "bad args"

def handle (name : String) (args impl : List String) : Option (Except String (String × String)) :=
  match name with
  | "cv.ujson" => some (opUnmarshal true args impl)
  | "cv.utext" => some (opUnmarshal false args impl)
  | "cv.mjson" => some (opMarshal true args impl)
  | "cv.mtext" => some (opMarshal false args impl)
  | "cv.rt" => some (opRt args impl)
  | "cv.fixhex" => some (opFixhex args impl)
  | "cv.dynhex" => some (opDynhex args impl)
  | "cv.bytesm" => some (opBytesm args impl)
  | "cv.hexrt" => some (opHexrt args impl)
  | _ => none

end Driver.OpsConv
