/-
Ops of family `mk.` (property C08): the model of `tree.Merkleize` and of the typed flat
hash-tree-root helpers (`ZtypV/Model/Merkleize.lean`) run on the same inputs as the Go harness
(`harness/ops_merkle.go`).  Model observation = Go observation (`ok <roothex>` | `panic`);
verdict = the implementation's observation equals the Spec root (`merk` / `htr`).
Inputs outside the property (count > limit, malformed bitfields) get verdict `ok`
(correspondence is still checked by the runner).
-/
import Driver.Proto
import ZtypV.Model.Merkleize
namespace Driver.OpsMerkle
open ZtypV ZtypV.Mk Driver

/-- deterministic leaf `i` for a seed; identical formula in harness/ops_merkle.go (`mkLeaf`).
    seed 0 = all-zero chunks. -/
def mkLeaf (seed i : Nat) : Root :=
  if seed = 0 then z0
  else (List.range 32).map fun k =>
    let x := (seed * 2654435761 + i * 40503 + k * 131) % 2 ^ 64
    UInt8.ofNat ((x / 32) % 256)

def obs (r : Option Root) : String :=
  match r with
  | some x => "ok " ++ hex x
  | none => "panic"

def verdict (inDomain : Bool) (impl : List String) (spec : Root) : String :=
  if !inDomain then "ok"
  else
    let i := " ".intercalate impl
    let s := "ok " ++ hex spec
    if i == s then "ok" else s!"FAIL:root:impl={i}:spec={s}"

/-- `k` then `k` tokens, each `x<hex>` (a root) or `_` (nil) -/
def rootsOpt : P (List (Option Root)) := do
  let k ← num
  let mut rs := #[]
  for _ in [0:k] do
    let t ← next
    if t == "_" then rs := rs.push none
    else match parseHex t with
      | some b => rs := rs.push (some b)
      | none => throw s!"bad root {t}"
  pure rs.toList

def nums : P (List Nat) := do
  let k ← num
  let mut ns := #[]
  for _ in [0:k] do ns := ns.push (← num)
  pure ns.toList

def u8Vals (bs : Bytes) : Val := .seq (bs.map fun b => .num b.toNat)

/-- bits of a packed bitfield, least significant first -/
def unpackBits (bs : Bytes) (n : Nat) : List Bool :=
  (List.range n).map fun i => (bs.getD (i / 8) 0).toNat.testBit (i % 8)

def run (name : String) : P (String × (List String → String)) := do
  let hn ← next
  let h := hashByName hn
  match name with
  | "mk.merkleize" | "mk.chunks" =>
    let count ← num; let limit ← num; let seed ← num
    let leaf := fun i => some (mkLeaf seed i)
    let m := if name == "mk.chunks" then chunksHTR h leaf count limit else merkleize h count limit leaf
    let spec := merk h (coverDepth limit) ((List.range (min count limit)).map (mkLeaf seed))
    pure (obs m, fun impl => verdict (count ≤ limit) impl spec)
  | "mk.fields" =>
    let rs ← rootsOpt
    let rs := rs.map (·.getD z0)
    pure (obs (fieldsHTR h rs), fun impl => verdict true impl (merk h (coverDepth rs.length) rs))
  | "mk.cvec" =>
    let rs ← rootsOpt
    let spec := merk h (coverDepth rs.length) (rs.map (·.getD z0))
    pure (obs (complexVectorHTR h (fun i => (rs[i]?).join) rs.length), fun impl => verdict true impl spec)
  | "mk.clist" =>
    let limit ← num
    let rs ← rootsOpt
    let spec := mixin h (merk h (coverDepth limit) ((rs.take limit).map (·.getD z0))) rs.length
    pure (obs (complexListHTR h (fun i => (rs[i]?).join) rs.length limit),
      fun impl => verdict (rs.length ≤ limit) impl spec)
  | "mk.mixin" =>
    let r ← hexTok; let n ← num
    pure (obs (some (mixinGo h r n)), fun impl => verdict true impl (mixin h r n))
  | "mk.u8vec" =>
    let bs ← hexTok
    pure (obs (uint8VectorHTR h (fun j => bs.getD j 0) bs.length),
      fun impl => verdict true impl (htr h (.vector (.uint 1) bs.length) (u8Vals bs)))
  | "mk.u8list" =>
    let limit ← num; let bs ← hexTok
    pure (obs (uint8ListHTR h (fun j => bs.getD j 0) bs.length limit),
      fun impl => verdict (bs.length ≤ limit) impl (htr h (.list (.uint 1) limit) (u8Vals bs)))
  | "mk.u64vec" =>
    let ns ← nums
    pure (obs (uint64VectorHTR h (fun j => ns.getD j 0) ns.length),
      fun impl => verdict true impl (htr h (.vector (.uint 8) ns.length) (.seq (ns.map .num))))
  | "mk.u64list" =>
    let limit ← num; let ns ← nums
    pure (obs (uint64ListHTR h (fun j => ns.getD j 0) ns.length limit),
      fun impl => verdict (ns.length ≤ limit) impl (htr h (.list (.uint 8) limit) (.seq (ns.map .num))))
  | "mk.bytevec" =>
    let bs ← hexTok
    pure (obs (byteVectorHTR h bs),
      fun impl => verdict true impl (htr h (.vector (.uint 1) bs.length) (u8Vals bs)))
  | "mk.bytelist" =>
    let limit ← num; let bs ← hexTok
    pure (obs (byteListHTR h bs limit),
      fun impl => verdict (bs.length ≤ limit) impl (htr h (.list (.uint 1) limit) (u8Vals bs)))
  | "mk.bitvec" =>
    let n ← num; let bs ← hexTok
    let bits := unpackBits bs n
    -- in the domain: the bytes are exactly the packing of `n` bits (zero padding bits)
    let wf := packBits bits == bs
    pure (obs (bitVectorHTR h bs), fun impl => verdict wf impl (htr h (.bitvector n) (.bits bits)))
  | "mk.bitlist" =>
    let limit ← num; let bs ← hexTok
    let last := bs.getLastD 0
    let n := 8 * (bs.length - 1) + Nat.log2 last.toNat
    let bits := unpackBits bs n
    -- in the domain: non-empty, delimiter present (last byte non-zero), length within the limit
    let wf := !bs.isEmpty && last != 0 && n ≤ limit && packBits (bits ++ [true]) == bs
    pure (obs (bitListHTR h bs limit), fun impl => verdict wf impl (htr h (.bitlist limit) (.bits bits)))
  | "mk.union" =>
    let sel ← num
    let t ← next
    let v ← if t == "_" then pure none else match parseHex t with
      | some b => pure (some b)
      | none => throw s!"bad root {t}"
    pure (obs (some (unionHTR h (UInt8.ofNat sel) v)),
      fun impl => verdict (sel < 256) impl (mixin h (v.getD z0) sel))
  | _ => throw s!"unknown mk op {name}"

/-- `mk.bitlen <xbytes>`: `bitfields.BitlistLen` -/
def runBitlen (args impl : List String) : Except String (String × String) := do
  let (bs, _) ← runP hexTok args
  let m := s!"ok {bitlistLen bs}"
  -- PROP: for a well-formed bitlist the bit length is 8*(len-1) + index of the delimiter
  let last := bs.getLastD 0
  let v := if bs.isEmpty || last == 0 then "ok"
    else
      let spec := s!"ok {8 * (bs.length - 1) + Nat.log2 last.toNat}"
      let i := " ".intercalate impl
      if i == spec then "ok" else s!"FAIL:bitlen:impl={i}:spec={spec}"
  pure (m, v)

def handle (name : String) (args impl : List String) : Option (Except String (String × String)) :=
  if !name.startsWith "mk." then none
  else if name == "mk.bitlen" then some (runBitlen args impl)
  else some (do
    let ((m, vf), _) ← runP (run name) args
    pure (m, vf impl))

end Driver.OpsMerkle
