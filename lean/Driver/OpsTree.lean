/-
Ops of family C11 (prefix `tr.`): tree navigation and subtree filling on explicit trees.

Tree text (prefix notation): `P <l> <r>` | `D x<hex32>` | `Z <k>` (zero summary of height k under
the op's hash).  Dumps use the same notation with zero nodes printed as data leaves.

Model observation = what `ZtypV.Model.Tree/TreeG` compute, printed exactly like harness/ops_tree.go.
Verdict = the laws of C11 evaluated on the implementation's observation with spec-level helper
functions of this file (`firstLeaf`, `branchRoot`, sibling comparison, `merk`), not with `setNode`.
-/
import Driver.Proto
import ZtypV.Model.TreeG
namespace Driver.OpsTree
open ZtypV Driver

/-- zero hashes 0..k as a growing table (index = height), so that a line costs at most
    max-height many hashes however many `Z` tokens it has -/
def growZ (h : HashFn) (tbl : Array Root) (k : Nat) : Array Root := Id.run do
  let mut t := if tbl.isEmpty then #[z0] else tbl
  while t.size ≤ k do
    let top := t.back!
    t := t.push (h top top)
  return t

/-- parser state: remaining tokens and the zero-hash table -/
abbrev PT := StateT (List String × Array Root) (Except String)

def nextT : PT String := do
  match (← get) with
  | ([], _) => throw "out of tokens"
  | (t :: ts, z) => set (ts, z); pure t

partial def treeT (h : HashFn) : PT Node := do
  let t ← nextT
  match t with
  | "P" => do let l ← treeT h; let r ← treeT h; pure (.pair l r)
  | "D" => do
    let x ← nextT
    match parseHex x with
    | some b => if b.length != 32 then throw "data leaf must be 32 bytes" else pure (.leaf b)
    | none => throw s!"bad hex {x}"
  | "Z" | "Y" => do   -- `Y k`: value-equal copy of the zero node (a distinct object in Go; same node in the model)
    let kt ← nextT
    match kt.toNat? with
    | none => throw s!"bad number {kt}"
    | some k =>
      if k > 64 then throw "Z above 64" else
      let (ts, z) ← get
      let z := growZ h z k
      set (ts, z)
      pure (.leaf z[k]!)      -- = zeroNode h k
  | _ => throw s!"bad tree token {t}"

/-- the shared `P`-monad interface: the table lives only for one tree (cheap: trees with big `Z`
    heights are rare and a table is at most 64 hashes) -/
def tree (h : HashFn) : P Node := do
  let toks ← get
  match (treeT h).run (toks, #[]) with
  | .ok (n, (rest, _)) => set rest; pure n
  | .error e => throw e

partial def dumpAcc : Node → List String → List String
  | .leaf r, acc => "D" :: xhex r :: acc
  | .pair l r, acc => "P" :: dumpAcc l (dumpAcc r acc)

def dump (n : Node) : String := " ".intercalate (dumpAcc n [])

def showR {α} (f : α → String) : R α → String
  | .ok a => "ok " ++ f a
  | .error .nav => "err nav"
  | .error .other => "err other"
  | .error .panic => "panic"

def withRoot (h : HashFn) (n : Node) : String := dump n ++ " " ++ hex (n.root h)
def withFlags (h : HashFn) (n : Node) : String := withRoot h n ++ " unchanged=1 shared=1"

/-! ### spec-level helpers for the verdicts -/

/-- the leaf a path runs into strictly before its end, with the number of steps still to go -/
def firstLeaf : Node → List Bool → Option (Root × Nat)
  | _, [] => none
  | .leaf x, p@(_ :: _) => some (x, p.length)
  | .pair l r, b :: bs => firstLeaf (if b then r else l) bs

/-- Merkle-branch computation: `(zero hash of height p.length, root after placing a subtree with
    root x at path p)`; sibling roots are taken from the original tree, positions that do not
    exist there are zero subtrees.  Bottom-up, so linear in the path length. -/
def branchRootZ (h : HashFn) : Option Node → List Bool → Root → Root × Root
  | _, [], x => (z0, x)
  | on, b :: bs, x =>
    let onPath : Option Node := match on with
      | some (.pair l r) => some (if b then r else l)
      | _ => none
    let (z, sub) := branchRootZ h onPath bs x
    let off : Root := match on with
      | some (.pair l r) => if b then l.root h else r.root h
      | _ => z
    (h z z, if b then h off sub else h sub off)

def branchRoot (h : HashFn) (on : Option Node) (p : List Bool) (x : Root) : Root := (branchRootZ h on p x).2

/-- plain descent (specification of "the node at position p") -/
def nodeAt : Node → List Bool → Option Node
  | n, [] => some n
  | .leaf _, _ :: _ => none
  | .pair l r, b :: bs => nodeAt (if b then r else l) bs

/-- `(zero hash of height p.length, every sibling along p in n' is the sibling in n or - where n
    has none and allowZero - the zero node of the remaining height)`, bottom-up -/
def siblingsKeptZ (h : HashFn) (allowZero : Bool) : Option Node → Node → List Bool → Root × Bool
  | _, _, [] => (z0, true)
  | _, .leaf _, _ :: _ => (z0, false)
  | on, .pair l' r', b :: bs =>
    let onPath : Option Node := match on with
      | some (.pair l r) => some (if b then r else l)
      | _ => none
    let (z, ok) := siblingsKeptZ h allowZero onPath (if b then r' else l') bs
    let got := if b then l' else r'
    let here := match on with
      | some (.pair l r) => got == (if b then l else r)
      | _ => allowZero && got == .leaf z
    (h z z, ok && here)

def siblingsKept (h : HashFn) (n n' : Node) (p : List Bool) (allowZero : Bool) : Bool :=
  (siblingsKeptZ h allowZero (some n) n' p).2

def flagsOk (toks : List String) : Bool := toks == ["unchanged=1", "shared=1"]

def parseResult (h : HashFn) (toks : List String) : Except String (Node × String × List String) := do
  let (n', rest) ← runP (tree h) toks
  match rest with
  | r :: fl => pure (n', r, fl)
  | _ => throw "missing root token"

def verdictSet (h : HashFn) (n : Node) (g : UInt64) (e : Bool) (v : Node) (impl : List String) : String :=
  if g == 0 then "ok" else   -- 0 is not a generalized index: no law applies (CORR still compares)
  let p := gbits g.toNat
  let expOk := match firstLeaf n p with
    | none => true
    | some (x, m) => e && x == zh h m
  match impl with
  | ["panic"] => "FAIL:panic"
  | ["err", "nav"] => if expOk then "FAIL:navigation-error-on-existing-position" else "ok"
  | "err" :: _ => "FAIL:wrong-error-class"
  | "ok" :: rest =>
    if !expOk then "FAIL:wrote-through-missing-position" else
    match parseResult h rest with
    | .error m => s!"FAIL:unparsable-result:{m}"
    | .ok (n', r, fl) =>
      if nodeAt n' p != some v then "FAIL:read-back-differs"
      else if !siblingsKept h n n' p e then "FAIL:off-path-node-changed"
      else if r != hex (n'.root h) then "FAIL:reported-root-is-not-root-of-result"
      else if r != hex (branchRoot h (some n) p (v.root h)) then "FAIL:root-differs-from-materialised-write"
      else if !flagsOk fl then "FAIL:original-changed-or-not-shared"
      else "ok"
  | _ => "FAIL:unexpected-observation"

def verdictSum (h : HashFn) (n : Node) (g : UInt64) (impl : List String) : String :=
  if g == 0 then "ok" else
  let p := gbits g.toNat
  match impl, nodeAt n p with
  | ["panic"], _ => "FAIL:panic"
  | ["err", "nav"], none => "ok"
  | ["err", "nav"], some _ => "FAIL:navigation-error-on-existing-position"
  | "err" :: _, _ => "FAIL:wrong-error-class"
  | "ok" :: _, none => "FAIL:summarised-missing-position"
  | "ok" :: rest, some sub =>
    match parseResult h rest with
    | .error m => s!"FAIL:unparsable-result:{m}"
    | .ok (n', r, fl) =>
      if nodeAt n' p != some (.leaf (sub.root h)) then "FAIL:target-is-not-the-summary"
      else if !siblingsKept h n n' p false then "FAIL:off-path-node-changed"
      else if r != hex (n'.root h) then "FAIL:reported-root-is-not-root-of-result"
      else if r != hex (n.root h) then "FAIL:root-not-preserved"
      else if !flagsOk fl then "FAIL:original-changed-or-not-shared"
      else "ok"
  | _, _ => "FAIL:unexpected-observation"

def verdictGet (n : Node) (g : UInt64) (impl : List String) : String :=
  if g == 0 then "ok" else
  let p := gbits g.toNat
  match impl, nodeAt n p with
  | ["panic"], _ => "FAIL:panic"
  | ["err", "nav"], none => "ok"
  | ["err", "nav"], some _ => "FAIL:navigation-error-on-existing-position"
  | "err" :: _, _ => "FAIL:wrong-error-class"
  | "ok" :: _, none => "FAIL:node-returned-for-missing-position"
  | "ok" :: rest, some sub => if " ".intercalate rest == dump sub then "ok" else "FAIL:wrong-node"
  | _, _ => "FAIL:unexpected-observation"

/-- fills: the result's root is the SSZ merkleization of the given roots -/
def verdictFill (h : HashFn) (depth : Nat) (roots : List Root) (inDomain : Bool) (impl : List String) : String :=
  if !inDomain then "ok" else
  match impl with
  | ["panic"] => "FAIL:panic"
  | "err" :: _ => if roots.length > 2 ^ depth then "ok" else "FAIL:spurious-error"
  | "ok" :: rest =>
    if roots.length > 2 ^ depth then "FAIL:accepted-too-many-nodes" else
    match parseResult h rest with
    | .error m => s!"FAIL:unparsable-result:{m}"
    | .ok (n', r, _) =>
      if r != hex (n'.root h) then "FAIL:reported-root-is-not-root-of-result"
      else if r != hex (merk h depth roots) then "FAIL:root-is-not-merkleization"
      else "ok"
  | _ => "FAIL:unexpected-observation"

def opGet (args impl : List String) : Except String (String × String) := do
  match args with
  | hn :: rest =>
    let h := hashByName hn
    let (g, rest) ← runP num rest
    let (n, _) ← runP (tree h) rest
    let g64 := UInt64.ofNat g
    pure (showR dump (getG n g64), verdictGet n g64 impl)
  | _ => throw "bad tr.get args"

def opSet (args impl : List String) : Except String (String × String) := do
  match args with
  | hn :: rest =>
    let h := hashByName hn
    let (g, rest) ← runP num rest
    let (e, rest) ← runP num rest
    let (n, rest) ← runP (tree h) rest
    let (v, _) ← runP (tree h) rest
    let g64 := UInt64.ofNat g
    pure (showR (withFlags h) (setG h n g64 (e == 1) v), verdictSet h n g64 (e == 1) v impl)
  | _ => throw "bad tr.set args"

/-- tr.set2: the same link applied to two values; in the (immutable) model the first result is
    simply unaffected by the second application. PROP = CORR here: the implementation must print
    both results, each the plain setNode result, and the first one unchanged afterwards. -/
def opSet2 (args impl : List String) : Except String (String × String) := do
  match args with
  | hn :: rest =>
    let h := hashByName hn
    let (g, rest) ← runP num rest
    let (e, rest) ← runP num rest
    let (n, rest) ← runP (tree h) rest
    let (v1, rest) ← runP (tree h) rest
    let (v2, _) ← runP (tree h) rest
    let g64 := UInt64.ofNat g
    let r : R String := do
      let r1 ← setG h n g64 (e == 1) v1
      let r2 ← setG h n g64 (e == 1) v2
      pure (withRoot h r1 ++ " " ++ withRoot h r2 ++ " again=" ++ hex (r1.root h))
    let m := showR id r
    pure (m, if g == 0 then "ok" else if " ".intercalate impl == m then "ok" else "FAIL:link-reuse-changed-an-earlier-result-or-differs")
  | _ => throw "bad tr.set2 args"

def opSum (args impl : List String) : Except String (String × String) := do
  match args with
  | hn :: rest =>
    let h := hashByName hn
    let (g, rest) ← runP num rest
    let (n, _) ← runP (tree h) rest
    let g64 := UInt64.ofNat g
    pure (showR (withFlags h) (sumG h n g64), verdictSum h n g64 impl)
  | _ => throw "bad tr.sum args"

def trees (h : HashFn) : Nat → P (List Node)
  | 0 => pure []
  | k + 1 => do let t ← tree h; let ts ← trees h k; pure (t :: ts)

def opFillC (args impl : List String) : Except String (String × String) := do
  match args with
  | hn :: rest =>
    let h := hashByName hn
    let (d, rest) ← runP num rest
    let (k, rest) ← runP num rest
    let (ns, _) ← runP (trees h k) rest
    pure (showR (withRoot h) (fillcG h d ns), verdictFill h d (ns.map (Node.root h)) (d < 64) impl)
  | _ => throw "bad tr.fillc args"

def opFillL (args impl : List String) : Except String (String × String) := do
  match args with
  | hn :: rest =>
    let h := hashByName hn
    let (d, rest) ← runP num rest
    let (len, rest) ← runP num rest
    let (b, _) ← runP (tree h) rest
    -- length 0 is outside the law (the Go code then builds the length-1 tree, see Proofs/Fill)
    let roots := if len ≤ 2 ^ 12 then List.replicate len (b.root h) else List.replicate (2 ^ 12 + 1) (b.root h)
    let inDom := d < 64 && len > 0 && (len ≤ 2 ^ 12 || len > 2 ^ d)
    let verdict :=
      if d < 64 && len > 2 ^ d then (if impl == ["err", "other"] then "ok" else "FAIL:accepted-too-many-nodes")
      else verdictFill h d roots inDom impl
    pure (showR (withRoot h) (filllG h b d len), verdict)
  | _ => throw "bad tr.filll args"

def opFillD (args impl : List String) : Except String (String × String) := do
  let (d, rest) ← runP num args
  let h := hashByName "sha"
  let (b, _) ← runP (tree h) rest
  let verdict :=
    match impl with
    | "ok" :: toks =>
      match runP (tree h) toks with
      | .ok (n', _) =>
        if n'.root h == merk h d (List.replicate (2 ^ d) (b.root h)) then "ok" else "FAIL:root-is-not-merkleization"
      | .error m => s!"FAIL:unparsable-result:{m}"
    | _ => "FAIL:unexpected-observation"
  pure ("ok " ++ dump (fillToDepth b d), verdict)

def opToPath (args impl : List String) : Except String (String × String) := do
  let (ix, rest) ← runP num args
  let (d, _) ← runP num rest
  let spec := if d < 64 && ix < 2 ^ d then s!"ok {2 ^ d + ix}" else "err other"
  let verdict := if " ".intercalate impl == spec then "ok" else s!"FAIL:gindex:spec={spec}"
  pure (showR toString (toGindex ix d), verdict)

def handle (name : String) (args impl : List String) : Option (Except String (String × String)) :=
  match name with
  | "tr.get" => some (opGet args impl)
  | "tr.set" => some (opSet args impl)
  | "tr.sum" => some (opSum args impl)
  | "tr.set2" => some (opSet2 args impl)
  | "tr.fillc" => some (opFillC args impl)
  | "tr.filll" => some (opFillL args impl)
  | "tr.filld" => some (opFillD args impl)
  | "tr.topath" => some (opToPath args impl)
  | _ => none

end Driver.OpsTree
