import Driver.Proto
import Driver.OpsSpec
import Driver.OpsBits
import Driver.OpsSizes
import Driver.OpsBitfields
import Driver.OpsMerkle
import Driver.OpsConv
import Driver.OpsMem
import Driver.OpsMisc
import Driver.OpsTree
import Driver.OpsTree2
import Driver.OpsApi
import Driver.OpsFlat
import Driver.OpsIO
import Driver.OpsBasic
import Driver.OpsHist
open Driver

/-- stateless op families: each returns `none` for ops it does not know -/
def families : List (String → List String → List String → Option (Except String (String × String))) :=
  [ OpsSizes.handle, OpsSpec.handle, OpsBits.handle, OpsBitfields.handle, OpsMem.handle, OpsMisc.handle, OpsMerkle.handle, OpsConv.handle, OpsTree.handle, OpsTree2.handle, OpsFlat.handle, OpsIO.handle, OpsBasic.handle, OpsApi.handle ]

/-- dispatch one line `op args… => impl observation…`: returns `<model> ## <verdict>` -/
def handleLine (hs : OpsHist.HState) (line : String) : OpsHist.HState × String :=
  let (op, impl) := splitLine line
  match op with
  | [] => (hs, "- ## skip")
  | name :: args =>
    if name.startsWith "#" then (hs, "- ## skip") else
    match OpsHist.handle hs name args impl with
    | some (Except.ok (hs', m, v)) => (hs', s!"{m} ## {v}")
    | some (Except.error e) => (hs, s!"- ## ERROR:{e}")
    | none =>
    (hs,
    -- generic rule of the harness (`retainCheck`): a byte slice handed out by an earlier call was
    -- overwritten by this one
    if impl.getLast? == some "earlier-result-overwritten" then "- ## FAIL:a-result-handed-out-by-an-earlier-call-was-overwritten" else
    let r : Option (Except String (String × String)) := families.findSome? (fun f => f name args impl)
    match r with
    | some (Except.ok (m, v)) => s!"{m} ## {v}"
    | some (Except.error e) => s!"- ## ERROR:{e}"
    | none => s!"- ## ERROR:unknown-op {name}")

partial def loop (h : IO.FS.Stream) (out : IO.FS.Stream) (hs : OpsHist.HState) : IO Unit := do
  let line ← h.getLine
  if line.isEmpty then return ()
  let (hs', res) := handleLine hs (line.trimAsciiEnd.toString)
  out.putStrLn res
  loop h out hs'

def main : IO Unit := do
  let stdin ← IO.getStdin
  let stdout ← IO.getStdout
  loop stdin stdout {}
