import Driver.Proto
import Driver.OpsSpec
open Driver

/-- dispatch one line: returns `<model> ## <verdict>` -/
def handleLine (line : String) : String :=
  let (op, impl) := splitLine line
  match op with
  | [] => "- ## skip"
  | name :: args =>
    let prop : Except String String :=
      match name with
      | "htr" => OpsSpec.propHtr args impl
      | "ser" => OpsSpec.propSer args impl
      | "rt" => OpsSpec.propRt args impl
      | "dec" => OpsSpec.propDec args impl
      | "sizes" => OpsSpec.propSizes args impl
      | _ => .error s!"unknown-op {name}"
    match prop with
    | .ok v => s!"- ## {v}"
    | .error e => s!"- ## ERROR:{e}"

partial def loop (h : IO.FS.Stream) (out : IO.FS.Stream) : IO Unit := do
  let line ← h.getLine
  if line.isEmpty then return ()
  out.putStrLn (handleLine (line.dropRightWhile (· == '\n')))
  loop h out

def main : IO Unit := do
  let stdin ← IO.getStdin
  let stdout ← IO.getStdout
  loop stdin stdout
