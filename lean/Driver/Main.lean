import Driver.Proto
import Driver.OpsSpec
import Driver.OpsBits
open Driver

/-- stateless op families: each returns `none` for ops it does not know -/
def families : List (String → List String → List String → Option (Except String (String × String))) :=
  [ OpsSpec.handle, OpsBits.handle ]

/-- dispatch one line `op args… => impl observation…`: returns `<model> ## <verdict>` -/
def handleLine (line : String) : String :=
  let (op, impl) := splitLine line
  match op with
  | [] => "- ## skip"
  | name :: args =>
    if name.startsWith "#" then "- ## skip" else
    let r : Option (Except String (String × String)) := families.findSome? (fun f => f name args impl)
    match r with
    | some (Except.ok (m, v)) => s!"{m} ## {v}"
    | some (Except.error e) => s!"- ## ERROR:{e}"
    | none => s!"- ## ERROR:unknown-op {name}"

partial def loop (h : IO.FS.Stream) (out : IO.FS.Stream) : IO Unit := do
  let line ← h.getLine
  if line.isEmpty then return ()
  out.putStrLn (handleLine (line.trimAsciiEnd.toString))
  loop h out

def main : IO Unit := do
  let stdin ← IO.getStdin
  let stdout ← IO.getStdout
  loop stdin stdout
