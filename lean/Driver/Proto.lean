/-
Line-protocol parsing/printing for the model driver (prefix notation, whitespace-separated tokens).
Mirror of harness/proto.go.
-/
import ZtypV.Spec
import ZtypV.Sha256
namespace Driver
open ZtypV

abbrev P := StateT (List String) (Except String)

def next : P String := do
  match (← get) with
  | [] => throw "out of tokens"
  | t :: ts => set ts; pure t

def peek? : P (Option String) := do
  match (← get) with
  | [] => pure none
  | t :: _ => pure (some t)

def num : P Nat := do
  let t ← next
  match t.toNat? with
  | some n => pure n
  | none => throw s!"bad number {t}"

def hexVal (c : Char) : Option Nat :=
  if '0' ≤ c ∧ c ≤ '9' then some (c.toNat - 48)
  else if 'a' ≤ c ∧ c ≤ 'f' then some (c.toNat - 87)
  else if 'A' ≤ c ∧ c ≤ 'F' then some (c.toNat - 55)
  else none

def parseHexChars : List Char → Option Bytes
  | [] => some []
  | a :: b :: rest => do
    let x ← hexVal a
    let y ← hexVal b
    let r ← parseHexChars rest
    pure (UInt8.ofNat (16 * x + y) :: r)
  | _ => none

/-- `x<hex>` or bare hex -/
def parseHex (s : String) : Option Bytes :=
  let cs := s.toList
  match cs with
  | 'x' :: rest => parseHexChars rest
  | _ => parseHexChars cs

def hexTok : P Bytes := do
  let t ← next
  match parseHex t with
  | some b => pure b
  | none => throw s!"bad hex {t}"

partial def ty : P Ty := do
  let t ← next
  match t with
  | "u8" => pure (.uint 1)
  | "u16" => pure (.uint 2)
  | "u32" => pure (.uint 4)
  | "u64" => pure (.uint 8)
  | "u256" => pure (.uint 32)
  | "bool" => pure .bool
  | "B" => return .bytesN (← num)
  | "BV" => return .bitvector (← num)
  | "BL" => return .bitlist (← num)
  | "V" => do let n ← num; let e ← ty; pure (.vector e n)
  | "L" => do let n ← num; let e ← ty; pure (.list e n)
  | "C" => do
    let k ← num
    let mut fs := #[]
    for _ in [0:k] do fs := fs.push (← ty)
    pure (.container fs.toList)
  | "U" => do
    let k ← num
    let mut hasNone := false
    let mut fs := #[]
    for i in [0:k] do
      if i == 0 && (← peek?) == some "N" then
        let _ ← next
        hasNone := true
      else fs := fs.push (← ty)
    pure (.union hasNone fs.toList)
  | _ => throw s!"bad type token {t}"

partial def val : P Val := do
  let t ← next
  if t == "t" then return .bool true
  if t == "f" then return .bool false
  if t == "_" then return .none
  if t == "s" then
    let k ← num
    let mut vs := #[]
    for _ in [0:k] do vs := vs.push (← val)
    return .seq vs.toList
  if t == "o" then
    let sel ← num
    let v ← val
    return .union sel v
  match t.toList with
  | 'n' :: rest =>
    match (String.ofList rest).toNat? with
    | some n => return .num n
    | none => throw s!"bad num {t}"
  | 'x' :: rest =>
    match parseHexChars rest with
    | some b => return .bytes b
    | none => throw s!"bad hex {t}"
  | 'b' :: rest => return .bits (rest.map (· == '1'))
  | _ => throw s!"bad value token {t}"

def hex (bs : Bytes) : String := Sha.toHex bs
def xhex (bs : Bytes) : String := "x" ++ Sha.toHex bs

partial def showVal : Val → String
  | .num n => s!"n{n}"
  | .bool true => "t"
  | .bool false => "f"
  | .bytes bs => xhex bs
  | .bits bs => "b" ++ String.ofList (bs.map fun b => if b then '1' else '0')
  | .seq vs => vs.foldl (fun acc v => acc ++ " " ++ showVal v) s!"s {vs.length}"
  | .none => "_"
  | .union sel v => s!"o {sel} {showVal v}"

partial def showTy : Ty → String
  | .uint b => s!"u{8*b}"
  | .bool => "bool"
  | .bytesN n => s!"B {n}"
  | .bitvector n => s!"BV {n}"
  | .bitlist n => s!"BL {n}"
  | .vector e n => s!"V {n} {showTy e}"
  | .list e n => s!"L {n} {showTy e}"
  | .container fs => fs.foldl (fun acc f => acc ++ " " ++ showTy f) s!"C {fs.length}"
  | .union hn fs =>
    fs.foldl (fun acc f => acc ++ " " ++ showTy f)
      (s!"U {fs.length + (if hn then 1 else 0)}" ++ (if hn then " N" else ""))

def hashByName (n : String) : HashFn := if n == "alt" then Sha.altHash else Sha.sha256Pair

/-- split an input line `op args… => impl observation…` -/
def splitLine (line : String) : List String × List String :=
  let toks := (line.splitOn " ").filter (· ≠ "")
  let (a, b) := toks.span (· ≠ "=>")
  (a, b.drop 1)

/-- run a parser on tokens -/
def runP {α} (p : P α) (toks : List String) : Except String (α × List String) := p.run toks

end Driver
