/-
Op family `bf.*` (property C18): the free helper functions of Go package `bitfields`.

  bf.bitindex <byte>                 -> ok <n>
  bf.blcheck x<hex> <limit>          -> ok | err
  bf.bvcheck x<hex> <n>              -> ok | err
  bf.checks x<hex> <lo> <hi>         -> ok <bitmap> <bitmap>   (BitlistCheck / BitvectorCheck for every
                                        limit resp. length lo..hi, one char per value, 1 = accepted)
  bf.blchecklen <byteLen> <limit>    -> ok | err
  bf.blchecklast <byte> <limit>      -> ok | err
  bf.bvchecklen <byteLen> <n>        -> ok | err
  bf.bvchecklast <byte> <n>          -> ok | err
  bf.bllen x<hex>                    -> ok <n>
  bf.get x<hex> <i>                  -> ok <0|1> | panic
  bf.set x<hex> <i> <0|1>            -> ok x<hex> | panic
  bf.getall x<hex> <n>               -> ok <one char per index 0..n-1: 0 | 1 | p(anic)>
  bf.setall x<hex> <n> <0|1>         -> ok <SetBit result per index 0..n-1, comma separated: x<hex> | p>
  bf.str x<hex> <n>                  -> ok <BitlistLen> <BitlistOnesCount> <BitvectorOnesCount> <IsZeroBitlist>
                                           <getall n> <setall n 0> <setall n 1>      (all per-string helpers)
  bf.coversrow x<hh>                 -> ok <256 chars: Covers(a, [v]) for v = 0..255: 0 | 1 | e(rr)>
  bf.ones x<hex>                     -> ok <BitlistOnesCount> <BitvectorOnesCount>
  bf.zero x<hex>                     -> ok <0|1>
  bf.covers x<hexa> x<hexb>          -> ok <0|1> | err

Model observation: `ZtypV.Bitfields.*` (the functions the C18 theorems are about).
Verdict: what the unpacked bit sequence implies, computed on `List Bool` with `packBits`
only (no model function is used on the verdict side).  Where the property says nothing
(invalid bitlist passed to len/ones/zero, bit index outside the slice) the verdict is `ok`.
-/
import Driver.Proto
import ZtypV.Model.Bitfields
namespace Driver.OpsBitfields
open ZtypV Driver
open ZtypV.Bitfields

/-! ### printing model outcomes -/

def showUnit : R Unit → String
  | .ok () => "ok"
  | .error .err => "err"
  | .error .panic => "panic"

def bit01 (b : Bool) : String := if b then "1" else "0"

def showBool : R Bool → String
  | .ok b => "ok " ++ bit01 b
  | .error .err => "err"
  | .error .panic => "panic"

def showU64 : R UInt64 → String
  | .ok n => s!"ok {n.toNat}"
  | .error .err => "err"
  | .error .panic => "panic"

def showBytes : R Bytes → String
  | .ok b => "ok " ++ xhex b
  | .error .err => "err"
  | .error .panic => "panic"

def isOk {α} : R α → Bool
  | .ok _ => true
  | .error _ => false

/-! ### specification side: bit sequences only -/

/-- all `8·len` bits of a byte string, least significant bit of each byte first -/
def specUnpack (b : Bytes) : List Bool :=
  b.flatMap fun x => (List.range 8).map fun j => x.toNat / 2 ^ j % 2 == 1

/-- index of the last `true`, if any -/
def lastTrue (l : List Bool) : Option Nat :=
  (l.zipIdx.foldl (fun acc p => if p.1 then some p.2 else acc) none)

/-- the bit sequence a byte string (with unpacked bits `u`) encodes as a bitlist (for some
    limit), if it is a spec encoding at all: decode up to the last set bit, re-encode, compare -/
def specBitlistOfU (u : List Bool) (b : Bytes) : Option (List Bool) :=
  match lastTrue u with
  | none => none
  | some k =>
    let bits := u.take k
    if packBits (bits ++ [true]) == b then some bits else none

def specBitlistOf (b : Bytes) : Option (List Bool) := specBitlistOfU (specUnpack b) b

def specBlValid (bl : Option (List Bool)) (lim : Nat) : Bool :=
  match bl with
  | some bits => bits.length ≤ lim
  | none => false

/-- is `b` (with unpacked bits `u`) the spec encoding of some `n`-bit bitvector: decode `n`
    bits, re-encode, compare -/
def specBvValidU (u : List Bool) (b : Bytes) (n : Nat) : Bool :=
  if b.length != (n + 7) / 8 then false else
  let bits := u.take n
  bits.length == n && packBits bits == b

def specBvValid (b : Bytes) (n : Nat) : Bool := specBvValidU (specUnpack b) b n

def verdictEq (what impl spec : String) : String :=
  if impl == spec then "ok" else s!"FAIL:{what}:impl={impl.replace " " "_"}:spec={spec.replace " " "_"}"

def okErr (valid : Bool) : String := if valid then "ok" else "err"

def bitmap (f : Nat → Bool) (lo hi : Nat) : String :=
  String.ofList ((List.range (hi + 1 - lo)).map fun d => if f (lo + d) then '1' else '0')

/-! ### handlers -/

def getCells (b : Bytes) (n : Nat) : String :=
  String.join ((List.range n).map fun i => match getBit b (UInt64.ofNat i) with
    | .ok x => bit01 x
    | .error _ => "p")

def specGetCells (bits : List Bool) (n : Nat) : String :=
  String.join ((List.range n).map fun i => match bits[i]? with
    | some x => bit01 x
    | none => "p")

def setCells (b : Bytes) (n : Nat) (v : Bool) : String :=
  ",".intercalate ((List.range n).map fun i => match setBit b (UInt64.ofNat i) v with
    | .ok r => xhex r
    | .error _ => "p")

def specSetCells (bits : List Bool) (n : Nat) (v : Bool) : String :=
  ",".intercalate ((List.range n).map fun i =>
    if i < bits.length then xhex (packBits (bits.set i v)) else "p")

/-- token-wise comparison, `*` in the spec = not specified by the property -/
def verdictToks (what : String) (impl spec : List String) : String :=
  if impl.length == spec.length && (impl.zip spec).all (fun p => p.2 == "*" || p.1 == p.2) then "ok"
  else s!"FAIL:{what}:impl={"_".intercalate impl}:spec={"_".intercalate spec}"

def u64 (n : Nat) : UInt64 := UInt64.ofNat n
def u8 (n : Nat) : UInt8 := UInt8.ofNat n

def run (name : String) (args : List String) (implS : String) : Except String (String × String) := do
  match name with
  | "bf.bitindex" =>
    let (v, _) ← runP num args
    let m := s!"ok {(bitIndex (u8 v)).toNat}"
    let verdict :=
      match lastTrue (specUnpack [u8 v]) with
      | some k => verdictEq "bitindex" implS s!"ok {k}"
      | none => "ok"
    return (m, verdict)
  | "bf.blcheck" =>
    let (b, rest) ← runP hexTok args
    let (lim, _) ← runP num rest
    let m := showUnit (bitlistCheck b (u64 lim))
    return (m, verdictEq "blcheck" implS (okErr (specBlValid (specBitlistOf b) lim)))
  | "bf.bvcheck" =>
    let (b, rest) ← runP hexTok args
    let (n, _) ← runP num rest
    let m := showUnit (bitvectorCheck b (u64 n))
    return (m, verdictEq "bvcheck" implS (okErr (specBvValid b n)))
  | "bf.checks" =>
    let (b, rest) ← runP hexTok args
    let (lo, rest) ← runP num rest
    let (hi, _) ← runP num rest
    let m := "ok " ++ bitmap (fun l => isOk (bitlistCheck b (u64 l))) lo hi ++ " "
      ++ bitmap (fun n => isOk (bitvectorCheck b (u64 n))) lo hi
    let u := specUnpack b
    let bl := specBitlistOfU u b
    let spec := "ok " ++ bitmap (fun l => specBlValid bl l) lo hi ++ " "
      ++ bitmap (fun n => specBvValidU u b n) lo hi
    return (m, verdictEq "checks" implS spec)
  | "bf.blchecklen" =>
    let (bl, rest) ← runP num args
    let (lim, _) ← runP num rest
    let m := showUnit (bitlistCheckByteLen (u64 bl) (u64 lim))
    -- a bitlist of k ≤ lim bits has k/8+1 bytes
    return (m, verdictEq "blchecklen" implS (okErr (decide (1 ≤ bl ∧ bl ≤ lim / 8 + 1))))
  | "bf.blchecklast" =>
    let (v, rest) ← runP num args
    let (lim, _) ← runP num rest
    let m := showUnit (bitlistCheckLastByte (u8 v) (u64 lim))
    let valid := match lastTrue (specUnpack [u8 v]) with
      | some k => decide (k ≤ lim)
      | none => false
    return (m, verdictEq "blchecklast" implS (okErr valid))
  | "bf.bvchecklen" =>
    let (bl, rest) ← runP num args
    let (n, _) ← runP num rest
    let m := showUnit (bitvectorCheckByteLen (u64 bl) (u64 n))
    return (m, verdictEq "bvchecklen" implS (okErr (decide (bl = (n + 7) / 8))))
  | "bf.bvchecklast" =>
    let (v, rest) ← runP num args
    let (n, _) ← runP num rest
    let m := showUnit (bitvectorCheckLastByte (u8 v) (u64 n))
    -- the last byte of an n-bit vector (n > 0) holds ((n-1) % 8)+1 bits, the rest is padding
    let used := (n - 1) % 8 + 1
    let valid := decide (n ≠ 0) && ((specUnpack [u8 v]).drop used).all (fun x => !x)
    return (m, verdictEq "bvchecklast" implS (okErr valid))
  | "bf.bllen" =>
    let (b, _) ← runP hexTok args
    let m := showU64 (bitlistLen b)
    let verdict := match specBitlistOf b with
      | some bits => verdictEq "bllen" implS s!"ok {bits.length}"
      | none => "ok"
    return (m, verdict)
  | "bf.get" =>
    let (b, rest) ← runP hexTok args
    let (i, _) ← runP num rest
    let m := showBool (getBit b (u64 i))
    let bits := specUnpack b
    let verdict := match bits[i]? with
      | some x => verdictEq "get" implS ("ok " ++ bit01 x)
      | none => "ok"
    return (m, verdict)
  | "bf.set" =>
    let (b, rest) ← runP hexTok args
    let (i, rest) ← runP num rest
    let (v, _) ← runP num rest
    let m := showBytes (setBit b (u64 i) (v != 0))
    let bits := specUnpack b
    let verdict :=
      if i < bits.length then verdictEq "set" implS ("ok " ++ xhex (packBits (bits.set i (v != 0))))
      else "ok"
    return (m, verdict)
  | "bf.getall" =>
    let (b, rest) ← runP hexTok args
    let (n, _) ← runP num rest
    return ("ok " ++ getCells b n, verdictEq "getall" implS ("ok " ++ specGetCells (specUnpack b) n))
  | "bf.setall" =>
    let (b, rest) ← runP hexTok args
    let (n, rest) ← runP num rest
    let (v, _) ← runP num rest
    return ("ok " ++ setCells b n (v != 0),
      verdictEq "setall" implS ("ok " ++ specSetCells (specUnpack b) n (v != 0)))
  | "bf.str" =>
    let (b, rest) ← runP hexTok args
    let (n, _) ← runP num rest
    let m := " ".intercalate ["ok", (match bitlistLen b with | .ok r => toString r.toNat | .error _ => "panic"), toString (bitlistOnesCount b).toNat,
      toString (bitvectorOnesCount b).toNat, bit01 (isZeroBitlist b),
      getCells b n, setCells b n false, setCells b n true]
    let u := specUnpack b
    let blPart := match specBitlistOfU u b with
      | some bits => [toString bits.length, toString (bits.count true)]
      | none => ["*", "*"]
    let zPart := match specBitlistOfU u b with
      | some bits => bit01 (bits.all fun x => !x)
      | none => "*"
    let spec := ["ok"] ++ blPart ++ [toString (u.count true), zPart,
      specGetCells u n, specSetCells u n false, specSetCells u n true]
    return (m, verdictToks "str" (implS.splitOn " ") spec)
  | "bf.coversrow" =>
    let (a, _) ← runP hexTok args
    let cell (v : Nat) : String := match covers a [u8 v] with
      | .ok r => bit01 r
      | .error _ => "e"
    let m := "ok " ++ String.join ((List.range 256).map cell)
    let ua := specUnpack a
    let scell (v : Nat) : String :=
      if a.length != 1 then "e"
      else bit01 ((ua.zip (specUnpack [u8 v])).all fun p => !p.2 || p.1)
    return (m, verdictEq "coversrow" implS ("ok " ++ String.join ((List.range 256).map scell)))
  | "bf.ones" =>
    let (b, _) ← runP hexTok args
    let m := s!"ok {(bitlistOnesCount b).toNat} {(bitvectorOnesCount b).toNat}"
    let bv := (specUnpack b).count true
    let verdict := match specBitlistOf b with
      | some bits => verdictEq "ones" implS s!"ok {bits.count true} {bv}"
      | none =>
        -- only the bitvector count is specified
        match implS.splitOn " " with
        | ["ok", _, x] => if x == toString bv then "ok" else s!"FAIL:bvones:impl={x}:spec={bv}"
        | _ => "FAIL:ones:unexpected-observation"
    return (m, verdict)
  | "bf.zero" =>
    let (b, _) ← runP hexTok args
    let m := "ok " ++ bit01 (isZeroBitlist b)
    let verdict := match specBitlistOf b with
      | some bits => verdictEq "zero" implS ("ok " ++ bit01 (bits.all fun x => !x))
      | none => "ok"
    return (m, verdict)
  | "bf.covers" =>
    let (a, rest) ← runP hexTok args
    let (b, _) ← runP hexTok rest
    let m := showBool (covers a b)
    let spec :=
      if a.length != b.length then "err"
      else "ok " ++ bit01 (((specUnpack a).zip (specUnpack b)).all fun p => !p.2 || p.1)
    return (m, verdictEq "covers" implS spec)
  | _ => throw s!"unknown bf op {name}"

def handle (name : String) (args impl : List String) : Option (Except String (String × String)) :=
  if name.startsWith "bf." then some (run name args (" ".intercalate impl)) else none

end Driver.OpsBitfields
