/-
C20 `mem` / `fl.mem` (bytes allocated by one decode call): PROP only.  The model observation
is `-` (allocator size classes, object headers and the garbage collector are not modelled).
The verdict uses the PROVED bound shape (Props/C20.lean `C20_view`):

   units requested by the model   (decodeC …).2 ≤ costBound t len = 2048·(len + footprint t)·(1 + maxDepth t)
   verdict                        measured bytes ≤ memA · costBound t len

with a calibration factor `memA` (bytes per unit).  Measured on the unchanged /repo (`mem`,
seeds 1..5 quick and seed 1 thorough, 146k ops): runs with ≥ 2000 model units allocate between
0.40 and 1.12 bytes per unit; runs for which the model counts 0 units allocate ≤ 840 bytes (the
top-level reader and the error value, which the model does not count; `costBound ≥ 2048`); the
worst measured-bytes / costBound ratio is 0.049.  `memA = 8` leaves ≥ 7x slack on bytes per
unit and ≥ 160x on the bound, so the check does not false-alarm; a decoder that allocates in
proportion to an offset value or a limit exceeds it by orders of magnitude (checked on a
scratch copy of the library with the `firstOffset ≤ scope` check removed: 16 MiB … 4 GiB for
≤ 13 input bytes).
When the check fails the units computed by the cost model are printed as well.
`fl.mem` (flat decoder, fresh destination): measured bytes ≤ flatA · flatCostBound t len with the
proved `C20_flat` bound `512·(len + 1)·flatFootprint t·(1 + nest t)` (Proofs/FlatCost.lean).  The
measured window contains the caller-side callbacks of the harness (`newFlat` of a list element /
union option, multiplicative in nested vector lengths, where the model charges the constant
`64 + 64·footprint`), so bytes per model unit vary more (0.03 … 15.8 over 120k ops, seeds 1..5
quick + thorough); the worst measured-bytes / flatCostBound ratio is 0.25, `flatA = 8` leaves 32x.
This handler REPLACES the `mem` case of Driver/OpsMisc.lean: place `OpsMem.handle` before
`OpsMisc.handle` in `families`.
-/
import Driver.Proto
import ZtypV.Model.DecodeCost
import ZtypV.Model.FlatCost
namespace Driver.OpsMem
open ZtypV ZtypV.View ZtypV.Flat Driver

/-- bytes per allocation unit (calibrated, see header) -/
def memA : Nat := 8

/-- the allowed allocation of one view decode call -/
def memBound (t : Ty) (len : Nat) : Nat := memA * costBound t len

/-- units requested according to the cost model (any hash function: costs do not depend on it) -/
def modelUnits (t : Ty) (bs : Bytes) : Nat :=
  (decodeC (fun a _ => a) t (DR.new bs bs.length)).2

/-- bytes per allocation unit on the flat side (calibrated, see header) -/
def flatA : Nat := 8

/-- the allowed allocation of one flat decode call: the proved bound `C20_flat`
    (`flatCostBound t len = 512·(len + 1)·flatFootprint t·(1 + nest t)`) times the calibration factor -/
def flatBound (t : Ty) (len : Nat) : Nat := flatA * flatCostBound t len

/-- units requested according to the flat cost model (fresh destination) -/
def flatUnits (t : Ty) (bs : Bytes) : Nat :=
  (flatDecodeC t Val.none (DR.new bs bs.length)).2

/-- calibration aid: with `true` the model-observation field carries `<units>/<bound>` -/
def calib : Bool := false

def handle (name : String) (args impl : List String) : Option (Except String (String × String)) :=
  match name with
  | "mem" => some (do
      let (t, rest) ← runP ty args
      let (bs, _) ← runP hexTok rest
      match impl with
      | ["ok", n, oc] =>
        let alloc := n.toNat?.getD 0
        -- correspondence with the cost twin `decodeC` (the function `C20_view` is about): the measured
        -- allocation stays within memA bytes per unit the twin requests on THIS input, plus a constant
        -- (unchanged tree, 17448 quick ops: at most 0.72 bytes per unit + 824); beyond it the model
        -- observation differs from the implementation's line, i.e. the tie is reported broken
        let twin := memA * modelUnits t bs + 8192
        let obs := if calib then s!"{modelUnits t bs}/{costBound t bs.length}"
          else if alloc ≤ twin || oc == "panic" then "-"
          else s!"ok at-most-{twin}-bytes-by-the-cost-twin {oc}"
        if oc == "panic" then pure (obs, "FAIL:panic")
        else if alloc ≤ memBound t bs.length then pure (obs, "ok")
        else pure (obs, s!"FAIL:allocated-{alloc}-bytes-for-{bs.length}-input-bytes-bound-{memBound t bs.length}-model-units-{modelUnits t bs}")
      | _ => pure ("-", "FAIL:unexpected-observation"))
  | "fl.mem" => some (do
      let (t, rest) ← runP ty args
      let (bs, _) ← runP hexTok rest
      match impl with
      | ["ok", n, oc] =>
        let alloc := n.toNat?.getD 0
        let obs := if calib then s!"{flatUnits t bs}/{flatCostBound t bs.length}" else "-"
        if oc == "panic" then pure (obs, "FAIL:panic")
        else if alloc ≤ flatBound t bs.length then pure (obs, "ok")
        else pure (obs, s!"FAIL:allocated-{alloc}-bytes-for-{bs.length}-input-bytes-bound-{flatBound t bs.length}-model-units-{flatUnits t bs}")
      | _ => pure ("-", "FAIL:unexpected-observation"))
  | "fl.memr" => some (do
      -- recycled destination (slices of the given length / capacity allocated outside the
      -- measured window): recycling may only lower the allocation, the same bound applies
      match args with
      | _ :: _ :: args =>
        let (t, rest) ← runP ty args
        let (bs, _) ← runP hexTok rest
        match impl with
        | ["ok", n, oc] =>
          let alloc := n.toNat?.getD 0
          if oc == "panic" then pure ("-", "FAIL:panic")
          else if alloc ≤ flatBound t bs.length then pure ("-", "ok")
          else pure ("-", s!"FAIL:allocated-{alloc}-bytes-for-{bs.length}-input-bytes-into-a-recycled-destination-bound-{flatBound t bs.length}")
        | _ => pure ("-", "FAIL:unexpected-observation")
      | _ => throw "bad fl.memr args")
  | _ => none

end Driver.OpsMem
