/-
Stateful history family (C04, C05, C06, C07, C12, C17): the Model P object machine
(ZtypV.View.Machine) next to the plain *value machine* (reference semantics of DESIGN §6 C04),
fed the same op lines.  Observation format = harness/ops_hist.go.
-/
import Driver.Proto
import ZtypV.Model.Machine
import ZtypV.Model.Decode
import ZtypV.Model.Iter
namespace Driver.OpsHist
open ZtypV ZtypV.View Driver

/-- value-machine handle: a plain value with an optional (parent, slot) to write back to -/
structure VH where
  ty : Ty
  val : Val
  parent : Option (String × Nat)

structure HState where
  store : Store := #[]
  ids : List (String × Nat) := []          -- handle name → object id (latest binding first)
  vals : List (String × VH) := []          -- value machine
  bound : Option Nat := none               -- C07: allowed hash calls since the last hcount (none = unbounded)
  partialTree : Bool := false              -- C12: some backing has been summarised: errors are allowed, wrong data is not

def sha : HashFn := Sha.sha256Pair

def HState.id? (s : HState) (n : String) : Option Nat := (s.ids.find? (·.1 == n)).map (·.2)
def HState.vh? (s : HState) (n : String) : Option VH := (s.vals.find? (·.1 == n)).map (·.2)
def HState.bind (s : HState) (n : String) (o : VObj) : HState :=
  { s with ids := (n, s.store.size) :: s.ids, store := s.store.push o }
def HState.bindV (s : HState) (n : String) (v : VH) : HState := { s with vals := (n, v) :: s.vals }
def HState.setV (s : HState) (n : String) (v : VH) : HState :=
  { s with vals := s.vals.map fun (k, x) => if k == n then (k, v) else (k, x) }

def errClass : Err → String
  | .panic => "panic"
  | _ => "err"

/-! ### value machine -/

def listSet {α} (xs : List α) (i : Nat) (x : α) : List α := xs.set i x

/-- `Set(i, x)` on a plain value -/
def valSet (t : Ty) (v : Val) (i : Nat) (x : Val) : Option Val :=
  match t, v with
  | .vector _ _, .seq vs | .list _ _, .seq vs | .container _, .seq vs =>
    if i < vs.length then some (.seq (vs.set i x)) else none
  | .bitvector _, .bits bs | .bitlist _, .bits bs =>
    match x with
    | .bool b => if i < bs.length then some (.bits (bs.set i b)) else none
    | _ => none
  | _, _ => none

def valAppend (t : Ty) (v : Val) (x : Val) : Option Val :=
  match t, v with
  | .list _ lim, .seq vs => if vs.length < lim then some (.seq (vs ++ [x])) else none
  | .bitlist lim, .bits bs =>
    match x with
    | .bool b => if bs.length < lim then some (.bits (bs ++ [b])) else none
    | _ => none
  | _, _ => none

def valPop (t : Ty) (v : Val) : Option Val :=
  match t, v with
  | .list _ _, .seq vs => if vs.isEmpty then none else some (.seq vs.dropLast)
  | .bitlist _, .bits bs => if bs.isEmpty then none else some (.bits bs.dropLast)
  | _, _ => none

def valElem (t : Ty) (v : Val) (i : Nat) : Option (Ty × Val) :=
  match t, v with
  | .vector e _, .seq vs | .list e _, .seq vs => vs[i]?.map fun x => (e, x)
  | .container fs, .seq vs => do let ft ← fs[i]?; let x ← vs[i]?; pure (ft, x)
  | .bitvector _, .bits bs | .bitlist _, .bits bs => bs[i]?.map fun b => (.bool, .bool b)
  | _, _ => none

/-- write a changed value back up the (parent, slot) chain; the flag says whether every
    slot on the way still existed (a stale handle whose slot was popped away keeps its own
    new value but the write does not reach the parent: that is reported as an error) -/
partial def writeBack (s : HState) (name : String) : HState × Bool :=
  match s.vh? name with
  | none => (s, true)
  | some vh =>
    match vh.parent with
    | none => (s, true)
    | some (p, slot) =>
      match s.vh? p with
      | none => (s, true)
      | some pv =>
        match valSet pv.ty pv.val slot vh.val with
        | none => (s, false)
        | some nv => writeBack (s.setV p { pv with val := nv }) p

/-! ### helpers -/

def obsOf (t : Ty) (n : Node) : String :=
  let root := hex (n.root sha)
  match serializeView t n with
  | .error .panic => "panic"
  | .error _ => s!"ok {root} ser-err"
  | .ok bs =>
    match viewVal t n with
    | .error .panic => "panic"
    | .error _ => s!"ok {root} {xhex bs} extract-err"
    | .ok v => s!"ok {root} {xhex bs} {showVal v}"

def specObs (t : Ty) (v : Val) : String :=
  s!"ok {hex (htr sha t v)} {xhex (serialize t v)} {showVal v}"

def natTok (s : String) : Except String Nat :=
  match s.toNat? with | some n => .ok n | none => .error s!"bad number {s}"

/-- depth of the hook chain's path: allowed hash calls for one mutation through object `id` -/
partial def pathBound (st : Store) (id : Nat) : Nat :=
  match st[id]? with
  | none => 0
  | some o =>
    let here := match o.ty with
      | .union _ _ => 1
      | t => viewDepth t
    match o.hook with
    | none => here
    | some (p, _) => here + pathBound st p

def addBound (s : HState) (id : Nat) : HState :=
  { s with bound := s.bound.map (· + pathBound s.store id) }

/-- apply a mutation result to object `id` (SetBacking + propagation) -/
def applyMut (s : HState) (id : Nat) (r : R Node) : HState × String :=
  match r with
  | .error e => (s, errClass e)
  | .ok b =>
    let (st', err) := setBacking sha (s.store.size + 1) s.store id b
    let s' := addBound { s with store := st' } id
    match err with
    | none => (s', "ok")
    | some e => (s', errClass e)

/-- apply a value-machine mutation to handle `name` -/
def applyVal (s : HState) (name : String) (f : VH → Option Val) : HState × Bool :=
  match s.vh? name with
  | none => (s, false)
  | some vh =>
    match f vh with
    | none => (s, false)
    | some nv => writeBack (s.setV name { vh with val := nv }) name

/-- value-machine side of a mutation plus its verdict.  On a summarised backing (C12) an
    error is always acceptable and then leaves the value unchanged. -/
def finishMut (s : HState) (name : String) (impl : List String) (f : VH → Option Val)
    (verdictOf : List String → Bool → String) : HState × String :=
  if s.partialTree && impl == ["err"] then (s, "ok")
  else
    let (s', okV) := applyVal s name f
    (s', verdictOf impl okV)

/-- verdict for a mutation: the implementation must succeed exactly when the plain value
    operation is defined -/
def mutVerdict (impl : List String) (specOk : Bool) : String :=
  match impl with
  | ["ok"] => if specOk then "ok" else "FAIL:mutation-accepted-but-invalid-on-value"
  | ["err"] => if specOk then "FAIL:valid-mutation-rejected" else "ok"
  | ["panic"] => "FAIL:panic"
  | _ => "FAIL:unexpected-observation"

/-! ### iterators -/

/-- render the outputs like harness `hIter` -/
def renderOuts (outs : List Iter.Out) : String :=
  outs.foldl (fun acc o =>
    acc ++ (match o with
      | .node t n => (match viewVal t n with | .ok v => " | " ++ showVal v | .error _ => " |X")
      | .val _ v => " | " ++ showVal v
      | .bit b => if b then " 1" else " 0"
      | .done => " ."
      | .err => " E")) "ok"

def runIter (t : Ty) (n : Node) (ro : Bool) : String :=
  renderOuts (Iter.collect 100000 0 (Iter.start t n ro))

/-- what indexed access to the plain value implies -/
def specIter (t : Ty) (v : Val) : String :=
  let items : List String := match t, v with
    | .bitvector _, .bits bs | .bitlist _, .bits bs => bs.map fun b => if b then " 1" else " 0"
    | _, .seq vs => vs.map fun x => " | " ++ showVal x
    | _, _ => []
  "ok" ++ String.join items ++ " . . ."

/-! ### op dispatch -/

def isHistOp (n : String) : Bool :=
  ["begin", "mk", "get", "val", "copy", "set", "setv", "app", "pop", "chg", "obs", "len", "rd",
   "snap", "chk", "memo", "hcount", "sum", "iter", "rset", "rtxt"].contains n

def step (s : HState) (name : String) (args impl : List String) : Except String (HState × String × String) := do
  match name, args with
  | "begin", _ => return ({}, "ok", "ok")
  | "mk", hn :: route :: rest =>
    let (t, rest) ← runP ty rest
    let v ← if route == "def" then pure (defaultVal t) else (do let (v, _) ← runP val rest; pure v)
    let r : R Node := match route with
      | "new" => construct sha t v
      | "def" => defaultNode sha t
      | "dec" => decodeTop sha t (serialize t v)
      | _ => .error .other
    match r with
    | .error e => return (s, errClass e, if impl == ["ok"] then "ok" else "FAIL:construction-failed")
    | .ok n =>
      let s' := (s.bind hn { ty := t, node := n, hook := none }).bindV hn { ty := t, val := v, parent := none }
      return ({ s' with bound := none }, "ok", if impl == ["ok"] then "ok" else "FAIL:construction-failed")
  | "get", h2 :: h1 :: i :: _ =>
    let i ← natTok i
    match s.id? h1 with
    | none => return (s, "nohandle", "ok")
    | some pid =>
      let po := s.store[pid]!
      let specElem := (s.vh? h1).bind fun vh => valElem vh.ty vh.val i
      match getElemNode po.ty po.node i with
      | .error e =>
        return (s, errClass e, mutVerdict (if impl == ["ok"] then ["ok"] else impl) specElem.isSome)
      | .ok (et, en) =>
        if !viewFromBackingOk et en then return (s, "err", mutVerdict impl specElem.isSome) else
        let hook := if keepsHook et && !(isBasicElem et) then some (pid, i) else none
        let s' := s.bind h2 { ty := et, node := en, hook := hook }
        let s'' := match specElem with
          | some (_, x) => s'.bindV h2 { ty := et, val := x, parent := if keepsHook et then some (h1, i) else none }
          | none => s'
        return (s'', "ok", mutVerdict impl specElem.isSome)
  | "val", h2 :: h1 :: _ =>
    match s.id? h1 with
    | none => return (s, "nohandle", "ok")
    | some pid =>
      let po := s.store[pid]!
      match po.ty with
      | .union hasNone opts =>
        let r : R (Option (Ty × Node)) := do
          let sn ← getNode po.node [true]
          let rt ← asLeaf sn
          if (rt.drop 1).any (· != 0) then .error .other
          else
            let sel := (rt.getD 0 0).toNat
            if sel ≥ opts.length + (if hasNone then 1 else 0) then .error .other
            else do
              let c ← getNode po.node [false]
              match unionOpt hasNone opts sel with
              | none => pure none
              | some ot => if viewFromBackingOk ot c then pure (some (ot, c)) else .error .other
        match r with
        | .error e => return (s, errClass e, if impl == ["err"] then "FAIL:union-value-unreadable" else "ok")
        | .ok none => return (s, "ok none", "ok")
        | .ok (some (ot, c)) =>
          let s' := s.bind h2 { ty := ot, node := c, hook := none }
          let s'' := match s.vh? h1 with
            | some { val := .union _ x, .. } => s'.bindV h2 { ty := ot, val := x, parent := none }
            | _ => s'
          return (s'', "ok some", "ok")
      | _ => return (s, "err", "ok")
  | "copy", h2 :: h1 :: _ =>
    match s.id? h1 with
    | none => return (s, "nohandle", "ok")
    | some pid =>
      let po := s.store[pid]!
      let s' := s.bind h2 { po with hook := none }
      let s'' := match s.vh? h1 with
        | some vh => s'.bindV h2 { vh with parent := none }
        | none => s'
      return (s'', "ok", if impl == ["ok"] then "ok" else "FAIL:copy-failed")
  | "set", h1 :: i :: rest =>
    let i ← natTok i
    let (x, _) ← runP val rest
    match s.id? h1 with
    | none => return (s, "nohandle", "ok")
    | some pid =>
      let po := s.store[pid]!
      let et : Ty := match po.ty with
        | .vector e _ | .list e _ => e
        | .container fs => (fs[i]?).getD (fs.headD .bool)
        | _ => .bool
      match construct sha et x with
      | .error e => return (s, errClass e, "ok")
      | .ok en =>
        let (s1, m) := applyMut s pid (Mut.set sha po.ty po.node i x en)
        let (s2, vd) := finishMut s1 h1 impl (fun vh => valSet vh.ty vh.val i x) mutVerdict
        return (s2, m, vd)
  | "setv", h1 :: i :: h2 :: _ =>
    let i ← natTok i
    match s.id? h1, s.id? h2 with
    | some pid, some sid =>
      let po := s.store[pid]!
      let so := s.store[sid]!
      let x := ((s.vh? h2).map (·.val)).getD .none
      let (s1, m) := applyMut s pid (Mut.set sha po.ty po.node i x so.node)
      let (s2, vd) := finishMut s1 h1 impl (fun vh => valSet vh.ty vh.val i x) mutVerdict
      return (s2, m, vd)
    | _, _ => return (s, "nohandle", "ok")
  | "app", h1 :: rest =>
    let (x, _) ← runP val rest
    match s.id? h1 with
    | none => return (s, "nohandle", "ok")
    | some pid =>
      let po := s.store[pid]!
      let et : Ty := match po.ty with | .list e _ => e | _ => .bool
      match construct sha et x with
      | .error e => return (s, errClass e, "ok")
      | .ok en =>
        let (s1, m) := applyMut s pid (Mut.append sha po.ty po.node x en)
        let (s2, vd) := finishMut s1 h1 impl (fun vh => valAppend vh.ty vh.val x) mutVerdict
        return (s2, m, vd)
  | "pop", h1 :: _ =>
    match s.id? h1 with
    | none => return (s, "nohandle", "ok")
    | some pid =>
      let po := s.store[pid]!
      let (s1, m) := applyMut s pid (Mut.pop sha po.ty po.node)
      let (s2, vd) := finishMut s1 h1 impl (fun vh => valPop vh.ty vh.val) mutVerdict
      return (s2, m, vd)
  | "chg", h1 :: sel :: rest =>
    let sel ← natTok sel
    let (x, _) ← runP val rest
    match s.id? h1 with
    | none => return (s, "nohandle", "ok")
    | some pid =>
      let po := s.store[pid]!
      match po.ty with
      | .union hasNone opts =>
        let content : R (Option Node) := match x with
          | .none => .ok none
          | _ =>
            let ot := (unionOpt hasNone opts sel).getD (opts.headD .bool)
            (construct sha ot x).map some
        match content with
        | .error e => return (s, errClass e, "ok")
        | .ok c =>
          let (s1, m) := applyMut s pid (Mut.change po.ty sel c)
          let specOk := match x with
            | .none => hasNone && sel == 0
            | _ => (unionOpt hasNone opts sel).isSome
          let (s2, vd) := finishMut s1 h1 impl (fun _ => if specOk then some (.union sel x) else none) mutVerdict
          return (s2, m, vd)
      | _ => return (s, "err", "ok")
  | "obs", h1 :: _ =>
    match s.id? h1 with
    | none => return (s, "nohandle", "ok")
    | some pid =>
      let po := s.store[pid]!
      let m := obsOf po.ty po.node
      let verdict := match s.vh? h1 with
        | some vh =>
          let sp := specObs vh.ty vh.val
          if " ".intercalate impl == sp then "ok"
          else if s.partialTree then
            -- on a summarised backing: the root must still be right; bytes / components may be
            -- unavailable (error) but never different
            let rootOk := impl.take 2 == ["ok", hex (htr sha vh.ty vh.val)]
            let serTok := impl.getD 2 ""
            let serOk := serTok == "ser-err" || serTok == xhex (serialize vh.ty vh.val)
            let valOk := serTok == "ser-err" || impl.drop 3 == ["extract-err"] || " ".intercalate (impl.drop 3) == showVal vh.val
            if impl == ["panic"] then "FAIL:panic"
            else if rootOk && serOk && valOk then "ok" else s!"FAIL:partial-view-yields-different-data:spec={sp.take 300}"
          else s!"FAIL:view-differs-from-value:spec={sp.take 300}"
        | none => "ok"
      return (s, m, verdict)
  | "len", h1 :: _ =>
    match s.id? h1 with
    | none => return (s, "nohandle", "ok")
    | some pid =>
      let po := s.store[pid]!
      let r : R Nat := match po.ty with
        | .list _ lim | .bitlist lim => listLength po.node lim
        | .vector _ k | .bitvector k => .ok k
        | .container fs => .ok fs.length
        | _ => .error .other
      let m := match r with | .ok n => s!"ok {n}" | .error e => errClass e
      let verdict := match s.vh? h1 with
        | some { val := .seq vs, .. } => if impl == ["ok", toString vs.length] || (s.partialTree && impl == ["err"]) then "ok" else "FAIL:length"
        | some { val := .bits bs, .. } => if impl == ["ok", toString bs.length] || (s.partialTree && impl == ["err"]) then "ok" else "FAIL:length"
        | _ => "ok"
      return (s, m, verdict)
  | "rd", h1 :: i :: _ =>
    let i ← natTok i
    match s.id? h1 with
    | none => return (s, "nohandle", "ok")
    | some pid =>
      let po := s.store[pid]!
      let r : R Val := do
        let (et, en) ← getElemNode po.ty po.node i
        if !viewFromBackingOk et en then .error .other else viewVal et en
      let m := match r with | .ok v => s!"ok {showVal v}" | .error e => errClass e
      let verdict := match s.vh? h1 with
        | some vh =>
          match valElem vh.ty vh.val i with
          | some (_, x) => if " ".intercalate impl == s!"ok {showVal x}" || (s.partialTree && impl == ["err"]) then "ok" else "FAIL:element-read"
          | none => if impl == ["err"] then "ok" else "FAIL:out-of-range-read-accepted"
        | none => "ok"
      return (s, m, verdict)
  | "rset", h1 :: x :: _ =>
    -- SetBacking on a byte-vector view: RootView (32 bytes) rewrites itself, others refuse
    match s.id? h1 with
    | none => return (s, "nohandle", "ok")
    | some pid =>
      let po := s.store[pid]!
      let bs := (parseHex x).getD []
      match po.ty with
      | .bytesN 32 =>
        let s1 := { s with store := s.store.set! pid { po with node := .leaf (chunkOf bs) } }
        let (s2, _) := applyVal s1 h1 fun _ => some (.bytes (chunkOf bs))
        return (s2, "ok", if impl == ["ok"] then "ok" else "FAIL:rootview-setbacking")
      | .uint _ | .bool | .bytesN _ => return (s, "err", "ok")
      | _ => return (s, "-", "ok")
  | "rtxt", h1 :: x :: _ =>
    match s.id? h1 with
    | none => return (s, "nohandle", "ok")
    | some pid =>
      let po := s.store[pid]!
      let bs := (parseHex x).getD []
      match po.ty with
      | .bytesN k =>
        if bs.length != k then return (s, "err", "ok") else
        let s1 := { s with store := s.store.set! pid { po with node := .leaf (chunkOf bs) } }
        let (s2, _) := applyVal s1 h1 fun _ => some (.bytes bs)
        return (s2, "ok", if impl == ["ok"] then "ok" else "FAIL:unmarshal-text")
      | _ => return (s, "err", "ok")
  | "sum", h1 :: _ :: gs =>
    match s.id? h1 with
    | none => return (s, "nohandle", "ok")
    | some pid =>
      let po := s.store[pid]!
      let r : R Node := gs.foldlM (fun n g => summarizeInto sha n (gbits ((g.toNat?).getD 1))) po.node
      match r with
      | .error e => return (s, errClass e, if impl == ["panic"] then "FAIL:panic" else "ok")
      | .ok n' =>
        let (st', err) := setBacking sha (s.store.size + 1) s.store pid n'
        let m := match err with | none => "ok" | some e => errClass e
        return ({ s with store := st', partialTree := true }, m, if impl == ["panic"] then "FAIL:panic" else "ok")
  | "snap", _ => return (s, "ok", if impl == ["ok"] then "ok" else "FAIL:snapshot")
  | "chk", _ => return (s, "ok same", if impl == ["ok", "same"] then "ok" else "FAIL:old-version-changed")
  | "memo", h1 :: _ =>
    match s.id? h1 with
    | none => return (s, "nohandle", "ok")
    | some _ => return (s, "ok bad=0", if impl == ["ok", "bad=0"] then "ok" else "FAIL:stale-memoised-root")
  | "hcount", h1 :: _ =>
    match s.id? h1 with
    | none => return (s, "nohandle", "ok")
    | some pid =>
      let po := s.store[pid]!
      -- exact counts are informational; PROP: second request free, first within the path bound
      let verdict := match impl with
        | ["ok", root, calls, again] =>
          let c := ((calls.drop 6).toString.toNat?).getD 0
          let a := ((again.drop 6).toString.toNat?).getD 1
          if root != hex (po.node.root sha) then "FAIL:root"
          else if a != 0 then s!"FAIL:second-request-hashed-{a}"
          else match s.bound with
            | some b => if c ≤ b then "ok" else s!"FAIL:hash-calls-{c}-exceed-path-bound-{b}"
            | none => "ok"
        | _ => "FAIL:unexpected-observation"
      return ({ s with bound := some 0 }, "-", verdict)
  | "iter", h1 :: kind :: _ =>
    match s.id? h1 with
    | none => return (s, "nohandle", "ok")
    | some pid =>
      let po := s.store[pid]!
      let iterable := match po.ty with
        | .bitvector _ | .bitlist _ | .vector _ _ | .list _ _ | .container _ => true
        | _ => false
      if !iterable then return (s, "err", "ok") else
      let m := runIter po.ty po.node (kind == "ro")
      let verdict := match s.vh? h1 with
        | some vh =>
          let sp := specIter vh.ty vh.val
          if " ".intercalate impl == sp then "ok"
          else if s.partialTree then
            -- a prefix of the right components followed by an error is acceptable; a wrong component is not
            let toks := impl
            let spToks := (sp.splitOn " ").filter (· ≠ "")
            let isPrefixThenErr := toks.getLast? == some "E" && (toks.dropLast.zip spToks).all (fun (a, b) => a == b) && toks.length - 1 ≤ spToks.length
            let xOk := toks.any (· == "|X")   -- an element whose getters failed: allowed on partial trees
            if isPrefixThenErr || xOk then "ok" else s!"FAIL:partial-iterator-yields-different-data:spec={sp.take 200}"
          else s!"FAIL:iterator-differs-from-indexed-access:spec={sp.take 200}"
        | none => "ok"
      return (s, m, verdict)
  | _, _ => throw s!"bad history op {name}"

def handle (s : HState) (name : String) (args impl : List String) : Option (Except String (HState × String × String)) :=
  if isHistOp name then some (step s name args impl) else none

end Driver.OpsHist
