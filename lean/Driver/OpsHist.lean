/-
Stateful history family (C04, C05, C06, C07, C12, C17): the Model P object machine
(`ZtypV.Sim.stepM`) next to the plain value machine (`ZtypV.Sim.stepV`, the reference semantics
of DESIGN §6 C04), fed the same operations.  Observation format = harness/ops_hist.go.
-/
import Driver.Proto
import ZtypV.Model.Sim
import ZtypV.Model.Iter
import ZtypV.Model.Api
namespace Driver.OpsHist
open ZtypV ZtypV.View ZtypV.Sim Driver

structure HState where
  ms : Store := #[]                        -- object machine (Model P)
  vs : VStore := #[]                       -- value machine (reference semantics)
  ids : List (String × Nat) := []          -- handle name → object id (latest binding first)
  bound : Option Nat := none               -- C07: allowed hash calls since the last hcount (none = unbounded)
  tampered : Bool := false                 -- C17: a list view was handed a hand-written length node inside its limit: CORR only from here on
  partialTree : Bool := false              -- C12: some backing has been summarised: errors are allowed, wrong data is not
  h : HashFn := Sha.sha256Pair             -- the pair hash of this history (`begin [sha|z|alt]`)

def sha : HashFn := Sha.sha256Pair

def HState.id? (s : HState) (n : String) : Option Nat := (s.ids.find? (·.1 == n)).map (·.2)

/-- keep the two stores index-aligned after a step (a creation that happened on one side only
    gets a dummy on the other; such a step has already been given a failing verdict) -/
def HState.align (s : HState) : HState :=
  let n := max s.ms.size s.vs.size
  { s with ms := s.ms ++ Array.replicate (n - s.ms.size) { ty := .bool, node := .leaf z0, hook := none },
           vs := s.vs ++ Array.replicate (n - s.vs.size) { ty := .bool, val := .none, parent := none } }

def natTok (s : String) : Except String Nat :=
  match s.toNat? with | some n => .ok n | none => .error s!"bad number {s}"

def render : Out → String
  | .ok => "ok" | .err => "err" | .panic => "panic" | .nohandle => "nohandle"
  | .okNone => "ok none" | .okSome => "ok some"
  | .obs r none _ => s!"ok {hex r} ser-err"
  | .obs r (some bs) none => s!"ok {hex r} {xhex bs} extract-err"
  | .obs r (some bs) (some v) => s!"ok {hex r} {xhex bs} {showVal v}"
  | .num n => s!"ok {n}"
  | .val v => s!"ok {showVal v}"

/-- depth of the hook chain's path: allowed hash calls for one mutation through object `id` -/
partial def pathBound (st : Store) (id : Nat) : Nat :=
  match st[id]? with
  | none => 0
  | some o =>
    let here := match o.ty with
      | .union _ _ => 1
      | t => viewDepth t
    match o.hook with
    | none => here
    | some (p, _) => here + pathBound st p

/-! ### iterators -/

/-- render the outputs like harness `hIter` -/
def renderOuts (outs : List Iter.Out) : String :=
  outs.foldl (fun acc o =>
    acc ++ (match o with
      | .node t n => (match viewVal t n with | .ok v => " | " ++ showVal v | .error _ => " |X")
      | .val _ v => " | " ++ showVal v
      | .bit b => if b then " 1" else " 0"
      | .done => " ."
      | .err => " E")) "ok"

/-- drive an iterator like harness `hIter`: the run ends at the third end report; after the first
    error exactly two more calls are made -/
def collectX : Nat → Nat → Option Nat → Iter.AnyIt → List Iter.Out
  | 0, _, _, _ => []
  | fuel + 1, dones, post, it =>
    if post == some 0 then [] else
    let post' := post.map (· - 1)
    match it.next with
    | (.err, it') => .err :: collectX fuel dones (match post' with | none => some 2 | p => p) it'
    | (.done, it') => if dones + 1 ≥ 3 then [.done] else .done :: collectX fuel (dones + 1) post' it'
    | (o, it') => o :: collectX fuel dones post' it'

def runIter (t : Ty) (n : Node) (ro : Bool) : String :=
  renderOuts (collectX 400000 0 none (Iter.start t n ro))

/-- the tokens of an iterator observation grouped per `Next()` call (`elems`: element iterators,
    whose items are `|`-introduced token groups; bit iterators have one token per call) -/
def iterGroups (elems : Bool) (toks : List String) : List (List String) :=
  let starts (t : String) : Bool :=
    if elems then t.startsWith "|" || t == "E" || t == "." else true
  let rec go (cur : List String) (acc : List (List String)) : List String → List (List String)
    | [] => (if cur.isEmpty then acc else cur.reverse :: acc).reverse
    | t :: ts =>
      if t == "resumed" then go cur acc ts
      else if starts t then go [t] (if cur.isEmpty then acc else cur.reverse :: acc) ts
      else go (t :: cur) acc ts
  go [] [] toks

/-- what indexed access to the plain value implies -/
def specIter (t : Ty) (v : Val) : String :=
  let items : List String := match t, v with
    | .bitvector _, .bits bs | .bitlist _, .bits bs => bs.map fun b => if b then " 1" else " 0"
    | _, .seq vs => vs.map fun x => " | " ++ showVal x
    | _, _ => []
  "ok" ++ String.join items ++ " . . ."

/-- the components indexed access to the plain value yields, one token group per position -/
def specItems (t : Ty) (v : Val) : List (List String) :=
  match t, v with
  | .bitvector _, .bits bs | .bitlist _, .bits bs => bs.map fun b => [if b then "1" else "0"]
  | _, .seq vs => vs.map fun x => "|" :: ((showVal x).splitOn " ").filter (· ≠ "")
  | _, _ => []

/-- the first `k` calls of an iterator -/
def stepsK : Nat → Iter.AnyIt → List Iter.Out × Iter.AnyIt
  | 0, it => ([], it)
  | k + 1, it =>
    let (o, it') := it.next
    let (os, it'') := stepsK k it'
    (o :: os, it'')

/-! ### op dispatch -/

def isHistOp (n : String) : Bool :=
  ["begin", "mk", "get", "val", "copy", "set", "setv", "app", "pop", "chg", "obs", "len", "rd",
   "snap", "chk", "memo", "hcount", "sum", "iter", "rset", "rtxt", "blen", "appd", "setd", "appv", "obsg", "iterget", "rehash", "iter2", "setu", "appu", "chgu", "iterm", "tamper"].contains n

/-- PROP verdict of an operation of the two machines: the implementation's observation must be
    what the plain value machine says.  On a summarised backing (C12) an error is acceptable
    where the value machine succeeds, a different answer is not. -/
def verdict (partialTree : Bool) (impl : List String) (spec : Out) : String :=
  let im := " ".intercalate impl
  if im == "panic" then "FAIL:panic"
  else if im == render spec then "ok"
  else if partialTree then
    match spec with
    | .obs r (some bs) (some v) =>
      let rootOk := impl.take 2 == ["ok", hex r]
      let serTok := impl.getD 2 ""
      let serOk := serTok == "ser-err" || serTok == xhex bs
      let valOk := serTok == "ser-err" || impl.drop 3 == ["extract-err"] || " ".intercalate (impl.drop 3) == showVal v
      if rootOk && serOk && valOk then "ok" else s!"FAIL:partial-view-yields-different-data:spec={(render spec).take 300}"
    | _ => if im == "err" then "ok" else s!"FAIL:partial-view-yields-different-data:spec={(render spec).take 300}"
  else s!"FAIL:view-differs-from-value:spec={(render spec).take 300}"

/-- run one machine op on both machines -/
def both (s : HState) (op : Op) (impl : List String) (newName : Option String := none)
    (mutated : Option Nat := none) : HState × String × String :=
  let (ms', om) := stepM s.h s.ms op
  -- on a summarised backing an erring mutation must leave the value unchanged
  let skipV := s.partialTree && impl == ["err"] && mutated.isSome
  let (vs', ov) := if skipV then (s.vs, Out.err) else stepV s.h s.vs op
  let created := ms'.size > s.ms.size
  let s1 : HState := { s with ms := ms', vs := vs' }
  let s2 := match newName with
    | some n => if created then { s1 with ids := (n, s.ms.size) :: s1.ids } else s1
    | none => s1
  let s3 := match mutated with
    | some id => { s2 with bound := s2.bound.map (· + pathBound s2.ms id) }
    | none => s2
  (s3.align, render om, if skipV then "ok" else if s.tampered then (if impl == ["panic"] then "FAIL:panic" else "ok")
    else verdict s.partialTree impl ov)

def step (s : HState) (name0 : String) (args impl : List String) : Except String (HState × String × String) := do
  -- setu / appu / chgu: the inserted value was never hashed; same machines, but the hash-call
  -- bound of C07 (premise: inserted values are hashed) is dropped until the next count
  let unhashed := ["setu", "appu", "chgu"].contains name0
  let name := if unhashed then (name0.take 3).toString else name0
  let r ← stepH s name args impl
  return if unhashed then ({ r.1 with bound := none }, r.2.1, r.2.2) else r
where stepH (s : HState) (name : String) (args impl : List String) : Except String (HState × String × String) := do
  let withId (h : String) (k : Nat → Except String (HState × String × String)) :
      Except String (HState × String × String) :=
    match s.id? h with
    | none => pure (s, "nohandle", "ok")
    | some id => k id
  match name, args with
  | "begin", hn =>
    let h : HashFn := match hn.head? with
      | some "z" => Sha.zHash
      | some "alt" => Sha.altHash
      | _ => sha
    return ({ h := h }, "ok", "ok")
  | "mk", hn :: route :: rest =>
    let (t, rest) ← runP ty rest
    let v ← if route == "def" then pure (defaultVal t) else (do let (v, _) ← runP val rest; pure v)
    let r : R Node := match route with
      | "new" => construct s.h t v
      | "def" => defaultNode s.h t
      | "dec" => decodeTop s.h t (serialize t v)
      | _ => .error .other
    match r with
    | .error e => return (s, render (outOfErr e), if impl == ["ok"] then "ok" else "FAIL:construction-failed")
    | .ok n =>
      let s' : HState := { s with ids := (hn, s.ms.size) :: s.ids,
                                  ms := s.ms.push { ty := t, node := n, hook := none },
                                  vs := s.vs.push { ty := t, val := v, parent := none }, bound := none }
      return (s'.align, "ok", if impl == ["ok"] then "ok" else "FAIL:construction-failed")
  | "get", h2 :: h1 :: i :: _ => do let i ← natTok i; withId h1 fun p => pure (both s (.get p i) impl (some h2))
  | "val", h2 :: h1 :: _ => withId h1 fun p => pure (both s (.val p) impl (some h2))
  | "copy", h2 :: h1 :: _ => withId h1 fun p => pure (both s (.copy p) impl (some h2))
  | "set", h1 :: i :: rest => do
    let i ← natTok i
    let (x, _) ← runP val rest
    withId h1 fun id => pure (both s (.set id i x) impl none (some id))
  | "setv", h1 :: i :: h2 :: _ => do
    let i ← natTok i
    withId h1 fun id => withId h2 fun sid => pure (both s (.setv id i sid) impl none (some id))
  | "app", h1 :: rest => do
    let (x, _) ← runP val rest
    withId h1 fun id => pure (both s (.app id x) impl none (some id))
  | "pop", h1 :: _ => withId h1 fun id => pure (both s (.pop id) impl none (some id))
  | "chg", h1 :: sel :: rest => do
    let sel ← natTok sel
    let (x, _) ← runP val rest
    withId h1 fun id => pure (both s (.chg id sel x) impl none (some id))
  | "obs", h1 :: _ => withId h1 fun id => pure (both s (.obs id) impl)
  | "obsg", h1 :: _ => withId h1 fun id => pure (both s (.obs id) impl)       -- same observation through a GetHashFn() hasher
  | "iterget", h2 :: h1 :: i :: _ => do let i ← natTok i; withId h1 fun p => pure (both s (.get p i) impl (some h2))  -- Iter() hands out Get(i)
  | "rehash", _ => return (s, "ok", if impl == ["ok"] then "ok" else "FAIL:rehash")
  | "iter2", h1 :: h2 :: _ =>
    withId h1 fun a => withId h2 fun b => do
      let oa := s.ms[a]!
      let ob := s.ms[b]!
      let iterable (t : Ty) : Bool := match t with
        | .bitvector _ | .bitlist _ | .vector _ _ | .list _ _ | .container _ => true
        | _ => false
      if !(iterable oa.ty && iterable ob.ty) then pure (s, "err", "ok") else
      -- harness format: items until the first `.` or `E` inclusive
      let cut (r : String) : String :=
        let toks := ((r.drop 3).toString.splitOn " ").filter (· ≠ "")
        let rec go : List String → List String
          | [] => []
          | "." :: _ => ["."]
          | "E" :: _ => ["E"]
          | x :: xs => x :: go xs
        " ".intercalate (go toks)
      let m := "ok " ++ cut (runIter oa.ty oa.node true) ++ " && " ++ cut (runIter ob.ty ob.node true)
      let sp := "ok " ++ cut (specIter (s.vs[a]!).ty (s.vs[a]!).val) ++ " && " ++ cut (specIter (s.vs[b]!).ty (s.vs[b]!).val)
      pure (s, m, if " ".intercalate impl == sp || s.partialTree then "ok" else s!"FAIL:interleaved-iterators-differ-from-indexed-access")
  | "len", h1 :: _ => withId h1 fun id => pure (both s (.len id) impl)
  | "rd", h1 :: i :: _ => do let i ← natTok i; withId h1 fun id => pure (both s (.rd id i) impl)
  | "appv", h1 :: h2 :: _ =>
    withId h1 fun id => withId h2 fun sid => pure (both s (.appv id sid) impl none (some id))
  | "blen", h1 :: _ => withId h1 fun id => pure (both s (.blen id) impl)
  | "appd", h1 :: _ => withId h1 fun id => pure (both s (.appd id) impl none (some id))
  | "setd", h1 :: i :: _ => do let i ← natTok i; withId h1 fun id => pure (both s (.setd id i) impl none (some id))
  | "rset", h1 :: x :: _ =>
    -- SetBacking on a byte-vector view: RootView (32 bytes) rewrites itself, others refuse.
    -- The view is detached: nothing else may change.
    withId h1 fun id => do
      let o := s.ms[id]!
      let bs := (parseHex x).getD []
      match o.ty with
      | .bytesN 32 =>
        let s1 := { s with ms := s.ms.set! id { o with node := .leaf (chunkOf bs) },
                           vs := s.vs.set! id { (s.vs[id]!) with val := .bytes (chunkOf bs) } }
        pure (s1, "ok", if impl == ["ok"] then "ok" else "FAIL:rootview-setbacking")
      | .uint _ | .bool | .bytesN _ => pure (s, "err", "ok")
      | _ => pure (s, "-", "ok")
  | "rtxt", h1 :: x :: _ =>
    withId h1 fun id => do
      let o := s.ms[id]!
      let bs := (parseHex x).getD []
      match o.ty with
      | .bytesN k =>
        if bs.length != k then pure (s, "err", "ok") else
        let s1 := { s with ms := s.ms.set! id { o with node := .leaf (chunkOf bs) },
                           vs := s.vs.set! id { (s.vs[id]!) with val := .bytes bs } }
        pure (s1, "ok", if impl == ["ok"] then "ok" else "FAIL:unmarshal-text")
      | _ => pure (s, "err", "ok")
  | "sum", h1 :: _ :: gs =>
    withId h1 fun id => do
      let o := s.ms[id]!
      let r : R Node := gs.foldlM (fun n g => summarizeInto s.h n (gbits ((g.toNat?).getD 1))) o.node
      match r with
      | .error e => pure (s, render (outOfErr e), if impl == ["panic"] then "FAIL:panic" else "ok")
      | .ok n' =>
        let (st', err) := setBacking s.h (s.ms.size + 1) s.ms id n'
        let m := match err with | none => "ok" | some e => render (outOfErr e)
        pure ({ s with ms := st', partialTree := true }, m, if impl == ["panic"] then "FAIL:panic" else "ok")
  | "tamper", h1 :: ov :: _ =>
    withId h1 fun id => do
      let o := s.ms[id]!
      let ov ← natTok ov
      let lim := match o.ty with | .list _ l => l | .bitlist l => l | _ => 0
      match Api.tamperLength o.node ov with
      | .error e => pure (s, render (outOfErr e), if impl == ["panic"] then "FAIL:panic" else "ok")
      | .ok n' =>
        let (st', err) := setBacking s.h (s.ms.size + 1) s.ms id n'
        let m := match err with | none => "ok" | some e => render (outOfErr e)
        -- beyond the limit: from here on an error is the only acceptable answer besides the value's
        -- own data (partialTree rule); inside the limit the view no longer denotes the value: CORR only
        pure ({ s with ms := st', partialTree := true, tampered := s.tampered || ov ≤ lim }, m,
              if impl == ["panic"] then "FAIL:panic" else "ok")
  | "snap", _ :: h1 :: _ => withId h1 fun _ => pure (s, "ok", if impl == ["ok"] then "ok" else "FAIL:snapshot")
  | "chk", _ => return (s, "ok same", if impl == ["ok", "same"] then "ok" else "FAIL:old-version-changed")
  | "memo", h1 :: _ =>
    withId h1 fun _ => pure (s, "ok bad=0", if impl == ["ok", "bad=0"] then "ok" else "FAIL:stale-memoised-root")
  | "hcount", h1 :: _ =>
    withId h1 fun id => do
      let o := s.ms[id]!
      -- exact counts are informational; PROP: second request free, first within the path bound
      let v := match impl with
        | ["ok", root, calls, again] =>
          let c := ((calls.drop 6).toString.toNat?).getD 0
          let a := ((again.drop 6).toString.toNat?).getD 1
          if root != hex (o.node.root s.h) then "FAIL:root"
          else if a != 0 then s!"FAIL:second-request-hashed-{a}"
          else match s.bound with
            | some b => if c ≤ b then "ok" else s!"FAIL:hash-calls-{c}-exceed-path-bound-{b}"
            | none => "ok"
        | _ => "FAIL:unexpected-observation"
      pure ({ s with bound := some 0 }, "-", v)
  | "iter", h1 :: kind :: _ =>
    withId h1 fun id => do
      let o := s.ms[id]!
      let iterable := match o.ty with
        | .bitvector _ | .bitlist _ | .vector _ _ | .list _ _ | .container _ => true
        | _ => false
      if !iterable then pure (s, "err", "ok") else
      let m := runIter o.ty o.node (kind == "ro")
      let vo := s.vs[id]!
      let sp := specIter vo.ty vo.val
      let v :=
        if " ".intercalate impl == sp then "ok"
        else if s.tampered then (if impl == ["panic"] then "FAIL:panic" else "ok")
        else if s.partialTree then
          -- a prefix of the right components followed by an error is acceptable; a wrong component is not
          -- call by call: the right component (or the end report, from the length on), or an error
          let elems := match o.ty with | .bitvector _ | .bitlist _ => false | _ => true
          let spG := iterGroups elems (((sp.splitOn " ").filter (· ≠ "")).drop 1)
          let imG := iterGroups elems (impl.drop 1)
          let okAt (k : Nat) (g : List String) : Bool :=
            g == ["E"] || g == ["|X"] || g == spG.getD k ["."]
          let rec chk (k : Nat) : List (List String) → Bool
            | [] => true
            | g :: gs => okAt k g && chk (k + 1) gs
          if impl.head? == some "ok" && chk 0 imG then "ok" else s!"FAIL:partial-iterator-yields-different-data:spec={sp.take 200}"
        else s!"FAIL:iterator-differs-from-indexed-access:spec={sp.take 200}"
      pure (s, m, v)
  | "iterm", h1 :: k :: mop :: rest => do
    -- index-based iterator advanced k times, then the view is mutated, then finished
    let k ← natTok k
    let op? : Option (Nat → Op) ← match mop, rest with
      | "pop", _ => pure (some fun id => Op.pop id)
      | "app", r => do let (x, _) ← runP val r; pure (some fun id => Op.app id x)
      | "set", i :: r => do let i ← natTok i; let (x, _) ← runP val r; pure (some fun id => Op.set id i x)
      | _, _ => pure none
    match op? with
    | none => throw "bad iterm mutation"
    | some mkOp =>
    withId h1 fun id => do
      let o := s.ms[id]!
      let v0 := (s.vs[id]!).val
      let it0 := Iter.start o.ty o.node false
      let len0 := match it0 with | .indexed _ _ ln _ => ln | _ => 0
      if s.partialTree || k > len0 then throw "iterm: partial tree or pause point beyond the length" else
      let (outs1, itk) := stepsK k it0
      let (s', om, _) := both s (mkOp id) [] none (some id)
      let o' := s'.ms[id]!
      let v1 := (s'.vs[id]!).val
      let vOut := (stepV s.h s.vs (mkOp id)).2
      let itk' := match itk with | .indexed t _ ln i => Iter.AnyIt.indexed t o'.node ln i | x => x
      let outs2 := collectX 400000 0 none itk'
      let m := renderOuts outs1 ++ " m=" ++ om ++ (renderOuts outs2).drop 2
      -- PROP, call by call: before the mutation the old components; afterwards the CURRENT
      -- component while the position still exists, an error where it no longer does, the end
      -- report from the captured length on
      let elems := match o.ty with | .bitvector _ | .bitlist _ => false | _ => true
      let it0s := specItems o.ty v0
      let it1s := specItems o.ty v1
      let want (c : Nat) : List String :=
        if c < k then it0s.getD c ["?"]
        else if c < len0 then (if c < it1s.length then it1s.getD c ["?"] else ["E"])
        else ["."]
      let (pre, post) := impl.drop 1 |>.span (fun t => !(t.startsWith "m="))
      let g1 := iterGroups elems pre
      let g2 := iterGroups elems (post.drop 1)
      let rec chkM (c : Nat) : List (List String) → Bool
        | [] => true
        | g :: gs => (g == want c) && chkM (c + 1) gs
      let mOk := post.head? == some ("m=" ++ render vOut)
      let v := if impl == ["panic"] then "FAIL:panic"
        else if impl.head? != some "ok" || !mOk then "FAIL:iterm-mutation-outcome-differs"
        else if g1.length != k || !(chkM 0 g1) || !(chkM k g2) then "FAIL:iterator-yields-a-component-the-view-does-not-have"
        else "ok"
      pure (s', m, v)
  | _, _ => throw s!"bad history op {name}"

def handle (s : HState) (name : String) (args impl : List String) : Option (Except String (HState × String × String)) :=
  if isHistOp name then some (step s name args impl) else none

end Driver.OpsHist
