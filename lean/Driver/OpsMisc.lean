/-
C20 `mem` (allocation per decode call) and C14 `conc` (concurrent forks): PROP only.
The model observation is `-` (allocator sizes and goroutine scheduling are not modelled);
the verdicts evaluate the property on what the implementation reported.
-/
import Driver.Proto
import ZtypV.Model.Decode
namespace Driver.OpsMisc
open ZtypV Driver

mutual
/-- footprint of the type's fixed structure: fields and vector slots (not limits, not offsets) -/
def footprint : Ty → Nat
  | .vector e n => 1 + n * footprint e
  | .list e _ => 1 + footprint e
  | .container fs => 1 + footprints fs
  | .union _ fs => 1 + footprints fs
  | .bitvector n => 1 + n / 256
  | _ => 1
def footprints : List Ty → Nat
  | [] => 0
  | t :: ts => footprint t + footprints ts
end

mutual
/-- deepest subtree depth used by the type (each decoded element costs one path of pairs) -/
def maxDepth : Ty → Nat
  | .vector e n => max (View.seriesDepth e n) (maxDepth e)
  | .list e lim => max (View.seriesDepth e lim + 1) (maxDepth e)
  | .container fs => max (coverDepth fs.length) (maxDepths fs)
  | .union _ fs => max 1 (maxDepths fs)
  | .bitvector n => View.bitDepth n
  | .bitlist lim => View.bitDepth lim + 1
  | _ => 0
def maxDepths : List Ty → Nat
  | [] => 0
  | t :: ts => max (maxDepth t) (maxDepths ts)
end

/-- the allowed allocation: a constant multiple of the input length (times the tree depth each
    decoded item pays for its path) plus the footprint of the fixed structure -/
def memBound (t : Ty) (len : Nat) : Nat :=
  8192 + 1024 * footprint t + 512 * (len + 1) * (1 + maxDepth t)

def handle (name : String) (args impl : List String) : Option (Except String (String × String)) :=
  match name with
  | "mem" => some (do
      let (t, rest) ← runP ty args
      let (bs, _) ← runP hexTok rest
      match impl with
      | ["ok", n, oc] =>
        let alloc := n.toNat?.getD 0
        if oc == "panic" then pure ("-", "FAIL:panic")
        else if alloc ≤ memBound t bs.length then pure ("-", "ok")
        else pure ("-", s!"FAIL:allocated-{alloc}-bytes-for-{bs.length}-input-bytes-bound-{memBound t bs.length}")
      | _ => pure ("-", "FAIL:unexpected-observation"))
  | "mk.flat" => some (do
      match args with
      | hn :: rest =>
        let (t, rest) ← runP ty rest
        let (v, _) ← runP val rest
        let spec := "ok " ++ hex (htr (hashByName hn) t v)
        pure ("-", if " ".intercalate impl == spec then "ok" else s!"FAIL:flat-root:impl={" ".intercalate impl}:spec={spec}")
      | _ => throw "bad mk.flat args")
  | "conc" => some (pure ("-",
      if impl == ["ok", "same"] then "ok"
      else s!"FAIL:concurrent-run-differs-from-sequential:{" ".intercalate impl}"))
  | _ => none

end Driver.OpsMisc
